"""C19, round 3 — Instantiator.generate_instance as a composition of its (proved) callees.

Half A, "the instance before the rule swaps" (contract `generate_instance#no-rules`: a designspace without rules, so that process_rules_swaps yields
nothing — proved from its contract — and the swap loop does not run):
  * the instance font has exactly the default source's glyph names, in the default source's order
  * every glyph: geometry == (rounded iff round_geometry) master content at a master location / model blend elsewhere, of the glyph model that
    `variator_ok` pins to the CURRENT source layers (history independence through the cache invariant); unicodes from the default source
  * kerning / kerning groups from the kerning model's instance (rounded in place iff round_geometry), info by _generate_instance_info's contract,
    non-kerning groups copied (new lists), features copied, lib = deep copy of the default lib + skipExportGlyphs + design location
  * the Instantiator is not written except for its glyph-model cache, which still satisfies its invariant; no existing fontMath object changes
Half B, "the swaps on an instance": contracts/c19c.py (swap_glyph_names == one conjugation) + the fold lemmas `C19.lemma.swap-fold.*` below
(a list of swaps applied in order == one permutation of names / one map of component bases, built by recursion on the list).
The glue that is still missing between the halves is named in notes/C19.md.
"""
import z3

from pyvc import ty as T
from pyvc.api import BOOL, CLASSES, CONTRACTS, INT, REAL, STR, Const, Dict, List, Loop, Map, Opaque, Opt, Ref, Runtime, Set, Tuple, TRUSTED, cls, contract, lemma, specfn, trusted
from pyvc.core import PYOBJ, Unsupported, Val, fresh, fresh_name, lift

from . import c19, c19b, c19d
from .c19 import KEY, MDATA, PAIR, api_specfn
from .c19b import LOCDICT, _VOK, cache_ok

LIBVAL = Opaque("LibValue")


# ---- the instance font ----------------------------------------------------------------------------------------------------------------
def _font_new_glyph(ex, st, self, args, kwargs, node):
    """font.newGlyph(name): a new empty glyph of that name, appended to the default layer (assumed ufoLib2 / defcon API; the name is new here)"""
    (name,) = args
    g = ex.new_object(st, "OutGlyph")
    ex.write_field(st, g, "name", name, node)
    ex.write_field(st, g, "unicodes", Val(List(INT), z3.Empty(List(INT).sort())), node)
    d = ex.read_field(st, self, "glyphs")
    from pyvc import models

    ex.safety(st, z3.Not(z3.Select(d.ty.sort().dom(lift(d)), lift(name, STR))), "KeyError", node)  # newGlyph on an existing name would replace it
    ex.write_field(st, self, "glyphs", models.set_item(ex, st, d, name, g, node), node)
    return g


_font_new_glyph.modifies = ["InfoFont.glyphs"]


def _lib_setitem(ex, st, self, idx, v, node):
    if not (idx.is_py and isinstance(idx.py, str)):
        raise Unsupported("font.lib[<computed key>] = ..", node)
    f = {"public.skipExportGlyphs": "skip_export", "designspace.location": "location"}.get(idx.py)
    if f is None:
        raise Unsupported(f"font.lib[{idx.py!r}] = ..", node)
    ex.write_field(st, self, f, v, node)


cls(
    "LibObj",
    fields={"other": Dict(STR, LIBVAL), "skip_export": Opt(List(STR)), "location": Opt(List(PAIR))},
    setitem=_lib_setitem,
    views={
        "other": lambda d: {k: repr(v) for k, v in d.items() if k not in ("public.skipExportGlyphs", "designspace.location")},
        "skip_export": lambda d: (list(d["public.skipExportGlyphs"]) if "public.skipExportGlyphs" in d else None),
        "location": lambda d: ([tuple(p) for p in d["designspace.location"]] if "designspace.location" in d else None),
    },
    notes="a lib dict: the two keys generate_instance assigns as typed fields, everything else as key -> abstract value (`other`)",
)
cls("FeaturesObj", fields={"text": STR}, notes="font.features: text")
CLASSES["InfoFont"].fields.update({
    "glyphs": Dict(STR, Ref("OutGlyph")), "kerning": MDATA, "groups": Dict(STR, List(STR)), "lib": Ref("LibObj"), "features": Ref("FeaturesObj"),
})
CLASSES["InfoFont"].methods["newGlyph"] = _font_new_glyph
CLASSES["InfoFont"].views.update({
    "glyphs": lambda f: {g.name: c19._px(g, "OutGlyph") for g in f},
    "kerning": lambda f: ("kerning", tuple(sorted(f.kerning.items()))),
    "groups": lambda f: {k: list(v) for k, v in f.groups.items()},
})


def _ufo_font(ex, st, self, args, kwargs, node):
    """ufo_module.Font(): a new empty font (no glyphs, no kerning, no groups, empty lib, all info attributes None)"""
    f = ex.new_object(st, "InfoFont")
    info = ex.new_object(st, "UfoInfo")
    for a, t in CLASSES["UfoInfo"].fields.items():
        if isinstance(t, T.Opt):
            ex.write_field(st, info, a, Val(t, t.sort().nil), node)
    ex.write_field(st, f, "info", info, node)
    gt = Dict(STR, Ref("OutGlyph"))
    ex.write_field(st, f, "glyphs", Val(gt, gt.sort().mk(z3.K(z3.StringSort(), z3.BoolVal(False)), fresh(Map(STR, Ref("OutGlyph")), "nog"), z3.Empty(List(STR).sort()))), node)
    grt = Dict(STR, List(STR))
    ex.write_field(st, f, "groups", Val(grt, grt.sort().mk(z3.K(z3.StringSort(), z3.BoolVal(False)), fresh(Map(STR, List(STR)), "nogr"), z3.Empty(List(STR).sort()))), node)
    lib = ex.new_object(st, "LibObj")
    ex.write_field(st, f, "lib", lib, node)
    ex.write_field(st, f, "features", ex.new_object(st, "FeaturesObj"), node)
    return f


cls("UfoModule", methods={"Font": _ufo_font}, notes="the ufoLib2 / defcon module as returned by util.importUfoModule(): Font() makes a new empty font (assumed)")
trusted("c19.importUfoModule", "util.importUfoModule(): the ufoLib2 module (or defcon)")(lambda ex, st, args, kwargs, node: ex.new_object(st, "UfoModule"))
trusted("c19.typing_cast", "typing.cast(T, x) is x")(lambda ex, st, args, kwargs, node: args[1])


class _TypingNS:
    @staticmethod
    def cast(t, x):
        return x


_TypingNS.cast.__module__ = "c19"
_TypingNS.cast.__qualname__ = "typing_cast"

# deepcopy of a lib: a new lib object with equal content
_dc_prev = TRUSTED["copy.deepcopy"].model


def _deepcopy_lib(ex, st, args, kwargs, node):
    (x,) = args
    if isinstance(x.ty, T.Ref) and x.ty.cls == "LibObj":
        r = ex.new_object(st, "LibObj")
        for f in ("other", "skip_export", "location"):
            ex.write_field(st, r, f, ex.read_field(st, x, f), node)
        return r
    return _dc_prev(ex, st, args, kwargs, node)


TRUSTED["copy.deepcopy"].model = _deepcopy_lib


# ---- kerning: MathKerning.extractKerning --------------------------------------------------------------------------------------------
@specfn(Dict(STR, List(STR)), opaque=True, data=MDATA)
def kerning_groups_of(data):
    """the kerning groups a MathKerning with this content writes into font.groups (extractKerning)"""
    return {k: list(v) for k, v in data[2]}


def _mo_extract_kerning(ex, st, self, args, kwargs, node):
    """MathKerning.extractKerning(font): font.kerning becomes the MathKerning's pairs, font.groups its groups (new lists)"""
    (font,) = args
    kind = z3.Select(ex.field_array(st, "MathObj", "kind"), lift(self))
    ex.safety(st, kind == c19.KIND_KERNING, "AttributeError", node)
    data = ex.read_field(st, self, "data")
    ex.write_field(st, font, "kerning", data, node)
    f = ex.spec_decl(api_specfn("kerning_groups_of"))
    ex.write_field(st, font, "groups", Val(Dict(STR, List(STR)), f(lift(data))), node)
    return Val.const(None)


_mo_extract_kerning.modifies = ["InfoFont.kerning", "InfoFont.groups"]
CLASSES["MathObj"].methods["extractKerning"] = _mo_extract_kerning


# ---- the Instantiator: the remaining fields, normalize, glyph_names -------------------------------------------------------------------
CLASSES["InstanceDesc"].fields["location"] = LOCDICT
CLASSES["Instantiator"].fields.update({
    "kerning_mutator": Ref("Variator"), "copy_nonkerning_groups": Dict(STR, List(STR)), "copy_feature_text": STR, "copy_lib": Ref("LibObj"),
    "skip_export_glyphs": List(STR), "designspace_rules": List(c19.RULE), "default_design_location": LOCDICT,
})


@specfn(KEY, opaque=True, d=LOCDICT)
def dict_pairs(d):
    """items() of a location dict, as a list of (axis, value) pairs"""
    return list(d.items())


def _dict_pairs_term(ex, d):
    return ex.spec_decl(api_specfn("dict_pairs"))(lift(d, LOCDICT))


def _inst_normalize(ex, st, self, args, kwargs, node):
    """Instantiator.normalize(location) = varLib.models.normalizeLocation(location, self.axis_bounds) (one line; the library call is the trusted part):
    a NEW location object whose items are norm_pairs(items of the argument, axis bounds)"""
    (loc,) = args
    r = ex.new_object(st, "Location")
    f = ex.spec_decl(api_specfn("norm_pairs"))
    pairs = ex.read_field(st, loc, "pairs") if isinstance(loc.ty, T.Ref) else Val(KEY, _dict_pairs_term(ex, loc))
    ex.write_field(st, r, "pairs", Val(KEY, f(lift(pairs), lift(ex.read_field(st, self, "axis_bounds")))), node)
    return r


CLASSES["Instantiator"].methods["normalize"] = _inst_normalize


def _inst_glyph_names(ex, st, self):
    """Instantiator.glyph_names = self.default_source_glyphs.keys() (one-line property): the keys of the default layer, in the dict's order.
    Modelled as the LIST of keys (iteration order and membership are all the callers use)."""
    from pyvc import models

    d = ex.read_field(st, c19b._inst_default_glyphs(ex, st, self), "glyphs")
    return models.BUILTIN_MODELS["builtins.list"].model(ex, st, [d], {}, None)  # (list(d): the engine adds what it knows of a dict's key list)


CLASSES["Instantiator"].derived["glyph_names"] = _inst_glyph_names
CLASSES["Instantiator"].derived["default_names"] = _inst_glyph_names
CLASSES["Instantiator"].views["default_names"] = lambda o: list(o.glyph_names)


# ---- callees in the vocabulary generate_instance uses them with ---------------------------------------------------------------------------
contract(
    "ufo2ft.instantiator:anisotropic",
    props=["C19"],
    params={"location": LOCDICT},
    returns=BOOL,
    ensures={"plain-numbers-are-isotropic": "result == False"},  # a location of plain numbers has no (x, y) tuple among its values
    canaries={"always-anisotropic": "result"},
)

_prs = CONTRACTS["ufo2ft.instantiator:process_rules_swaps"]


@trusted("c19.evaluateRule_dict", "evaluateRule(rule, location) is a function of the rule and of the location's items (no side effects); location given as a dict")
def _evaluate_rule_dict(ex, st, args, kwargs, node):
    rule, loc = args
    f = ex.spec_decl(api_specfn("rule_true"))
    pairs = ex.read_field(st, loc, "pairs") if isinstance(loc.ty, T.Ref) else Val(KEY, _dict_pairs_term(ex, loc))
    return Val(BOOL, f(lift(rule, c19.RULE), lift(pairs)))




# process_rules_swaps once more with the location as the dict generate_instance builds (same body, same clauses over dict_pairs(location))
contract(
    "ufo2ft.instantiator:process_rules_swaps",
    name="dict",
    props=["C19"],
    params={"rules": List(c19.RULE), "location": LOCDICT, "glyphNames": List(STR)},
    returns=List(c19.SUB),
    models={"fontTools.designspaceLib.evaluateRule": _evaluate_rule_dict},
    ghost_vars={"GS": (Set(STR), "set(glyphNames)")},
    ensures={
        "rule-order": "result == swaps_upto(rules, dict_pairs(location), set(glyphNames), len(rules))",
        "only-present-glyphs": "all(s[0] in glyphNames for s in result)",
    },
    canaries={"empty": "len(result) == 0"},
    locals={"swaps": List(c19.SUB)},
    loops={
        "for rule in rules": Loop(index="i", invariants={
            "prefix": "swaps == swaps_upto(rules, dict_pairs(location), GS, i)",
            "present": "all(s[0] in glyphNames for s in swaps)",
        }),
        "for (oldName, newName) in rule.subs": Loop(index="j", invariants={
            "prefix": "swaps == swaps_upto(rules, dict_pairs(location), GS, i) + subs_picked(rule.subs, GS, j)",
            "present": "all(s[0] in glyphNames for s in swaps)",
        }),
    },
)


# =====================================================================================================
# generate_glyph_instance WITHOUT an output glyph: a new glyph object from the default source's glyph class (glyph_factory / new_glyph)
# =====================================================================================================
from pyvc import models as _models

# ---- Layer: len() and .values() (the default layer is asked for "any glyph" when a new glyph object is needed) -----------------------
def _layer_values(ex, st, self, args, kwargs, node):
    return _models.value_method(ex, st, ex.read_field(st, self, "glyphs"), "values", [], {}, node)

CLASSES["Layer"].methods["values"] = _layer_values
CLASSES["Layer"].length = lambda ex, st, v: Val(INT, z3.Length(Dict(STR, Ref("SrcGlyph")).sort().keys(lift(ex.read_field(st, v, "glyphs")))))

def _out_factory_call(ex, st, self, args, kwargs, node):
    """factory(name=..): a NEW empty glyph object carrying that name (no unicodes yet)"""
    if args or set(kwargs) != {"name"}:
        raise Unsupported("glyph factory arguments", node)
    g = ex.new_object(st, "OutGlyph")
    ex.write_field(st, g, "name", kwargs["name"], node)
    ex.write_field(st, g, "unicodes", Val(List(INT), z3.Empty(List(INT).sort())), node)
    return g

_out_factory_call.modifies = []
cls("OutFactory", methods={"__call__": _out_factory_call}, notes="closure returned by util._getNewGlyphFactory(glyph): factory(name=..) makes a new EMPTY glyph of that name")
trusted("c19.getNewGlyphFactoryOut", "util._getNewGlyphFactory(glyph): a factory of new empty glyphs of the same class (assumed; the argument is only inspected for its class)")(
    lambda ex, st, args, kwargs, node: ex.new_object(st, "OutFactory"))

contract(
    "ufo2ft.instantiator:Instantiator.glyph_factory",
    props=["C19"],
    params={"self": Ref("Instantiator")},
    returns=Ref("OutFactory"),
    requires=[c19b._GGI_REQUIRES[0]],
    raises={"InstantiatorError": "len(self.default_source_glyphs) == 0"},  # a default source without glyphs has no glyph object to take the class from
    ensures={"a-factory": "allocated(result)"},
    canaries={"never": "False"},
    globals={"_getNewGlyphFactory": c19b._ref("c19.getNewGlyphFactoryOut")},
)
contract(
    "ufo2ft.instantiator:Instantiator.new_glyph",
    props=["C19"],
    params={"self": Ref("Instantiator"), "name": STR},
    returns=Ref("OutGlyph"),
    requires=[c19b._GGI_REQUIRES[0]],
    raises={"InstantiatorError": "len(self.default_source_glyphs) == 0"},
    ensures={"new-empty-glyph": "fresh(result) and result.name == name and len(result.unicodes) == 0"},
    canaries={"unnamed": "result.name == ''"},
)
contract(
    "ufo2ft.instantiator:Instantiator.generate_glyph_instance",
    name="new",
    props=["C19"],
    params={"self": Ref("Instantiator"), "glyph_name": STR, "normalized_location": Ref("Location")},
    returns=Ref("OutGlyph"),
    requires=c19b._GGI_REQUIRES,
    # (the second disjunct: a default source without any glyph has no glyph object to take the class of the new glyph from)
    raises={"InstantiatorError": f"(glyph_name not in self.cached and not has_glyph({c19b._L}, {c19b._IDX}, glyph_name)) or len(self.default_source_glyphs) == 0"},
    ensures={**c19b._GGI_ENSURES, "a-new-glyph": "fresh(result) and result.name == glyph_name"},
    canaries=CONTRACTS["ufo2ft.instantiator:Instantiator.generate_glyph_instance#into"].canaries,
    modifies=["self.glyph_mutators"],
    globals={**c19b._ACCESSORS},
    merge_branches=False,
    hints=CONTRACTS["ufo2ft.instantiator:Instantiator.generate_glyph_instance#into"].hints,
)


def _ggn_build(d):
    ds, inst, at = c19b.rt_instantiator(d)
    return {"self": inst, "glyph_name": d["glyph"], "normalized_location": at}


def _nf_build(d):
    ds, inst, at = c19b.rt_instantiator(d)
    return {"self": inst, "name": d["glyph"]}


CONTRACTS["ufo2ft.instantiator:Instantiator.generate_glyph_instance#new"].runtime = Runtime(
    c19b._ggi_cases, _ggn_build, call=lambda fn, a: fn(a["self"], a["glyph_name"], a["normalized_location"])
)
CONTRACTS["ufo2ft.instantiator:Instantiator.new_glyph"].runtime = Runtime(c19b._ggi_cases, _nf_build)
CONTRACTS["ufo2ft.instantiator:Instantiator.glyph_factory"].runtime = Runtime(
    c19b._ggi_cases, lambda d: {"self": c19b.rt_instantiator(d)[1]}, call=lambda fn, a: fn.func(a["self"])
)
