"""C19 — instances equal masters at master locations and the model's blend elsewhere; rule swaps; sources never altered.

Deductive part (pyvc, real ASTs of /repo/Lib/ufo2ft/instantiator.py):
  * weight_class_from_wght_value / width_class_from_wdth_value / italic_angle_from_slnt_value: clamp, then round (all reals)
  * location_to_key, Variator.from_masters, Variator.instance_at: master fast path = a NEW object with the master's
    content, otherwise model.interpolateFromMasters(location, masters in source order)
  * process_rules_swaps: swaps in rule order, for the rules that are true at the location
  * collect_info_masters / collect_kerning_masters: sparse (layer) sources skipped, the default kept, source order, default's groups
  * collect_glyph_masters: layers containing the glyph, default required, empty-glyph rule (order after filtering: run time only)
  * lemmas: the abstract swap (conjugation by the transposition) is an involution on names, kerning keys, kerning, member lists, glyph content

Second wave: contracts/c19b.py (Instantiator.generate_glyph_instance with the glyph-model cache invariant, replace_source_layers, the
properties) and contracts/c19c.py (swap_glyph_names: outlines / width / anchors exchanged, kerning and groups conjugated).

What is still out of reach (see notes/C19.md, notes/C19.requests.md) is checked by the bounded observer in vcheck/hooks/c19.py:
generate_instance as a whole (glyph set, copies, frame, history independence, master reproduction, variation-model blend, linear blend on a
two-master axis) and the component re-mapping of swap_glyph_names.
"""
import z3

from pyvc import ty as T
from pyvc.api import BOOL, CLASSES, CONTRACTS, INT, REAL, STR, Const, Dict, List, Loop, Map, Named, Opaque, Opt, Ref, Runtime, Set, Tuple, cls, contract, lemma, record_init, specfn, trusted
from pyvc.core import PYOBJ, Unsupported, Val, fresh, fresh_name, lift
from pyvc.ops import is_const

# =====================================================================================================
# 1. axis value -> OS/2 class / italic angle: clamp, then round
# =====================================================================================================


@specfn(REAL, x=REAL, lo=REAL, hi=REAL)
def clampf(x, lo, hi):
    """x clamped to [lo, hi] (written independently of the code's min(max(...)))"""
    if x < lo:
        return lo
    if x > hi:
        return hi
    return x


@specfn(REAL, v=REAL)
def wdth_class_real(v):
    """OpenType OS/2 usWidthClass table (percent of normal -> class), linear between the listed points; 50 <= v <= 200"""
    if v <= 62.5:
        return 1 + (v - 50) / 12.5
    if v <= 75:
        return 2 + (v - 62.5) / 12.5
    if v <= 87.5:
        return 3 + (v - 75) / 12.5
    if v <= 100:
        return 4 + (v - 87.5) / 12.5
    if v <= 112.5:
        return 5 + (v - 100) / 12.5
    if v <= 125:
        return 6 + (v - 112.5) / 12.5
    if v <= 150:
        return 7 + (v - 125) / 25
    return 8 + (v - 150) / 50


@trusted(
    "fontTools.varLib.models.piecewiseLinearMap",
    "piecewiseLinearMap(v, m) for a literal non-empty m: m[v] at a key; v shifted by (m[k]-k) beyond the smallest/largest key k; "
    "else linear between the neighbouring keys",
)
def _plm(ex, st, args, kwargs, node):
    v, m = args
    if not (m.is_py and isinstance(m.py, dict) and m.py and all(isinstance(k, (int, float)) and isinstance(x, (int, float)) for k, x in m.py.items())):
        raise Unsupported("piecewiseLinearMap with a non-literal mapping", node)
    from pyvc.core import real_const

    ks = sorted(m.py)
    x = lift(v, REAL)
    rc = real_const
    lo, hi = ks[0], ks[-1]
    # beyond the ends
    res = x + rc(m.py[hi]) - rc(hi)
    # interior segments, from the right
    for a, b in reversed(list(zip(ks, ks[1:]))):
        va, vb = m.py[a], m.py[b]
        seg = rc(va) + (rc(vb) - rc(va)) * (x - rc(a)) / (rc(b) - rc(a))
        res = z3.If(x < rc(b), seg, res)
    for k in ks:
        res = z3.If(x == rc(k), rc(m.py[k]), res)
    res = z3.If(x < rc(lo), x + rc(m.py[lo]) - rc(lo), res)
    return Val(REAL, res)


def _dyadic(rng, lo, hi):
    """a value with an exact binary representation (so that x + 0.5 is exact in floating point)"""
    return rng.randint(int(lo * 8), int(hi * 8)) / 8.0


def _axis_values(lo, hi, special):
    def gen(rng, n):
        out = [{"x": float(s)} for s in special]
        out += [{"x": s} for s in special if isinstance(s, int)]
        while len(out) < n:
            out.append({"x": _dyadic(rng, lo, hi)})
        return out[:n]

    return gen


contract(
    "ufo2ft.instantiator:weight_class_from_wght_value",
    props=["C19"],
    params={"wght_user_value": REAL},
    returns=INT,
    ensures={
        "range": "1 <= result and result <= 1000",
        # result = floor(c + 1/2) for the clamped value c (the rounding used for the variable font, otRound)
        "round-of-clamped": "result <= clampf(wght_user_value, 1, 1000) + 0.5 and clampf(wght_user_value, 1, 1000) + 0.5 < result + 1",
        "identity-on-classes": "implies(wght_user_value == 400, result == 400) and implies(wght_user_value == 1, result == 1) and implies(wght_user_value == 1000, result == 1000)",
    },
    canaries={"no-clamp": "result <= wght_user_value + 0.5 and wght_user_value + 0.5 < result + 1", "constant": "result == 400"},
    runtime=Runtime(_axis_values(-50, 1100, [0, 1, 0.5, 1.5, 399.5, 400, 999.5, 1000, 1000.5, 1001, -3]), lambda d: {"wght_user_value": d["x"]}),
)

_WDTH_POINTS = {50: 1, 62.5: 2, 75: 3, 87.5: 4, 100: 5, 112.5: 6, 125: 7, 150: 8, 200: 9}

contract(
    "ufo2ft.instantiator:width_class_from_wdth_value",
    props=["C19"],
    params={"wdth_user_value": REAL},
    returns=INT,
    ensures={
        "range": "1 <= result and result <= 9",
        "round-of-mapped": "result <= wdth_class_real(clampf(wdth_user_value, 50, 200)) + 0.5 and wdth_class_real(clampf(wdth_user_value, 50, 200)) + 0.5 < result + 1",
        "table-points": " and ".join(f"implies(wdth_user_value == {k}, result == {v})" for k, v in _WDTH_POINTS.items()),
        "clamped-ends": "implies(wdth_user_value <= 50, result == 1) and implies(wdth_user_value >= 200, result == 9)",
        "monotone-samples": "implies(wdth_user_value >= 100, result >= 5) and implies(wdth_user_value <= 100, result <= 5)",
    },
    canaries={"no-clamp": "implies(wdth_user_value > 200, result > 9)", "constant": "result == 5"},
    runtime=Runtime(_axis_values(0, 300, [50, 62.5, 75, 87.5, 100, 112.5, 125, 150, 200, 49, 201, 56.25, 68.75, 137.5, 175, 106.25]), lambda d: {"wdth_user_value": d["x"]}),
)

contract(
    "ufo2ft.instantiator:italic_angle_from_slnt_value",
    props=["C19"],
    params={"slnt_user_value": REAL},
    returns=REAL,
    ensures={
        "clamped": "result == clampf(slnt_user_value, -90, 90)",
        "range": "-90 <= result and result <= 90",
    },
    canaries={"identity": "result == slnt_user_value"},
    runtime=Runtime(_axis_values(-120, 120, [-90, 90, -91, 91, 0, -12.5, 89.875]), lambda d: {"slnt_user_value": d["x"]}),
)


# =====================================================================================================
# 2. object vocabulary: locations, fontMath objects, the variation model, the Variator
# =====================================================================================================

PAIR = Tuple(STR, REAL)
KEY = List(PAIR)  # a LocationKey: tuple of (axis, value) pairs (tuples are immutable sequences: modelled as lists)
MDATA = Opaque("MathData")  # the mathematical content of a fontMath object (outline / info / kerning numbers)


def _loc_items(ex, st, self, args, kwargs, node):
    return ex.read_field(st, self, "pairs")


cls(
    "Location",
    fields={"pairs": KEY},
    methods={"items": _loc_items},
    views={"pairs": lambda d: list(d.items())},
    notes="a location dict seen as its items() list (axis, value) in insertion order (assumed: dict.items)",
)

KIND_GLYPH, KIND_INFO, KIND_KERNING = 0, 1, 2


def _math_kind(o):
    import fontMath

    return KIND_GLYPH if isinstance(o, fontMath.MathGlyph) else KIND_INFO if isinstance(o, fontMath.MathInfo) else KIND_KERNING if isinstance(o, fontMath.MathKerning) else -1


cls(
    "MathObj",
    fields={"data": MDATA, "kind": INT},
    views={"kind": _math_kind},
    notes="fontMath.MathGlyph / MathInfo / MathKerning: `data` is the abstract numerical content, `kind` says which of the three classes "
    "the object is (0 glyph, 1 info, 2 kerning) (assumed attribute bag)",
)


@specfn(KEY, pairs=KEY)
def lockey(pairs):
    """the canonical key of a location: its items in sorted order"""
    return tuple(sorted(pairs))


contract(
    "ufo2ft.instantiator:location_to_key",
    props=["C19"],
    params={"location": Ref("Location")},
    returns=KEY,
    ensures={"sorted-items": "result == lockey(location.pairs)"},
    canaries={"insertion-order": "result == location.pairs"},
)


# ---- run-time notion of "newly allocated": no mutable object reachable from x existed before the call -----------------
class _FreshOracle:
    """fresh(x) at run time: x and every mutable object reachable from it were created during the call
    (ids registered by the harness before the call are the pre-state allocation set)."""

    def __init__(self):
        self.pre = set()
        self.keep = []

    def register(self, *roots):
        self.pre = set()
        self.keep = list(roots)
        for r in roots:
            self.pre |= _reachable_ids(r)

    def __call__(self, x):
        """the object itself is new (the meaning of fresh() in the logic)"""
        x = object.__getattribute__(x, "_obj") if type(x).__name__ == "Proxy" else x
        return id(x) not in self.pre

    def deep(self, x):
        """x shares no mutable state with anything that existed before the call"""
        x = object.__getattribute__(x, "_obj") if type(x).__name__ == "Proxy" else x
        return not (_reachable_ids(x) & self.pre)


_IMMUTABLE = (int, float, str, bytes, bool, type(None), complex)


def _reachable_ids(root):
    """ids of the mutable objects reachable from root (containers, objects with __dict__ / __slots__)"""
    seen = {}
    stack = [root]
    while stack:
        o = stack.pop()
        if isinstance(o, _IMMUTABLE) or id(o) in seen or isinstance(o, type) or callable(o) and not hasattr(o, "__dict__"):
            continue
        if isinstance(o, (tuple, frozenset)):
            stack.extend(o)
            continue
        if isinstance(o, type(z3)):  # modules
            continue
        seen[id(o)] = o
        if isinstance(o, dict):
            stack.extend(o.keys())
            stack.extend(o.values())
        elif isinstance(o, (list, set)):
            stack.extend(o)
        else:
            d = getattr(o, "__dict__", None)
            if isinstance(d, dict):
                stack.extend(d.values())
            for k in type(o).__mro__:
                for s in getattr(k, "__slots__", ()) or ():
                    if isinstance(s, str) and hasattr(o, s):
                        try:
                            stack.append(getattr(o, s))
                        except Exception:  # noqa
                            pass
    return set(seen)


rt_fresh = _FreshOracle()


def math_snapshot(o):
    """Run-time view of MathObj.data: the complete numerical content of a fontMath object as plain data."""
    import fontMath

    if isinstance(o, fontMath.MathGlyph):
        return (
            "glyph", o.width, o.height,
            tuple(tuple(tuple(p) if isinstance(p, (list, tuple)) else p for p in c["points"]) for c in o.contours),
            tuple((c["baseGlyph"], tuple(c["transformation"])) for c in o.components),
            tuple((a.get("name"), a["x"], a["y"]) for a in o.anchors),
        )
    if isinstance(o, fontMath.MathKerning):
        return ("kerning", tuple(sorted(o.items())), tuple(sorted((k, tuple(v)) for k, v in o.groups().items())))
    if isinstance(o, fontMath.MathInfo):
        return info_snapshot(o)
    return ("other", repr(o))


class InfoSnap(tuple):
    """run-time snapshot of a MathInfo that remembers the object (rounding and the attributes that _generate_instance_info inspects are
    computed from it: contracts/c19d.py)"""

    live = None

    def __deepcopy__(self, memo):
        return self


def _num_repr(v):
    """repr with numbers as floats: extractInfo's formatters write integral values as ints (685.0 -> 685), which is the same number"""
    if isinstance(v, bool):
        return repr(v)
    if isinstance(v, (int, float)):
        return repr(float(v))
    if isinstance(v, (list, tuple)):
        return "[" + ", ".join(_num_repr(x) for x in v) + "]"
    return repr(v)


def info_snapshot(o):
    # the three attributes that have clauses of their own (contracts/c19d.py), and postscriptWeightName which round() derives from one of them, are left out
    skip = ("guidelines", "openTypeOS2WeightClass", "openTypeOS2WidthClass", "italicAngle", "postscriptWeightName")
    s = InfoSnap(("info", tuple(sorted((k, _num_repr(v)) for k, v in vars(o).items() if v is not None and k not in skip))))
    s.live = o
    return s


CLASSES["MathObj"].views["data"] = math_snapshot


@trusted(
    "copy.deepcopy",
    "copy.deepcopy(x) of a fontMath object returns a NEWLY ALLOCATED object with the same content that shares no mutable state with x; x is unchanged",
)
def _deepcopy(ex, st, args, kwargs, node):
    (x,) = args
    if not (isinstance(x.ty, T.Ref) and x.ty.cls == "MathObj"):
        raise Unsupported(f"deepcopy of {x.ty}", node)
    r = ex.new_object(st, "MathObj")
    ex.write_field(st, r, "data", ex.read_field(st, x, "data"), node)
    ex.write_field(st, r, "kind", ex.read_field(st, x, "kind"), node)
    return r


# the variation model: an object whose only observable is interpolateFromMasters
@specfn(MDATA, opaque=True, model=Ref("VariationModel"), pairs=KEY, masters=List(Ref("MathObj")), content=Map(Ref("MathObj"), MDATA))
def vm_interp(model, pairs, masters, content):
    """content of model.interpolateFromMasters(dict(pairs), masters) given the masters' current content"""
    raw = [object.__getattribute__(m, "_obj") if type(m).__name__ == "Proxy" else m for m in masters]
    return math_snapshot(model.interpolateFromMasters(dict(pairs), raw))


def _vm_interpolate(ex, st, self, args, kwargs, node):
    loc, masters = args
    if kwargs:
        raise Unsupported("interpolateFromMasters(round=...)", node)
    f = ex.spec_decl(api_specfn("vm_interp"))
    content = ex.field_array(st, "MathObj", "data")
    r = ex.new_object(st, "MathObj")
    d = f(lift(self), lift(ex.read_field(st, loc, "pairs")), lift(masters, List(Ref("MathObj"))), content)
    ex.write_field(st, r, "data", Val(MDATA, d), node)
    # the sum of scaled masters is an object of the masters' class (kind of the first master; unspecified without masters)
    ms = lift(masters, List(Ref("MathObj")))
    k0 = z3.Select(ex.field_array(st, "MathObj", "kind"), ms[0])
    ex.write_field(st, r, "kind", Val(INT, z3.If(z3.Length(ms) > 0, k0, fresh(INT, "kind"))), node)
    return r


def api_specfn(name):
    from pyvc.api import SPECFNS

    return SPECFNS[name]


cls(
    "VariationModel",
    fields={"origLocations": List(Ref("Location")), "axisOrder": List(STR)},
    methods={"interpolateFromMasters": _vm_interpolate},
    notes="fontTools.varLib.models.VariationModel: interpolateFromMasters(loc, masters) returns a NEW fontMath object whose content is a "
    "function (vm_interp) of the model, the location items, the master list (in the order given) and the masters' content (assumed)",
)


def _variator_content(ex, st, self):
    return Val(Map(Ref("MathObj"), MDATA), ex.field_array(st, "MathObj", "data"))


def _px(o, cname):
    from pyvc.rt import Proxy

    return Proxy(o, CLASSES[cname])


_variator_fields = record_init("masters", "location_to_master", "model")


def _variator_init(ex, st, self, args, kwargs, node):
    """Variator(masters, location_to_master, model): the three dataclass fields, plus the SPECIFICATION-ONLY field `witness`
    (key -> a position b such that the b-th master sits at that key's location and is the one filed under the key, whenever
    such a position exists: a choice function, definable for every object, which names the witness of "every key leads to a
    master at that location" so that the statement needs no existential)."""
    _variator_fields(ex, st, self, args, kwargs, node)
    w = fresh(Map(KEY, INT), "witness")
    masters = lift(ex.read_field(st, self, "masters"))
    l2m = ex.read_field(st, self, "location_to_master")
    so = l2m.ty.sort()
    model = ex.read_field(st, self, "model")
    olocs = lift(ex.read_field(st, model, "origLocations"))
    pairs = ex.field_array(st, "Location", "pairs")

    def lk(pairs_term):  # lockey(...) exactly as the clause language expands it (a non-recursive spec function is inlined)
        return lift(ex.apply_spec(api_specfn("lockey"), [Val(KEY, pairs_term)], st, node))

    k = fresh(KEY, "wk")
    b = z3.Int(fresh_name("wb"))

    def P(bb):
        return z3.And(bb >= 0, bb < z3.Length(masters), lk(z3.Select(pairs, olocs[bb])) == k, z3.Select(so.map(lift(l2m)), k) == masters[bb])

    # (prenex form of: key k present and SOME position satisfies P  =>  position witness[k] satisfies P)
    st.assume(z3.ForAll([k, b], z3.Implies(z3.And(z3.Select(so.dom(lift(l2m)), k), P(b)), P(z3.Select(w, k)))))
    ex.write_field(st, self, "witness", Val(Map(KEY, INT), w), node)


_variator_init.modifies = tuple(_variator_fields.modifies) + ("?.witness",)


def _rt_witness(o):
    out = {}
    for k, m in o.location_to_master.items():
        for b, mm in enumerate(o.masters):
            if mm is m and tuple(sorted(o.model.origLocations[b].items())) == k:
                out[k] = b
                break
        else:
            out[k] = -1
    return out


cls(
    "Variator",
    fields={"masters": List(Ref("MathObj")), "location_to_master": Dict(KEY, Ref("MathObj")), "model": Ref("VariationModel"), "witness": Map(KEY, INT)},
    methods={"__init__": _variator_init},
    derived={"content": _variator_content},
    views={
        "masters": lambda o: [_px(m, "MathObj") for m in o.masters],
        "location_to_master": lambda o: {k: _px(m, "MathObj") for k, m in o.location_to_master.items()},
        "content": lambda o: None,
        "witness": _rt_witness,
    },
    notes="ufo2ft.instantiator.Variator (frozen dataclass): its three fields; `content` = the current content of all fontMath objects; "
    "`witness` = specification-only choice function naming, for a key of location_to_master, a master position at that location",
)

_KEYOF = "lockey(normalized_location.pairs)"
_L2M = "self.location_to_master"

contract(
    "ufo2ft.instantiator:Variator.instance_at",
    props=["C19"],
    params={"self": Ref("Variator"), "normalized_location": Ref("Location")},
    returns=Ref("MathObj"),
    ensures={
        # at a master location: the master's content ...
        "master-content": f"implies({_KEYOF} in {_L2M}, result.data == {_L2M}[{_KEYOF}].data)",
        # ... elsewhere: exactly the model's interpolation of the masters, in the stored (source) order
        "blend-elsewhere": f"implies({_KEYOF} not in {_L2M}, result.data == vm_interp(self.model, normalized_location.pairs, self.masters, old(self.content)))",
        # never a stored object: callers round() the result in place
        "new-object": "fresh(result)",
        "not-a-master": f"all(result is not m for m in self.masters) and all(result is not {_L2M}[k] for k in {_L2M})",
        # an object of the masters' class (MathGlyph / MathInfo / MathKerning): callers use class-specific methods on it
        "same-class": f"implies({_KEYOF} in {_L2M}, result.kind == {_L2M}[{_KEYOF}].kind) and implies({_KEYOF} not in {_L2M} and len(self.masters) > 0, result.kind == self.masters[0].kind)",
        # frame: the stored fontMath objects keep their content
        "masters-unchanged": f"all(m.data == old(self.content)[m] for m in self.masters) and all({_L2M}[k].data == old(self.content)[{_L2M}[k]] for k in {_L2M})",
    },
    requires=[
        # the objects held by a constructed Variator exist before the call (they were created by from_masters' callers)
        "all(allocated(m) for m in self.masters)",
        f"all(allocated({_L2M}[k]) for k in {_L2M})",
    ],
    bounded_ensures={
        # run time only: the master copy is DEEP (rounding the instance in place must not reach the master's point lists / kerning dict)
        "master-copy-is-deep": f"implies({_KEYOF} in {_L2M}, deep_fresh(result))",
    },
    canaries={"always-interpolates": "result.data == vm_interp(self.model, normalized_location.pairs, self.masters, old(self.content))"},
    globals={"fresh": rt_fresh, "deep_fresh": rt_fresh.deep},
)


class _ContentMap(dict):
    """run-time value of `content`: object -> snapshot of its data, taken when the view is evaluated"""

    def __getitem__(self, o):
        o = object.__getattribute__(o, "_obj") if type(o).__name__ == "Proxy" else o
        return dict.__getitem__(self, id(o))


def _content_view(o):
    objs = list(o.masters) + list(o.location_to_master.values())
    return _ContentMap({id(m): math_snapshot(m) for m in objs})


CLASSES["Variator"].views["content"] = _content_view


# ---- run-time harness: small real master families -----------------------------------------------------------------------
def rt_glyph(width, pts, anchors=(), components=(), name="a", unicodes=()):
    import ufoLib2

    g = ufoLib2.objects.Glyph(name)
    g.width = width
    g.unicodes = list(unicodes)
    if pts:
        pp = g.getPointPen()
        pp.beginPath()
        for x, y in pts:
            pp.addPoint((x, y), segmentType="line")
        pp.endPath()
    for base, dx, dy in components:
        g.getPointPen().addComponent(base, (1, 0, 0, 1, dx, dy))
    for an, x, y in anchors:
        g.appendAnchor({"name": an, "x": x, "y": y})
    return g


def rt_math_object(kind, k):
    """the k-th master of a compatible family of the given kind (numbers are fractional on purpose)"""
    import fontMath
    import ufoLib2

    if kind == "glyph":
        g = rt_glyph(400 + 100.5 * k, [(0, 0), (100 + 33.25 * k, 0), (100 + 33.25 * k, 200 + 10 * k)], anchors=[("top", 50 + 7.5 * k, 200 + 10 * k)], components=[("b", 10 * k, 0)])
        return fontMath.MathGlyph(g, strict=True)
    if kind == "kerning":
        return fontMath.MathKerning({("a", "b"): -10.5 * (k + 1), ("public.kern1.o", "b"): 7 * k}, {"public.kern1.o": ["o", "a"]})
    f = ufoLib2.Font()
    f.info.unitsPerEm = 1000
    f.info.ascender = 700 + 12.5 * k
    f.info.descender = -200 - 3 * k
    f.info.xHeight = 500 + k
    return fontMath.MathInfo(f.info)


_RT_LOCS = {
    1: [{"wght": 0.0}, {"wght": 1.0}, {"wght": 0.5}, {"wght": -1.0}],
    2: [{"wght": 0.0, "wdth": 0.0}, {"wght": 1.0, "wdth": 0.0}, {"wght": 0.0, "wdth": 1.0}, {"wght": 1.0, "wdth": 1.0}],
}


def _variator_cases(rng, n):
    out = []
    for kind in ("glyph", "kerning", "info"):
        for naxes in (1, 2):
            for nm in (1, 2, 3):
                locs = _RT_LOCS[naxes][:nm]
                asks = [dict(l) for l in locs]
                # the same locations with the axes listed in the opposite order, and off-master locations
                asks += [dict(reversed(list(l.items()))) for l in locs if len(l) > 1]
                asks += [{"wght": 0.25, "wdth": 0.0}, {"wght": 0.75, "wdth": 0.5}, {"wdth": 0.0, "wght": 0.5}] if naxes == 2 else [{"wght": 0.25}, {"wght": 0.75}]
                for a in asks:
                    out.append({"kind": kind, "naxes": naxes, "masters": nm, "at": list(a.items())})
    rng.shuffle(out)
    return out[:n]


def _variator_build(d):
    from ufo2ft.instantiator import Variator

    locs = _RT_LOCS[d["naxes"]][: d["masters"]]
    items = [(dict(l), rt_math_object(d["kind"], k)) for k, l in enumerate(locs)]
    v = Variator.from_masters(items, ["wght", "wdth"][: d["naxes"]])
    at = dict((a, b) for a, b in d["at"])
    rt_fresh.register(v, at)
    return {"self": v, "normalized_location": at}


CONTRACTS["ufo2ft.instantiator:Variator.instance_at"].runtime = Runtime(_variator_cases, _variator_build, call=lambda fn, a: fn(a["self"], a["normalized_location"]))


def _lockey_cases(rng, n):
    import itertools

    axes = [("wght", 0.0), ("wdth", 1.0), ("slnt", -0.5), ("opsz", 0.25)]
    out = []
    for k in range(0, 4):
        for perm in itertools.permutations(axes[:k]):
            out.append({"items": [list(p) for p in perm]})
    rng.shuffle(out)
    return out[:n]


CONTRACTS["ufo2ft.instantiator:location_to_key"].runtime = Runtime(_lockey_cases, lambda d: {"location": {a: b for a, b in d["items"]}})


# ---- specification accessors usable on the REAL objects inside result lists (run time) and on the heap model (logic) ----------
def _unwrap(o):
    return object.__getattribute__(o, "_obj") if type(o).__name__ == "Proxy" else o


def _accessor(name, native, field, clause):
    """A spec-level accessor: natively `native(obj)`; in the logic the heap field `field` of the argument."""
    from pyvc.symex import FuncRef

    class _Acc(FuncRef):
        def __call__(self, o):
            return native(_unwrap(o))

    qual = "contracts.c19." + name
    trusted(qual, clause)(lambda ex, st, args, kwargs, node: ex.read_field(st, args[0], field))
    return _Acc(native, qual)


data_of = _accessor("data_of", math_snapshot, "data", "specification accessor: content of a fontMath object (run time: complete snapshot of its numbers)")
src_data = _accessor("src_data", lambda o: o, "data", "specification accessor: content of a source's info / kerning / groups (run time: the object itself; sources are never modified)")
items_of = _accessor("items_of", lambda d: list(d.items()), "pairs", "specification accessor: items() of a location dict")
_ACCESSORS = {"data_of": data_of, "src_data": src_data, "items_of": items_of}



# =====================================================================================================
# 3. Variator.from_masters
# =====================================================================================================
@trusted(
    "fontTools.varLib.models.VariationModel",
    "VariationModel(locations, axisOrder) returns a new model object that records the master locations in the order given (origLocations) (assumed; "
    "its arithmetic is only visible through interpolateFromMasters)",
)
def _vm_new(ex, st, args, kwargs, node):
    if len(args) != 2 or kwargs:
        raise Unsupported("VariationModel(...) arity", node)
    r = ex.new_object(st, "VariationModel")
    ex.write_field(st, r, "origLocations", args[0], node)
    ex.write_field(st, r, "axisOrder", args[1], node)
    return r


def _variator_class():
    from pyvc.symex import FuncRef

    from ufo2ft.instantiator import Variator

    return FuncRef(Variator, "ufo2ft.instantiator.Variator")


ITEMS = List(Tuple(Ref("Location"), Ref("MathObj")))
_IK = "lockey(items_of(items[{}][0]))"

contract(
    "ufo2ft.instantiator:Variator.from_masters",
    props=["C19"],
    params={"cls": Const(_variator_class()), "items": ITEMS, "axis_order": List(STR)},
    returns=Ref("Variator"),
    # the objects passed in exist before the call
    requires=["all(allocated(items[b][1]) and allocated(items[b][0]) for b in range(len(items)))"],
    ensures={
        "new-variator": "fresh(result) and fresh(result.model) and allocated(result.model)",
        "stored-objects-exist": "all(allocated(result.location_to_master[k]) for k in result.location_to_master)",
        # masters in source order, the very objects that were passed in
        "masters-in-order": "len(result.masters) == len(items) and all(result.masters[b] == items[b][1] for b in range(len(items)))",
        # the model is built from the locations in the same order
        "model-locations": "len(result.model.origLocations) == len(items) and all(result.model.origLocations[b] == items[b][0] for b in range(len(items))) and result.model.axisOrder == axis_order",
        # every master is found under the key of its own location (a later master at the same location wins), and every key leads to a
        # master that sits at that location (`witness` names its position: no existential).  Stated on the new Variator's own fields, the form in
        # which the Instantiator's cache invariant carries them; with masters-in-order / model-locations this is the same about `items`.
        "own-keys-cover": "all(lockey(items_of(result.model.origLocations[b])) in result.location_to_master for b in range(len(result.masters)))",
        "own-keys-sound": "all(0 <= result.witness[k] and result.witness[k] < len(result.masters) and lockey(items_of(result.model.origLocations[result.witness[k]])) == k"
        " and result.location_to_master[k] == result.masters[result.witness[k]] for k in result.location_to_master)",
    },
    canaries={"first-master-everywhere": "all(result.location_to_master[k] == items[0][1] for k in result.location_to_master)"},
    locals={"masters": List(Ref("MathObj")), "master_locations": List(Ref("Location")), "location_to_master": Dict(KEY, Ref("MathObj"))},
    globals={"fresh": rt_fresh, **_ACCESSORS},
    ghost_vars={"wi": (Dict(KEY, INT), "{}")},
    ghost={"location_to_master[location_to_key(normalized_location)] = master": ["wi = {**wi, lockey(items_of(normalized_location)): i}"]},
    # the loop's witness in terms of the lists handed to the constructor (names the position that the choice function `witness` needs)
    hints={
        "model = varLib.models.VariationModel(master_locations, axis_order)": [
            "all(0 <= wi[k] and wi[k] < len(masters) and masters[wi[k]] == location_to_master[k] and lockey(items_of(master_locations[wi[k]])) == k for k in location_to_master)"
        ]
    },
    loops={
        "for (normalized_location, master) in items": Loop(
            index="i",
            invariants={
                "masters": "len(masters) == i and all(masters[b] == items[b][1] for b in range(i))",
                "locations": "len(master_locations) == i and all(master_locations[b] == items[b][0] for b in range(i))",
                "cover": "all(" + _IK.format("b") + " in location_to_master for b in range(i))",
                "wit": "all(k in wi and 0 <= wi[k] and wi[k] < i and " + _IK.format("wi[k]") + " == k and location_to_master[k] == items[wi[k]][1] for k in location_to_master)",
            },
        )
    },
)


def _from_masters_cases(rng, n):
    # fontTools' VariationModel itself rejects families without a default master or with two masters at one location
    out = [{"kind": kind, "naxes": naxes, "masters": nm, "flip": flip} for kind in ("glyph", "kerning", "info") for naxes in (1, 2) for nm in (1, 2, 3, 4) for flip in (False, True)]
    rng.shuffle(out)
    return out[:n]


def _from_masters_build(d):
    locs = [dict(l) for l in _RT_LOCS[d["naxes"]][: d["masters"]]]
    if d["flip"]:
        locs = [dict(reversed(list(l.items()))) for l in locs]  # axes listed in the opposite order
    items = [(l, rt_math_object(d["kind"], k)) for k, l in enumerate(locs)]
    order = ["wght", "wdth"][: d["naxes"]]
    rt_fresh.register(items, order)
    return {"items": items, "axis_order": order}


CONTRACTS["ufo2ft.instantiator:Variator.from_masters"].runtime = Runtime(_from_masters_cases, _from_masters_build, call=lambda fn, a: fn(a["items"], a["axis_order"]))


# =====================================================================================================
# 4. process_rules_swaps: swaps in rule order, for the rules that are true at the location
# =====================================================================================================
SUB = Tuple(STR, STR)
CONDITION = Tuple(STR, Opt(REAL), Opt(REAL))  # (axis name, minimum, maximum)
RULE = Named("Rule", name=STR, subs=List(SUB), conditionSets=List(List(CONDITION)))


@specfn(BOOL, opaque=True, rule=RULE, pairs=KEY)
def rule_true(rule, pairs):
    """designspaceLib.evaluateRule(rule, location): some condition set of the rule holds at the location (library semantics)"""
    from fontTools import designspaceLib

    return bool(designspaceLib.evaluateRule(rule, dict(pairs)))


@trusted("fontTools.designspaceLib.evaluateRule", "evaluateRule(rule, location) is a function of the rule and of the location's items (no side effects)")
def _evaluate_rule(ex, st, args, kwargs, node):
    rule, loc = args
    f = ex.spec_decl(api_specfn("rule_true"))
    return Val(BOOL, f(lift(rule, RULE), lift(ex.read_field(st, loc, "pairs"))))


@specfn(List(SUB), S=List(SUB), names=Set(STR), j=INT)
def subs_picked(S, names, j):
    """the substitutions among S[:j] whose old name is a glyph of the font, in order"""
    if j <= 0:
        return []
    prev = subs_picked(S, names, j - 1)
    if S[j - 1][0] in names:
        return prev + [S[j - 1]]
    return prev


@specfn(List(SUB), rules=List(RULE), pairs=KEY, names=Set(STR), i=INT)
def swaps_upto(rules, pairs, names, i):
    """the swaps contributed by rules[:i]: rule order first, then the order of the <sub>s inside a rule"""
    if i <= 0:
        return []
    prev = swaps_upto(rules, pairs, names, i - 1)
    if rule_true(rules[i - 1], pairs):
        return prev + subs_picked(rules[i - 1].subs, names, len(rules[i - 1].subs))
    return prev


contract(
    "ufo2ft.instantiator:process_rules_swaps",
    props=["C19"],
    params={"rules": List(RULE), "location": Ref("Location"), "glyphNames": Set(STR)},
    returns=List(SUB),
    ensures={
        "rule-order": "result == swaps_upto(rules, location.pairs, glyphNames, len(rules))",
        # consequences spelled out: nothing from a rule that is false at the location, nothing for absent glyphs
        "only-present-glyphs": "all(s[0] in glyphNames for s in result)",
    },
    canaries={"all-rules": "implies(len(rules) == 1, result == subs_picked(rules[0].subs, glyphNames, len(rules[0].subs)))", "empty": "len(result) == 0"},
    locals={"swaps": List(SUB)},
    loops={
        "for rule in rules": Loop(
            index="i",
            invariants={
                "prefix": "swaps == swaps_upto(rules, location.pairs, glyphNames, i)",
                "present": "all(s[0] in glyphNames for s in swaps)",
            },
        ),
        "for (oldName, newName) in rule.subs": Loop(
            index="j",
            invariants={
                "prefix": "swaps == swaps_upto(rules, location.pairs, glyphNames, i) + subs_picked(rule.subs, glyphNames, j)",
                "present": "all(s[0] in glyphNames for s in swaps)",
            },
        ),
    },
)


def _rules_cases(rng, n):
    out = []
    names = ["a", "a.alt", "b", "b.alt", "c"]
    for _ in range(n):
        rules = []
        for r in range(rng.randint(0, 3)):
            lo = rng.choice([None, 300, 500, 700])
            hi = rng.choice([None, 600, 900]) if lo is not None else rng.choice([400, 800])
            subs = [[rng.choice(names + ["missing"]), rng.choice(names)] for _ in range(rng.randint(0, 3))]
            rules.append({"name": f"r{r}", "min": lo, "max": hi, "subs": subs})
        out.append({"rules": rules, "wght": rng.choice([100, 300, 400, 500, 650, 700, 900]), "glyphs": sorted(rng.sample(names, rng.randint(0, len(names))))})
    return out


def rt_rules(descs):
    from fontTools import designspaceLib

    rules = []
    for r in descs:
        cond = {"name": "wght"}
        cond["minimum"] = r["min"]
        cond["maximum"] = r["max"]
        rules.append(designspaceLib.RuleDescriptor(name=r["name"], conditionSets=[[cond]], subs=[tuple(s) for s in r["subs"]]))
    return rules


def _rules_build(d):
    return {"rules": rt_rules(d["rules"]), "location": {"wght": d["wght"]}, "glyphNames": {g: None for g in d["glyphs"]}.keys()}


CONTRACTS["ufo2ft.instantiator:process_rules_swaps"].runtime = Runtime(_rules_cases, _rules_build)


# =====================================================================================================
# 5. collect_info_masters / collect_kerning_masters: sparse (layer) sources skipped, default kept, source order
# =====================================================================================================
BOUNDS = Dict(STR, Tuple(REAL, REAL, REAL))


class _Everything:
    def __contains__(self, x):
        return True


def _allocated_as(cname):
    def view(ex, st, self):
        return Val(Set(Ref(cname)), ex.alloc_set(st))

    return view


def _heap_of(cname, field, vty):
    return lambda ex, st, self: Val(Map(Ref(cname), vty), ex.field_array(st, cname, field))


class _AnyObjectMap:
    """run-time value of a whole-heap view: indexing gives a constant (frame clauses over the whole heap are logical only)"""

    def __getitem__(self, o):
        return None

    def __deepcopy__(self, memo):
        return self


# (MathObj.contours / .components are declared further down; the views read the class registry when they are used)
_FRAME_FIELDS = {"h_data": ("MathObj", "data", MDATA), "h_kind": ("MathObj", "kind", INT), "h_contours": ("MathObj", "contours", List(INT)),
                 "h_components": ("MathObj", "components", List(INT)), "h_pairs": ("Location", "pairs", KEY)}
cls(
    "AllocView",
    derived={"allocated": _allocated_as("MathObj"), "allocated_locations": _allocated_as("Location"), **{k: _heap_of(*v) for k, v in _FRAME_FIELDS.items()}},
    views={"allocated": lambda o: _Everything(), "allocated_locations": lambda o: _Everything(), **{k: (lambda o: _AnyObjectMap()) for k in _FRAME_FIELDS}},
    notes="specification-only handle on the set of currently existing objects and on the heap fields that the collect_* functions write "
    "(used in loop invariants: objects that existed at entry keep their fields)",
)
_ALLOC_VIEW = Val(Ref("AllocView"), z3.Const("alloc_view", T.RefSort))


def frame_ghosts(fields):
    """ghost snapshots of whole heap fields at function entry + the loop invariant "every object that existed at entry still has its value" """
    gv = {"F0_" + f: (Map(Ref(_FRAME_FIELDS[f][0]), _FRAME_FIELDS[f][2]), "alloc_view." + f) for f in fields}
    dom = {"MathObj": "alloc_view.allocated", "Location": "alloc_view.allocated_locations"}
    inv = {"frame." + f: f"all(implies(not fresh(o), alloc_view.{f}[o] == F0_{f}[o]) for o in {dom[_FRAME_FIELDS[f][0]]})" for f in fields}
    return gv, inv


cls("SrcInfo", fields={"data": MDATA}, notes="font.info of a source: abstract content")
cls("SrcKerning", fields={"data": MDATA}, notes="font.kerning of a source: abstract content")
cls("SrcGroups", fields={"data": MDATA, "nonempty": BOOL}, truth=lambda ex, st, v: ex.read_field(st, v, "nonempty").term,
    notes="font.groups of a source: abstract content; truthiness = non-empty")
cls("SrcFont", fields={"info": Ref("SrcInfo"), "kerning": Ref("SrcKerning"), "groups": Ref("SrcGroups")}, notes="a source UFO (assumed attribute bag)")
cls(
    "Source",
    fields={"layerName": Opt(STR), "location": Ref("Location"), "font": Ref("SrcFont"), "name": Opt(STR), "filename": Opt(STR)},
    notes="designspaceLib.SourceDescriptor (assumed attribute bag)",
)
cls(
    "DesignSpace",
    fields={"sources": List(Ref("Source")), "default": Ref("Source")},
    derived={"allocated": _allocated_as("MathObj"), "allocated_locations": _allocated_as("Location")},
    views={"allocated": lambda o: _Everything(), "allocated_locations": lambda o: _Everything()},
    notes="DesignSpaceDocument: sources in document order, `default` = the default source (findDefault); `allocated` = the set of "
    "objects that currently exist (specification-only view)",
)
# (the dict returned by normalizeLocation is a Location object like any other: Variator.from_masters / instance_at take it as such)


@specfn(KEY, opaque=True, pairs=KEY, bounds=BOUNDS)
def norm_pairs(pairs, bounds):
    """items of varLib.models.normalizeLocation(dict(pairs), bounds)"""
    from fontTools.varLib.models import normalizeLocation

    return list(normalizeLocation(dict(pairs), dict(bounds)).items())


@trusted(
    "fontTools.varLib.models.normalizeLocation",
    "normalizeLocation(location, axes) returns a NEW dict whose items are a function (norm_pairs) of the location's items and the axis bounds; the argument is not modified",
)
def _normalize_location(ex, st, args, kwargs, node):
    loc, bounds = args
    if kwargs:
        raise Unsupported("normalizeLocation keyword arguments", node)
    r = ex.new_object(st, "Location")
    f = ex.spec_decl(api_specfn("norm_pairs"))
    ex.write_field(st, r, "pairs", Val(KEY, f(lift(ex.read_field(st, loc, "pairs")), lift(bounds, BOUNDS))), node)
    return r


@specfn(MDATA, opaque=True, info=MDATA)
def mathinfo_of(info):
    """content of fontMath.MathInfo(info)"""
    import fontMath

    return math_snapshot(fontMath.MathInfo(info))


@specfn(MDATA, opaque=True, kerning=MDATA, groups=MDATA)
def mathkerning_of(kerning, groups):
    """content of fontMath.MathKerning(kerning, groups)"""
    import fontMath

    return math_snapshot(fontMath.MathKerning(kerning, groups))


def _math_ctor(fn_name, nargs, src_classes):
    def model(ex, st, args, kwargs, node):
        if len(args) != nargs:
            raise Unsupported(f"{fn_name} arity", node)
        for a, c in zip(args, src_classes):
            if not (isinstance(a.ty, T.Ref) and a.ty.cls == c):
                raise Unsupported(f"{fn_name} argument of type {a.ty}", node)
        r = ex.new_object(st, "MathObj")
        f = ex.spec_decl(api_specfn(fn_name))
        ex.write_field(st, r, "data", Val(MDATA, f(*[lift(ex.read_field(st, a, "data")) for a in args])), node)
        ex.write_field(st, r, "kind", Val(INT, z3.IntVal(KIND_INFO if fn_name == "mathinfo_of" else KIND_KERNING)), node)
        return r

    return model


trusted("fontMath.mathInfo.MathInfo", "MathInfo(info) returns a NEW object whose content is a function (mathinfo_of) of the info's content; info is not modified")(
    _math_ctor("mathinfo_of", 1, ["SrcInfo"])
)
trusted(
    "fontMath.mathKerning.MathKerning",
    "MathKerning(kerning, groups) returns a NEW object whose content is a function (mathkerning_of) of the kerning's and the groups' content; neither is modified",
)(_math_ctor("mathkerning_of", 2, ["SrcKerning", "SrcGroups"]))


@specfn(BOOL, s=Ref("Source"), default=Ref("Source"))
def has_font_data(s, default):
    """a source contributes info/kerning unless it is a (sparse) layer source other than the default"""
    return s.layerName is None or s is default


@specfn(INT, sources=List(Ref("Source")), default=Ref("Source"), i=INT)
def nkept(sources, default, i):
    """number of sources among the first i that contribute info/kerning"""
    if i <= 0:
        return 0
    if has_font_data(sources[i - 1], default):
        return nkept(sources, default, i - 1) + 1
    return nkept(sources, default, i - 1)


_S = "designspace.sources"
_D = "designspace.default"
_NK = "nkept(" + _S + ", " + _D + ", {})"


def _collect_contract(fn, ctor_clause, extra_locals=None):
    entry = "items_of({L}[" + _NK.format("a") + "][0]) == norm_pairs(items_of(" + _S + "[a].location), axis_bounds) and " + ctor_clause
    return contract(
        "ufo2ft.instantiator:" + fn,
        props=["C19"],
        params={"designspace": Ref("DesignSpace"), "axis_bounds": BOUNDS},
        returns=List(Tuple(Ref("Location"), Ref("MathObj"))),
        requires=[f"all(allocated({_S}[a]) and allocated({_S}[a].location) for a in range(len({_S})))"],
        ensures={
            # exactly the sources with font-level data: layer-only (sparse) sources are skipped, the default is always kept
            "count": "len(result) == " + _NK.format(f"len({_S})"),
            "positions": f"all(implies(has_font_data({_S}[a], {_D}), 0 <= " + _NK.format("a") + " and " + _NK.format("a") + f" < len(result)) for a in range(len({_S})))",
            "default-kept": f"implies(any({_S}[a] == {_D} for a in range(len({_S}))), len(result) >= 1)",
            # in source order: the a-th source lands at position nkept(a), at its normalized location, wrapping ITS data
            "entries": f"all(implies(has_font_data({_S}[a], {_D}), " + entry.format(L="result") + f") for a in range(len({_S})))",
            "new-objects": "all(fresh(result[k][0]) and fresh(result[k][1]) for k in range(len(result)))",
        },
        canaries={"keeps-everything": f"len(result) == len({_S})"},
        locals={"locations_and_masters": List(Tuple(Ref("Location"), Ref("MathObj"))), **(extra_locals or {})},
        loops={
            "for source in designspace.sources": Loop(
                index="i",
                invariants={
                    "nonneg": "all(" + _NK.format("a") + " >= 0 for a in range(i))",
                    "nonneg-here": _NK.format("i") + " >= 0",
                    "len": "len(locations_and_masters) == " + _NK.format("i"),
                    "mono": f"all(implies(has_font_data({_S}[a], {_D}), " + _NK.format("a") + " < " + _NK.format("i") + ") for a in range(i))",
                    "alive": "all(locations_and_masters[k][0] in designspace.allocated_locations and locations_and_masters[k][1] in designspace.allocated"
                    " and fresh(locations_and_masters[k][0]) and fresh(locations_and_masters[k][1]) for k in range(len(locations_and_masters)))",
                    "entries": f"all(implies(has_font_data({_S}[a], {_D}), " + entry.format(L="locations_and_masters") + ") for a in range(i))",
                    # frame: the new objects are the only ones written
                    **frame_ghosts(["h_data", "h_kind", "h_pairs"])[1],
                },
            )
        },
        globals={"fresh": rt_fresh, "alloc_view": _ALLOC_VIEW, **_ACCESSORS},
        ghost_vars=frame_ghosts(["h_data", "h_kind", "h_pairs"])[0],
    )


_collect_contract("collect_info_masters", "data_of({L}[" + _NK.format("a") + "][1]) == mathinfo_of(src_data(" + _S + "[a].font.info))")
# kerning: each kept source's kerning, always wrapped with the DEFAULT source's groups
_collect_contract(
    "collect_kerning_masters",
    "data_of({L}[" + _NK.format("a") + "][1]) == mathkerning_of(src_data(" + _S + "[a].font.kerning), src_data(" + _D + ".font.groups))",
)


# =====================================================================================================
# 6. run-time side: small real designspaces (shared with the bounded observer, vcheck/hooks/c19.py)
# =====================================================================================================
GLYPHS = ["a", "a.alt", "b", "c", "e", "s"]


def _coord(base, loc, k, frac):
    """a master coordinate: linear in the location plus a per-master quirk (so that intermediate masters matter)"""
    w = loc.get("wght", 400)
    d = loc.get("wdth", 100)
    v = base + (w - 400) / 5 + (d - 100) * 2 + 7 * k * k
    return v + (0.25 + 0.125 * k if frac else 0)


def rt_master_glyphs(loc, k, frac, names=None, empty_s=False):
    """glyph descriptions (rtlib.build_ufo format) of master number k at design location loc"""
    c = lambda b: _coord(b, loc, k, frac)  # noqa: E731
    g = {
        "a": {"width": c(500), "unicodes": [0x61], "contours": [[[0, 0, "line"], [c(100), 0, "line"], [c(100), c(300), "line"], [0, c(300), "line"]]], "anchors": [["top", c(50), c(300)]]},
        "a.alt": {"width": c(560), "contours": [[[10, 0, "line"], [c(140), 10, "line"], [c(120), c(320), "line"]]], "anchors": [["top", c(70), c(320)], ["bottom", c(70), 0]]},
        "b": {"width": c(450), "unicodes": [0x62], "contours": [[[0, 0, "line"], [c(80), 0, "line"], [c(80), c(500), "line"]]]},
        "c": {"width": c(600), "unicodes": [0x63], "components": [["a", [1, 0, 0, 1, 0, 0]], ["b", [1, 0, 0, 1, c(300), 0]], ["a.alt", [1, 0, 0, 1, c(20), c(30)]]]},
        "e": {"width": c(250), "unicodes": [0x20]},
        "s": {"width": c(400), "unicodes": [0x73], "contours": [] if empty_s else [[[0, 0, "line"], [c(90), 0, "line"], [c(45), c(90), "line"]]]},
    }
    if names is not None:
        g = {n: g[n] for n in GLYPHS if n in names}
    return g


def rt_master_font_desc(loc, k, frac, empty_s=False, glyph_names=None, default=False):
    c = lambda b: _coord(b, loc, k, frac)  # noqa: E731
    d = {
        "glyphs": rt_master_glyphs(loc, k, frac, glyph_names, empty_s),
        "info": {"unitsPerEm": 1000, "ascender": c(700), "descender": -c(200), "xHeight": c(480), "capHeight": c(690), "familyName": "Fam", "styleName": f"M{k}"},
        "kerning": {"a|b": -c(20) / 2, "public.kern1.A|b": c(10), "b|public.kern2.B": -15.5 - k},
        "groups": {"public.kern1.A": ["a", "a.alt"], "public.kern2.B": ["b"], "swapped.members": ["a", "b", "a.alt", "a"], "other": ["c"]},
        "lib": {"com.example.nested": {"list": [1, 2, {"x": [k]}]}, "public.skipExportGlyphs": ["e"]},
        "features": "feature liga { sub a b by c; } liga;" if default else "",
        "order": [n for n in GLYPHS if glyph_names is None or n in glyph_names],
    }
    if not default and "b" in d["glyphs"]:
        # a non-default master whose code points differ from the default's: instances must take the DEFAULT source's
        d["glyphs"]["b"]["unicodes"] = [0x62, 0x42 + k]
    return d


FAMILIES = {
    # name: (axes [(name, tag, min, default, max, map)], sources [(location, kind)], kind: "font" | "layer" (sparse: a layer of the default font)
    "1ax-2m": ([("Weight", "wght", 100, 400, 900, None)], [({"Weight": 400}, "font"), ({"Weight": 900}, "font")]),
    "1ax-3m": ([("Weight", "wght", 100, 400, 900, None)], [({"Weight": 100}, "font"), ({"Weight": 400}, "font"), ({"Weight": 900}, "font")]),
    "1ax-intermediate": ([("Weight", "wght", 100, 400, 900, None)], [({"Weight": 400}, "font"), ({"Weight": 650}, "font"), ({"Weight": 900}, "font")]),
    "1ax-sparse-layer": ([("Weight", "wght", 100, 400, 900, None)], [({"Weight": 400}, "font"), ({"Weight": 650}, "layer"), ({"Weight": 900}, "font")]),
    "1ax-mapped": ([("Weight", "wght", 100, 400, 900, [(100, 20), (400, 80), (900, 200)])], [({"Weight": 80}, "font"), ({"Weight": 200}, "font"), ({"Weight": 20}, "font")]),
    "2ax-corners": (
        [("Weight", "wght", 400, 400, 900, None), ("Width", "wdth", 75, 100, 100, None)],
        [({"Weight": 400, "Width": 100}, "font"), ({"Weight": 900, "Width": 100}, "font"), ({"Weight": 400, "Width": 75}, "font"), ({"Weight": 900, "Width": 75}, "font")],
    ),
    "2ax-sparse": (
        [("Weight", "wght", 400, 400, 900, None), ("Width", "wdth", 75, 100, 100, None)],
        [({"Width": 100, "Weight": 400}, "font"), ({"Weight": 900}, "font"), ({"Width": 75}, "font"), ({"Weight": 650, "Width": 100}, "layer")],
    ),
}


def rt_designspace(family, frac=True, rules=True, empty_s=False, extra_glyph=False, default_layer_sparse_subset=("a", "a.alt", "b"), empty_s_index=None):
    """A real in-memory DesignSpaceDocument with ufoLib2 source fonts.  Returns the document."""
    import logging

    from fontTools import designspaceLib

    from . import rtlib

    logging.getLogger("ufo2ft.instantiator").setLevel(logging.ERROR)  # "glyphs missing from the default source" warnings
    axes, sources = FAMILIES[family]
    ds = designspaceLib.DesignSpaceDocument()
    for name, tag, lo, dflt, hi, amap in axes:
        ax = designspaceLib.AxisDescriptor()
        ax.name, ax.tag, ax.minimum, ax.default, ax.maximum = name, tag, lo, dflt, hi
        if amap:
            ax.map = list(amap)
        ds.addAxis(ax)
    default_design = {ax.name: ax.map_forward(ax.default) for ax in ds.axes}
    tagloc = lambda loc: {"wght": loc.get("Weight", default_design.get("Weight", 400)), "wdth": loc.get("Width", default_design.get("Width", 100))}  # noqa: E731
    fonts = []
    default_font = None
    # the default source first (layers of it are added afterwards)
    for k, (loc, kind) in enumerate(sources):
        full = {**default_design, **loc}
        is_default = full == default_design
        if kind == "font":
            # `s` is left without outline in the LAST non-default master (empty_s) or in the NON-DEFAULT master of the given index (empty_s_index);
            # an empty default master next to non-empty ones is an incompatible (non-interpolatable) input, outside the property's domain:
            # fontMath raises IndexError there (met with VERIF_SEED=4)
            d = rt_master_font_desc(tagloc(loc), k, frac, empty_s=(empty_s and not is_default and k == len(sources) - 1) or (k == empty_s_index and not is_default), default=is_default)
            if extra_glyph and not is_default:
                d["glyphs"]["only.here"] = {"width": 100}
            if not is_default:
                # a source whose groups differ from the default's (ufo2ft warns and uses the default's for every master)
                d["groups"] = {**d["groups"], "public.kern1.X": ["c"], "other": ["c", "e"], "only.in.this.master": ["b"]}
            f = rtlib.build_ufo(d)
            fonts.append(f)
            if is_default:
                default_font = f
        else:
            fonts.append(None)
    for k, (loc, kind) in enumerate(sources):
        if kind == "layer":
            lname = f"sparse{k}"
            layer = default_font.newLayer(lname)
            gl = rt_master_glyphs(tagloc(loc), k, frac, default_layer_sparse_subset)
            tmp = rtlib.build_ufo({"glyphs": gl})
            for g in tmp:
                layer.insertGlyph(g, g.name, copy=True)
            fonts[k] = default_font
    for k, (loc, kind) in enumerate(sources):
        s = designspaceLib.SourceDescriptor()
        s.name = f"master{k}"
        s.filename = f"master{k}.ufo"
        s.font = fonts[k]
        s.location = dict(loc)
        if kind == "layer":
            s.layerName = f"sparse{k}"
        ds.addSource(s)
    if rules:
        lo = 600 if "mapped" not in family else 120
        r1 = designspaceLib.RuleDescriptor(name="alt-a", conditionSets=[[{"name": "Weight", "minimum": lo, "maximum": 1000}]], subs=[("a", "a.alt")])
        r2 = designspaceLib.RuleDescriptor(name="absent", conditionSets=[[{"name": "Weight", "minimum": lo, "maximum": 1000}]], subs=[("not.there", "a")])
        ds.rules = [r1, r2]
    ds.lib["public.skipExportGlyphs"] = ["e", "zzz"]
    ds.findDefault()
    return ds


def rt_axis_bounds(ds):
    return {ax.name: (ax.map_forward(ax.minimum), ax.map_forward(ax.default), ax.map_forward(ax.maximum)) for ax in ds.axes}


def _collect_cases(rng, n):
    out = [{"family": fam, "frac": frac} for fam in FAMILIES for frac in (False, True)]
    rng.shuffle(out)
    return out[:n]


def _collect_build(d):
    ds = rt_designspace(d["family"], frac=d["frac"])
    bounds = rt_axis_bounds(ds)
    rt_fresh.register(ds, bounds)
    return {"designspace": ds, "axis_bounds": bounds}


for _fn in ("collect_info_masters", "collect_kerning_masters"):
    CONTRACTS["ufo2ft.instantiator:" + _fn].runtime = Runtime(_collect_cases, _collect_build)


# =====================================================================================================
# 7. collect_glyph_masters: the layers that contain the glyph (default required); empty-glyph rule
# =====================================================================================================
def _glyph_len(ex, st, v):
    return ex.read_field(st, v, "ncontours")


cls(
    "SrcGlyph",
    fields={"data": MDATA, "ncontours": INT, "components": List(STR)},
    length=_glyph_len,
    notes="a source glyph: abstract content; len() = number of contours (>= 0); components = base names (assumed attribute bag)",
)


cls(
    "Layer",
    fields={"glyphs": Dict(STR, Ref("SrcGlyph"))},
    getitem=lambda ex, st, self, idx, node: ex.getitem(ex.read_field(st, self, "glyphs"), idx, st, node),
    contains=lambda ex, st, self, x: z3.Select(Dict(STR, Ref("SrcGlyph")).sort().dom(ex.read_field(st, self, "glyphs").term), lift(x, STR)),
    notes="a source layer as handed to the Instantiator: dict glyph name -> glyph",
)

# MathGlyph exposes its contour / component lists (only their emptiness is specified)
CLASSES["MathObj"].fields["contours"] = List(INT)
CLASSES["MathObj"].fields["components"] = List(INT)


@specfn(MDATA, opaque=True, glyph=MDATA)
def mathglyph_of(glyph):
    """content of fontMath.MathGlyph(glyph, strict=True)"""
    import fontMath

    return math_snapshot(fontMath.MathGlyph(glyph, strict=True))


@trusted(
    "fontMath.mathGlyph.MathGlyph",
    "MathGlyph(glyph, strict=True) returns a NEW object whose content is a function (mathglyph_of) of the glyph's content; its .contours / "
    ".components are empty exactly when the glyph has no contours / no components; the glyph is not modified",
)
def _mathglyph(ex, st, args, kwargs, node):
    if len(args) != 1 or set(kwargs) - {"strict"}:
        raise Unsupported("MathGlyph(...) arguments", node)
    g = args[0]
    r = ex.new_object(st, "MathObj")
    f = ex.spec_decl(api_specfn("mathglyph_of"))
    ex.write_field(st, r, "data", Val(MDATA, f(lift(ex.read_field(st, g, "data")))), node)
    ex.write_field(st, r, "kind", Val(INT, z3.IntVal(KIND_GLYPH)), node)
    cont = fresh(List(INT), "contours")
    comp = fresh(List(INT), "components")
    st.assume((z3.Length(cont) == 0) == (lift(ex.read_field(st, g, "ncontours")) == 0))
    st.assume((z3.Length(comp) == 0) == (z3.Length(lift(ex.read_field(st, g, "components"))) == 0))
    ex.write_field(st, r, "contours", Val(List(INT), cont), node)
    ex.write_field(st, r, "components", Val(List(INT), comp), node)
    return r


LAYERS = List(Tuple(Ref("Location"), Ref("Layer")))



@specfn(BOOL, layers=LAYERS, a=INT, name=STR)
def has_glyph(layers, a, name):
    return name in layers[a][1]


@specfn(BOOL, layers=LAYERS, a=INT, name=STR)
def empty_at(layers, a, name):
    """the glyph in layer a has neither contours nor components"""
    return len(layers[a][1][name]) == 0 and len(layers[a][1][name].components) == 0


@specfn(INT, layers=LAYERS, name=STR, i=INT)
def nhas(layers, name, i):
    """number of layers among the first i that contain the glyph"""
    if i <= 0:
        return 0
    if has_glyph(layers, i - 1, name):
        return nhas(layers, name, i - 1) + 1
    return nhas(layers, name, i - 1)


def _nonempty_master(m):
    return bool(m.contours or m.components)


nonempty_master = _accessor("nonempty_master", _nonempty_master, "data", "unused")
# in the logic: contours or components non-empty
trusted("contracts.c19.nonempty_master", "specification accessor: a MathGlyph has contours or components")(
    lambda ex, st, args, kwargs, node: Val(BOOL, z3.Or(z3.Length(lift(ex.read_field(st, args[0], "contours"))) != 0, z3.Length(lift(ex.read_field(st, args[0], "components"))) != 0))
)
_ACCESSORS["nonempty_master"] = nonempty_master

_NH = "nhas(source_layers, glyph_name, {})"
_HAS = "has_glyph(source_layers, {}, glyph_name)"
_EMP = "empty_at(source_layers, {}, glyph_name)"
_DI = "default_source_idx"
_GM_ENTRY = (
    "items_of({L}[" + _NH.format("a") + "][0]) == norm_pairs(items_of(source_layers[a][0]), axis_bounds)"
    " and data_of({L}[" + _NH.format("a") + "][1]) == mathglyph_of(src_data(source_layers[a][1][glyph_name]))"
    " and nonempty_master({L}[" + _NH.format("a") + "][1]) == (not " + _EMP.format("a") + ")"
)
_GM_MEMBER = "items_of(result[k][0]) == norm_pairs(items_of(source_layers[a][0]), axis_bounds) and data_of(result[k][1]) == mathglyph_of(src_data(source_layers[a][1][glyph_name]))"
_DROP = f"(not {_EMP.format(_DI)} and any(a != {_DI} and {_HAS.format('a')} and {_EMP.format('a')} for a in range(len(source_layers))))"

contract(
    "ufo2ft.instantiator:collect_glyph_masters",
    props=["C19"],
    params={"source_layers": LAYERS, "glyph_name": STR, "axis_bounds": BOUNDS, "default_source_idx": INT},
    returns=List(Tuple(Ref("Location"), Ref("MathObj"))),
    requires=[
        f"0 <= {_DI} and {_DI} < len(source_layers)",  # Instantiator.__post_init__ computes it as an index into source_layers
        "all(allocated(source_layers[a][0]) and allocated(source_layers[a][1]) for a in range(len(source_layers)))",
        # len(glyph) is a count
        "all(implies(" + _HAS.format("a") + ", len(source_layers[a][1][glyph_name]) >= 0) for a in range(len(source_layers)))",
    ],
    raises={"InstantiatorError": f"not {_HAS.format(_DI)}"},
    ensures={
        # no empty glyph is dropped unless the default is non-empty and another master is empty: then the result lists exactly the layers
        # that contain the glyph (sparse layers skipped), in source order, each at its normalized location wrapping its own glyph
        "count-unfiltered": f"implies(not {_DROP}, len(result) == " + _NH.format("len(source_layers)") + ")",
        "entries-unfiltered": f"implies(not {_DROP}, all(implies({_HAS.format('a')}, 0 <= " + _NH.format("a") + " and " + _NH.format("a") + " < len(result) and "
        + _GM_ENTRY.format(L="result") + ") for a in range(len(source_layers))))",
        # filtered: only non-empty masters remain
        "filtered-nonempty": f"implies({_DROP}, all(nonempty_master(result[k][1]) for k in range(len(result))))",
        "filtered-size": f"implies({_DROP}, len(result) <= " + _NH.format("len(source_layers)") + ")",
        # every entry is a newly made (normalized location, MathGlyph) pair
        "new-objects": "all(fresh(result[k][0]) and fresh(result[k][1]) and allocated(result[k][0]) and allocated(result[k][1]) for k in range(len(result)))",
        "math-glyphs": "all(result[k][1].kind == 0 for k in range(len(result)))",
        # the default source's glyph is always among the masters
        "non-empty": "len(result) >= 1",
    },
    bounded_ensures={
        # run time only (the engine's model of a filtering comprehension keeps membership but not order; the membership proof needs a
        # witness chain the solvers do not find): the filtered result lists exactly the non-empty masters, in source order
        "filtered-exact": f"implies({_DROP}, [(items_of(r[0]), data_of(r[1])) for r in result] == "
        "[(norm_pairs(items_of(source_layers[a][0]), axis_bounds), mathglyph_of(src_data(source_layers[a][1][glyph_name]))) for a in range(len(source_layers)) if "
        + _HAS.format("a") + " and not " + _EMP.format("a") + "])",
        "unfiltered-exact": f"implies(not {_DROP}, [(items_of(r[0]), data_of(r[1])) for r in result] == "
        "[(norm_pairs(items_of(source_layers[a][0]), axis_bounds), mathglyph_of(src_data(source_layers[a][1][glyph_name]))) for a in range(len(source_layers)) if "
        + _HAS.format("a") + "])",
    },
    canaries={"never-filters": "len(result) == " + _NH.format("len(source_layers)"), "always-all-layers": "len(result) == len(source_layers)"},
    locals={"locations_and_masters": List(Tuple(Ref("Location"), Ref("MathObj"))), "default_glyph_empty": BOOL, "other_glyph_empty": BOOL},
    loops={
        "for (i, (location, source_layer)) in enumerate(source_layers)": Loop(
            index="j",
            invariants={
                "nonneg": "all(" + _NH.format("a") + " >= 0 for a in range(j))",
                "nonneg-here": _NH.format("j") + " >= 0",
                "len": "len(locations_and_masters) == " + _NH.format("j"),
                "mono": f"all(implies({_HAS.format('a')}, " + _NH.format("a") + " < " + _NH.format("j") + ") for a in range(j))",
                "default-present": f"implies({_DI} < j, {_HAS.format(_DI)})",
                "default-flag": f"default_glyph_empty == ({_DI} < j and {_EMP.format(_DI)})",
                "other-flag": f"other_glyph_empty == any(a != {_DI} and {_HAS.format('a')} and {_EMP.format('a')} for a in range(j))",
                "alive": "all(locations_and_masters[k][0] in alloc_view.allocated_locations and locations_and_masters[k][1] in alloc_view.allocated for k in range(len(locations_and_masters)))",
                "new": "all(fresh(locations_and_masters[k][0]) and fresh(locations_and_masters[k][1]) for k in range(len(locations_and_masters)))",
                "kinds": "all(locations_and_masters[k][1].kind == 0 for k in range(len(locations_and_masters)))",
                **frame_ghosts(["h_data", "h_kind", "h_contours", "h_components", "h_pairs"])[1],
                "entries": f"all(implies({_HAS.format('a')}, " + _GM_ENTRY.format(L="locations_and_masters") + ") for a in range(j))",
            },
        )
    },
    globals={"fresh": rt_fresh, "alloc_view": _ALLOC_VIEW, **_ACCESSORS},
    ghost_vars=frame_ghosts(["h_data", "h_kind", "h_contours", "h_components", "h_pairs"])[0],
)


def _glyph_master_cases(rng, n):
    out = []
    for fam in FAMILIES:
        for name in GLYPHS + ["only.here"]:
            for empty_s in (False, True):
                if empty_s and name not in ("s", "e"):
                    continue
                out.append({"family": fam, "glyph": name, "empty_s": empty_s, "extra": name == "only.here"})
    rng.shuffle(out)
    return out[:n]


def _glyph_master_build(d):
    from ufo2ft.instantiator import Instantiator

    ds = rt_designspace(d["family"], empty_s=d["empty_s"], extra_glyph=d["extra"])
    inst = Instantiator.from_designspace(ds, do_info=False, do_kerning=False)
    rt_fresh.register(inst.source_layers, inst.axis_bounds)
    return {"source_layers": inst.source_layers, "glyph_name": d["glyph"], "axis_bounds": inst.axis_bounds, "default_source_idx": inst.default_source_idx}


CONTRACTS["ufo2ft.instantiator:collect_glyph_masters"].runtime = Runtime(_glyph_master_cases, _glyph_master_build)


# =====================================================================================================
# 8. the abstract swap (conjugation by the transposition of two glyph names) and its involution lemmas
# =====================================================================================================
# swap_glyph_names itself is outside pyvc's subset (it calls the closure returned by _getNewGlyphFactory and drives point pens);
# its conformance to THIS specification is checked on real fonts by the bounded observer (vcheck/hooks/c19.py, `swap_spec`).
NAMEPAIR = Tuple(STR, STR)


@specfn(STR, a=STR, b=STR, n=STR)
def swapname(a, b, n):
    """the transposition (a b) applied to a glyph name"""
    if n == a:
        return b
    if n == b:
        return a
    return n


@specfn(NAMEPAIR, a=STR, b=STR, k=NAMEPAIR)
def swappair(a, b, k):
    """the transposition applied to both sides of a kerning key"""
    return (swapname(a, b, k[0]), swapname(a, b, k[1]))


lemma(
    "C19.lemma.involution.names",
    props=["C19"],
    vars={"a": STR, "b": STR, "n": STR, "m": STR},
    hyps=[],
    concl={
        "twice-is-identity": "swapname(a, b, swapname(a, b, n)) == n",
        "injective": "implies(swapname(a, b, n) == swapname(a, b, m), n == m)",
        "only-the-two-move": "implies(n != a and n != b, swapname(a, b, n) == n)",
        "exchanges": "swapname(a, b, a) == b and implies(a != b, swapname(a, b, b) == a)",
    },
    canaries={"identity": "swapname(a, b, n) == n"},
)

lemma(
    "C19.lemma.involution.kerning-keys",
    props=["C19"],
    vars={"a": STR, "b": STR, "k": NAMEPAIR, "l": NAMEPAIR},
    hyps=[],
    concl={
        "twice-is-identity": "swappair(a, b, swappair(a, b, k)) == k",
        # sigma x sigma is injective on keys: building the new kerning dict never overwrites an entry
        "no-collision": "implies(swappair(a, b, k) == swappair(a, b, l), k == l)",
    },
    canaries={"identity": "swappair(a, b, k) == k"},
)

# a kerning dict seen as (key set, value map): the insertion order of the keys plays no role in the statement, and the engine's
# well-formedness axioms for Dict key sequences only get in the solvers' way here
KERNKEYS = Set(NAMEPAIR)
KERNVALS = Map(NAMEPAIR, REAL)
_SWAPPED_KERN = "all(swappair(a, b, k) in D{B} and V{B}[swappair(a, b, k)] == V{A}[k] for k in D{A}) and all(swappair(a, b, k) in D{A} for k in D{B})"

lemma(
    "C19.lemma.involution.kerning",
    props=["C19"],
    vars={"a": STR, "b": STR, "D0": KERNKEYS, "V0": KERNVALS, "D1": KERNKEYS, "V1": KERNVALS, "D2": KERNKEYS, "V2": KERNVALS},
    # (D1, V1) = (D0, V0) with every key conjugated (same values), (D2, V2) = (D1, V1) with every key conjugated
    hyps=[_SWAPPED_KERN.format(A="0", B="1"), _SWAPPED_KERN.format(A="1", B="2")],
    concl={"restored-values": "all(k in D2 and V2[k] == V0[k] for k in D0)", "restored-keys": "all(k in D0 for k in D2)"},
    canaries={"unchanged-after-one": "all(k in D1 and V1[k] == V0[k] for k in D0)"},
)

_SWAPPED_LIST = "len({B}) == len({A}) and all({B}[i] == swapname(a, b, {A}[i]) for i in range(len({A})))"

lemma(
    "C19.lemma.involution.members",
    props=["C19"],
    vars={"a": STR, "b": STR, "G0": List(STR), "G1": List(STR), "G2": List(STR)},
    # group member lists and component base-name lists: mapped element-wise, order and multiplicity kept
    hyps=[_SWAPPED_LIST.format(A="G0", B="G1"), _SWAPPED_LIST.format(A="G1", B="G2")],
    concl={"restored": "len(G2) == len(G0) and all(G2[i] == G0[i] for i in range(len(G0)))"},
    canaries={"unchanged-after-one": "all(G1[i] == G0[i] for i in range(len(G0)))"},
)

GLYPHMAP = Map(STR, MDATA)
_SWAPPED_GLYPHS = "all({B}[n] == {A}[swapname(a, b, n)] for n in names)"

lemma(
    "C19.lemma.involution.glyph-content",
    props=["C19"],
    vars={"a": STR, "b": STR, "names": Set(STR), "C0": GLYPHMAP, "C1": GLYPHMAP, "C2": GLYPHMAP},
    # outline / width / anchors of glyph n after a swap = those of sigma(n) before; both names are glyphs of the font
    hyps=["a in names and b in names", _SWAPPED_GLYPHS.format(A="C0", B="C1"), _SWAPPED_GLYPHS.format(A="C1", B="C2")],
    concl={"restored": "all(C2[n] == C0[n] for n in names)", "others-untouched": "all(implies(n != a and n != b, C1[n] == C0[n]) for n in names)"},
    canaries={"unchanged-after-one": "all(C1[n] == C0[n] for n in names)"},
)
