"""C17 — BaseFeatureWriter._insert under deductive contract: the list-splice specification.

`_insert(feaFile, classDefs, anchorDefs, markClassDefs, lookups, features)` for ONE generated feature block (`features == [f]`, the
call shape of the curs writer and of the kern / mark writers when they generate a single feature): the WHOLE resulting statement list,
case by case (no marker / marker alone / at the top / at the bottom / in the middle of the user's block of that tag), the statements of the
marked block, the split-off second half, and the frame.
"""
import z3

from pyvc import ty as T
from pyvc.api import BOOL, CLASSES, CONTRACTS, INT, STR, Const, Dict, List, Loop, Opt, Ref, Runtime, Set, Tuple, cls, contract
from pyvc.core import Val, lift
from pyvc.symex import FuncRef

from . import c17
from . import c17_model as M
from .c17_model import FEAFILE, NODE, NS

NODES = List(Ref(NODE))
BFW = "ufo2ft.featureWriters.baseFeatureWriter:BaseFeatureWriter"

# ---- id() ---------------------------------------------------------------------------------------------------------------

_ID = z3.Function("c17_id", T.RefSort, z3.IntSort())
_ID_INV = z3.Function("c17_id_inv", z3.IntSort(), T.RefSort)


@M.shim_function("id", "builtins.id(o): an integer that identifies the object (injective on live objects)")
def _id(ex, st, args, kwargs, node):
    (o,) = args
    r = lift(o)
    st.assume(_ID_INV(_ID(r)) == r)
    return Val(INT, _ID(r))


_GLOBALS = {"ast": M.fea_shim(), "isinstance": M.ISINSTANCE, "id": Val.obj(FuncRef(_id, "c17shim.id"))}
_F0 = Val(Ref(NODE), z3.Const("c17_feature0", T.RefSort))

IC = "self.context.insertComments"
S0 = "feaFile.statements0"
F = "feaFile.statements"
f = "features[0]"
MARKED = f"({IC} is not None and {f}.name in {IC})"
b = f"{IC}[{f}.name][0]"
c = f"{IC}[{f}.name][1]"
m = f"{b}.statements0.index({c})"
p = f"{S0}.index({b})"
# the two tests of the code, on the block as it was on entry (the marker itself is a comment)
CB = f"all(s.kind == 'Comment' for s in {b}.statements0[:{m}])"
CA = f"all(s.kind == 'Comment' for s in {b}.statements0[{m}:])"
LK = "(lookups if lookups is not None else [])"
NL = f"len({LK})"

_LEN = ["0 <= index", "index <= len(statements)", "len(statements[:index]) == index"]
_B0 = "block.statements0"
HINTS = {
    "markerIndex = block.statements.index(comment)": ["0 <= markerIndex", "markerIndex < len(block.statements)", f"len({_B0}[:markerIndex]) == markerIndex"],
    "del block.statements[markerIndex]": [f"block.statements := {_B0}[:markerIndex] + {_B0}[markerIndex + 1:]"],
    "index = statements.index(block)": _LEN,
    "index = statements.index(block) + 1": _LEN,
    "statements.remove(block)": [f"statements := {S0}[:index] + {S0}[index + 1:]"] + _LEN,
    "afterBlock.statements = block.statements[markerIndex:]": [f"afterBlock.statements := {_B0}[markerIndex + 1:]"],
    "statements.insert(index, afterBlock)": [f"statements := {S0}[:index] + [afterBlock] + {S0}[index:]"],
    "block.statements = block.statements[:markerIndex]": [f"block.statements := {_B0}[:markerIndex]"],
    # gP / gS (ghost): the statement list is gP + gS when the generated feature goes in, with len(gP) == index
    "statements.insert(index, feature)": ["len(gP) == index", "statements := gP + [feature] + gS"],
    "feaFile.statements = statements = others + statements": ["feaFile.statements := others + gP + gL + [features[0]] + gS", "len(others + gP + gL) == len(others) + len(gP) + len(gL)",
                                                               "implies(g_mid, feaFile.statements[len(others) + len(gP) + len(gL) + 1] == gA)", "feaFile.statements[:len(others)] == others"],
    "minindex = min(indices)": ["minindex == len(gP)", "len(statements[:minindex]) == minindex", "statements[:minindex] == gP", "statements[minindex:] == [features[0]] + gS"],
    "feaFile.statements = statements = statements[:minindex] + lookups + statements[minindex:]": ["statements := gP + lookups + [features[0]] + gS", "feaFile.statements := gP + lookups + [features[0]] + gS"],
}
_SPLIT = [f"gP = {S0}[:index]", f"gS = {S0}[index:]"]
GHOST = {
    "index = len(statements)": ["gP = [] + statements", "gS = statements[:0]"],
    "index = statements.index(block)": _SPLIT,
    "index = statements.index(block) + 1": _SPLIT,
    "statements.remove(block)": [f"gS = {S0}[index + 1:]"],
    "statements.insert(index, afterBlock)": [f"gS = [afterBlock] + {S0}[index:]", "gA = afterBlock", "g_mid = True"],
    "feaFile.statements = statements = statements[:minindex] + lookups + statements[minindex:]": ["gL = [] + lookups"],
}


_UNMARKED_STMTS = {"index = len(statements)", "statements.insert(index, feature)", "minindex = min(indices)",
                   "feaFile.statements = statements = statements[:minindex] + lookups + statements[minindex:]", "feaFile.statements = statements = others + statements"}


def insert_one(name, defs, unmarked_only=False):
    """features == [f]: the whole result.  `defs`: which of classDefs / anchorDefs / markClassDefs are symbolic (the others are None)"""
    D = [d for d in ("classDefs", "anchorDefs", "markClassDefs") if d in defs]
    # length of the definitions prefix: each non-empty list is followed by one fresh `Comment("")`
    nD = " + ".join(f"(len({d}) + 1 if {d} is not None and len({d}) > 0 else 0)" for d in D) or "0"
    PRE = f"{F}[:{nD}] + " if D else ""
    splice = lambda cut, cut2: f"{F} == {PRE}{S0}[:{cut}] + {LK} + [{f}] + {S0}[{cut2}:]"  # noqa: E731
    A = f"{F}[{nD} + {p} + 2 + {NL}]"
    mid = f"{MARKED} and not {CB} and not {CA}"
    cases = {
        # no marker: appended after everything the user wrote (lookups directly before it)
        "unmarked": f"implies(not {MARKED}, {splice(f'len({S0})', f'len({S0})')})",
        # the block holds nothing but comments and the marker: the generated feature replaces the block
        "alone": f"implies({MARKED} and {CB} and {CA}, {splice(p, p + ' + 1')})",
        # marker at the top (only comments before it): directly BEFORE the user's block
        "top": f"implies({MARKED} and {CB} and not {CA}, {splice(p, p)})",
        # marker at the bottom (only comments after it): directly AFTER the user's block
        "bottom": f"implies({MARKED} and not {CB} and {CA}, {splice(p + ' + 1', p + ' + 1')})",
        # marker in the middle: first half of the block in place, generated feature, second half (a fresh block), the rest
        "middle": f"implies({mid}, {F} == {PRE}{S0}[:{p} + 1] + {LK} + [{f}, {A}] + {S0}[{p} + 1:])",
    }
    ens = {
        "whole-list": " and ".join(f"({v})" for v in cases.values()),
        # the marker comment is consumed; everything else in the block stays, in order; a middle marker splits the block
        "marked-block": f"implies({MARKED} and ({CB} or {CA}), {b}.statements == {b}.statements0[:{m}] + {b}.statements0[{m} + 1:])"
        f" and implies({mid}, {b}.statements == {b}.statements0[:{m}])",
        "second-half": f"implies({mid}, fresh({A}) and {A}.kind == 'FeatureBlock' and {A}.name == {b}.name and {A}.statements == {b}.statements0[{m} + 1:])",
    }
    for k, d in enumerate(D):
        # generated definitions first, in the order class / anchor / mark-class, each non-empty list followed by a fresh empty comment
        off = " + ".join(f"(len({e}) + 1 if {e} is not None and len({e}) > 0 else 0)" for e in D[:k]) or "0"
        sep = f"{F}[{off} + len({d})]"
        ens[f"{d}-on-top"] = f"implies({d} is not None and len({d}) > 0, {F}[{off}:{off} + len({d})] == {d} and {sep}.kind == 'Comment' and {sep}.text == '' and fresh({sep}))"
    params = {
        "self": Ref("c17_Writer"),
        "feaFile": Ref(FEAFILE),
        "lookups": Opt(NODES),
        "features": Const([_F0]),
    }
    for d in ("classDefs", "anchorDefs", "markClassDefs"):
        params[d] = Opt(NODES) if d in D else Const(None)
    req = [
        # setContext's postcondition `markers` for this feature: (top-level block, marker comment inside it)
        f"implies({MARKED}, {b} in feaFile.statements and {c} in {b}.statements and {c}.kind == 'Comment')",
        "allocated(features[0])",
    ] + ([f"{IC} is None"] if unmarked_only else []) + [
        # heap well-formedness: what the context refers to existed before the call
        f"implies({MARKED}, allocated({b}) and allocated({c}))",
    ]
    return contract(
        BFW + "._insert",
        name=name,
        props=["C17"],
        params=params,
        globals=_GLOBALS,
        requires=req,
        modifies=[f"{FEAFILE}.statements", f"{NODE}.statements"],
        locals={"inserted": Dict(INT, BOOL), "others": NODES},
        ensures=ens,
        canaries={"unchanged": f"{F} == {S0}"},
        hints={k: v + ([f"len(others) == {nD}"] if D and k == "feaFile.statements = statements = others + statements" else [])
               for k, v in HINTS.items() if not unmarked_only or k in _UNMARKED_STMTS},
        ghost_vars={"gP": (NODES, "[]"), "gS": (NODES, "[]"), "gL": (NODES, "[]"), "g_mid": (BOOL, "False"), "gA": (Ref(NODE), "features[0]")},
        ghost={k: v for k, v in GHOST.items() if not unmarked_only or k in _UNMARKED_STMTS},
        merge_branches=False,
    )


insert_one("one", ())
# generated definitions: one list symbolic at a time (the kern writer passes classDefs, the mark writer markClassDefs, nobody anchorDefs), in the
# case without insert markers (the marker logic is the variant above; the two parts of the function share nothing but `statements`)
insert_one("one-classdefs", ("classDefs",), unmarked_only=True)
insert_one("one-markclassdefs", ("markClassDefs",), unmarked_only=True)


# ---- run-time side: the hook's finite domain of user files, restricted to calls with exactly one generated feature ------------------


def _one_cases(no_marker):
    def gen(rng, n):
        from vcheck.hooks import c17 as H

        pool = [c for c in H.insert_domain("quick") if len(c["features"]) == 1]
        rng.shuffle(pool)
        # the corner cases first: no block / no marker / marker alone / top / bottom / middle / between comments, with and without lookups
        corner = [{"top": [["S"]] + ([["kern", ks]] if ks else []) + [["S"]], "features": ["kern"], "lookups": lk, "classdefs": 0}
                  for ks in ([], ["R"], ["M"], ["M", "R"], ["R", "M"], ["R", "M", "R"], ["C", "M", "C"], ["C", "M", "R"], ["R", "M", "C"]) for lk in (0, 2)]
        pool = corner + pool
        out = []
        for c in pool:
            c = dict(c, no_marker=no_marker)
            if no_marker:
                c["classdefs"] = 1 + len(out) % 2
            out.append(c)
            if len(out) >= max(n, 40):
                break
        return out

    return gen


def _one_build(defs_param):
    def build(case):
        from vcheck.hooks import c17 as H

        w, fea, gen = H.build_insert_case(case)
        if case.get("no_marker"):
            w.insertFeatureMarker = None
        ctx = w.setContext(None, fea)
        feats = [x for x in gen["features"] if x.name in ctx.todo]
        if len(feats) != 1:
            feats = gen["features"][:1]
        M.snapshot(fea, extra=feats + gen["lookups"] + gen["classDefs"])
        args = {"self": w, "feaFile": fea, "lookups": gen["lookups"] or None, "features": feats, "classDefs": None, "anchorDefs": None, "markClassDefs": None}
        if defs_param:
            args[defs_param] = gen["classDefs"] or None
        return args

    return build


def _one_call(fn, a):
    return fn(a["self"], M.raw(a["feaFile"]), classDefs=a["classDefs"], anchorDefs=a["anchorDefs"], markClassDefs=a["markClassDefs"], lookups=a["lookups"], features=a["features"])


CONTRACTS[BFW + "._insert#one"].runtime = Runtime(_one_cases(False), _one_build(None), call=_one_call)
CONTRACTS[BFW + "._insert#one-classdefs"].runtime = Runtime(_one_cases(True), _one_build("classDefs"), call=_one_call)
CONTRACTS[BFW + "._insert#one-markclassdefs"].runtime = Runtime(_one_cases(True), _one_build("markClassDefs"), call=_one_call)
