"""C17 — BaseFeatureWriter._insert under deductive contract: the list-splice specification.

`_insert(feaFile, classDefs, anchorDefs, markClassDefs, lookups, features)` for ONE generated feature block (`features == [f]`, the
call shape of the curs writer and of the kern / mark writers when they generate a single feature): the WHOLE resulting statement list,
case by case (no marker / marker alone / at the top / at the bottom / in the middle of the user's block of that tag), the statements of the
marked block, the split-off second half, and the frame.
"""
import z3

from pyvc import ty as T
from pyvc.api import BOOL, CLASSES, CONTRACTS, INT, STR, Const, Dict, List, Loop, Opt, Ref, Runtime, Set, Tuple, cls, contract
from pyvc.core import Val, lift
from pyvc.symex import FuncRef

from . import c17
from . import c17_model as M
from .c17_model import FEAFILE, NODE, NS

NODES = List(Ref(NODE))
BFW = "ufo2ft.featureWriters.baseFeatureWriter:BaseFeatureWriter"

# ---- id() ---------------------------------------------------------------------------------------------------------------

_ID = z3.Function("c17_id", T.RefSort, z3.IntSort())
_ID_INV = z3.Function("c17_id_inv", z3.IntSort(), T.RefSort)


@M.shim_function("id", "builtins.id(o): an integer that identifies the object (injective on live objects)")
def _id(ex, st, args, kwargs, node):
    (o,) = args
    r = lift(o)
    st.assume(_ID_INV(_ID(r)) == r)
    return Val(INT, _ID(r))


_GLOBALS = {"ast": M.fea_shim(), "isinstance": M.ISINSTANCE, "id": Val.obj(FuncRef(_id, "c17shim.id"))}
_F0 = Val(Ref(NODE), z3.Const("c17_feature0", T.RefSort))

IC = "self.context.insertComments"
S0 = "feaFile.statements0"
F = "feaFile.statements"
f = "features[0]"
MARKED = f"({IC} is not None and {f}.name in {IC})"
b = f"{IC}[{f}.name][0]"
c = f"{IC}[{f}.name][1]"
m = f"{b}.statements0.index({c})"
p = f"{S0}.index({b})"
# the two tests of the code, on the block as it was on entry (the marker itself is a comment)
CB = f"all(s.kind == 'Comment' for s in {b}.statements0[:{m}])"
CA = f"all(s.kind == 'Comment' for s in {b}.statements0[{m}:])"
LK = "(lookups if lookups is not None else [])"
NL = f"len({LK})"

_LEN = ["0 <= index", "index <= len(statements)", "len(statements[:index]) == index"]
_B0 = "block.statements0"
HINTS = {
    "markerIndex = block.statements.index(comment)": ["0 <= markerIndex", "markerIndex < len(block.statements)", f"len({_B0}[:markerIndex]) == markerIndex"],
    "del block.statements[markerIndex]": [f"block.statements := {_B0}[:markerIndex] + {_B0}[markerIndex + 1:]"],
    "index = statements.index(block)": _LEN,
    "index = statements.index(block) + 1": _LEN,
    "statements.remove(block)": [f"statements := {S0}[:index] + {S0}[index + 1:]"] + _LEN,
    "afterBlock.statements = block.statements[markerIndex:]": [f"afterBlock.statements := {_B0}[markerIndex + 1:]"],
    "statements.insert(index, afterBlock)": [f"statements := {S0}[:index] + [afterBlock] + {S0}[index:]"],
    "block.statements = block.statements[:markerIndex]": [f"block.statements := {_B0}[:markerIndex]"],
    # gP / gS (ghost): the statement list is gP + gS when the generated feature goes in, with len(gP) == index
    "statements.insert(index, feature)": ["len(gP) == index", "statements := gP + [feature] + gS"],
    "feaFile.statements = statements = others + statements": ["feaFile.statements := others + gP + gL + [features[0]] + gS", "len(others + gP + gL) == len(others) + len(gP) + len(gL)",
                                                               "implies(g_mid, feaFile.statements[len(others) + len(gP) + len(gL) + 1] == gA)", "feaFile.statements[:len(others)] == others"],
    "minindex = min(indices)": ["minindex == len(gP)", "len(statements[:minindex]) == minindex", "statements[:minindex] == gP", "statements[minindex:] == [features[0]] + gS"],
    "feaFile.statements = statements = statements[:minindex] + lookups + statements[minindex:]": ["statements := gP + lookups + [features[0]] + gS", "feaFile.statements := gP + lookups + [features[0]] + gS"],
}
_SPLIT = [f"gP = {S0}[:index]", f"gS = {S0}[index:]"]
GHOST = {
    "index = len(statements)": ["gP = [] + statements", "gS = statements[:0]"],
    "index = statements.index(block)": _SPLIT,
    "index = statements.index(block) + 1": _SPLIT,
    "statements.remove(block)": [f"gS = {S0}[index + 1:]"],
    "statements.insert(index, afterBlock)": [f"gS = [afterBlock] + {S0}[index:]", "gA = afterBlock", "g_mid = True"],
    "feaFile.statements = statements = statements[:minindex] + lookups + statements[minindex:]": ["gL = [] + lookups"],
}


_UNMARKED_STMTS = {"index = len(statements)", "statements.insert(index, feature)", "minindex = min(indices)",
                   "feaFile.statements = statements = statements[:minindex] + lookups + statements[minindex:]", "feaFile.statements = statements = others + statements"}


_MIDDLE_ONLY = {"afterBlock.statements = block.statements[markerIndex:]", "statements.insert(index, afterBlock)", "block.statements = block.statements[:markerIndex]"}
_NEVER_IN_MIDDLE = {"index = len(statements)", "index = statements.index(block)", "statements.remove(block)"}


def _stmt_runs(k, unmarked_only, middle):
    if unmarked_only:
        return k in _UNMARKED_STMTS
    if middle is True:
        return k not in _NEVER_IN_MIDDLE
    if middle is False:
        return k not in _MIDDLE_ONLY
    return True


def insert_one(name, defs, unmarked_only=False, middle=None):
    """features == [f]: the whole result.  `defs`: which of classDefs / anchorDefs / markClassDefs are symbolic (the others are None)"""
    D = [d for d in ("classDefs", "anchorDefs", "markClassDefs") if d in defs]
    # length of the definitions prefix: each non-empty list is followed by one fresh `Comment("")`
    nD = " + ".join(f"(len({d}) + 1 if {d} is not None and len({d}) > 0 else 0)" for d in D) or "0"
    PRE = f"{F}[:{nD}] + " if D else ""
    splice = lambda cut, cut2: f"{F} == {PRE}{S0}[:{cut}] + {LK} + [{f}] + {S0}[{cut2}:]"  # noqa: E731
    A = f"{F}[{nD} + {p} + 2 + {NL}]"
    mid = f"{MARKED} and not {CB} and not {CA}"
    cases = {
        # no marker: appended after everything the user wrote (lookups directly before it)
        "unmarked": f"implies(not {MARKED}, {splice(f'len({S0})', f'len({S0})')})",
        # the block holds nothing but comments and the marker: the generated feature replaces the block
        "alone": f"implies({MARKED} and {CB} and {CA}, {splice(p, p + ' + 1')})",
        # marker at the top (only comments before it): directly BEFORE the user's block
        "top": f"implies({MARKED} and {CB} and not {CA}, {splice(p, p)})",
        # marker at the bottom (only comments after it): directly AFTER the user's block
        "bottom": f"implies({MARKED} and not {CB} and {CA}, {splice(p + ' + 1', p + ' + 1')})",
        # marker in the middle: first half of the block in place, generated feature, second half (a fresh block), the rest
        "middle": f"implies({mid}, {F} == {PRE}{S0}[:{p} + 1] + {LK} + [{f}, {A}] + {S0}[{p} + 1:])",
    }
    ens = {
        **{"whole-list-" + k: v for k, v in cases.items()},
        # the marker comment is consumed; everything else in the block stays, in order; a middle marker splits the block
        "marked-block": f"implies({MARKED} and ({CB} or {CA}), {b}.statements == {b}.statements0[:{m}] + {b}.statements0[{m} + 1:])",
        "first-half": f"implies({mid}, {b}.statements == {b}.statements0[:{m}])",
        "second-half": f"implies({mid}, fresh({A}) and {A}.kind == 'FeatureBlock' and {A}.name == {b}.name and {A}.statements == {b}.statements0[{m} + 1:])",
    }
    if middle is True:  # the split case on its own: its clauses without the (quantified) case antecedent
        ens = {"split": f"{F} == {PRE}{S0}[:{p} + 1] + {LK} + [{f}, {A}] + {S0}[{p} + 1:]"
               f" and {b}.statements == {b}.statements0[:{m}]"
               f" and fresh({A}) and {A}.kind == 'FeatureBlock' and {A}.name == {b}.name and {A}.statements == {b}.statements0[{m} + 1:]"}
    elif middle is False:
        for k_ in ("whole-list-middle", "first-half", "second-half"):
            ens.pop(k_)
        # one clause for the four remaining cases (fewer obligations; each conjunct is the splice equation of its case)
        ens = {"whole-list": " and ".join(f"({ens.pop('whole-list-' + k_)})" for k_ in ("unmarked", "alone", "top", "bottom")), **ens}
    for k, d in enumerate(D):
        # generated definitions first, in the order class / anchor / mark-class, each non-empty list followed by a fresh empty comment
        off = " + ".join(f"(len({e}) + 1 if {e} is not None and len({e}) > 0 else 0)" for e in D[:k]) or "0"
        sep = f"{F}[{off} + len({d})]"
        ens[f"{d}-on-top"] = f"implies({d} is not None and len({d}) > 0, {F}[{off}:{off} + len({d})] == {d} and {sep}.kind == 'Comment' and {sep}.text == '' and fresh({sep}))"
    params = {
        "self": Ref("c17_Writer"),
        "feaFile": Ref(FEAFILE),
        "lookups": Opt(NODES),
        "features": Const([_F0]),
    }
    for d in ("classDefs", "anchorDefs", "markClassDefs"):
        params[d] = Opt(NODES) if d in D else Const(None)
    req = [
        # setContext's postcondition `markers` for this feature: (top-level block, marker comment inside it)
        f"implies({MARKED}, {b} in feaFile.statements and {c} in {b}.statements and {c}.kind == 'Comment')",
        "allocated(features[0])",
    ] + ([f"{IC} is None"] if unmarked_only else []) + ([mid] if middle is True else [f"not ({mid})"] if middle is False else []) + [
        # heap well-formedness: what the context refers to existed before the call
        f"implies({MARKED}, allocated({b}) and allocated({c}))",
    ]
    return contract(
        BFW + "._insert",
        name=name,
        props=["C17"],
        params=params,
        globals=_GLOBALS,
        requires=req,
        modifies=[f"{FEAFILE}.statements", f"{NODE}.statements"],
        locals={"inserted": Dict(INT, BOOL), "others": NODES},
        ensures=ens,
        canaries={"unchanged": f"{F} == {S0}"},
        portfolio=["cvc5"],  # the closed-form re-binding hints are slice-of-concatenation equations: cvc5 rewrites them, z3-5.1 times out
        hints={k: v + ([f"len(others) == {nD}"] if D and k == "feaFile.statements = statements = others + statements" else [])
               for k, v in HINTS.items() if _stmt_runs(k, unmarked_only, middle)},
        ghost_vars={"gP": (NODES, "[]"), "gS": (NODES, "[]"), "gL": (NODES, "[]"), "g_mid": (BOOL, "False"), "gA": (Ref(NODE), "features[0]")},
        ghost={k: v for k, v in GHOST.items() if _stmt_runs(k, unmarked_only, middle)},
        merge_branches=False,
    )


# one generated feature; the split case (marker between hand-written rules) is a variant of its own so that no obligation has to refute the
# quantified conditions of the other cases inside the (solver-wise heaviest) split path
insert_one("one", (), middle=False)
insert_one("one-split", (), middle=True)

# ---- run-time side: the hook's finite domain of user files, restricted to calls with exactly one generated feature ------------------


def _one_cases(no_marker):
    def gen(rng, n):
        from vcheck.hooks import c17 as H

        pool = [c for c in H.insert_domain("quick") if len(c["features"]) == 1]
        rng.shuffle(pool)
        # the corner cases first: no block / no marker / marker alone / top / bottom / middle / between comments, with and without lookups
        corner = [{"top": [["S"]] + ([["kern", ks]] if ks else []) + [["S"]], "features": ["kern"], "lookups": lk, "classdefs": 0}
                  for ks in ([], ["R"], ["M"], ["M", "R"], ["R", "M"], ["R", "M", "R"], ["C", "M", "C"], ["C", "M", "R"], ["R", "M", "C"]) for lk in (0, 2)]
        pool = corner + pool
        out = []
        for c in pool:
            c = dict(c, no_marker=no_marker)
            if no_marker:
                c["classdefs"] = 1 + len(out) % 2
            out.append(c)
            if len(out) >= max(n, 40):
                break
        return out

    return gen


def _one_build(defs_param):
    def build(case):
        from vcheck.hooks import c17 as H

        w, fea, gen = H.build_insert_case(case)
        if case.get("no_marker"):
            w.insertFeatureMarker = None
        ctx = w.setContext(None, fea)
        feats = [x for x in gen["features"] if x.name in ctx.todo]
        if len(feats) != 1:
            feats = gen["features"][:1]
        M.snapshot(fea, extra=feats + gen["lookups"] + gen["classDefs"])
        args = {"self": w, "feaFile": fea, "lookups": gen["lookups"] or None, "features": feats, "classDefs": None, "anchorDefs": None, "markClassDefs": None}
        if defs_param:
            args[defs_param] = gen["classDefs"] or None
        return args

    return build


def _one_call(fn, a):
    return fn(a["self"], M.raw(a["feaFile"]), classDefs=a["classDefs"], anchorDefs=a["anchorDefs"], markClassDefs=a["markClassDefs"], lookups=a["lookups"], features=a["features"])


CONTRACTS[BFW + "._insert#one"].runtime = Runtime(_one_cases(False), _one_build(None), call=_one_call)


def _split_cases(rng, n):
    """marker between two hand-written rules (comments may stand around it)"""
    blocks = [["R", "M", "R"], ["R", "C", "M", "R"], ["R", "M", "C", "R"], ["C", "R", "M", "R", "C"], ["R", "R", "M", "R"], ["R", "M", "R", "M"]]
    out = [{"top": ([["S"]] if pre else []) + [["kern", ks]] + ([["S"]] if post else []), "features": ["kern"], "lookups": lk, "classdefs": 0}
           for ks in blocks for pre in (False, True) for post in (False, True) for lk in (0, 2)]
    rng.shuffle(out)
    return out[:max(n, 24)]


CONTRACTS[BFW + "._insert#one-split"].runtime = Runtime(_split_cases, _one_build(None), call=_one_call)


# =====================================================================================================================
# ANY number of generated features, no insert marker in play: self.context.insertComments is None (append mode, or a writer without marker
# pattern) or EMPTY (skip mode, no marker found for any feature of the writer -- the common case): everything the user wrote stays where it
# is, untouched; lookups, then the generated features in order, go after it.

_NS0 = f"len({S0})"


def unmarked_any(name, d):
    """d: the one symbolic definitions parameter (or None)"""
    nD = f"(len({d}) + 1 if {d} is not None and len({d}) > 0 else 0)" if d else "0"
    off = f"{nD} + " if d else ""
    ens = {
        # F == [definitions, separator] + S0 + lookups + features, stated position-wise
        "length": f"len({F}) == {off}{_NS0} + {NL} + len(features)",
        "users-statements-untouched-in-place": f"all({F}[{off}q] == {S0}[q] for q in range({_NS0}))",
        "then-the-lookups": f"all({F}[{off}{_NS0} + q] == {LK}[q] for q in range({NL}))",
        "then-the-features-in-order": f"all({F}[{off}{_NS0} + {NL} + q] == features[q] for q in range(len(features)))",
    }
    if d:
        ens["definitions-on-top"] = (f"implies({d} is not None and len({d}) > 0, all({F}[q] == {d}[q] for q in range(len({d})))"
                                     f" and {F}[len({d})].kind == 'Comment' and {F}[len({d})].text == '' and fresh({F}[len({d})]))")
    params = {"self": Ref("c17_Writer"), "feaFile": Ref(FEAFILE), "lookups": Opt(NODES), "features": NODES}
    for x in ("classDefs", "anchorDefs", "markClassDefs"):
        params[x] = Opt(NODES) if x == d else Const(None)
    return contract(
        BFW + "._insert",
        name=name,
        props=["C17"],
        params=params,
        globals=_GLOBALS,
        requires=[f"{IC} is None or len({IC}) == 0", "len(features) > 0"],
        modifies=[f"{FEAFILE}.statements"],
        locals={"inserted": Dict(INT, BOOL), "others": NODES, "indices": List(INT), "statements": NODES},
        ensures=ens,
        canaries={"unchanged": f"{F} == {S0}"},
        loops={
            "for (ix, feature) in enumerate(features)": Loop(index="i", invariants={
                "untouched": f"statements == {S0}", "no-indices": "len(indices) == 0", "none-inserted": "len(inserted) == 0"}),
            "for feature in features": Loop(index="j", seq="FS", invariants={
                "len": f"len(statements) == {_NS0} + j",
                "prefix": f"all(statements[q] == {S0}[q] for q in range({_NS0}))",
                "appended": f"all(statements[{_NS0} + q] == FS[q] for q in range(j))",
                "indices-len": "len(indices) == j",
                "indices": f"all(indices[q] == {_NS0} + q for q in range(j))",
                "none-inserted": "len(inserted) == 0",
            }),
        },
        hints={"minindex = min(indices)": [f"minindex == {_NS0}"]},
        merge_branches=False,
        extract_free=True,
    )


unmarked_any("unmarked-any", None)
unmarked_any("unmarked-any-classdefs", "classDefs")
unmarked_any("unmarked-any-markclassdefs", "markClassDefs")


def _any_cases(rng, n):
    from vcheck.hooks import c17 as H

    pool = list(H.insert_domain("quick"))
    rng.shuffle(pool)
    extra = [{"top": [["S"], ["kern", ["R"]], ["S"]], "features": fs, "lookups": lk, "classdefs": cd} for fs in (["kern"], ["kern", "dist"], ["dist", "mark", "mkmk"]) for lk in (0, 2) for cd in (0, 1, 2)]
    return [dict(c, no_marker=True) for c in (extra + pool)[:max(n, 30)]]


def _any_build(defs_param):
    def build(case):
        from vcheck.hooks import c17 as H

        w, fea, gen = H.build_insert_case(case)
        if case.get("lookups") or not any(el[0] != "S" and "M" in el[1] for el in case["top"]):
            pass  # keep the marker pattern: insertComments == {} (no marker in the file) or the case is skipped by `requires`
        else:
            w.insertFeatureMarker = None
        w.setContext(None, fea)
        if w.context.insertComments:
            w.insertFeatureMarker = None
            w.setContext(None, fea)
        M.snapshot(fea, extra=gen["features"] + gen["lookups"] + gen["classDefs"])
        args = {"self": w, "feaFile": fea, "lookups": gen["lookups"] or None, "features": gen["features"], "classDefs": None, "anchorDefs": None, "markClassDefs": None}
        if defs_param:
            args[defs_param] = gen["classDefs"] or None
        return args

    return build


def _any_call(fn, a):
    return fn(a["self"], a["feaFile"], classDefs=a["classDefs"], anchorDefs=a["anchorDefs"], markClassDefs=a["markClassDefs"], lookups=a["lookups"], features=a["features"])


CONTRACTS[BFW + "._insert#unmarked-any"].runtime = Runtime(_any_cases, _any_build(None), call=_any_call)
CONTRACTS[BFW + "._insert#unmarked-any-classdefs"].runtime = Runtime(_any_cases, _any_build("classDefs"), call=_any_call)
CONTRACTS[BFW + "._insert#unmarked-any-markclassdefs"].runtime = Runtime(_any_cases, _any_build("markClassDefs"), call=_any_call)


# =====================================================================================================================
# TWO generated features, exactly one of them with an insert marker (not in the split position): the dependent-feature logic.
#   * marker on the SECOND: the first (unmarked) feature is a dependent and goes directly in front of the second, at the marker;
#   * marker on the FIRST: the second (unmarked) feature is appended after everything.

_F1 = Val(Ref(NODE), z3.Const("c17_feature1", T.RefSort))


def _sub(s, k):
    """the clause vocabulary above speaks about features[0]; re-target it to features[k]"""
    return s.replace("features[0]", f"features[{k}]")


_HINTS2 = {
    "markerIndex = block.statements.index(comment)": HINTS["markerIndex = block.statements.index(comment)"],
    "del block.statements[markerIndex]": HINTS["del block.statements[markerIndex]"],
    "index = statements.index(block)": ["0 <= index", f"index <= len({S0})", f"len({S0}[:index]) == index"],
    "index = statements.index(block) + 1": ["0 <= index", f"index <= len({S0})", f"len({S0}[:index]) == index"],
    "statements.remove(block)": [f"statements := {S0}[:index] + {S0}[index + 1:]"],
    "statements.insert(index, feature)": ["statements := gP + gM + gS + gT"],
    "statements.insert(index, features[i])": ["statements := gP + gM + gS + gT"],
    "minindex = min(indices)": ["minindex := len(gP)", "statements[:minindex] == gP", "statements[minindex:] == gM + gS + gT"],
    "feaFile.statements = statements = statements[:minindex] + lookups + statements[minindex:]": ["statements := gP + lookups + gM + gS + gT", "feaFile.statements := gP + lookups + gM + gS + gT"],
    "feaFile.statements = statements = others + statements": ["feaFile.statements := others + gP + gL + gM + gS + gT"],
}
_GHOST2 = {
    "index = len(statements)": ["g_app = True"],
    "index = statements.index(block)": [f"gP = {S0}[:index]", f"gS = {S0}[index:]", "g_app = False"],
    "index = statements.index(block) + 1": [f"gP = {S0}[:index]", f"gS = {S0}[index:]", "g_app = False"],
    "statements.remove(block)": [f"gS = {S0}[index + 1:]"],
    "statements.insert(index, feature)": ["gM = gM if g_app else [feature] + gM", "gT = gT + [feature] if g_app else gT"],
    "statements.insert(index, features[i])": ["gM = [features[i]] + gM"],
    "feaFile.statements = statements = statements[:minindex] + lookups + statements[minindex:]": ["gL = [] + lookups"],
}


def insert_two(name, marked):
    """marked: index (0 or 1) of the feature that has the marker; the other one has none"""
    fm, fu = f"features[{marked}]", f"features[{1 - marked}]"
    M_, b_, c_, m_, p_, CB_, CA_ = (_sub(x, marked) for x in (MARKED, b, c, m, p, CB, CA))
    gen = f"[{fu}, {fm}]" if marked == 1 else f"[{fm}]"
    tail = "" if marked == 1 else f" + [{fu}]"
    splice = lambda cut, cut2: f"{F} == {S0}[:{cut}] + {LK} + {gen} + {S0}[{cut2}:]{tail}"  # noqa: E731
    ens = {
        "whole-list": f"implies({CB_} and {CA_}, {splice(p_, p_ + ' + 1')})"
        f" and implies({CB_} and not {CA_}, {splice(p_, p_)})"
        f" and implies(not {CB_} and {CA_}, {splice(p_ + ' + 1', p_ + ' + 1')})",
        "marked-block": f"{b_}.statements == {b_}.statements0[:{m_}] + {b_}.statements0[{m_} + 1:]",
    }
    return contract(
        BFW + "._insert",
        name=name,
        props=["C17"],
        params={"self": Ref("c17_Writer"), "feaFile": Ref(FEAFILE), "lookups": Opt(NODES), "features": Const([_F0, _F1]),
                "classDefs": Const(None), "anchorDefs": Const(None), "markClassDefs": Const(None)},
        globals=_GLOBALS,
        requires=[
            f"{M_} and {b_} in feaFile.statements and {c_} in {b_}.statements and {c_}.kind == 'Comment'",
            f"{fu}.name not in {IC}",
            f"not (not {CB_} and not {CA_})",  # the split case is not covered by this variant
            "features[0] != features[1]", "allocated(features[0])", "allocated(features[1])", f"allocated({b_}) and allocated({c_})",
        ],
        modifies=[f"{FEAFILE}.statements", f"{NODE}.statements"],
        locals={"inserted": Dict(INT, BOOL), "others": NODES, "indices": List(INT)},
        ensures=ens,
        canaries={"unchanged": f"{F} == {S0}"},
        portfolio=["cvc5"],  # the closed-form re-binding hints are slice-of-concatenation equations: cvc5 rewrites them, z3-5.1 times out
        hints={k: v for k, v in _HINTS2.items() if k != ("index = len(statements)" if marked == 1 else "statements.insert(index, features[i])")},
        ghost_vars={"gP": (NODES, "[]"), "gS": (NODES, "[]"), "gL": (NODES, "[]"), "gM": (NODES, "[]"), "gT": (NODES, "[]"), "g_app": (BOOL, "False")},
        ghost={k: v for k, v in _GHOST2.items() if k != ("index = len(statements)" if marked == 1 else "statements.insert(index, features[i])")},
        merge_branches=False,
    )


insert_two("two-second-marked", 1)
insert_two("two-first-marked", 0)


def _two_cases(marked_tag):
    def gen(rng, n):
        blocks = [["M"], ["M", "R"], ["R", "M"], ["C", "M"], ["M", "C"], ["C", "M", "R"], ["R", "C", "M", "C"], ["M", "R", "R"], ["C", "M", "C"]]
        out = [{"top": ([["S"]] if pre else []) + [[marked_tag, ks]] + ([["S"]] if post else []), "features": ["kern", "dist"], "lookups": lk, "classdefs": 0}
               for ks in blocks for pre in (False, True) for post in (False, True) for lk in (0, 2)]
        rng.shuffle(out)
        return out[:max(n, 30)]

    return gen


def _two_build(case):
    from vcheck.hooks import c17 as H

    w, fea, gen = H.build_insert_case(case)
    w.setContext(None, fea)
    M.snapshot(fea, extra=gen["features"] + gen["lookups"])
    return {"self": w, "feaFile": fea, "lookups": gen["lookups"] or None, "features": gen["features"], "classDefs": None, "anchorDefs": None, "markClassDefs": None}


CONTRACTS[BFW + "._insert#two-second-marked"].runtime = Runtime(_two_cases("dist"), _two_build, call=_one_call)
CONTRACTS[BFW + "._insert#two-first-marked"].runtime = Runtime(_two_cases("kern"), _two_build, call=_one_call)
