"""C17 — BaseFeatureWriter.write / shouldContinue: the subclass's `_write` runs iff the to-do set computed by setContext is not
empty; otherwise False is returned and the feature file is not touched.

`write` calls `setContext` and `shouldContinue` through their CONTRACTS (contracts/c17.py, this file).  `_write` is the abstract method
of the subclass: modelled as "may rewrite the feature file in any way, returns any boolean".  Because `write` ends with
`del self.context`, the context computed by setContext is remembered in the ghost field `ctx0` (written by the call glue, never read by
code), and `wrote` / `write_result` record whether `_write` ran and what it returned; the run-time harness instruments a subclass the
same way.
"""
import z3

from pyvc.api import BOOL, CLASSES, CONTRACTS, STR, Ref, Runtime, contract
from pyvc.core import Val, fresh

from . import c17
from . import c17_model as M
from .c17_model import FEAFILE, NODE, NS

BFW = "ufo2ft.featureWriters.baseFeatureWriter:BaseFeatureWriter"
W = "c17_Writer"


def _set_context(ex, st, self, args, kwargs, node):
    """`self.setContext(font, feaFile, compiler=compiler)` through its CONTRACT (compiler is only stored); ghost: ctx0 = the result"""
    kw = {k: v for k, v in kwargs.items() if k != "compiler"}
    r = ex.call_contract(CONTRACTS[BFW + ".setContext"], [self] + list(args), kw, st, node)
    ex.write_field(st, self, "ctx0", r, node)
    return r


def _write_model(ex, st, self, args, kwargs, node):
    """the abstract `_write` of a subclass: any effect on the feature file's statement lists, any boolean result"""
    ex.write_field(st, self, "wrote", Val.const(True), node)
    for cn in (FEAFILE, NODE):
        arr = ex.field_array(st, cn, "statements")
        st.heap[(cn, "statements")] = z3.Const(f"H_after_write_{cn}_statements", arr.sort())
    r = Val(BOOL, fresh(BOOL, "write_result"))
    ex.write_field(st, self, "write_result", r, node)
    return r


_write_model.modifies = [f"{W}.wrote", f"{W}.write_result", f"{FEAFILE}.statements", f"{NODE}.statements"]

CLASSES[W].fields.update({"ctx0": Ref(NS), "wrote": BOOL, "write_result": BOOL})
CLASSES[W].methods.update({"setContext": _set_context, "_write": _write_model, "shouldContinue": BFW + ".shouldContinue"})
CLASSES[W].views["ctx0"] = lambda o: M.P(o.ctx0)
CLASSES[W].notes += "; ghost fields ctx0 / wrote / write_result (write): the context setContext returned, whether the subclass's `_write` ran, its result"

contract(
    BFW + ".shouldContinue",
    props=["C17"],
    params={"self": Ref(W)},
    returns=BOOL,
    ensures={"iff-todo-not-empty": "iff(result, self.context.todo)"},
    canaries={"always": "result"},
)

_SKIP = "self.mode == 'skip'"
_MARKED = "(self.insertFeatureMarker is not None and self.ctx0.insertComments is not None and t in self.ctx0.insertComments)"

contract(
    BFW + ".write",
    props=["C17"],
    params={"self": Ref(W), "font": Ref("c17_Font"), "feaFile": Ref(FEAFILE)},
    returns=BOOL,
    requires=["not self.wrote"],
    modifies=[f"{W}.context", f"{W}.ctx0", f"{W}.wrote", f"{W}.write_result", f"{FEAFILE}.statements", f"{NODE}.statements"],
    ensures={
        # the subclass's `_write` runs iff the to-do set computed by setContext is not empty ...
        "write-iff-todo": "iff(self.wrote, self.ctx0.todo)",
        # ... and that set obeys the to-do rule (setContext's contract, restated on the remembered context; tags of the file as it was on entry)
        "todo-skip": f"implies({_SKIP}, all(iff(t in self.ctx0.todo, t not in feaFile.featureTags0 or {_MARKED}) for t in self.features))",
        "todo-append": f"implies(not {_SKIP}, all(t in self.ctx0.todo for t in self.features))",
        # nothing to do: False is returned and the feature file is not touched
        "skipped-untouched": "implies(not self.wrote, result == False and feaFile.statements == feaFile.statements0)",
        "result": "implies(self.wrote, result == self.write_result)",
    },
    canaries={"never-writes": "not self.wrote", "always-writes": "self.wrote"},
    merge_branches=False,
)


# ---- run-time side ---------------------------------------------------------------------------------------------------


def _write_build(d):
    import ufoLib2
    from fontTools.feaLib import ast as fa

    from ufo2ft.featureWriters.baseFeatureWriter import BaseFeatureWriter

    class _W(BaseFeatureWriter):
        tableTag = "GPOS"
        features = frozenset(["kern", "dist", "liga"])
        wrote = False
        write_result = False
        ctx0 = None

        def setContext(self, font, feaFile, compiler=None):
            self.ctx0 = super().setContext(font, feaFile, compiler=compiler)
            return self.ctx0

        def _write(self):
            self.wrote = True
            self.context.feaFile.statements.append(fa.Comment("# written"))
            self.write_result = bool(len(self.context.todo) % 2)
            return self.write_result

    w = _W(features=d["features"], mode=d["mode"])
    w.insertFeatureMarker = d["marker"]
    return {"self": w, "font": ufoLib2.Font(), "feaFile": M.snapshot(c17.parse_fea(d["fea"]))}


CONTRACTS[BFW + ".write"].runtime = Runtime(c17._fea_cases, _write_build, call=lambda fn, a: fn(a["self"], a["font"], a["feaFile"]))


def _sc_build(d):
    a = _write_build(d)
    a["self"].setContext(a["font"], a["feaFile"])
    return {"self": a["self"]}


CONTRACTS[BFW + ".shouldContinue"].runtime = Runtime(c17._fea_cases, _sc_build, call=lambda fn, a: fn(a["self"]))
