"""C06 — the abvm / blwm split of the mark feature writer: every anchor goes to exactly one of the two features.

  * MarkFeatureWriter._isAboveMark   True iff the anchor's name is one of the listed "above" names, or is neither a listed "below" name nor starts
                                     with 'bottom' (unknown names go above)
  * MarkFeatureWriter._isBelowMark   the negation: the two filters partition the anchors
The two name sets are the class-level constants of the real class (read from /repo on every run).
"""
from pyvc.api import BOOL, Ref, Runtime, contract

from .c06 import NA, W

_ABOVE = "(anchor.name in self.abvmAnchorNames or not (anchor.name in self.blwmAnchorNames or anchor.name.startswith('bottom')))"
contract(
    W + "MarkFeatureWriter._isAboveMark",
    props=["C06"],
    params={"self": Ref("C06_Writer"), "anchor": NA},
    returns=BOOL,
    ensures={
        "rule": f"result == {_ABOVE}",
        # the sentences of the class documentation, on the constants of the real class
        "listed-above-names": "implies(anchor.name in ('top', 'topleft', 'topright', 'candra', 'bindu', 'candrabindu', 'imatra'), result)",
        "listed-below-names": "implies(anchor.name in ('bottom', 'bottomleft', 'bottomright', 'nukta'), not result)",
        "bottom-prefix-is-below": "implies(anchor.name.startswith('bottom'), not result)",
        "unknown-names-go-above": "implies(not anchor.name.startswith('bottom') and anchor.name not in ('nukta',), result)",
    },
    canaries={"always-above": "result"},
)


def _is_above(ex, st, self, args, kwargs, node):
    from pyvc.api import CONTRACTS

    return ex.call_contract(CONTRACTS[W + "MarkFeatureWriter._isAboveMark"], [self] + list(args), kwargs, st, node)


contract(
    W + "MarkFeatureWriter._isBelowMark",
    props=["C06"],
    params={"self": Ref("C06_Writer"), "anchor": NA},
    returns=BOOL,
    ensures={
        "negation": f"result == (not {_ABOVE})",
        "listed-below-names": "implies(anchor.name in ('bottom', 'bottomleft', 'bottomright', 'nukta'), result)",
    },
    canaries={"always-below": "result"},
)


def _cases(rng, n):
    names = ["top", "topleft", "topright", "candra", "bindu", "candrabindu", "imatra", "bottom", "bottomleft", "bottomright", "nukta", "bottom.alt", "bottomx",
             "ogonek", "top.alt", "Bottom", "nuktax", "abottom", "center", "t"]
    return [{"name": nm} for nm in names][:max(n, len(names))]


def _build(d):
    from ufo2ft.featureWriters import MarkFeatureWriter
    from ufo2ft.featureWriters.markFeatureWriter import NamedAnchor

    return {"self": MarkFeatureWriter(), "anchor": NamedAnchor(d["name"], 0, 0)}


for _f in ("_isAboveMark", "_isBelowMark"):
    from pyvc.api import CONTRACTS

    CONTRACTS[W + "MarkFeatureWriter." + _f].runtime = Runtime(_cases, _build, call=lambda fn, a: fn(a["self"], a["anchor"]))
