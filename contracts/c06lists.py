"""C06 — MarkFeatureWriter._getAnchorLists: which anchors of which glyphs enter the writer's anchor lists.

PARKED skeleton (`props=[]`, not part of the check): the symbolic execution gets as far as line 382; `anchorName = anchor.name` is an Optional[str] and the
guard `if not anchorName: continue` does not narrow it to str for the uses that follow (`_getAnchor(.., anchorName, ..)`, `anchorName in anchorDict`,
`NamedAnchor(name=anchorName, ..)`): "cannot coerce Opt[Str] to Str" (engine request R24, notes/C06.requests.md)."""
from pyvc.api import BOOL, CLASSES, CONTRACTS, INT, REAL, STR, Dict, List, Loop, Opt, Ref, Set, Tuple, cls, contract
from pyvc.core import Val, fresh

from .c06 import NA, W

cls("C06_UGlyph", fields={"name": STR, "anchors": List(Ref("C06_UFOAnchor")), "lib": Dict(STR, Dict(STR, Ref("C06_LibData")))}, notes="a UFO glyph: anchors, lib")
GLYPHSET = Dict(STR, Ref("C06_UGlyph"))


def _glyphset(ex, st, self, args, kwargs, node):
    return Val(GLYPHSET, fresh(GLYPHSET, "glyphset"))


class _Log:
    @staticmethod
    def warning(*a, **k):
        return None


def _od_ctor(ex, st, args, kwargs, node):
    """collections.OrderedDict(): an empty dict (pyvc dicts are insertion-ordered, like every Python dict)"""
    if args or kwargs:
        from pyvc.core import Unsupported
        raise Unsupported("OrderedDict(<arguments>)", node)
    return Val.const({})


CLASSES["C06_Writer"].methods["getOrderedGlyphSet"] = _glyphset
GAL = W + "MarkFeatureWriter._getAnchorLists"
contract(
    GAL,
    props=[],
    params={"self": Ref("C06_Writer")},
    returns=Dict(STR, List(NA)),
    requires=["not self.context.isVariable", "self.options.quantization >= 1"],
    models={"collections.OrderedDict": _od_ctor},
    calls={"ufo2ft.featureWriters.baseFeatureWriter:BaseFeatureWriter._getAnchor": "ufo2ft.featureWriters.baseFeatureWriter:BaseFeatureWriter._getAnchor#static"},
    ensures={"t": "True"},
    locals={"result": Dict(STR, List(NA)), "anchorDict": Dict(STR, NA), "include": Opt(Set(STR)), "libData": Opt(Ref("C06_LibData"))},
    loops={"for (glyphName, glyph) in self.getOrderedGlyphSet().items()": Loop(index="i", invariants={}),
           "for anchor in glyph.anchors": Loop(index="j", invariants={})},
)
