"""C05 — kerning groups: getKerningGroups (kernFeatureWriter) and get_kerning_groups (kernFeatureWriter2, same body).

What the property needs from this step: the classes handed to the pair builder are the UFO's public.kern1 / public.kern2
groups pruned to the exported glyphs, never empty, pairwise disjoint per side (so that "the kern1 group of a glyph" is
well defined and first-match over class rules is the UFO group-group value), and the membership maps are their inverse.
"""
from pyvc.api import BOOL, CLASSES, CONTRACTS, INT, REAL, STR, Const, Dict, List, Loop, Map, Named, Opt, Ref, Runtime, Set, Tuple, Union, cls, contract, lemma, record_init, specfn, trusted

from . import c05  # noqa: F401  (KFont)

P1 = "public.kern1."
P2 = "public.kern2."

cls("KGCtx", fields={"font": Ref("KFont"), "glyphSet": Set(STR), "side1Membership": Dict(STR, STR), "side2Membership": Dict(STR, STR)},
    views={"glyphSet": lambda o: set(o.glyphSet.keys())},
    notes="feature-writer context as getKerningGroups uses it: the source font, the exported glyph names (glyphSet is only read through `in`), and the two membership maps it stores")
cls("KGWriter", fields={"context": Ref("KGCtx")}, repo="ufo2ft.featureWriters.kernFeatureWriter:KernFeatureWriter")

GROUPS = Dict(STR, List(STR))  # kept group name -> sorted member tuple

# the two logging helpers (ufo2ft functions; they only write to the logger)
for _fn, _params in (
    ("log_regrouped_glyph", {"side": STR, "name": STR, "original_name": STR, "font": Ref("KFont"), "member": STR}),
    ("log_redefined_group", {"side": STR, "name": STR, "group": List(STR), "font": Ref("KFont"), "members": Set(STR)}),
):
    contract(f"ufo2ft.featureWriters.kernFeatureWriter:{_fn}", props=["C05"], params=_params, ensures={"returns-none": "result is None"},
             canaries={"unreachable": "False"})


@specfn(STR, n=STR, t=INT)
def k5_trunc(n, t):
    """the name without its first t characters (the prefix).  Kept a symbol in the logic (the self-reference is never
    taken): string slicing under a quantifier makes the solvers diverge, so the definition is only instantiated at the
    ground argument of the current iteration."""
    if t < 0:
        return k5_trunc(n, 0)
    return n[t:]


def _names(ctx, k):
    P = P1 if k == 1 else P2
    return P, len(P), f"{ctx}.font.groups", f"{ctx}.glyphSet", f"side{k}Groups", f"side{k}Membership"


# ---- aspect "kept": which groups are kept and what their classes are -------------------------------------------------


def _kept(ctx, k, res, ghost=False):
    P, T, G, gs, _, _ = _names(ctx, k)
    pr = f"({G}[n] & {gs})"  # members of group n that are exported glyphs
    if ghost:
        # loop invariant: through the ghost map prn (kept group -> its pruned member set, recorded when the group is added), so
        # that adding a group needs no reasoning through sorted()
        return (f"all(n.startswith('{P}') and n in {G} and n in prn{k} and prn{k}[n] == {pr} and prn{k}[n] != set() "
                f"and list({res}[n]) == sorted(prn{k}[n]) for n in set({res}))")
    # every kept group is a prefixed UFO group with at least one exported member; its class is exactly the exported
    # members, sorted
    return f"all(n.startswith('{P}') and n in {G} and {pr} != set() and list({res}[n]) == sorted({pr}) for n in set({res}))"


# ---- aspect "own": membership maps vs. kept groups (gives disjointness) ---------------------------------------------------


def _own_inv(ctx, k):
    """loop invariant in terms of the ghost maps owner (glyph -> full name of the kept group it is in) and tn (kept group ->
    truncated name): group names are never composed / decomposed under a quantifier"""
    P, T, G, gs, res, memb = _names(ctx, k)
    o, tn = f"owner{k}", f"tn{k}"
    return {
        f"own-dom.{k}": f"all(g in {memb} for g in set({o})) and all(g in {o} for g in set({memb}))",
        f"own-sound.{k}": f"all({o}[g] in {res} and g in {G}[{o}[g]] and g in {gs} and {memb}[g] == {tn}[{o}[g]] for g in set({o}))",
        f"own-complete.{k}": f"all(all(implies(g in {gs}, g in {o} and {o}[g] == n) for g in {G}[n]) for n in set({res}))",
        f"trunc.{k}": f"all(n in {tn} and {tn}[n] == k5_trunc(n, {T}) for n in set({res}))",
    }


def _own_post(ctx, k):
    P, T, G, gs, _, m = _names(ctx, k)
    res, memb = f"result[{k - 1}]", f"{ctx}.{m}"
    return {
        # every exported member of a kept group is mapped to that group's truncated name ...
        f"member-complete.{k}": f"all(all(implies(g in {gs}, g in {memb} and {memb}[g] == k5_trunc(n, {T})) for g in {G}[n]) for n in set({res}))",
        # ... and every entry of the membership map comes from a kept group containing the glyph
        f"member-sound.{k}": f"all(g in {gs} and any(g in {G}[n] and k5_trunc(n, {T}) == {memb}[g] for n in set({res})) for g in set({memb}))",
        # the kept groups of one side are pairwise disjoint: "the group of a glyph" is well defined
        f"disjoint.{k}": f"all(all(implies(n != m, all(not (g in {gs} and g in {G}[m]) for g in {G}[n])) for m in set({res})) for n in set({res}))",
    }


def _own_member_loop(k):
    M, o, m0, o0 = f"side{k}Membership", f"owner{k}", f"m{k}0", f"o{k}0"
    return Loop(done="D", invariants={
        "old-memb": f"all(g in {M} and {M}[g] == {m0}[g] for g in set({m0}))",
        "old-owner": f"all(g in {o} and {o}[g] == {o0}[g] for g in set({o0}))",
        "new-added": f"all(g in {M} and {M}[g] == name_truncated and g in {o} and {o}[g] == name for g in D)",
        "only-memb": f"all(g in {m0} or g in D for g in set({M}))",
        "only-owner": f"all(g in {o0} or g in D for g in set({o}))",
        # the members being added were in no group before (the `if known_members: ... continue` guard)
        "new-not-memb": f"all(g not in {m0} for g in members)",
        "new-not-owned": f"all(g not in {o0} for g in members)",
    })


# ---- aspect "drop": a candidate group is dropped only because it overlaps a kept one ----------------------------------------


def _drop_inv(ctx, k):
    P, T, G, gs, res, memb = _names(ctx, k)
    w = f"wit{k}"
    return {
        # a prefixed group with an exported member that is not kept was dropped because of an overlap: wit names a glyph
        # of it that was already a member of a kept group (ghost witness, recorded in the loop over known_members)
        f"dropped-overlap.{k}": f"all(all(implies(g in {gs} and K[a].startswith('{P}'), K[a] in {res} or K[a] in {w}) for g in {G}[K[a]]) for a in range(i))",
        f"witness.{k}": f"all(n in {G} and {w}[n] in {G}[n] and {w}[n] in {gs} and {w}[n] in {memb} for n in set({w}))",
    }


def _drop_post(ctx, k):
    P, T, G, gs, _, m = _names(ctx, k)
    res, memb = f"result[{k - 1}]", f"{ctx}.{m}"
    n = f"list({G})[a]"
    # a prefixed group with exported members is dropped only if one of them is already in a kept group
    return {f"dropped-overlap.{k}": f"all(implies({n}.startswith('{P}') and ({G}[{n}] & {gs}) != set(), {n} in {res} or any(g in {gs} and g in {memb} for g in {G}[{n}])) for a in range(len({G})))"}


def _drop_known_loop(k):
    w, w0 = f"wit{k}", f"w{k}0"
    return Loop(done="DK", invariants={
        "wit-old": f"all(n in {w} and (n == name or {w}[n] == {w0}[n]) for n in set({w0}))",
        "wit-only": f"all(n in {w0} or n == name for n in set({w}))",
        "wit-new": f"DK == set() or (name in {w} and {w}[name] in known_members)",
    })


def _drop_member_loop(k):
    M, m0 = f"side{k}Membership", f"m{k}0"
    return Loop(done="D", invariants={"dom-grows": f"all(g in {M} for g in set({m0}))"})


_LOCALS = {"side1Groups": GROUPS, "side2Groups": GROUPS, "side1Membership": Dict(STR, STR), "side2Membership": Dict(STR, STR),
           "members": Set(STR), "known_members": Set(STR), "original_name_truncated": STR}
_OUTER = "for (name, members) in font.groups.items()"
_PRUNE_HINT = {"members = {g for g in members if g in allGlyphs}": ["members == font.groups[name] & allGlyphs"]}
_DD = Dict(STR, STR)


def _groups_contracts(target, ctx, params):
    """Two contract variants per function, by aspect (each carries only the invariants it needs: with all of them
    in one proof the solvers' quantifier instantiation does not finish)."""
    common = dict(props=["C05"], params=params, returns=Tuple(GROUPS, GROUPS), locals=_LOCALS, merge_branches=False,
                  modifies=["KGCtx.side1Membership", "KGCtx.side2Membership"])
    # (1) own
    ghost_vars, ghost, hints, loops, inv, post = {}, {}, {}, {}, {}, {}
    for k in (1, 2):
        M = f"side{k}Membership"
        ghost_vars.update({f"owner{k}": (_DD, "{}"), f"tn{k}": (_DD, "{}"), f"m{k}0": (_DD, "{}"), f"o{k}0": (_DD, "{}")})
        ghost[f"side{k}Groups[name] = tuple(sorted(members))"] = [f"m{k}0 = {{**{M}}}", f"o{k}0 = {{**owner{k}}}", f"tn{k} = {{**tn{k}, name: name_truncated}}"]
        ghost[f"{M}[member] = name_truncated"] = [f"owner{k} = {{**owner{k}, member: name}}"]
        # element-wise reading of the overlap test (so that `not known_members` can be used glyph by glyph)
        hints[f"known_members = members.intersection({M}.keys())"] = [f"all(iff(g in known_members, g in {M}) for g in members)"]
        # past the `if known_members: .. continue` guard: none of the members is in the membership map, hence (own-dom) none
        # has an owner yet -- stated once here, in the form the member loop's invariants start from
        # ... and therefore the group cannot have been kept already (its exported members would all have an owner): the
        # `elif set(group) != members` / "same group again" paths are infeasible, which this makes explicit for the path pruner
        hints[f"group = side{k}Groups.get(name)"] = [f"all(g not in {M} for g in members)", f"all(g not in owner{k} for g in members)",
                                                     f"name not in side{k}Groups"]
        # the truncated name, under the name used by the quantified clauses
        hints[f"name_truncated = name[len(SIDE{k}_PREFIX):]"] = [f"name_truncated == k5_trunc(name, {len(P1)})"]
        loops[f"for member in members#{k}"] = _own_member_loop(k)
        inv.update(_own_inv(ctx, k))
        post.update(_own_post(ctx, k))
    loops[_OUTER] = Loop(index="i", seq="K", invariants=inv)
    contract(target, name="own", **common, ensures=post,
             canaries={"everything-a-member": f"all(g in {ctx}.side1Membership for g in {ctx}.glyphSet)"},
             ghost_vars=ghost_vars, ghost=ghost, hints=hints, loops=loops)
    # (2) kept + drop
    ghost_vars, ghost, loops, inv, post = {}, {}, {}, {}, {}
    for k in (1, 2):
        M = f"side{k}Membership"
        ghost_vars.update({f"wit{k}": (_DD, "{}"), f"w{k}0": (_DD, "{}"), f"m{k}0": (_DD, "{}")})
        ghost[f"known_members = members.intersection({M}.keys())"] = [f"w{k}0 = {{**wit{k}}}"]
        ghost[f"original_name_truncated = {M}[glyph_name]"] = [f"wit{k} = {{**wit{k}, name: glyph_name}}"]
        ghost[f"side{k}Groups[name] = tuple(sorted(members))"] = [f"m{k}0 = {{**{M}}}"]
        loops[f"for glyph_name in known_members#{k}"] = _drop_known_loop(k)
        loops[f"for member in members#{k}"] = _drop_member_loop(k)
        inv.update(_drop_inv(ctx, k))
        post.update(_drop_post(ctx, k))
    # together with "which groups are kept and what their classes are" (through the ghost map prn: light, independent invariants)
    for k in (1, 2):
        ghost_vars[f"prn{k}"] = (Dict(STR, Set(STR)), "{}")
        ghost[f"side{k}Groups[name] = tuple(sorted(members))"] = ghost[f"side{k}Groups[name] = tuple(sorted(members))"] + [f"prn{k} = {{**prn{k}, name: members}}"]
        inv[f"kept.{k}"] = _kept(ctx, k, f"side{k}Groups", ghost=True)
        post[f"kept.{k}"] = _kept(ctx, k, f"result[{k - 1}]")
    loops[_OUTER] = Loop(index="i", seq="K", invariants=inv)
    contract(target, name="kept-drop", **common, ensures=post,
             canaries={"nothing-dropped": f"len(result[0]) + len(result[1]) == len({ctx}.font.groups)"},
             # the pruning comprehension is the intersection with the exported glyph set (proved once)
             hints=dict(_PRUNE_HINT),
             ghost_vars=ghost_vars, ghost=ghost, loops=loops)


_groups_contracts("ufo2ft.featureWriters.kernFeatureWriter:KernFeatureWriter.getKerningGroups", "self.context", {"self": Ref("KGWriter")})
_groups_contracts("ufo2ft.featureWriters.kernFeatureWriter2:get_kerning_groups", "context", {"context": Ref("KGCtx")})


# ---- run-time harness (real writers on generated UFOs: overlapping definitions, skipped glyphs, foreign prefixes) ----------


def _groups_cases(rng, n):
    from vcheck.hooks import c05 as h

    return [h.groups_case(rng, k) for k in range(n)]


def _quiet():
    # the writers log every regrouped glyph / redefined group: keep the check's output to its verdict lines
    import logging

    for n in ("ufo2ft.featureWriters.kernFeatureWriter", "ufo2ft.featureWriters.kernFeatureWriter2"):
        logging.getLogger(n).setLevel(logging.CRITICAL)


def _groups_build1(case):
    _quiet()
    return {"self": c05._writer_for(case)}


def _groups_build2(case):
    _quiet()
    return {"context": c05._writer_for(case).context}


for _v in ("own", "kept-drop"):
    CONTRACTS[f"ufo2ft.featureWriters.kernFeatureWriter:KernFeatureWriter.getKerningGroups#{_v}"].runtime = Runtime(_groups_cases, _groups_build1)
    CONTRACTS[f"ufo2ft.featureWriters.kernFeatureWriter2:get_kerning_groups#{_v}"].runtime = Runtime(_groups_cases, _groups_build2)
