"""C05 — kerning groups: getKerningGroups (kernFeatureWriter) and get_kerning_groups (kernFeatureWriter2, same body).

What the property needs from this step: the classes handed to the pair builder are the UFO's public.kern1 / public.kern2
groups pruned to the exported glyphs, never empty, pairwise disjoint per side (so that "the kern1 group of a glyph" is
well defined and first-match over class rules is the UFO group-group value), and the membership maps are their inverse.
"""
from pyvc.api import BOOL, CLASSES, CONTRACTS, INT, REAL, STR, Const, Dict, List, Loop, Map, Named, Opt, Ref, Runtime, Set, Tuple, Union, cls, contract, lemma, record_init, specfn, trusted

from . import c05  # noqa: F401  (KFont)

P1 = "public.kern1."
P2 = "public.kern2."

cls("KGCtx", fields={"font": Ref("KFont"), "glyphSet": Set(STR), "side1Membership": Dict(STR, STR), "side2Membership": Dict(STR, STR)},
    views={"glyphSet": lambda o: set(o.glyphSet.keys())},
    notes="feature-writer context as getKerningGroups uses it: the source font, the exported glyph names (glyphSet is only read through `in`), and the two membership maps it stores")
cls("KGWriter", fields={"context": Ref("KGCtx")}, repo="ufo2ft.featureWriters.kernFeatureWriter:KernFeatureWriter")

GROUPS = Dict(STR, List(STR))  # kept group name -> sorted member tuple

# the two logging helpers (ufo2ft functions; they only write to the logger)
for _fn, _params in (
    ("log_regrouped_glyph", {"side": STR, "name": STR, "original_name": STR, "font": Ref("KFont"), "member": STR}),
    ("log_redefined_group", {"side": STR, "name": STR, "group": List(STR), "font": Ref("KFont"), "members": Set(STR)}),
):
    contract(f"ufo2ft.featureWriters.kernFeatureWriter:{_fn}", props=["C05"], params=_params, ensures={"returns-none": "result is None"},
             canaries={"unreachable": "False"})


@specfn(STR, n=STR, t=INT)
def k5_trunc(n, t):
    """the name without its first t characters (the prefix).  Kept a symbol in the logic (the self-reference is never
    taken): string slicing under a quantifier makes the solvers diverge, so the definition is only instantiated at the
    ground argument of the current iteration."""
    if t < 0:
        return k5_trunc(n, 0)
    return n[t:]


def _clauses(ctx, P, res, memb, i=None):
    """the clauses for one side.  Without `i`: the postconditions.  With `i`: the loop invariant after the first i groups
    (K = list of group names), which speaks about the ghost map `owner` (glyph -> full name of the kept group it is in)
    instead of composing / decomposing group names (no string reasoning under quantifiers)."""
    G = f"{ctx}.font.groups"
    gs = f"{ctx}.glyphSet"
    T = len(P)
    pr = "(" + G + "[{n}] & " + gs + ")"  # members of group n that are exported glyphs
    cl = {
        # every kept group is a prefixed UFO group with at least one exported member; its class is exactly the exported
        # members, sorted
        "kept": f"all(n.startswith('{P}') and n in {G} and {pr.format(n='n')} != set() and {res}[n] == sorted({pr.format(n='n')}) for n in set({res}))",
    }
    if i is None:
        # every exported member of a kept group is mapped to that group's truncated name ...
        cl["member-complete"] = f"all(all(implies(g in {gs}, g in {memb} and {memb}[g] == k5_trunc(n, {T})) for g in {G}[n]) for n in set({res}))"
        # ... and every entry of the membership map comes from a kept group containing the glyph
        cl["member-sound"] = f"all(g in {gs} and any(g in {G}[n] and k5_trunc(n, {T}) == {memb}[g] for n in set({res})) for g in set({memb}))"
        # the kept groups of one side are pairwise disjoint: "the group of a glyph" is well defined
        cl["disjoint"] = f"all(all(implies(n != m, all(not (g in {gs} and g in {G}[m]) for g in {G}[n])) for m in set({res})) for n in set({res}))"
        # a prefixed group with exported members is dropped only if it overlaps a kept one
        cl["dropped-overlap"] = f"all(implies(n.startswith('{P}') and {pr.format(n='n')} != set(), n in {res} or ({pr.format(n='n')} & set({memb})) != set()) for n in set({G}))"
    else:
        cl["own-dom"] = f"all(g in {memb} for g in set(owner)) and all(g in owner for g in set({memb}))"
        cl["own-sound"] = f"all(owner[g] in {res} and g in {G}[owner[g]] and g in {gs} and {memb}[g] == tn[owner[g]] for g in set(owner))"
        # tn: kept group -> its truncated name (the only place where a name is taken apart)
        cl["trunc"] = f"all(n in tn and tn[n] == k5_trunc(n, {T}) for n in set({res}))"
        cl["own-complete"] = f"all(all(implies(g in {gs}, g in owner and owner[g] == n) for g in {G}[n]) for n in set({res}))"
        cl["dropped-overlap"] = f"all(implies(K[a].startswith('{P}') and {pr.format(n='K[a]')} != set(), K[a] in {res} or ({pr.format(n='K[a]')} & set({memb})) != set()) for a in range({i}))"
    return cl


def _groups_contract(target, ctx, params, k):
    """one contract variant per side k (1: public.kern1 / first glyph, 2: public.kern2 / second glyph): the two halves of
    the loop body are independent, and each proof only carries its own side's invariants"""
    P, m = (P1, "side1Membership") if k == 1 else (P2, "side2Membership")
    M = f"side{k}Membership"
    memb_loop = Loop(done="D", invariants={
        "old-memb": f"all(g in {M} and {M}[g] == m0[g] for g in set(m0))",
        "old-owner": "all(g in owner and owner[g] == o0[g] for g in set(o0))",
        "new-added": f"all(g in {M} and {M}[g] == name_truncated and g in owner and owner[g] == name for g in D)",
        "tn": "name in tn and tn[name] == name_truncated",
        "only-memb": f"all(g in m0 or g in D for g in set({M}))",
        "only-owner": "all(g in o0 or g in D for g in set(owner))",
        # the members being added were in no group before (the `if known_members: ... continue` guard)
        "new-not-memb": "all(g not in m0 for g in members)",
        "new-not-owned": "all(g not in o0 for g in members)",
    })
    return contract(
        target,
        name=f"side{k}",
        props=["C05"],
        params=params,
        returns=Tuple(GROUPS, GROUPS),
        modifies=["KGCtx.side1Membership", "KGCtx.side2Membership"],
        ensures=_clauses(ctx, P, f"result[{k - 1}]", f"{ctx}.{m}"),
        canaries={"keeps-every-group": f"len(result[{k - 1}]) == len({ctx}.font.groups)"},
        locals={"side1Groups": GROUPS, "side2Groups": GROUPS, "side1Membership": Dict(STR, STR), "side2Membership": Dict(STR, STR),
                "members": Set(STR), "known_members": Set(STR), "original_name_truncated": STR},
        # ghost: owner = glyph -> full name of the kept group that contains it; tn = kept group -> its truncated name;
        # m0 / o0 = snapshots before the member loop
        ghost_vars={"owner": (Dict(STR, STR), "{}"), "m0": (Dict(STR, STR), "{}"), "o0": (Dict(STR, STR), "{}"), "tn": (Dict(STR, STR), "{}")},
        ghost={
            f"side{k}Groups[name] = tuple(sorted(members))": [f"m0 = {{**{M}}}", "o0 = {**owner}", "tn = {**tn, name: name_truncated}"],
            f"side{k}Membership[member] = name_truncated": ["owner = {**owner, member: name}"],
        },
        # the pruning comprehension is the intersection with the exported glyph set (proved once, then used under sorted())
        hints={"members = {g for g in members if g in allGlyphs}": ["members == font.groups[name] & allGlyphs"],
               # element-wise reading of the overlap test (so that `not known_members` can be used glyph by glyph)
               f"known_members = members.intersection(side{k}Membership.keys())": [f"all(iff(g in known_members, g in {M}) for g in members)"],
               # the truncated name, under the name used by the quantified clauses
               f"name_truncated = name[len(SIDE{k}_PREFIX):]": [f"name_truncated == k5_trunc(name, {len(P1)})"]},
        loops={
            "for (name, members) in font.groups.items()": Loop(index="i", seq="K", invariants=_clauses(ctx, P, f"side{k}Groups", M, i="i")),
            f"for member in members#{k}": memb_loop,
        },
    )


for _k in (1, 2):
    _groups_contract("ufo2ft.featureWriters.kernFeatureWriter:KernFeatureWriter.getKerningGroups", "self.context", {"self": Ref("KGWriter")}, _k)
    _groups_contract("ufo2ft.featureWriters.kernFeatureWriter2:get_kerning_groups", "context", {"context": Ref("KGCtx")}, _k)
