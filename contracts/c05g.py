"""C05 — kerning groups: getKerningGroups (kernFeatureWriter) and get_kerning_groups (kernFeatureWriter2, same body).

What the property needs from this step: the classes handed to the pair builder are the UFO's public.kern1 / public.kern2
groups pruned to the exported glyphs, never empty, pairwise disjoint per side (so that "the kern1 group of a glyph" is
well defined and first-match over class rules is the UFO group-group value), and the membership maps are their inverse.
"""
from pyvc.api import BOOL, CLASSES, CONTRACTS, INT, REAL, STR, Const, Dict, List, Loop, Map, Named, Opt, Ref, Runtime, Set, Tuple, Union, cls, contract, lemma, record_init, specfn, trusted

from . import c05  # noqa: F401  (KFont)

P1 = "public.kern1."
P2 = "public.kern2."

cls("KGCtx", fields={"font": Ref("KFont"), "glyphSet": Set(STR), "side1Membership": Dict(STR, STR), "side2Membership": Dict(STR, STR)},
    views={"glyphSet": lambda o: set(o.glyphSet.keys())},
    notes="feature-writer context as getKerningGroups uses it: the source font, the exported glyph names (glyphSet is only read through `in`), and the two membership maps it stores")
cls("KGWriter", fields={"context": Ref("KGCtx")}, repo="ufo2ft.featureWriters.kernFeatureWriter:KernFeatureWriter")

GROUPS = Dict(STR, List(STR))  # kept group name -> sorted member tuple

# the two logging helpers (ufo2ft functions; they only write to the logger)
for _fn, _params in (
    ("log_regrouped_glyph", {"side": STR, "name": STR, "original_name": STR, "font": Ref("KFont"), "member": STR}),
    ("log_redefined_group", {"side": STR, "name": STR, "group": List(STR), "font": Ref("KFont"), "members": Set(STR)}),
):
    contract(f"ufo2ft.featureWriters.kernFeatureWriter:{_fn}", props=["C05"], params=_params, ensures={"returns-none": "result is None"},
             canaries={"unreachable": "False"})


def _side(ctx, P, res, memb, i=None):
    """the clauses for one side; with `i`: the loop invariant after the first i groups (K = list of group names)"""
    G = f"{ctx}.font.groups"
    gs = f"{ctx}.glyphSet"
    pr = f"({G}[{{n}}] & {gs})"  # members of group n that are exported glyphs
    cl = {
        # every kept group is a prefixed UFO group with at least one exported member; its class is exactly the exported
        # members, sorted
        "kept": f"all(n.startswith('{P}') and n in {G} and {pr.format(n='n')} != set() and {res}[n] == sorted({pr.format(n='n')}) for n in {res})",
        # membership map -> kept group: a glyph's entry names a kept group that really contains it
        "member-sound": f"all(('{P}' + {memb}[g]) in {res} and g in {G}['{P}' + {memb}[g]] and g in {gs} for g in {memb})",
        # kept group -> membership map: every exported member of a kept group is mapped to that group (hence the kept
        # groups of one side are pairwise disjoint)
        "member-complete": f"all(all(implies(g in {gs}, g in {memb} and {memb}[g] == n[{len(P)}:]) for g in {G}[n]) for n in {res})",
    }
    if i is None:
        # a prefixed group with exported members is dropped only if it overlaps a kept one
        cl["dropped-overlap"] = f"all(implies(n.startswith('{P}') and {pr.format(n='n')} != set(), n in {res} or ({pr.format(n='n')} & set({memb})) != set()) for n in {G})"
        cl["disjoint"] = f"all(all(implies(n != m, {pr.format(n='n')} & {pr.format(n='m')} == set()) for m in {res}) for n in {res})"
    else:
        cl["dropped-overlap"] = f"all(implies(K[a].startswith('{P}') and {pr.format(n='K[a]')} != set(), K[a] in {res} or ({pr.format(n='K[a]')} & set({memb})) != set()) for a in range({i}))"
    return cl


def _groups_contract(target, ctx, params):
    post = {}
    for P, k, m in ((P1, 0, "side1Membership"), (P2, 1, "side2Membership")):
        for nm, c in _side(ctx, P, f"result[{k}]", f"{ctx}.{m}").items():
            post[f"{nm}.{k + 1}"] = c
    inv = {}
    for P, k, m in ((P1, 1, "side1Membership"), (P2, 2, "side2Membership")):
        for nm, c in _side(ctx, P, f"side{k}Groups", m, i="i").items():
            inv[f"{nm}.{k}"] = c

    def memb_loop(k):
        M, M0 = f"side{k}Membership", f"m{k}0"
        return Loop(done="D", invariants={
            "dom": f"set({M}) == set({M0}) | D",
            "val": f"all({M}[g] == (name_truncated if g in D else {M0}[g]) for g in {M})",
        })

    return contract(
        target,
        props=["C05"],
        params=params,
        returns=Tuple(GROUPS, GROUPS),
        modifies=["KGCtx.side1Membership", "KGCtx.side2Membership"],
        ensures=post,
        canaries={"keeps-every-group": f"len(result[0]) + len(result[1]) == len({ctx}.font.groups)"},
        locals={"side1Groups": GROUPS, "side2Groups": GROUPS, "side1Membership": Dict(STR, STR), "side2Membership": Dict(STR, STR),
                "members": Set(STR), "known_members": Set(STR), "original_name_truncated": STR},
        ghost_vars={"m10": (Dict(STR, STR), "{}"), "m20": (Dict(STR, STR), "{}")},
        ghost={"side1Groups[name] = tuple(sorted(members))": ["m10 = {**side1Membership}"], "side2Groups[name] = tuple(sorted(members))": ["m20 = {**side2Membership}"]},
        loops={
            "for (name, members) in font.groups.items()": Loop(index="i", seq="K", invariants=inv),
            "for member in members#1": memb_loop(1),
            "for member in members#2": memb_loop(2),
        },
    )


_groups_contract("ufo2ft.featureWriters.kernFeatureWriter:KernFeatureWriter.getKerningGroups", "self.context", {"self": Ref("KGWriter")})
_groups_contract("ufo2ft.featureWriters.kernFeatureWriter2:get_kerning_groups", "context", {"context": Ref("KGCtx")})
