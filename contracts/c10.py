"""C10 (kerning / anchor half) — a variable font reproduces each master's kerning and anchors at that master."""
from pyvc.api import BOOL, CLASSES, CONTRACTS, INT, REAL, STR, Const, Dict, List, Loop, Named, Opt, Ref, Runtime, Set, Tuple, Union, cls, contract, lemma, specfn, trusted

from . import c05  # noqa: F401  (quantize is under contract there, props C05 + C10)

# =====================================================================================================
# util.collapse_varscalar: a VariableScalar becomes a plain number exactly when all its values are equal
#
# VariableScalar.values is a dict location -> number; the function only enumerates its values.


def _vs_values(ex, st, self, args, kwargs, node):
    return ex.read_field(st, self, "vals")


cls("VSValues", fields={"vals": List(REAL)}, methods={"values": _vs_values},
    views={"vals": lambda o: list(o.values())},
    notes="VariableScalar.values (dict location -> number): `.values()` enumerates the numbers in insertion order (Python dict semantics, assumed)")
def _wrap_values(o):
    from pyvc.rt import Proxy

    return Proxy(o.values, CLASSES["VSValues"])


cls("VariableScalar", fields={"values": Ref("VSValues")}, views={"values": _wrap_values}, notes="fontTools.feaLib.variableScalar.VariableScalar (only .values is read)")

contract(
    "ufo2ft.util:collapse_varscalar",
    props=["C10"],
    params={"varscalar": Ref("VariableScalar"), "threshold": Const(0)},
    returns=Union(REAL, Ref("VariableScalar")),
    # every caller adds at least one value first: _getAnchor returns before the call when no layer had the anchor,
    # getVariableKerningPairs sets the default location's value just before the call
    requires=["len(varscalar.values.vals) >= 1"],
    ensures={
        # collapses exactly when the scalar does not vary, and then to that common value ...
        "constant": "implies(all(v == varscalar.values.vals[0] for v in varscalar.values.vals[1:]), result == varscalar.values.vals[0])",
        # ... otherwise the variable scalar is handed on untouched (same object; no field is written)
        "varying": "implies(any(v != varscalar.values.vals[0] for v in varscalar.values.vals[1:]), result == varscalar)",
    },
    canaries={"always-first": "result == varscalar.values.vals[0]"},
)


def _cv_cases(rng, n):
    out = []
    for _ in range(n):
        k = rng.randint(1, 4)
        base = rng.choice([0, -7, 12, 3])
        vals = [base] * k if rng.random() < 0.5 else [rng.choice([0, -7, 12, 3, 12.0]) for _ in range(k)]
        out.append({"values": vals})
    return out


def _cv_build(d):
    from fontTools.feaLib.variableScalar import VariableScalar

    vs = VariableScalar()
    for i, v in enumerate(d["values"]):
        vs.add_value({"wght": 100 + i}, v)
    return {"varscalar": vs}


CONTRACTS["ufo2ft.util:collapse_varscalar"].runtime = Runtime(_cv_cases, _cv_build)


# =====================================================================================================
# Lemma: the value a variable scalar takes AT a listed location is the listed value (feaLib / varLib semantics,
# trusted: VariableScalar.value_at_location returns self.values[loc] for a listed loc, and the variation model
# reproduces master values at master locations).  With the per-master clause of getVariableKerningPairs (bounded,
# hook) this gives: kerning read at master m == quantize(lookupKerningValue(key, m.kerning)).

lemma(
    "C10.lemma.gpos_at_master",
    props=["C10"],
    vars={"values": Dict(INT, REAL), "m": INT, "ufo_at": Dict(INT, REAL), "q": INT},
    hyps=[
        "q >= 1",
        # writer clause: one entry per full master, holding that master's own quantised UFO value
        "all(k in values and values[k] == k5_quant(ufo_at[k], q) for k in ufo_at)",
        "m in ufo_at",
    ],
    concl={
        "at-master": "values[m] == k5_quant(ufo_at[m], q)",
    },
    canaries={"interpolated": "all(values[k] == values[m] for k in values)"},
)


# =====================================================================================================
# Designspace vocabulary (fontTools.designspaceLib, trusted library) and util.get_userspace_location
#
# A design location / user location is a dict axis name (resp. tag) -> number.  The per-axis inverse mapping
# (AxisDescriptor.map_backward of the coordinate, or the axis default when the location has no coordinate for it) is the
# library's business: an opaque function k10_axis_user(axis, location).

cls("DSAxis", fields={"name": STR, "tag": STR}, notes="designspaceLib AxisDescriptor: name (key of design locations) and OpenType tag")
LOCD = Dict(STR, REAL)


@specfn(REAL, opaque=True, axis=Ref("DSAxis"), location=LOCD)
def k10_axis_user(axis, location):
    """user-space coordinate of `location` on `axis`: axis.map_backward(location[axis.name]) if given, else axis.default (designspaceLib)"""
    return axis.map_backward(location[axis.name]) if axis.name in location else axis.default


def _names_distinct(ex, st, self, field="name"):
    """the formula `no two axes of the document have the same name` (resp. tag)"""
    import z3

    axes = _lift(ex.read_field(st, self, "axes"))
    arr = ex.field_array(st, "DSAxis", field)
    i, j = z3.Int("ax!i"), z3.Int("ax!j")
    return z3.ForAll([i, j], z3.Implies(z3.And(i >= 0, i < j, j < z3.Length(axes)), z3.Select(arr, axes[i]) != z3.Select(arr, axes[j])))


def _lift(v):
    from pyvc.core import lift

    return lift(v)


def _ds_map_backward(ex, st, self, args, kwargs, node):
    """DesignSpaceDocument.map_backward(loc) == {axis.name: k10_axis_user(axis, loc) for axis in self.axes} (library source,
    fontTools 4.x).  Stated for documents whose axis names are distinct (then: one key per axis, in axis order); without
    that premise only the key set is given."""
    import z3

    from pyvc import models
    from pyvc.api import SPECFNS
    from pyvc.core import Val, fresh, fresh_name, lift

    (loc,) = args
    loc = Val(LOCD, lift(loc, LOCD))
    axes = lift(ex.read_field(st, self, "axes"))
    r = fresh(LOCD, "userloc")
    s = LOCD.sort()
    i = z3.Int(fresh_name("ax"))
    k = fresh(STR, "axname")
    name = ex.field_array(st, "DSAxis", "name")
    n = z3.Length(axes)
    inr = z3.And(i >= 0, i < n)
    st.assume(z3.ForAll([i], z3.Implies(inr, z3.Select(s.dom(r), z3.Select(name, axes[i])))))
    st.assume(z3.ForAll([k], z3.Implies(z3.Select(s.dom(r), k), z3.Exists([i], z3.And(inr, z3.Select(name, axes[i]) == k)))))
    ku = ex.spec_decl(SPECFNS["k10_axis_user"])
    D = _names_distinct(ex, st, self)
    st.assume(z3.Implies(D, z3.And(
        z3.Length(s.keys(r)) == n,
        z3.ForAll([i], z3.Implies(inr, z3.And(s.keys(r)[i] == z3.Select(name, axes[i]),
                                               z3.Select(s.map(r), z3.Select(name, axes[i])) == ku(axes[i], lift(loc))))))))
    models.dict_wf(st, LOCD, r)
    return Val(LOCD, r)


def _axis_named():
    import z3

    from pyvc.ty import RefSort

    return z3.Function("k10_axis_named", RefSort, z3.StringSort(), Opt(Ref("DSAxis")).sort())


def _ds_get_axis(ex, st, self, args, kwargs, node):
    """DesignSpaceDocument.getAxis(name) == k10_axis_named(doc, name), an optional axis characterised by the assumed field
    `library_axioms` (the axis with that name; None when no axis has that name)"""
    from pyvc.core import Val, lift

    (nm,) = args
    return Val(Opt(Ref("DSAxis")), _axis_named()(lift(self), lift(nm, STR)))


def _ds_library_axioms(ex, st, self):
    """axis names distinct => k10_axis_named(doc, axes[i].name) is axes[i]; a name no axis has gives None"""
    import z3

    from pyvc.core import Val, fresh, fresh_name, lift

    axes = lift(ex.read_field(st, self, "axes"))
    name = ex.field_array(st, "DSAxis", "name")
    t = Opt(Ref("DSAxis")).sort()
    i, j = z3.Int(fresh_name("li")), z3.Int(fresh_name("lj"))
    nm = fresh(STR, "ln")
    found = z3.ForAll([i], z3.Implies(z3.And(i >= 0, i < z3.Length(axes)), _axis_named()(lift(self), z3.Select(name, axes[i])) == t.some(axes[i])))
    absent = z3.ForAll([nm], z3.Implies(z3.Not(z3.Exists([j], z3.And(j >= 0, j < z3.Length(axes), z3.Select(name, axes[j]) == nm))),
                                        _axis_named()(lift(self), nm) == t.nil))
    return Val(BOOL, z3.And(z3.Implies(_names_distinct(ex, st, self), found), absent))


cls("DSDoc", fields={"axes": List(Ref("DSAxis"))}, methods={"map_backward": _ds_map_backward, "getAxis": _ds_get_axis},
    derived={"library_axioms": _ds_library_axioms,
             # definitions (not assumptions): no two axes share a name / a tag
             "names_distinct": lambda ex, st, self: _bool(_names_distinct(ex, st, self)),
             "tags_distinct": lambda ex, st, self: _bool(_names_distinct(ex, st, self, "tag"))},
    views={"library_axioms": lambda o: True, "names_distinct": lambda o: len({a.name for a in o.axes}) == len(o.axes),
           "tags_distinct": lambda o: len({a.tag for a in o.axes}) == len(o.axes)},
    isa=("DesignSpaceDocument",),
    notes="designspaceLib DesignSpaceDocument: axes; map_backward / getAxis as in the library source (assumed); `library_axioms` = the defining property of getAxis, assumed wherever a contract requires it")


def _bool(t):
    from pyvc.core import Val

    return Val(BOOL, t)


_AX = "designspace.axes"
contract(
    "ufo2ft.util:get_userspace_location",
    props=["C10"],
    params={"designspace": Ref("DSDoc"), "location": LOCD},
    returns=LOCD,
    # axis names and tags are the identifiers of a designspace's axes (designspace format; fvar needs distinct tags)
    requires=["designspace.names_distinct", "designspace.tags_distinct",
              "designspace.library_axioms"],  # trusted: what getAxis returns (fontTools)
    ensures={
        # one coordinate per axis, keyed by the axis TAG, holding the axis's user-space value of the design location
        # one coordinate per axis, keyed by the axis TAG, holding the axis's user-space value of the design location
        "every-axis": f"all({_AX}[i].tag in result for i in range(len({_AX})))",
        "per-axis": f"all(result[{_AX}[i].tag] == k10_axis_user({_AX}[i], location) for i in range(len({_AX})))",
    },
    canaries={"keyed-by-name": f"all({_AX}[i].name in result for i in range(len({_AX})))"},
)


# ---- replay entry of the end-to-end observer (vcheck/hooks/c10.py) ------------------------------------------
def _e2e_gen(rng, n):
    from vcheck.hooks import c10 as h

    return h.gen_cases(rng, n)


def _e2e_call(fn, a):
    from vcheck.hooks import c10 as h

    return h.observe_case(a["case"])


contract(
    "ufo2ft.featureWriters.kernFeatureWriter:KernFeatureWriter.getVariableKerningPairs",
    name="e2e-observer",
    props=[],  # never executed symbolically (outside the subset); gives `./check replay` a (contract, case) pair
    params={},
    bounded_ensures={"no-violation": "result == []"},
    runtime=Runtime(_e2e_gen, lambda case: {"case": case}, call=_e2e_call),
)
