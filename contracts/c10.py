"""C10 (kerning / anchor half) — a variable font reproduces each master's kerning and anchors at that master."""
from pyvc.api import BOOL, CLASSES, CONTRACTS, INT, REAL, STR, Const, Dict, List, Loop, Named, Opt, Ref, Runtime, Set, Tuple, Union, cls, contract, lemma, specfn, trusted

from . import c05  # noqa: F401  (quantize is under contract there, props C05 + C10)

# =====================================================================================================
# util.collapse_varscalar: a VariableScalar becomes a plain number exactly when all its values are equal
#
# VariableScalar.values is a dict location -> number; the function only enumerates its values.


def _vs_values(ex, st, self, args, kwargs, node):
    return ex.read_field(st, self, "vals")


cls("VSValues", fields={"vals": List(REAL)}, methods={"values": _vs_values},
    views={"vals": lambda o: list(o.values())},
    notes="VariableScalar.values (dict location -> number): `.values()` enumerates the numbers in insertion order (Python dict semantics, assumed)")
def _wrap_values(o):
    from pyvc.rt import Proxy

    return Proxy(o.values, CLASSES["VSValues"])


cls("VariableScalar", fields={"values": Ref("VSValues")}, views={"values": _wrap_values}, notes="fontTools.feaLib.variableScalar.VariableScalar (only .values is read)")

contract(
    "ufo2ft.util:collapse_varscalar",
    props=["C10"],
    params={"varscalar": Ref("VariableScalar"), "threshold": Const(0)},
    returns=Union(REAL, Ref("VariableScalar")),
    # every caller adds at least one value first: _getAnchor returns before the call when no layer had the anchor,
    # getVariableKerningPairs sets the default location's value just before the call
    requires=["len(varscalar.values.vals) >= 1"],
    ensures={
        # collapses exactly when the scalar does not vary, and then to that common value ...
        "constant": "implies(all(v == varscalar.values.vals[0] for v in varscalar.values.vals[1:]), result == varscalar.values.vals[0])",
        # ... otherwise the variable scalar is handed on untouched (same object; no field is written)
        "varying": "implies(any(v != varscalar.values.vals[0] for v in varscalar.values.vals[1:]), result == varscalar)",
    },
    canaries={"always-first": "result == varscalar.values.vals[0]"},
)


def _cv_cases(rng, n):
    out = []
    for _ in range(n):
        k = rng.randint(1, 4)
        base = rng.choice([0, -7, 12, 3])
        vals = [base] * k if rng.random() < 0.5 else [rng.choice([0, -7, 12, 3, 12.0]) for _ in range(k)]
        out.append({"values": vals})
    return out


def _cv_build(d):
    from fontTools.feaLib.variableScalar import VariableScalar

    vs = VariableScalar()
    for i, v in enumerate(d["values"]):
        vs.add_value({"wght": 100 + i}, v)
    return {"varscalar": vs}


CONTRACTS["ufo2ft.util:collapse_varscalar"].runtime = Runtime(_cv_cases, _cv_build)


# =====================================================================================================
# Lemma: the value a variable scalar takes AT a listed location is the listed value (feaLib / varLib semantics,
# trusted: VariableScalar.value_at_location returns self.values[loc] for a listed loc, and the variation model
# reproduces master values at master locations).  With the per-master clause of getVariableKerningPairs (bounded,
# hook) this gives: kerning read at master m == quantize(lookupKerningValue(key, m.kerning)).

lemma(
    "C10.lemma.gpos_at_master",
    props=["C10"],
    vars={"values": Dict(INT, REAL), "m": INT, "ufo_at": Dict(INT, REAL), "q": INT},
    hyps=[
        "q >= 1",
        # writer clause: one entry per full master, holding that master's own quantised UFO value
        "all(k in values and values[k] == k5_quant(ufo_at[k], q) for k in ufo_at)",
        "m in ufo_at",
    ],
    concl={
        "at-master": "values[m] == k5_quant(ufo_at[m], q)",
    },
    canaries={"interpolated": "all(values[k] == values[m] for k in values)"},
)


# ---- replay entry of the end-to-end observer (vcheck/hooks/c10.py) ------------------------------------------
def _e2e_gen(rng, n):
    from vcheck.hooks import c10 as h

    return h.gen_cases(rng, n)


def _e2e_call(fn, a):
    from vcheck.hooks import c10 as h

    return h.observe_case(a["case"])


contract(
    "ufo2ft.featureWriters.kernFeatureWriter:KernFeatureWriter.getVariableKerningPairs",
    name="e2e-observer",
    props=[],  # never executed symbolically (outside the subset); gives `./check replay` a (contract, case) pair
    params={},
    bounded_ensures={"no-violation": "result == []"},
    runtime=Runtime(_e2e_gen, lambda case: {"case": case}, call=_e2e_call),
)
