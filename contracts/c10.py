"""C10 (kerning / anchor half) — a variable font reproduces each master's kerning and anchors at that master."""
from pyvc.api import SPECFNS, BOOL, CLASSES, CONTRACTS, INT, REAL, STR, Const, Dict, List, Loop, Map, Named, Opt, Ref, Runtime, Set, Tuple, Union, cls, contract, lemma, specfn, trusted

import z3 as _z3

from . import c05  # noqa: F401  (quantize is under contract there, props C05 + C10)

# =====================================================================================================
# util.collapse_varscalar: a VariableScalar becomes a plain number exactly when all its values are equal
#
# VariableScalar.values is a dict Location -> number (fontTools.feaLib.variableScalar).  A Location is
# `tuple(sorted(loc.items()))` of a user-space location dict: two Locations are equal iff the dicts are equal as mappings.
# Model: a Location IS the location dict in a canonical representation (values outside the key set zeroed, key order a
# function of the key set), so that equality of the representation is equality as mappings.

LOCD = Dict(STR, REAL)  # a design / user location: axis name (resp. tag) -> coordinate
VALS = Dict(LOCD, REAL)  # VariableScalar.values


_LOC_CACHE: dict = {}


@trusted("fontTools.feaLib.variableScalar.Location", "Location(loc) == tuple(sorted(loc.items())): equal for two dicts iff they are equal as mappings (modelled as the dict in canonical representation)")
def _location(ex, st, args, kwargs, node):
    import z3

    from pyvc import models
    from pyvc.core import Val, fresh, lift

    (d,) = args
    d = lift(d, LOCD)
    s = LOCD.sort()
    if d.get_id() in _LOC_CACHE:  # the same dict term gives the identical canonical term (keys are then equal syntactically)
        r = _LOC_CACHE[d.get_id()][1]
        models.dict_wf(st, LOCD, r)
        return Val(LOCD, r)
    k = fresh(STR, "lk")
    dom = s.dom(d)
    mp = z3.Lambda([k], z3.If(z3.Select(dom, k), z3.Select(s.map(d), k), z3.RealVal(0)))
    ckeys = z3.Function("k10_canon_keys", dom.sort(), z3.SeqSort(z3.StringSort()))
    r = s.mk(dom, mp, ckeys(dom))
    _LOC_CACHE[d.get_id()] = (d, r)  # (d kept alive so that its id is not reused)
    models.dict_wf(st, LOCD, r)
    return Val(LOCD, r)


class _Callable:
    """a library function usable inside clauses: symbolically a reference to its trusted model, natively the function"""

    def __new__(cls, fn, qual):
        from pyvc.symex import FuncRef

        class F(FuncRef):
            def __call__(self, *a, **k):
                return self.obj(*a, **k)

        return F(fn, qual)


def _loc_native(d):
    from fontTools.feaLib.variableScalar import Location

    return Location(dict(d))


LOCATION = _Callable(_loc_native, "fontTools.feaLib.variableScalar.Location")


def _vals_list(ex, st, d):
    """list(d.values()) as a FUNCTION of the dict (the same term wherever it is mentioned): position i holds the value of
    the i-th key (Python dict semantics)"""
    import z3

    from pyvc import models
    from pyvc.core import Val, fresh_name, lift

    dz = lift(d, VALS)
    s = VALS.sort()
    f = z3.Function("k10_values_list", s, z3.SeqSort(z3.RealSort()))
    r = f(dz)
    i = z3.Int(fresh_name("vi"))
    models.dict_wf(st, VALS, dz)
    st.assume(z3.Length(r) == z3.Length(s.keys(dz)))
    st.assume(z3.ForAll([i], z3.Implies(z3.And(i >= 0, i < z3.Length(r)), r[i] == z3.Select(s.map(dz), s.keys(dz)[i]))))
    return Val(List(REAL), r)


def _vsv_values(ex, st, self, args, kwargs, node):
    return _vals_list(ex, st, ex.read_field(st, self, "d"))


def _vsv_contains(ex, st, self, key):
    from pyvc import ops

    return ops.contains(ex.read_field(st, self, "d"), key)


def _vsv_getitem(ex, st, self, key, node):
    return ex.getitem(ex.read_field(st, self, "d"), key, st, node)


def _vsv_setitem(ex, st, self, key, value, node):
    from pyvc import models

    ex.write_field(st, self, "d", models.set_item(ex, st, ex.read_field(st, self, "d"), key, value, node), node)


cls("VSValues", fields={"d": VALS}, methods={"values": _vsv_values}, contains=_vsv_contains, getitem=_vsv_getitem, setitem=_vsv_setitem,
    views={"d": lambda o: _LocDict(o.items())},
    notes="VariableScalar.values (a dict Location -> number): .d is that dict, `.values()` enumerates the numbers in key order, `in` / [] / []= as for dicts (Python dict semantics, assumed)")


def _vs_init(ex, st, self, args, kwargs, node):
    """VariableScalar(): a new, empty values dict"""
    from pyvc.core import Val

    vals = ex.new_object(st, "VSValues")
    ex.write_field(st, vals, "d", Val.const({}), node)
    ex.write_field(st, self, "values", vals, node)


def _vs_add_value(ex, st, self, args, kwargs, node):
    """VariableScalar.add_value(location, value): self.values[Location(location)] = value  (library source; `self.axes` is
    empty while a feature writer runs, so no fix_location)"""
    from pyvc.core import Val

    loc, value = args
    _vsv_setitem(ex, st, ex.read_field(st, self, "values"), _location(ex, st, [loc], {}, node), value, node)
    return Val.const(None)


_vs_add_value.modifies = ("VSValues.d",)


class _LocDict(dict):
    """VariableScalar.values at run time, addressable by a location dict or by a Location tuple"""

    def __init__(self, items):
        super().__init__((_key(k), v) for k, v in items)

    def __getitem__(self, k):
        return super().__getitem__(_key(k))

    def __contains__(self, k):
        return super().__contains__(_key(k))


def _key(k):
    return tuple(sorted(k.items())) if isinstance(k, dict) else tuple(k)


cls("VariableScalar", fields={"values": Ref("VSValues")}, methods={"__init__": _vs_init, "add_value": _vs_add_value},
    notes="fontTools.feaLib.variableScalar.VariableScalar: .values (Location -> number), add_value (assumed as in the library source)")

_V = "list(varscalar.values.values())"
contract(
    "ufo2ft.util:collapse_varscalar",
    props=["C10"],
    params={"varscalar": Ref("VariableScalar"), "threshold": Const(0)},
    returns=Union(REAL, Ref("VariableScalar")),
    # every caller adds at least one value first: _getAnchor returns before the call when no layer had the anchor,
    # getVariableKerningPairs sets the default location's value just before the call
    requires=["len(varscalar.values.d) >= 1"],
    ensures={
        # collapses exactly when the scalar does not vary, and then to that common value ...
        "constant": f"implies(all(v == {_V}[0] for v in {_V}[1:]), result == {_V}[0])",
        # ... otherwise the variable scalar is handed on untouched (same object; no field is written)
        "varying": f"implies(any(v != {_V}[0] for v in {_V}[1:]), result == varscalar)",
    },
    canaries={"always-first": f"result == {_V}[0]"},
)


# the same function, summarised for callers that only need WHAT KIND of value comes back (getVariableKerningPairs#light): a number
# or the scalar itself, untouched.  (No slice of the value list in the summary: the callers' obligations then stay outside the
# "seq.extract under quantifiers" class on which a z3-only `unsat` is not accepted.)
contract(
    "ufo2ft.util:collapse_varscalar",
    name="kind",
    props=["C10"],
    params={"varscalar": Ref("VariableScalar"), "threshold": Const(0)},
    returns=Union(REAL, Ref("VariableScalar")),
    requires=["len(varscalar.values.d) >= 1"],
    ensures={"number-or-same": f"(result == {_V}[0]) if isinstance(result, (int, float)) else (result == varscalar)"},
    canaries={"always-first": f"result == {_V}[0]"},
)


def _cv_cases(rng, n):
    out = []
    for _ in range(n):
        k = rng.randint(1, 4)
        base = rng.choice([0, -7, 12, 3])
        vals = [base] * k if rng.random() < 0.5 else [rng.choice([0, -7, 12, 3, 12.0]) for _ in range(k)]
        out.append({"values": vals})
    return out


def _cv_build(d):
    from fontTools.feaLib.variableScalar import VariableScalar

    vs = VariableScalar()
    for i, v in enumerate(d["values"]):
        vs.add_value({"wght": 100 + i}, v)
    return {"varscalar": vs}


CONTRACTS["ufo2ft.util:collapse_varscalar"].runtime = Runtime(_cv_cases, _cv_build)
CONTRACTS["ufo2ft.util:collapse_varscalar#kind"].runtime = Runtime(_cv_cases, _cv_build)


# =====================================================================================================
# Lemma: the value a variable scalar takes AT a listed location is the listed value (feaLib / varLib semantics,
# trusted: VariableScalar.value_at_location returns self.values[loc] for a listed loc, and the variation model
# reproduces master values at master locations).  With the per-master clause of getVariableKerningPairs (bounded,
# hook) this gives: kerning read at master m == quantize(lookupKerningValue(key, m.kerning)).

lemma(
    "C10.lemma.gpos_at_master",
    props=["C10"],
    vars={"values": Dict(INT, REAL), "m": INT, "ufo_at": Dict(INT, REAL), "q": INT},
    hyps=[
        "q >= 1",
        # writer clause: one entry per full master, holding that master's own quantised UFO value
        "all(k in values and values[k] == k5_quant(ufo_at[k], q) for k in ufo_at)",
        "m in ufo_at",
    ],
    concl={
        "at-master": "values[m] == k5_quant(ufo_at[m], q)",
    },
    canaries={"interpolated": "all(values[k] == values[m] for k in values)"},
)


# =====================================================================================================
# Designspace vocabulary (fontTools.designspaceLib, trusted library) and util.get_userspace_location
#
# A design location / user location is a dict axis name (resp. tag) -> number.  The per-axis inverse mapping
# (AxisDescriptor.map_backward of the coordinate, or the axis default when the location has no coordinate for it) is the
# library's business: an opaque function k10_axis_user(axis, location).

cls("DSAxis", fields={"name": STR, "tag": STR}, notes="designspaceLib AxisDescriptor: name (key of design locations) and OpenType tag")


@specfn(REAL, opaque=True, axis=Ref("DSAxis"), location=LOCD)
def k10_axis_user(axis, location):
    """user-space coordinate of `location` on `axis`: axis.map_backward(location[axis.name]) if given, else axis.default (designspaceLib)"""
    return axis.map_backward(location[axis.name]) if axis.name in location else axis.default


def _names_distinct(ex, st, self, field="name"):
    """the formula `no two axes of the document have the same name` (resp. tag)"""
    import z3

    axes = _lift(ex.read_field(st, self, "axes"))
    arr = ex.field_array(st, "DSAxis", field)
    i, j = z3.Int("ax!i"), z3.Int("ax!j")
    return z3.ForAll([i, j], z3.Implies(z3.And(i >= 0, i < j, j < z3.Length(axes)), z3.Select(arr, axes[i]) != z3.Select(arr, axes[j])))


def _lift(v):
    from pyvc.core import lift

    return lift(v)


def _ds_map_backward(ex, st, self, args, kwargs, node):
    """DesignSpaceDocument.map_backward(loc) == {axis.name: k10_axis_user(axis, loc) for axis in self.axes} (library source,
    fontTools 4.x).  Stated for documents whose axis names are distinct (then: one key per axis, in axis order); without
    that premise only the key set is given."""
    import z3

    from pyvc import models
    from pyvc.api import SPECFNS
    from pyvc.core import Val, fresh, fresh_name, lift

    (loc,) = args
    loc = Val(LOCD, lift(loc, LOCD))
    axes = lift(ex.read_field(st, self, "axes"))
    r = fresh(LOCD, "userloc")
    s = LOCD.sort()
    i = z3.Int(fresh_name("ax"))
    k = fresh(STR, "axname")
    name = ex.field_array(st, "DSAxis", "name")
    n = z3.Length(axes)
    inr = z3.And(i >= 0, i < n)
    st.assume(z3.ForAll([i], z3.Implies(inr, z3.Select(s.dom(r), z3.Select(name, axes[i])))))
    st.assume(z3.ForAll([k], z3.Implies(z3.Select(s.dom(r), k), z3.Exists([i], z3.And(inr, z3.Select(name, axes[i]) == k)))))
    ku = ex.spec_decl(SPECFNS["k10_axis_user"])
    D = _names_distinct(ex, st, self)
    ga = _axis_named()
    some = Opt(Ref("DSAxis")).sort().some
    optval = Opt(Ref("DSAxis")).sort().val  # (the unwrapped form as a term of its own: E-matching needs the node)
    st.assume(z3.Implies(D, z3.And(
        z3.Length(s.keys(r)) == n,
        z3.ForAll([i], z3.Implies(inr, z3.And(s.keys(r)[i] == z3.Select(name, axes[i]),
                                               z3.Select(s.map(r), z3.Select(name, axes[i])) == ku(axes[i], lift(loc)),
                                               # (redundant with `library_axioms`, in the shape the callers' proofs use: the
                                               # i-th key names the i-th axis)
                                               ga(lift(self), s.keys(r)[i]) == some(axes[i]),
                                               optval(ga(lift(self), s.keys(r)[i])) == axes[i]))))))
    models.dict_wf(st, LOCD, r)
    return Val(LOCD, r)


def _axis_named():
    import z3

    from pyvc.ty import RefSort

    return z3.Function("k10_axis_named", RefSort, z3.StringSort(), Opt(Ref("DSAxis")).sort())


def _ds_get_axis(ex, st, self, args, kwargs, node):
    """DesignSpaceDocument.getAxis(name) == k10_axis_named(doc, name), an optional axis characterised by the assumed field
    `library_axioms` (the axis with that name; None when no axis has that name)"""
    from pyvc.core import Val, lift

    (nm,) = args
    return Val(Opt(Ref("DSAxis")), _axis_named()(lift(self), lift(nm, STR)))


def _ds_library_axioms(ex, st, self):
    """axis names distinct => k10_axis_named(doc, axes[i].name) is axes[i]"""
    import z3

    from pyvc.core import Val, fresh, fresh_name, lift

    axes = lift(ex.read_field(st, self, "axes"))
    name = ex.field_array(st, "DSAxis", "name")
    t = Opt(Ref("DSAxis")).sort()
    i, j = z3.Int(fresh_name("li")), z3.Int(fresh_name("lj"))
    found = z3.ForAll([i], z3.Implies(z3.And(i >= 0, i < z3.Length(axes)), _axis_named()(lift(self), z3.Select(name, axes[i])) == t.some(axes[i])))
    # (that a name no axis has gives None is true as well, but no clause needs it; a quantifier over all strings only
    # burdens the solvers)
    return Val(BOOL, z3.Implies(_names_distinct(ex, st, self), found))


cls("DSDoc", fields={"axes": List(Ref("DSAxis"))}, methods={"map_backward": _ds_map_backward, "getAxis": _ds_get_axis},
    derived={"library_axioms": _ds_library_axioms,
             # definitions (not assumptions): no two axes share a name / a tag
             "names_distinct": lambda ex, st, self: _bool(_names_distinct(ex, st, self)),
             "tags_distinct": lambda ex, st, self: _bool(_names_distinct(ex, st, self, "tag"))},
    views={"library_axioms": lambda o: True, "names_distinct": lambda o: len({a.name for a in o.axes}) == len(o.axes),
           "tags_distinct": lambda o: len({a.tag for a in o.axes}) == len(o.axes)},
    isa=("DesignSpaceDocument",),
    notes="designspaceLib DesignSpaceDocument: axes; map_backward / getAxis as in the library source (assumed); `library_axioms` = the defining property of getAxis, assumed wherever a contract requires it")


def _bool(t):
    from pyvc.core import Val

    return Val(BOOL, t)


_AX = "designspace.axes"
contract(
    "ufo2ft.util:get_userspace_location",
    props=["C10"],
    params={"designspace": Ref("DSDoc"), "location": LOCD},
    returns=LOCD,
    # axis names and tags are the identifiers of a designspace's axes (designspace format; fvar needs distinct tags)
    requires=["designspace.names_distinct", "designspace.tags_distinct",
              "designspace.library_axioms"],  # trusted: what getAxis returns (fontTools)
    ensures={
        # one coordinate per axis, keyed by the axis TAG, holding the axis's user-space value of the design location
        "every-axis": f"all({_AX}[i].tag in result for i in range(len({_AX})))",
        "only-axes": f"all(any({_AX}[i].tag == t for i in range(len({_AX}))) for t in set(result))",
    },
    # run-time only (bounded): the value under each tag.  Every fact is in the hypotheses (the comprehension's last-position
    # function, the library facts, distinct tags), but no solver configuration finds the instantiation chain within a minute.
    bounded_ensures={
        "per-axis": f"all(result[{_AX}[i].tag] == k10_axis_user({_AX}[i], location) for i in range(len({_AX})))",
    },
    canaries={"keyed-by-name": f"all({_AX}[i].name in result for i in range(len({_AX})))"},
)


def _usl_cases(rng, n):
    out = []
    for k in range(n):
        axes = [{"name": "Weight", "tag": "wght", "min": 100, "default": 400, "max": 900, "map": [[100, 20], [400, 80], [900, 200]] if k % 2 else []}]
        if k % 3:
            axes.append({"name": "Width", "tag": "wdth", "min": 50, "default": 100, "max": 200, "map": []})
        if k % 5 == 0:
            axes.append({"name": "Optical Size", "tag": "opsz", "min": 8, "default": 12, "max": 72, "map": [[8, 0], [12, 10], [72, 100]]})
        loc = {}
        for a in axes:
            if rng.random() < 0.8:  # a coordinate may be missing: the axis default is taken
                lo, hi = (a["map"][0][1], a["map"][-1][1]) if a["map"] else (a["min"], a["max"])
                loc[a["name"]] = rng.choice([lo, hi, (lo + hi) / 2, lo + (hi - lo) / 4])
        out.append({"axes": axes, "location": loc})
    return out


def _usl_build(d):
    from fontTools.designspaceLib import AxisDescriptor, DesignSpaceDocument

    ds = DesignSpaceDocument()
    for a in d["axes"]:
        ax = AxisDescriptor()
        ax.name, ax.tag, ax.minimum, ax.default, ax.maximum = a["name"], a["tag"], a["min"], a["default"], a["max"]
        ax.map = [tuple(m) for m in a["map"]]
        ds.addAxis(ax)
    return {"designspace": ds, "location": dict(d["location"])}


CONTRACTS["ufo2ft.util:get_userspace_location"].runtime = Runtime(_usl_cases, _usl_build)


# =====================================================================================================
# BaseFeatureWriter._getAnchor, variable branch: one VariableScalar entry per source layer that has the glyph and the anchor


def _layer_contains(ex, st, self, key):
    from pyvc import ops

    return ops.contains(ex.read_field(st, self, "glyphs"), key)


def _layer_getitem(ex, st, self, key, node):
    return ex.getitem(ex.read_field(st, self, "glyphs"), key, st, node)


def _layers_getitem(ex, st, self, key, node):
    return ex.getitem(ex.read_field(st, self, "byname"), key, st, node)


def _proxy(o, cname):
    from pyvc.rt import Proxy

    return Proxy(o, CLASSES[cname])


cls("Anchor", fields={"name": STR, "x": REAL, "y": REAL}, notes="UFO anchor: name, x, y")
cls("AGlyph", fields={"anchors": List(Ref("Anchor"))}, notes="UFO glyph, as _getAnchor reads it: its list of anchors")
cls("LayerSet", fields={"byname": Dict(STR, Ref("GlyphLayer"))}, getitem=_layers_getitem,
    views={"byname": lambda o: {l.name: _proxy(l, "GlyphLayer") for l in o}},
    notes="font.layers: layer name -> layer")
cls("GlyphLayer", fields={"glyphs": Dict(STR, Ref("AGlyph")), "layers": Ref("LayerSet")}, contains=_layer_contains, getitem=_layer_getitem,
    views={"glyphs": lambda o: {n: o[n] for n in o.keys()}},
    notes="a UFO font (its default layer) or one of its layers: glyph name -> glyph (`in`, []); a font also has .layers")
cls("DSSource", fields={"layerName": Opt(STR), "font": Ref("GlyphLayer"), "location": LOCD},
    notes="designspaceLib SourceDescriptor: font (opened UFO), layerName (None for a full source, the layer of a sparse source), location (design coordinates)")
CLASSES["DSDoc"].fields["sources"] = List(Ref("DSSource"))
cls("AnchorCtx", fields={"isVariable": BOOL, "font": Ref("DSDoc")}, notes="feature-writer context: font = the designspace document when isVariable")
cls("AnchorWriter", fields={"context": Ref("AnchorCtx")}, repo="ufo2ft.featureWriters.baseFeatureWriter:BaseFeatureWriter")

_S = "self.context.font.sources"
# the layer of source a that must be consulted: the font itself for a full source, the named layer for a sparse one
_LAYER = "(" + _S + "[{a}].font if " + _S + "[{a}].layerName is None else " + _S + "[{a}].font.layers.byname[" + _S + "[{a}].layerName])"
_ANCH = _LAYER + ".glyphs[glyphName].anchors"
_HAS = "(glyphName in " + _LAYER + ".glyphs and any(an.name == anchorName for an in " + _ANCH + "))"
# no source layer among the first n has the glyph with an anchor of that name (stated without an existential)
_NONE_HAS = "all(implies(glyphName in " + _LAYER.format(a="s") + ".glyphs, all(an.name != anchorName for an in " + _ANCH.format(a="s") + ")) for s in range({n}))"
_X, _Y = "x_value.values.d", "y_value.values.d"

# What is proved here: which sources are consulted (every source, full or sparse, through the right layer), when the
# result is None, and that the two scalars are non-empty when collapse_varscalar is called (no exception on any path).
# That each entry holds otRound(anchor.x / .y) at the source's own user-space location stays a run-time clause of the
# hook (vcheck/hooks/c10.py, check 3): with the values dict keyed by location dicts inside heap objects inside two nested
# loops neither obligation generation (minutes) nor the solvers cope (tried: ghost maps source -> key -> source).


def _anchor_invariants(inner):
    inv = {
        # found <=> one of the sources dealt with so far has the glyph with an anchor of that name (fs: a witness)
        "found": "implies(found, 0 <= fs and fs < len(" + _S + ") and " + _HAS.format(a="fs") + f" and len({_X}) >= 1 and len({_Y}) >= 1)",
        "not-found": "implies(not found, " + _NONE_HAS.format(n="a") + ")",
    }
    if inner:
        inv["glyph"] = "glyphName in " + _LAYER.format(a="a") + ".glyphs and glyph == " + _LAYER.format(a="a") + ".glyphs[glyphName]"
        inv["not-found-here"] = "implies(not found, all(glyph.anchors[q].name != anchorName for q in range(b)))"
    return inv


contract(
    "ufo2ft.featureWriters.baseFeatureWriter:BaseFeatureWriter._getAnchor",
    name="variable",
    props=["C10"],
    params={"self": Ref("AnchorWriter"), "glyphName": STR, "anchorName": STR, "anchor": Const(None)},
    returns=Opt(Tuple(Union(REAL, Ref("VariableScalar")), Union(REAL, Ref("VariableScalar")))),
    requires=[
        "self.context.isVariable",
        # the designspace: axis names / tags are identifiers; what getAxis returns (trusted library)
        "self.context.font.names_distinct", "self.context.font.tags_distinct", "self.context.font.library_axioms",
        # the layer of a sparse source exists in its font (designspace validity; the code indexes font.layers with it)
        f"all({_S}[a].layerName is None or any({_S}[a].layerName == n for n in set({_S}[a].font.layers.byname)) for a in range(len({_S})))",
    ],
    # (only the dicts of the two VariableScalars it creates are written; declared for the whole class)
    modifies=["VSValues.d"],
    ensures={
        # None exactly when no source layer - full or sparse, the sparse ones through their layer - has the glyph with an
        # anchor of that name
        "none": "implies(result is None, " + _NONE_HAS.format(n=f"len({_S})") + ")",
        "some": "implies(result is not None, any(" + _HAS.format(a="s") + f" for s in range(len({_S}))))",
    },
    canaries={"never-found": "result is None"},
    merge_branches=False,
    ghost_vars={"fs": (INT, "0")},
    ghost={"found = True": ["fs = a"]},
    portfolio=["cvc5"],  # z3's default configuration times out on the `not-found` steps that cvc5 proves in 0.1 s
    globals={"LOCATION": LOCATION},
    # per entry (assertions at the two statements that record a value; proved obligations): the value recorded for the anchor
    # of that name in this source's layer is the ROUNDED coordinate, under the key Location(get_userspace_location(designspace,
    # source.location)) - the user-space location of THIS source (get_userspace_location's contract: one coordinate per axis tag)
    hints={
        "x_value.add_value(location, otRound(anchor.x))": [
            "anchor.name == anchorName and x_value.values.d[LOCATION(location)] == k10_round(anchor.x)",
        ],
        "y_value.add_value(location, otRound(anchor.y))": [
            "y_value.values.d[LOCATION(location)] == k10_round(anchor.y) and x_value.values.d[LOCATION(location)] == k10_round(anchor.x)",
        ],
    },
    loops={
        "for source in designspace.sources": Loop(index="a", invariants=_anchor_invariants(False)),
        "for anchor in glyph.anchors": Loop(index="b", invariants=_anchor_invariants(True)),
    },
    locals={"found": BOOL},
)


def _anchor_cases(rng, n):
    from vcheck.hooks import c10 as h

    out = []
    k = 0
    while len(out) < n:
        case = h.gen_case(rng, k)
        k += 1
        for g, an in (("A", "top"), ("o", "top"), ("acutecomb", "_top"), ("ghost", "top"), ("A", "bottom"), ("T", "top")):
            out.append({"case": case, "glyph": g, "anchor": an})
    return out[:n]


def _anchor_build(d):
    from types import SimpleNamespace

    from ufo2ft.featureWriters.markFeatureWriter import MarkFeatureWriter
    from vcheck.hooks import c10 as h

    w = MarkFeatureWriter()
    w.context = SimpleNamespace(isVariable=True, font=h.build_designspace(d["case"]))
    return {"self": w, "glyphName": d["glyph"], "anchorName": d["anchor"]}


CONTRACTS["ufo2ft.featureWriters.baseFeatureWriter:BaseFeatureWriter._getAnchor#variable"].runtime = Runtime(
    _anchor_cases, _anchor_build, call=lambda fn, a: fn(a["self"], a["glyphName"], a["anchorName"])
)


@specfn(INT, x=REAL)
def k10_round(x):
    """otRound: the nearest integer, halves upwards"""
    from fontTools.misc.roundTools import otRound

    return otRound(x)


# =====================================================================================================
# featureCompiler._featuresCompatible: decides between variable features and per-master layout merged by varLib
#
# `re.sub` is the trusted library: a pure function of (pattern, replacement, string); the two substitutions of the code
# (strip comments, squeeze white space) are the opaque functions k10_strip_comments / k10_squeeze_ws.


# The results of the substitutions are only compared with each other and tested for emptiness, so they are kept as abstract
# tokens (class NText) rather than strings: a list of strings is a sequence of sequences in SMT, and on exactly this
# function z3 4.8 / 5.1 answer `unsat` for a satisfiable obligation with nested sequences (notes/C10.requests.md, item 11;
# the `always` canary caught it).

cls("NText", truth=lambda ex, st, v: _z3.Not(ex.spec_decl(SPECFNS["k10_text_empty"])(v.term)),
    notes="a feature text after a substitution (abstract token: equal tokens = equal strings; truthiness = non-empty)")


@specfn(Ref("NText"), opaque=True, t=STR)
def k10_strip_comments(t):
    import re

    return re.sub("(?m)#.*$", "", t)


@specfn(Ref("NText"), opaque=True, t=Ref("NText"))
def k10_squeeze_ws(t):
    import re

    return re.sub(r"\s+", " ", t)


@specfn(BOOL, opaque=True, t=Ref("NText"))
def k10_text_empty(t):
    return t == ""


@trusted("re.sub", "re.sub(pattern, repl, string) is a pure function of its arguments (modelled for the two constant (pattern, repl) pairs of _featuresCompatible; the resulting strings are abstract tokens)")
def _re_sub(ex, st, args, kwargs, node):
    from pyvc.core import Unsupported
    from pyvc.ops import is_const

    pat, repl, text = args
    if not (is_const(pat) and is_const(repl)) or kwargs:
        raise Unsupported("re.sub with a computed pattern / flags", node)
    name = {("(?m)#.*$", ""): "k10_strip_comments", (r"\s+", " "): "k10_squeeze_ws"}.get((pat.py, repl.py))
    if name is None:
        raise Unsupported(f"re.sub({pat.py!r}, {repl.py!r}, ..): no model", node)
    return ex.apply_spec(SPECFNS[name], [text], st, node)


cls("FCFeatures", fields={"text": Opt(STR)}, notes="font.features: the feature file text (None when absent)")
cls("FCFont", fields={"features": Ref("FCFeatures")}, notes="a source UFO, as _featuresCompatible reads it")
cls("FCSource", fields={"font": Ref("FCFont")}, notes="designspaceLib SourceDescriptor with its opened font")
cls("FCDoc", fields={"sources": List(Ref("FCSource")), "default": Ref("FCSource")}, isa=("DesignSpaceDocument",),
    notes="designspaceLib DesignSpaceDocument: sources, and the default source found by findDefault()")

_NORM = "k10_squeeze_ws(k10_strip_comments({s}.font.features.text or ''))"
_SRC = "designSpaceDoc.sources"
contract(
    "ufo2ft.featureCompiler:_featuresCompatible",
    props=["C10"],
    params={"designSpaceDoc": Ref("FCDoc")},
    returns=BOOL,
    # the interpolable sub-documents handed over by compile_variable come from designspaceLib.split, which sets .default
    # to one of the document's own sources (findDefault)
    requires=[f"any({_SRC}[a] == designSpaceDoc.default for a in range(len({_SRC})))"],
    sorted_axioms=True,
    seq_positions=True,  # `x in sorted(..)` comes with a position witness (needed for: the default source is at position 0)
    ensures={
        # (deductive part: the function raises nothing - in particular sorted(..)[0] is the default source, the two
        # assertions hold, no index error; the two decision clauses are below, bounded)
        "returns-bool": "result or not result",
    },
    # run-time only (bounded): the solvers do not get through the composition sorted-permutation / slice / membership within
    # minutes, although every fact is there (z3's sequence theory; see notes/C10.md)
    bounded_ensures={
        # identical features everywhere (the normal case of a family built from one feature file) are recognised
        "if-same": f"implies(all({_NORM.format(s='s')} == {_NORM.format(s='designSpaceDoc.default')} for s in set({_SRC})), result)",
        # True only if every source has the default source's feature text modulo comments and white space, or no source
        # other than the default has any
        "only-if": f"implies(result, all({_NORM.format(s='s')} == {_NORM.format(s='designSpaceDoc.default')} for s in set({_SRC})) or all(s == designSpaceDoc.default or k10_text_empty({_NORM.format(s='s')}) for s in set({_SRC})))",
    },
    canaries={"always": "result", "inconsistent": "False"},
)


def _fc_cases(rng, n):
    texts = [None, "", "# only a comment\n", "feature liga { sub A V by T; } liga;", "feature liga {\n  sub A V by T; # c\n} liga;\n",
             "feature liga { sub A o by T; } liga;", "  \n"]
    out = []
    for k in range(n):
        m = rng.randint(1, 4)
        if k % 3 == 0:
            t = rng.choice(texts)
            ts = [t] * m
        elif k % 3 == 1:
            ts = [rng.choice(texts)] + [rng.choice([None, "", "  \n", "# c\n"]) for _ in range(m - 1)]
        else:
            ts = [rng.choice(texts) for _ in range(m)]
        out.append({"texts": ts, "default": rng.randrange(m)})
    return out


def _fc_build(d):
    from types import SimpleNamespace

    from fontTools.designspaceLib import DesignSpaceDocument, SourceDescriptor

    ds = DesignSpaceDocument()
    for t in d["texts"]:
        sd = SourceDescriptor()
        sd.font = SimpleNamespace(features=SimpleNamespace(text=t))
        ds.addSource(sd)
    ds.default = ds.sources[d["default"]]
    return {"designSpaceDoc": ds}


CONTRACTS["ufo2ft.featureCompiler:_featuresCompatible"].runtime = Runtime(_fc_cases, _fc_build)


# ---- replay entry of the end-to-end observer (vcheck/hooks/c10.py) ------------------------------------------
def _e2e_gen(rng, n):
    from vcheck.hooks import c10 as h

    return h.gen_cases(rng, n)


def _e2e_call(fn, a):
    from vcheck.hooks import c10 as h

    return h.observe_case(a["case"])


contract(
    "ufo2ft.featureWriters.kernFeatureWriter:KernFeatureWriter.getVariableKerningPairs",
    name="e2e-observer",
    props=[],  # never executed symbolically (outside the subset); gives `./check replay` a (contract, case) pair
    params={},
    bounded_ensures={"no-violation": "result == []"},
    runtime=Runtime(_e2e_gen, lambda case: {"case": case}, call=_e2e_call),
)


# ---- probe: getVariableKerningPairs (NOT registered) ----------------------------------------------------------------------
from pyvc.api import TupleOf as _TupleOf  # noqa: E402

from . import c05 as _c05  # noqa: E402  (SIDE_T, KPairT, quantize)

_PAIRKEY = Tuple(STR, STR)
CLASSES["GlyphLayer"].fields["kerning"] = Dict(_PAIRKEY, REAL)  # source UFO: font.kerning


CLASSES["DSDoc"].fields["default"] = Opt(Ref("DSSource"))  # what findDefault() finds (and stores): the source at the default location


def _ds_find_default(ex, st, self, args, kwargs, node):
    """designspaceLib DesignSpaceDocument.findDefault(): the source at the default location of all axes, or None; the library
    stores it in `self.default` and returns it (modelled as reading that field: which source it is is the library's business)"""
    return ex.read_field(st, self, "default")


CLASSES["DSDoc"].methods["findDefault"] = _ds_find_default
cls("VKOpts", fields={"quantization": INT})


@specfn(REAL, pair=_PAIRKEY, kerning=Dict(_PAIRKEY, REAL), groups=Dict(STR, _TupleOf(STR)), g1=Dict(STR, STR), g2=Dict(STR, STR), opaque=True)
def k10_lookup(pair, kerning, groups, g1, g2):
    """fontTools.ufoLib.kerning.lookupKerningValue (library): the UFO kerning value of the pair with UFO precedence"""
    from fontTools.ufoLib.kerning import lookupKerningValue

    return lookupKerningValue(pair, kerning, groups, glyphToFirstGroup=g1, glyphToSecondGroup=g2)


def _lookup_model(ex, st, args, kwargs, node):
    """fontTools.ufoLib.kerning.lookupKerningValue: a pure function of its arguments (no effects)"""
    from pyvc.core import Val, lift

    pair, kerning, groups = args[:3]
    g1, g2 = kwargs["glyphToFirstGroup"], kwargs["glyphToSecondGroup"]
    from pyvc.api import SPECFNS

    return ex.apply_spec(SPECFNS["k10_lookup"], [pair, kerning, groups, g1, g2], st, node)


_VKVAL = Union(REAL, Ref("VariableScalar"))
cls("VKPair", fields={"side1": _c05.SIDE_T, "side2": _c05.SIDE_T, "value": _VKVAL}, repo="ufo2ft.featureWriters.kernFeatureWriter:KerningPair", isa=("KerningPair",),
    notes="KerningPair of a variable font: the value is a number or a VariableScalar")
for _prop, _side in (("firstIsClass", "side1"), ("secondIsClass", "side2")):
    contract(
        f"ufo2ft.featureWriters.kernFeatureWriter:KerningPair.{_prop}",
        name="VKPair",
        props=["C10"],
        params={"self": Ref("VKPair")},
        returns=BOOL,
        ensures={"is-tuple": f"result == isinstance(self.{_side}, tuple)"},
        canaries={"never": "not result"},
    )


def _vkp_new(ex, st, args, kwargs, node):
    """dataclass-generated constructor of KerningPair (as c05._kp_new_obj), producing a VKPair object"""
    names = ["side1", "side2", "value"]
    bound = dict(zip(names, args))
    bound.update(kwargs)
    o = ex.new_object(st, "VKPair")
    for n in names:
        ex.write_field(st, o, n, ex.deopt(bound[n], st, node), node)
    return o


_VKP = "ufo2ft.featureWriters.kernFeatureWriter:KernFeatureWriter.getVariableKerningPairs"
_KNOWN = "((isinstance({k}[0], tuple) or {k}[0] in glyphSet) and (isinstance({k}[1], tuple) or {k}[1] in glyphSet))"
_VK_INV = {
    # every key made so far: a class side is the class's glyph tuple, a glyph side is a glyph of the glyph set
    "keys-known": "all(" + _KNOWN.format(k="k") + " for k in set(kerning_pairs_in_progress))",
}
contract(
    _VKP,
    name="light",
    props=["C10"],
    params={"designspace": Ref("DSDoc"), "side1Classes": Dict(STR, _TupleOf(STR)), "side2Classes": Dict(STR, _TupleOf(STR)),
            "glyphSet": Set(STR), "options": Ref("VKOpts")},
    returns=List(Ref("VKPair")),
    models={"fontTools.ufoLib.kerning.lookupKerningValue": _lookup_model,
            "ufo2ft.featureWriters.kernFeatureWriter.KerningPair": _vkp_new},
    requires=[
        "options.quantization >= 1",  # as for quantize
        # the designspace: axis names / tags are identifiers; what getAxis returns (trusted library) - as for _getAnchor
        "designspace.names_distinct", "designspace.tags_distinct", "designspace.library_axioms",
    ],
    raises={
        # the two assertions of the code: the group names of the two sides are disjoint (getKerningGroups keys them by their
        # public.kern1. / public.kern2. names), and the designspace has a default source
        "AssertionError": "any(k in side2Classes for k in set(side1Classes)) or designspace.default is None",
    },
    # VariableScalars and KerningPairs are created (and only those are written); declared for the whole classes
    modifies=["VariableScalar.values", "VSValues.d", "VKPair.side1", "VKPair.side2", "VKPair.value"],
    ensures={
        # every side of every resulting pair is a class (the glyph tuple of the group) or a glyph of the glyph set
        "sides-known": "all((isinstance(result[n].side1, tuple) or result[n].side1 in glyphSet) and (isinstance(result[n].side2, tuple) or result[n].side2 in glyphSet) for n in range(len(result)))",
        # no class-to-class pair with the constant value zero is emitted
        "no-zero-class-pair": "all(not (isinstance(result[n].side1, tuple) and isinstance(result[n].side2, tuple) and result[n].value == 0) for n in range(len(result)))",
    },
    canaries={"e": "len(result) == 0", "all-class": "all(isinstance(result[n].side1, tuple) for n in range(len(result)))"},
    locals={"all_pairs": Set(_PAIRKEY), "kerning_pairs_in_progress": Dict(Tuple(_c05.SIDE_T, _c05.SIDE_T), Ref("VariableScalar")),
            "side1": _c05.SIDE_T, "side2": _c05.SIDE_T, "value": REAL, "value@L553": _VKVAL, "result": List(Ref("VKPair"))},
    globals={"LOCATION": LOCATION},
    calls={"ufo2ft.util:collapse_varscalar": "ufo2ft.util:collapse_varscalar#kind"},
    # per entry (assertion at the statement that records a value; a proved obligation): values are recorded for FULL sources only,
    # and the value recorded for this pair at THIS source's user-space location is the quantised UFO lookup of the pair in this
    # source's kerning
    hints={
        # the two glyph -> group maps handed to lookupKerningValue cover the classes of THEIR side: every member of every group of
        # that side has an entry (that the entry names a group containing the glyph is not derivable from the engine's facts about
        # a dict comprehension with two `for` clauses: tried, times out)
        # (attached to the first statement after the two comprehensions, whose text does not depend on them)
        "all_pairs: set[tuple[str, str]] = set()": [
            f"all(all(g in glyphTo{W}Group for g in side{k}Classes[n]) for n in set(side{k}Classes))" for W, k in (("First", 1), ("Second", 2))
        ],
        "var_scalar.values[location] = value": [
            "source.layerName is None and kerning == source.font.kerning and var_scalar.values.d[location] == k5_quant(k10_lookup(pair, kerning, unified_groups, glyphToFirstGroup, glyphToSecondGroup), quantization)",
        ],
    },
    loops={
        "for source in designspace.sources#2": Loop(index="a", invariants=_VK_INV),
        "for pair in all_pairs": Loop(index="b", invariants=_VK_INV),
        "for ((side1, side2), value) in kerning_pairs_in_progress.items()": Loop(index="c", invariants={
            **_VK_INV,
            "out-known": "all((isinstance(result[n].side1, tuple) or result[n].side1 in glyphSet) and (isinstance(result[n].side2, tuple) or result[n].side2 in glyphSet) for n in range(len(result)))",
            "out-alloc": "all(allocated(result[n]) for n in range(len(result)))",  # (the pairs made so far exist: a new pair is none of them)
            "out-zero": "all(not (isinstance(result[n].side1, tuple) and isinstance(result[n].side2, tuple) and result[n].value == 0) for n in range(len(result)))",
        }),
    },
)


def _vkp_cases(rng, n):
    from vcheck.hooks import c10 as h

    return [{"case": h.gen_case(rng, k)} for k in range(n)]


def _vkp_build(d):
    from collections import OrderedDict
    from types import SimpleNamespace

    from ufo2ft.featureWriters.kernFeatureWriter import KernFeatureWriter
    from vcheck.hooks import c10 as h

    case = d["case"]
    ds = h.build_designspace(case)
    w = KernFeatureWriter(quantization=case["quantization"])
    glyphset = OrderedDict((g.name, g) for g in ds.findDefault().font)
    w.context = SimpleNamespace(isVariable=True, font=ds, glyphSet=glyphset)
    s1, s2 = w.getKerningGroups()
    return {"designspace": ds, "side1Classes": dict(s1), "side2Classes": dict(s2), "glyphSet": set(glyphset), "options": w.options}


CLASSES["DSDoc"].views["default"] = lambda o: o.findDefault()  # (the library fills the attribute in on the first call)
CLASSES["GlyphLayer"].views["kerning"] = lambda o: dict(o.kerning)
CONTRACTS[_VKP + "#light"].runtime = Runtime(
    _vkp_cases, _vkp_build, call=lambda fn, a: fn(a["designspace"], a["side1Classes"], a["side2Classes"], a["glyphSet"], a["options"]))

