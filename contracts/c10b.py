"""C10 — the alternative writer's copy of getVariableKerningPairs: kernFeatureWriter2.get_variable_kerning_pairs (round 3).

The body is the same as KernFeatureWriter.getVariableKerningPairs except that the designspace and the glyph set come from the
context and that the `assert default_source is not None` is missing: without a default source the copy fails with an
AttributeError on `None.location` (excluded by `requires`).  The contract is built from the clauses of c10's `#light`."""
from pyvc.api import CLASSES, CONTRACTS, Dict, Ref, Runtime, Set, STR, TupleOf, cls, contract

from . import c05, c10  # noqa: F401

_PROPS = ["C10"]

_BASE = CONTRACTS[c10._VKP + "#light"]
_W2 = "ufo2ft.featureWriters.kernFeatureWriter2"
cls("VKCtx", fields={"font": Ref("DSDoc"), "glyphSet": Set(STR)}, notes="kernFeatureWriter2 KernContext, as get_variable_kerning_pairs reads it: font (the designspace document), glyphSet")
# (writer 2 imports KerningPair from kernFeatureWriter: the VKPair vocabulary and property contracts of c10 apply as they are)
_G = lambda s: s.replace("glyphSet", "context.glyphSet").replace("designspace.", "context.font.")  # noqa: E731  (clauses over the parameters)
contract(
    f"{_W2}:get_variable_kerning_pairs",
    name="light",
    props=_PROPS,
    params={"context": Ref("VKCtx"), "options": Ref("VKOpts"), "side1Classes": Dict(STR, TupleOf(STR)), "side2Classes": Dict(STR, TupleOf(STR))},
    returns=_BASE.returns,
    models={"fontTools.ufoLib.kerning.lookupKerningValue": c10._lookup_model, "ufo2ft.featureWriters.kernFeatureWriter.KerningPair": c10._vkp_new},
    # the designspace has a default source: this copy lacks the other writer's `assert default_source is not None` and would
    # fail on `None.location` (AttributeError) otherwise; compile_variable_features only runs on designspaces with a default
    requires=[_G(r) for r in _BASE.requires] + ["context.font.default is not None"],
    raises={"AssertionError": "any(k in side2Classes for k in set(side1Classes))"},
    modifies=list(_BASE.modifies),
    ensures={k: _G(v) for k, v in _BASE.ensures.items()},
    canaries=dict(_BASE.canaries),
    locals={**{k: v for k, v in _BASE.locals.items() if "@L" not in k}, "value@L580": c10._VKVAL, "glyphSet": Set(STR), "designspace": Ref("DSDoc")},
    globals=dict(_BASE.globals),
    calls=dict(_BASE.calls),
    hints=dict(_BASE.hints),
    loops=dict(_BASE.loops),
)


def _w2_build(d):
    a = c10._vkp_build(d)
    from types import SimpleNamespace

    return {"context": SimpleNamespace(font=a["designspace"], glyphSet=a["glyphSet"]), "options": a["options"], "side1Classes": a["side1Classes"], "side2Classes": a["side2Classes"]}


CONTRACTS[f"{_W2}:get_variable_kerning_pairs#light"].runtime = Runtime(
    c10._vkp_cases, _w2_build, call=lambda fn, a: fn(a["context"], a["options"], a["side1Classes"], a["side2Classes"]))
