"""C06 — MarkFeatureWriter._makeMarkToBaseAttachments, one contract VARIANT per clause group (see c06liga.py for why).

  #glyphs    one statement per eligible glyph (not a mark glyph, in GDEF base when defined), no glyph twice, never empty
  #anchors   every listed anchor has a mark class, no component number, no context, and is an anchor OF THAT GLYPH
  #complete  every such anchor of every eligible glyph is listed in the glyph's statement

Ghosts: `src[k]` = position (in the anchor-list dict) of the glyph of result[k]; `bseen` = the set of anchor objects in baseMarks,
`seens[k]` = that set for result[k]; `pos[a]` = index of the statement of glyph number a.  Existentials are stated about the flat
sets only (the solvers' default configuration does not find witnesses under nested quantifiers over nested lists reliably).
"""
from pyvc.api import INT, Dict, List, Loop, Ref, Runtime, Set, contract

from . import c06rt
from .c06 import AL, KEYS, MARK2BASE, NA, W, _at, _base_anchor, _base_glyph

FN = W + "MarkFeatureWriter._makeMarkToBaseAttachments"
APPEND = "result.append(MarkToBasePos(glyphName, baseMarks))"
OUTER = "for (glyphName, anchors) in self.context.anchorLists.items()"
INNER = "for anchor in anchors"
SET_NA = Set(NA)

REQUIRES = [
    # anchors that carry a mark class are never mark anchors: _setBaseAnchorMarkClasses assigns classes to non-mark anchors only
    # and NamedAnchor.__init__ starts with markClass None (both proved); the code asserts it
    f"all(all(implies({_at('a', 'b')}.markClass is not None, not {_at('a', 'b')}.isMark) for b in range(len({AL}[{KEYS}[a]]))) for a in range(len({KEYS})))",
]
LOCALS = {"result": List(MARK2BASE), "baseMarks": List(NA), "r0": List(MARK2BASE)}
COMMON = dict(props=["C06"], params={"self": Ref("C06_Writer")}, returns=List(MARK2BASE), requires=REQUIRES, dict_key_positions=False)
_RT = Runtime(c06rt.stage_cases, lambda d: {"self": c06rt.writer_at(d, "assigned")}, call=lambda fn, a: fn(a["self"]))
_APPENDED = [
    "len(result) == len(r0) + 1 and result[len(r0)].name == glyphName and result[len(r0)].marks == baseMarks",
    "all(result[k] == r0[k] for k in range(len(r0)))",
]
_R0 = {"r0": (List(MARK2BASE), "[]")}

contract(
    FN,
    name="glyphs",
    **COMMON,
    ensures={
        "only-eligible-glyphs": f"all(result[k].name in {AL} and {_base_glyph('result[k].name')} and len(result[k].marks) > 0 for k in range(len(result)))",
        "one-statement-per-glyph": "all(all(implies(k1 != k2, result[k1].name != result[k2].name) for k2 in range(len(result))) for k1 in range(len(result)))",
    },
    canaries={"never-empty": "len(result) > 0"},
    locals=LOCALS,
    ghost_vars={**_R0, "src": (List(INT), "[]")},
    ghost={"baseMarks = []": ["r0 = result + []"], APPEND: ["src = src + [i]"]},
    hints={APPEND: _APPENDED},
    loops={
        OUTER: Loop(index="i", invariants={
            "len": "len(src) == len(result)",
            "glyph": f"all(0 <= src[k] and src[k] < i and result[k].name == {KEYS}[src[k]] and {_base_glyph(KEYS + '[src[k]]')} and len(result[k].marks) > 0 for k in range(len(result)))",
            "order": "all(all(implies(k1 < k2, src[k1] < src[k2]) for k2 in range(len(src))) for k1 in range(len(src)))",
        }),
    },
    runtime=_RT,
)

# ---------------------------------------------------------------------------------------------------------------------
_RES_ANCHORS = (f"all(result[k].name in {AL} and all({_base_anchor('result[k].marks[m]')} and any(result[k].marks[m] == {AL}[result[k].name][b] for b in range(len({AL}[result[k].name])))"
                " for m in range(len(result[k].marks))) for k in range(len(result)))")
contract(
    FN,
    name="anchors",
    **COMMON,
    ensures={"only-eligible-anchors-of-that-glyph": _RES_ANCHORS},
    canaries={"never-empty": "len(result) > 0"},
    locals={**LOCALS, "bseen": SET_NA, "seens": List(SET_NA)},
    ghost_vars={**_R0, "bseen": (SET_NA, "set()"), "seens": (List(SET_NA), "[]")},
    ghost={"baseMarks = []": ["r0 = result + []", "bseen = set()"], "baseMarks.append(anchor)": ["bseen.add(anchor)"], APPEND: ["seens = seens + [bseen]"]},
    hints={APPEND: _APPENDED},
    loops={
        OUTER: Loop(index="i", invariants={
            "len": "len(seens) == len(result)",
            "name": f"all(result[k].name in {AL} for k in range(len(result)))",
            "kind": "all(all(" + _base_anchor("result[k].marks[m]") + " and result[k].marks[m] in seens[k] for m in range(len(result[k].marks))) for k in range(len(result)))",
            "seen-source": f"all(all(any({AL}[result[k].name][b] == x for b in range(len({AL}[result[k].name]))) for x in seens[k]) for k in range(len(result)))",
        }),
        INNER: Loop(index="j", invariants={
            "kind": "all(" + _base_anchor("baseMarks[m]") + " and baseMarks[m] in bseen for m in range(len(baseMarks)))",
            "seen-source": "all(any(anchors[b] == x for b in range(j)) for x in bseen)",
        }),
    },
    runtime=_RT,
)

# ---------------------------------------------------------------------------------------------------------------------
_ELIG_A = _base_glyph(KEYS + "[a]")
IDX = Dict(NA, INT)  # ghost: anchor object -> its position in baseMarks
contract(
    FN,
    name="complete",
    **COMMON,
    ensures={
        "all-eligible": f"all(implies({_ELIG_A}, all(implies({_base_anchor(_at('a', 'b'))},"
        f" any(result[k].name == {KEYS}[a] and any(result[k].marks[m] == {_at('a', 'b')} for m in range(len(result[k].marks))) for k in range(len(result))))"
        f" for b in range(len({AL}[{KEYS}[a]])))) for a in range(len({KEYS})))",
    },
    canaries={"never-empty": "len(result) > 0"},
    locals={**LOCALS, "bidx": IDX, "idxs": List(IDX), "pos": Dict(INT, INT), "bm0": List(NA)},
    ghost_vars={**_R0, "bidx": (IDX, "{}"), "idxs": (List(IDX), "[]"), "pos": (Dict(INT, INT), "{}"), "bm0": (List(NA), "[]")},
    ghost={"baseMarks = []": ["r0 = result + []", "bidx = {}"], "assert not anchor.isMark": ["bm0 = baseMarks + []"], "baseMarks.append(anchor)": ["bidx = {**bidx, anchor: len(bm0)}"],
           APPEND: ["idxs = idxs + [bidx]", "pos = {**pos, i: len(r0)}"]},
    hints={APPEND: _APPENDED,
           # the appended list, position by position (bm0: ghost copy taken just before)
           "baseMarks.append(anchor)": ["len(baseMarks) == len(bm0) + 1", "baseMarks[len(bm0)] == anchor", "all(baseMarks[m] == bm0[m] for m in range(len(bm0)))"]},
    loops={
        OUTER: Loop(index="i", invariants={
            "len": "len(idxs) == len(result)",
            "listed": "all(all(0 <= idxs[k][x] and idxs[k][x] < len(result[k].marks) and result[k].marks[idxs[k][x]] == x for x in idxs[k]) for k in range(len(result)))",
            "complete": f"all(implies({_ELIG_A}, all(implies({_base_anchor(_at('a', 'b'))}, a in pos and 0 <= pos[a] and pos[a] < len(result) and result[pos[a]].name == {KEYS}[a]"
            f" and {_at('a', 'b')} in idxs[pos[a]]) for b in range(len({AL}[{KEYS}[a]])))) for a in range(i))",
        }),
        INNER: Loop(index="j", invariants={
            "listed": "all(0 <= bidx[x] and bidx[x] < len(baseMarks) and baseMarks[bidx[x]] == x for x in bidx)",
            "complete": "all(implies(" + _base_anchor("anchors[b]") + ", anchors[b] in bidx) for b in range(j))",
        }),
    },
    runtime=_RT,
)
