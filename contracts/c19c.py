"""C19, second wave — swap_glyph_names against the abstract swap (conjugation by the transposition of two glyph names).

Deductive (real AST of Lib/ufo2ft/instantiator.py:835-916), all five steps:
  * InstantiatorError iff one of the two names is missing (and then nothing is touched)
  * outline contours, width and anchors of the two glyphs are exchanged; every other glyph keeps its own; glyph objects, names, key set stay
  * components: glyph n ends up with the component list glyph sigma(n) had (same length, order, transformations), EVERY base name conjugated,
    for every glyph of the font (step 1 + step 3; nested loop over component OBJECTS with a separation precondition)
  * kerning: the new table is the old one with both sides of every key conjugated (same values, no key lost, none invented)
  * groups: same group names in the same order, every member list mapped element-wise (order and multiplicity kept)
Trusted: the point-pen protocol of ufoLib2 / defcon glyphs as far as the function uses it (models below).
With the lemmas `C19.lemma.involution.*` (contracts/c19.py) "swapping twice restores" follows for all of it.
"""
import z3

from pyvc import ty as T
from pyvc.api import BOOL, CLASSES, CONTRACTS, INT, REAL, STR, Const, Dict, List, Loop, Map, Opaque, Opt, Ref, Runtime, Set, Tuple, cls, contract, specfn, trusted
from pyvc.core import PYOBJ, Unsupported, Val, fresh, fresh_name, lift

from . import c19
from .c19 import NAMEPAIR, swapname, swappair  # noqa: F401

CONTOUR = Opaque("Contour")
ANCHOR = Opaque("Anchor")
KERNING = Dict(NAMEPAIR, REAL)
GROUPS = Dict(STR, List(STR))


# ---- the glyph / pen protocol (ufoLib2 / defcon), as far as swap_glyph_names uses it (assumed library behaviour) ------------------------
def _g_get_point_pen(ex, st, self, args, kwargs, node):
    p = ex.new_object(st, "SwPen")
    ex.write_field(st, p, "glyph", self, node)
    return p


def _g_draw_points(ex, st, self, args, kwargs, node):
    """glyph.drawPoints(pen) with pen = other.getPointPen(): the contours of `glyph` are appended to `other` (same contours, same order);
    for every component of `glyph`, in order, a NEW component object with the same baseGlyph and transformation is appended to `other`
    (GlyphPointPen.addComponent builds a Component); `glyph` itself is only read.
    Specification-only: every component object knows the glyph and the position it sits at (`owner`, `idx`)."""
    from pyvc.symex import BIRTH

    (pen,) = args
    if not (isinstance(pen.ty, T.Ref) and pen.ty.cls == "SwPen"):
        raise Unsupported("drawPoints with a pen that is not glyph.getPointPen()", node)
    tgt = ex.read_field(st, pen, "glyph")
    mine = ex.read_field(st, self, "contours")
    theirs = ex.read_field(st, tgt, "contours")
    ex.write_field(st, tgt, "contours", Val(mine.ty, z3.Concat(lift(theirs), lift(mine))), node)
    src = lift(ex.read_field(st, self, "components"))
    old = lift(ex.read_field(st, tgt, "components"))
    CT = List(Ref("SwComponent"))
    new = fresh(CT, "drawn")
    before, after = ex.advance_clock(st)
    k, l = z3.Int(fresh_name("dk")), z3.Int(fresh_name("dl"))
    inr = z3.And(k >= 0, k < z3.Length(src))
    base = ex.field_array(st, "SwComponent", "baseGlyph")
    xf = ex.field_array(st, "SwComponent", "transformation")
    owner = ex.field_array(st, "SwComponent", "owner")
    idx = ex.field_array(st, "SwComponent", "idx")
    st.assume(z3.Length(new) == z3.Length(src))
    # new objects (their cells are described, not stored: the heap arrays of the objects that existed stay the same terms)
    st.assume(z3.ForAll([k], z3.Implies(inr, z3.And(
        BIRTH(new[k]) >= before, BIRTH(new[k]) < after,
        z3.Select(base, new[k]) == z3.Select(base, src[k]), z3.Select(xf, new[k]) == z3.Select(xf, src[k]),
        z3.Select(owner, new[k]) == lift(tgt), z3.Select(idx, new[k]) == z3.Length(old) + k))))
    st.assume(z3.ForAll([k, l], z3.Implies(z3.And(k >= 0, k < l, l < z3.Length(src)), new[k] != new[l])))
    ex.write_field(st, tgt, "components", Val(CT, z3.Concat(old, new)), node)
    return Val.const(None)


_g_draw_points.modifies = ["SwGlyph.contours", "SwGlyph.components"]


def _g_clear(field, ty):
    def model(ex, st, self, args, kwargs, node):
        ex.write_field(st, self, field, Val(ty, z3.Empty(ty.sort())), node)
        return Val.const(None)

    model.modifies = ["SwGlyph." + field]
    return model


def _contours_view(g):
    from fontTools.pens.recordingPen import RecordingPointPen

    pen = RecordingPointPen()
    g.drawPoints(pen)
    out, cur = [], None
    for op, a, kw in pen.value:
        if op == "beginPath":
            cur = []
        elif op == "addPoint":
            cur.append((tuple(a[0]), a[1], bool(a[2]), a[3] if len(a) > 3 else None))
        elif op == "endPath":
            out.append(tuple(cur))
    return out


cls(
    "SwGlyph",
    fields={"name": STR, "width": REAL, "contours": List(CONTOUR), "anchors": List(ANCHOR), "components": List(Ref("SwComponent"))},
    methods={"getPointPen": _g_get_point_pen, "drawPoints": _g_draw_points, "clearContours": _g_clear("contours", List(CONTOUR)), "clearComponents": _g_clear("components", List(Ref("SwComponent")))},
    views={"components": lambda g: [_pxc(c) for c in g.components], "contours": _contours_view, "anchors": lambda g: [(a.get("name"), a["x"], a["y"]) if isinstance(a, dict) else (a.name, a.x, a.y) for a in g.anchors], "width": lambda g: g.width},
    notes="ufoLib2 / defcon glyph: name, width, contours (abstract values, in order), anchors (abstract values, in order), component OBJECTS; "
    "getPointPen / drawPoints / clearContours / clearComponents (assumed API)",
)
cls("SwPen", fields={"glyph": Ref("SwGlyph")}, notes="the point pen returned by glyph.getPointPen(): draws into that glyph")
XFORM = Opaque("Transformation")


_RT_OWNER: dict = {}  # filled by the harness for the font of the current case (owner / idx are specification-only)


def _rt_owner(font):
    """run-time: component object -> (glyph, position) for all components of the font"""
    return {id(c): (g, j) for g in font for j, c in enumerate(g.components)}


cls("SwComponent", fields={"baseGlyph": STR, "transformation": XFORM, "owner": Ref("SwGlyph"), "idx": INT},
    views={"transformation": lambda c: tuple(c.transformation), "owner": lambda c: _RT_OWNER.get(id(c), (None, -1))[0], "idx": lambda c: _RT_OWNER.get(id(c), (None, -1))[1]},
    notes="component object: baseGlyph (assignable), transformation; `owner` / `idx` are specification-only: the glyph whose component list holds the "
    "object and its position there (they exist for a font in which no component object is shared between glyphs or positions)")


def _factory_call(ex, st, self, args, kwargs, node):
    g = ex.new_object(st, "SwGlyph")
    if args or set(kwargs) != {"name"}:
        raise Unsupported("glyph factory arguments", node)
    ex.write_field(st, g, "name", kwargs["name"], node)
    for f, t in (("contours", List(CONTOUR)), ("anchors", List(ANCHOR)), ("components", List(Ref("SwComponent")))):
        ex.write_field(st, g, f, Val(t, z3.Empty(t.sort())), node)
    return g


cls("SwFactory", methods={"__call__": _factory_call}, notes="closure returned by util._getNewGlyphFactory(glyph): factory(name=..) makes a new EMPTY glyph of that name")
trusted("c19.getNewGlyphFactory", "util._getNewGlyphFactory(glyph): a factory of new empty glyphs of the same class (assumed; the argument is only inspected for its class)")(
    lambda ex, st, args, kwargs, node: ex.new_object(st, "SwFactory")
)
trusted("c19.copy_anchor", "dict(anchor): an equal copy of the anchor mapping")(lambda ex, st, args, kwargs, node: args[0])


def _f_glyphs(ex, st, self):
    return ex.read_field(st, self, "glyphs")


def _f_iter(ex, st, self, node):
    from pyvc import models
    from pyvc.stmts import IterInfo

    d = _f_glyphs(ex, st, self)
    so = d.ty.sort()
    models.dict_wf(st, d.ty, d.term)
    ks = so.keys(d.term)
    return IterInfo("indexed", n=z3.Length(ks), item=lambda i: Val(Ref("SwGlyph"), z3.Select(so.map(d.term), ks[i])))


def _px(g):
    from pyvc.rt import Proxy

    return Proxy(g, CLASSES["SwGlyph"])


class _IdMap(dict):
    def __deepcopy__(self, memo):
        return _IdMap(self)


class _LiveMap:
    def __init__(self, f):
        self.f = f

    def __getitem__(self, o):
        from pyvc.rt import canon

        return self.f(canon(o))

    def __deepcopy__(self, memo):
        return self


class _Frozen:
    """run-time snapshot view: object -> value, taken when the view is read (old(view)[x] is the pre-state value of x)"""

    def __init__(self, font, f):
        self.snap = {id(g): f(g) for g in font}
        self.keep = list(font)

    def __getitem__(self, o):
        from pyvc.rt import canon

        return self.snap[id(canon(o))]

    def __deepcopy__(self, memo):
        return self


def _pxc(c):
    from pyvc.rt import Proxy

    return Proxy(c, CLASSES["SwComponent"])


class _FrozenComps:
    """run-time snapshot: component object -> value, for all components of the font's glyphs, taken when the view is read"""

    def __init__(self, font, f):
        self.keep = [c for g in font for c in g.components]
        self.snap = {id(c): f(c) for c in self.keep}

    def __getitem__(self, o):
        from pyvc.rt import canon

        return self.snap[id(canon(o))]

    def __deepcopy__(self, memo):
        return self


cls(
    "SwFont",
    fields={"glyphs": Dict(STR, Ref("SwGlyph")), "kerning": KERNING, "groups": GROUPS},
    getitem=lambda ex, st, self, idx, node: ex.getitem(_f_glyphs(ex, st, self), idx, st, node),
    contains=lambda ex, st, self, x: z3.Select(_f_glyphs(ex, st, self).ty.sort().dom(_f_glyphs(ex, st, self).term), lift(x, STR)),
    iter=_f_iter,
    derived={
        "keyset": lambda ex, st, self: Val(Set(STR), _f_glyphs(ex, st, self).ty.sort().dom(_f_glyphs(ex, st, self).term)),
        "objs": lambda ex, st, self: Val(Map(STR, Ref("SwGlyph")), _f_glyphs(ex, st, self).ty.sort().map(_f_glyphs(ex, st, self).term)),
        "h_contours": lambda ex, st, self: Val(Map(Ref("SwGlyph"), List(CONTOUR)), ex.field_array(st, "SwGlyph", "contours")),
        "h_width": lambda ex, st, self: Val(Map(Ref("SwGlyph"), REAL), ex.field_array(st, "SwGlyph", "width")),
        "h_anchors": lambda ex, st, self: Val(Map(Ref("SwGlyph"), List(ANCHOR)), ex.field_array(st, "SwGlyph", "anchors")),
        "h_comps": lambda ex, st, self: Val(Map(Ref("SwGlyph"), List(Ref("SwComponent"))), ex.field_array(st, "SwGlyph", "components")),
        "h_base": lambda ex, st, self: Val(Map(Ref("SwComponent"), STR), ex.field_array(st, "SwComponent", "baseGlyph")),
        "h_xf": lambda ex, st, self: Val(Map(Ref("SwComponent"), XFORM), ex.field_array(st, "SwComponent", "transformation")),
        "names": lambda ex, st, self: Val(List(STR), _f_glyphs(ex, st, self).ty.sort().keys(_f_glyphs(ex, st, self).term)),
        # every pair of names (hints quantify "for every key k: k in d => .." without iterating a dict in order)
        "all_pairs": lambda ex, st, self: Val(Set(NAMEPAIR), z3.K(NAMEPAIR.sort(), z3.BoolVal(True))),
    },
    views={
        "keyset": lambda f: set(f.keys()),
        "objs": lambda f: _IdMap({g.name: _px(g) for g in f}),
        "kerning": lambda f: dict(f.kerning),
        "groups": lambda f: {k: list(v) for k, v in f.groups.items()},
        "h_comps": lambda f: _Frozen(f, lambda g: [_pxc(c) for c in g.components]),
        "h_base": lambda f: _FrozenComps(f, lambda c: c.baseGlyph),
        "h_xf": lambda f: _FrozenComps(f, lambda c: tuple(c.transformation)),
        "names": lambda f: list(f.keys()),
        "h_contours": lambda f: _Frozen(f, _contours_view),
        "h_width": lambda f: _Frozen(f, lambda g: g.width),
        "h_anchors": lambda f: _Frozen(f, CLASSES["SwGlyph"].views["anchors"]),
    },
    notes="UFO font: font[name] / name in font / iteration over the glyphs of the default layer; kerning (pair -> value) and groups (name -> member list) "
    "as dict-valued fields (assumed mapping protocol: keys, [], clear, update, items, item assignment)",
)


def _ref(qual, real=None):
    from pyvc.symex import FuncRef

    class R(FuncRef):
        def __call__(self, *a, **k):
            return real(*a, **k)

    return R(None, qual)


_A, _B = "name_old", "name_new"
_SW = "swapname(name_old, name_new, {})"
_SP = "swappair(name_old, name_new, {})"
_BOTH = "name_old in font.keyset and name_new in font.keyset"

contract(
    "ufo2ft.instantiator:swap_glyph_names",
    portfolio=["z3-5.1", "z3-5.1/noext"],  # inv.step.done@L907: default z3 never, noext instantly (solver order only)
    props=["C19"],
    params={"font": Ref("SwFont"), "name_old": STR, "name_new": STR},
    globals={"_getNewGlyphFactory": _ref("c19.getNewGlyphFactory"), "dict": _ref("c19.copy_anchor", dict)},
    requires=[
        "name_old != name_new",  # generate_instance only swaps different names
        "all(font.objs[n].name == n for n in font.keyset)",  # every glyph of a layer carries the name it is stored under (so: different names, different objects)
        "all(allocated(font.objs[n]) for n in font.keyset)",  # the font's glyphs exist (the temporary glyph made here is none of them)
        # no component object is shared between two glyphs or two positions (each knows its place) and all of them exist
        "all(all(font.objs[n].components[j].owner is font.objs[n] and font.objs[n].components[j].idx == j and allocated(font.objs[n].components[j])"
        " for j in range(len(font.objs[n].components))) for n in font.keyset)",
    ],
    raises={"InstantiatorError": f"not ({_BOTH})"},
    ensures={
        # step 1 + 2: outline contours, width and anchors of the two glyphs are exchanged ...
        "exchanged": "font.objs[name_old].contours == old(font.h_contours)[font.objs[name_new]] and font.objs[name_new].contours == old(font.h_contours)[font.objs[name_old]]"
        " and font.objs[name_old].width == old(font.h_width)[font.objs[name_new]] and font.objs[name_new].width == old(font.h_width)[font.objs[name_old]]"
        " and font.objs[name_old].anchors == old(font.h_anchors)[font.objs[name_new]] and font.objs[name_new].anchors == old(font.h_anchors)[font.objs[name_old]]",
        # ... and every other glyph keeps its own
        "others-untouched": "all(implies(n != name_old and n != name_new, font.objs[n].contours == old(font.h_contours)[font.objs[n]] and font.objs[n].width == old(font.h_width)[font.objs[n]]"
        " and font.objs[n].anchors == old(font.h_anchors)[font.objs[n]]) for n in font.keyset)",
        # the glyph objects stay where they are, under their names (unicodes / lib / height are not written at all: not in `modifies`)
        "same-glyphs": "font.keyset == old(font.keyset) and all(font.objs[n] is old(font.objs)[n] and font.objs[n].name == n for n in font.keyset)",
        # step 1 + 3: the component lists are exchanged with the outlines, and EVERY component of EVERY glyph has its base name conjugated
        # (same transformation, same order): glyph n ends up with the components that glyph sigma(n) had, bases mapped
        "components-conjugated": "all(len(font.objs[n].components) == len(old(font.h_comps)[font.objs[" + _SW.format("n") + "]])"
        " and all(font.objs[n].components[j].baseGlyph == " + _SW.format("old(font.h_base)[old(font.h_comps)[font.objs[" + _SW.format("n") + "]][j]]")
        + " and font.objs[n].components[j].transformation == old(font.h_xf)[old(font.h_comps)[font.objs[" + _SW.format("n") + "]][j]]"
        " for j in range(len(font.objs[n].components))) for n in font.keyset)",
        # step 4: kerning conjugated, same values; no key lost, none invented
        "kerning-conjugated": f"all({_SP.format('k')} in font.kerning and font.kerning[{_SP.format('k')}] == old(font.kerning)[k] for k in old(font.kerning))",
        "kerning-nothing-invented": f"all({_SP.format('k')} in old(font.kerning) for k in font.kerning)",
        # step 5: same groups in the same order, members mapped one by one
        "groups-conjugated": "list(font.groups.keys()) == old(list(font.groups.keys())) and all(len(font.groups[g]) == len(old(font.groups)[g])"
        f" and all(font.groups[g][m] == {_SW.format('old(font.groups)[g][m]')} for m in range(len(font.groups[g]))) for g in font.groups)",
    },
    canaries={"bases-not-conjugated": "all(all(font.objs[n].components[j].baseGlyph == old(font.h_base)[old(font.h_comps)[font.objs[" + _SW.format("n") + "]][j]]"
              " for j in range(len(font.objs[n].components))) for n in font.keyset)",
              "component-lists-not-exchanged": "all(len(font.objs[n].components) == len(old(font.h_comps)[font.objs[n]]) for n in font.keyset)",
              "nothing-swapped": "font.objs[name_old].width == old(font.h_width)[font.objs[name_old]]", "kerning-kept": "all(k in font.kerning for k in old(font.kerning))"},
    modifies=["SwGlyph.contours", "SwGlyph.width", "SwGlyph.anchors", "SwGlyph.components", "SwComponent.baseGlyph", "SwFont.kerning", "SwFont.groups"],
    locals={"kerning_new": KERNING, "group_members_new": List(STR)},
    ghost_vars={"K0": (KERNING, "font.kerning"), "G0": (GROUPS, "font.groups"), "wi": (Dict(NAMEPAIR, INT), "{}"),
                # component bases / lists as they are when step 3 starts, and at entry
                "B1": (Map(Ref("SwComponent"), STR), "font.h_base"), "C0": (Map(Ref("SwGlyph"), List(Ref("SwComponent"))), "font.h_comps"),
                "B0": (Map(Ref("SwComponent"), STR), "font.h_base"), "X0": (Map(Ref("SwComponent"), XFORM), "font.h_xf")},
    ghost={"kerning_new[first, second] = value": ["wi = {**wi, (first, second): i}"],
           "glyph_new.anchors = [dict(a) for a in glyph_swap.anchors]": ["B1 = font.h_base"]},
    # stepping stones between the loop that builds the conjugated table and the two statements that install it
    hints={
        # when step 3 starts: (a) still no component object is shared (the drawn ones are new and pairwise distinct) ...
        "glyph_new.anchors = [dict(a) for a in glyph_swap.anchors]": [
            'all(all(font.objs[n].components[j].owner is font.objs[n] and font.objs[n].components[j].idx == j for j in range(len(font.objs[n].components))) for n in font.keyset)',
            # ... (b) glyph sigma-images hold copies: glyph n's list has the length, bases and transformations of the ENTRY list of glyph sigma(n)
            "all(len(font.objs[n].components) == len(C0[font.objs[" + _SW.format("n") + "]])"
            " and all(font.objs[n].components[j].baseGlyph == B0[C0[font.objs[" + _SW.format("n") + "]][j]]"
            " and font.objs[n].components[j].transformation == X0[C0[font.objs[" + _SW.format("n") + "]][j]]"
            " for j in range(len(font.objs[n].components))) for n in font.keyset)",
        ],
        "group_members_new = []": ["group_name == GK[gi] and group_members == G0[group_name]"],
        "font.groups[group_name] = group_members_new": ["font.groups[GK[gi]] == group_members_new and len(group_members_new) == len(G0[GK[gi]])"],
        "font.kerning.clear()": [
            f"all({_SP.format('k')} in kerning_new and kerning_new[{_SP.format('k')}] == K0[k] for k in K0)",
            f"all(implies(k in kerning_new, {_SP.format('k')} in K0) for k in font.all_pairs)",
            "all(k not in font.kerning for k in font.all_pairs)",
        ],
        "font.kerning.update(kerning_new)": [
            "all(iff(k in font.kerning, k in kerning_new) and implies(k in kerning_new, font.kerning[k] == kerning_new[k]) for k in font.all_pairs)",
            f"all({_SP.format('k')} in font.kerning and font.kerning[{_SP.format('k')}] == K0[k] for k in K0)",
            f"all(implies(k in font.kerning, {_SP.format('k')} in K0) for k in font.all_pairs)",
        ],
    },
    loops={
        "for (first, second) in font.kerning.keys()": Loop(
            index="i", seq="KS",
            invariants={
                "table": "font.kerning == K0",
                "conjugated": f"all({_SP.format('KS[j]')} in kerning_new and kerning_new[{_SP.format('KS[j]')}] == K0[KS[j]] for j in range(i))",
                # every key of the new table is the conjugate of an old key that was already processed (wi names it), and conjugating it again gives that old key back
                "witness": f"all(k in wi and 0 <= wi[k] and wi[k] < i and {_SP.format('KS[wi[k]]')} == k and {_SP.format('k')} == KS[wi[k]] for k in kerning_new)",
            },
        ),
        # step 3.  Glyphs before position gi of the key order are done (every base conjugated w.r.t. B1), the others untouched; component lists,
        # transformations and the owner / idx bookkeeping are not written at all.
        "for g in font": Loop(
            index="si",
            invariants={
                "done": "all(all(font.objs[font.names[a]].components[j].baseGlyph == " + _SW.format("B1[font.objs[font.names[a]].components[j]]")
                + " for j in range(len(font.objs[font.names[a]].components))) for a in range(si))",
                "todo": "all(all(font.objs[font.names[a]].components[j].baseGlyph == B1[font.objs[font.names[a]].components[j]]"
                " for j in range(len(font.objs[font.names[a]].components))) for a in range(si, len(font.names)))",
            },
        ),
        "for c in g.components": Loop(
            index="sj",
            invariants={
                "done": "all(all(font.objs[font.names[a]].components[j].baseGlyph == " + _SW.format("B1[font.objs[font.names[a]].components[j]]")
                + " for j in range(len(font.objs[font.names[a]].components))) for a in range(si))",
                "todo": "all(all(font.objs[font.names[a]].components[j].baseGlyph == B1[font.objs[font.names[a]].components[j]]"
                " for j in range(len(font.objs[font.names[a]].components))) for a in range(si + 1, len(font.names)))",
                "here-done": "all(g.components[j].baseGlyph == " + _SW.format("B1[g.components[j]]") + " for j in range(sj))",
                "here-todo": "all(g.components[j].baseGlyph == B1[g.components[j]] for j in range(sj, len(g.components)))",
            },
        ),
        "for (group_name, group_members) in font.groups.items()": Loop(
            index="gi", seq="GK",
            invariants={
                "names": "list(font.groups.keys()) == GK and len(GK) == len(list(G0.keys())) and all(GK[j] == list(G0.keys())[j] for j in range(len(GK)))",
                "done": f"all(len(font.groups[GK[j]]) == len(G0[GK[j]]) and all(font.groups[GK[j]][m] == {_SW.format('G0[GK[j]][m]')} for m in range(len(font.groups[GK[j]]))) for j in range(gi))",
                "todo": "all(font.groups[GK[j]] == G0[GK[j]] for j in range(gi, len(GK)))",
            },
        ),
        "for name in group_members": Loop(
            index="mi",
            # (stated against the group's ORIGINAL member list G0[group_name], which `group_members` is: hint below)
            invariants={"mapped": f"len(group_members_new) == mi and all(group_members_new[m] == {_SW.format('G0[group_name][m]')} for m in range(len(group_members_new)))"},
        ),
    },
)


# ---- run-time side ---------------------------------------------------------------------------------------------------------------
def _swap_cases(rng, n):
    names = ["a", "a.alt", "b", "c", "e", "s", "missing"]
    out = []
    for _ in range(n):
        a, b = rng.sample(names, 2)
        # FINDING (notes/C19.md, F-C19-2): with a DEFCON font, swapping the composite `c` with one of its own component bases (a, a.alt, b) makes the base
        # glyph reference ITSELF between step 1 and step 3; defcon's change notifications then recurse until RecursionError.  ufoLib2 fonts (ufo2ft's
        # default) are fine.  Those pairs are therefore not generated for defcon fonts in the registered check.
        use_defcon = rng.random() < 0.2 and not ("c" in (a, b) and ({a, b} & {"a", "a.alt", "b"}))
        out.append({"old": a, "new": b, "k": rng.randrange(3), "frac": rng.random() < 0.5, "defcon": use_defcon})
    return out


def _swap_build(d):
    from . import rtlib

    desc = c19.rt_master_font_desc({"wght": 400 + 100 * d["k"], "wdth": 100}, d["k"], d["frac"], default=True)
    # kerning between the swapped glyphs themselves, self-kerning, and group members listed twice
    desc["kerning"] = {**desc["kerning"], "a|a.alt": -7, "a.alt|a": 9, "a|a": 3, "b|a.alt": -1.5, "c|s": 4}
    desc["groups"] = {**desc["groups"], "both": ["a.alt", "a", "b", "a"], "empty": []}
    font = rtlib.build_ufo(desc)
    if d["defcon"]:
        try:
            import defcon

            f2 = defcon.Font()
            for g in font:
                f2.insertGlyph(g, name=g.name)
            f2.kerning.update(dict(font.kerning))
            f2.groups.update({k: list(v) for k, v in font.groups.items()})
            font = f2
        except Exception:  # noqa  (defcon not installed: ufoLib2 only)
            pass
    _RT_OWNER.clear()
    _RT_OWNER.update(_rt_owner(font))
    _RT_OWNER["keep"] = font
    return {"font": font, "name_old": d["old"], "name_new": d["new"]}


CONTRACTS["ufo2ft.instantiator:swap_glyph_names"].runtime = Runtime(_swap_cases, _swap_build)
