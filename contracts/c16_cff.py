"""C16 / C01 — OutlineOTFCompiler.setupTable_CFF: the CFF top dict and private dict come from the font info.

The body of setupTable_CFF beyond the glyph and width inputs: names and strings of the top dict (FullName, FamilyName,
Weight, the font name, version, Notice, Copyright) are the with-fallback info values — AS THE CODE BEHAVES, i.e. only Notice
and Copyright are normalised (known finding F9: FullName / FamilyName / Weight / the font name are not reduced to ASCII) —,
the numbers (isFixedPitch, ItalicAngle, Underline*, FontMatrix, FontBBox) and the private dict (widths handed through, blue
values / stems rounded and written only when the code writes them).

cffLib objects (CFFFontSet, TopDict, PrivateDict, IndexedStrings, GlobalSubrsIndex, CharStrings, SubrsIndex, TopDictIndex)
are attribute bags with recording constructors (assumed: the constructors store their arguments; nothing else is used).
The summary symbol of getAttrWithFallback (contracts/lib.py) gives the with-fallback values; what they are per attribute is
proved in contracts/c16.py.
"""
import z3
from pyvc.api import BOOL, CLASSES, CONTRACTS, INT, REAL, STR, Const, Dict, List, Loop, Opt, Ref, Runtime, Set, Tuple, cls, contract, record_init, specfn, trusted
from pyvc.core import PYOBJ, Unsupported, Val, lift
from pyvc.ops import is_const

from . import c16, lib, rtlib  # noqa: F401
from .c16 import G, MOD

PROPS = ["C16", "C01"]
_ULP_KEY = "public.openTypePostUnderlinePosition"

# ---- types of the with-fallback values read here ----------------------------------------------------------------------------
for _a, _t in {
    "postscriptWeightName": Opt(STR), "postscriptForceBold": BOOL, "postscriptBlueValues": List(REAL), "postscriptOtherBlues": List(REAL),
    "postscriptFamilyBlues": List(REAL), "postscriptFamilyOtherBlues": List(REAL), "postscriptStemSnapH": List(REAL), "postscriptStemSnapV": List(REAL),
}.items():
    lib.INFO_ATTR_TYPES.setdefault(_a, _t)

# ---- the private dict's rawDict: key -> value, heterogeneous: one typed field per key the code writes -----------------------
RAW_KEYS = {
    "defaultWidthX": INT, "nominalWidthX": INT, "BlueFuzz": INT, "BlueShift": INT, "BlueScale": REAL, "ForceBold": BOOL,
    "BlueValues": List(INT), "OtherBlues": List(INT), "FamilyBlues": List(INT), "FamilyOtherBlues": List(INT),
    "StemSnapH": List(INT), "StdHW": INT, "StemSnapV": List(INT), "StdVW": INT,
}


def _raw_key(idx, node):
    if not is_const(idx) or idx.py not in RAW_KEYS:
        raise Unsupported("rawDict subscript with a key the contract does not know", node)
    return idx.py


def _raw_setitem(ex, st, self, idx, v, node):
    k = _raw_key(idx, node)
    ex.write_field(st, self, "key:" + k, v, node)
    ex.write_field(st, self, "has:" + k, Val.const(True), node)


def _raw_getitem(ex, st, self, idx, node):
    k = _raw_key(idx, node)
    ex.safety(st, lift(ex.read_field(st, self, "has:" + k)), "KeyError", node)
    return ex.read_field(st, self, "key:" + k)


def _raw_contains(ex, st, self, x):
    return lift(ex.read_field(st, self, "has:" + _raw_key(x, None)))


def _raw_update(ex, st, self, args, kwargs, node):
    """rawDict.update(private.defaults): cffLib's defaults for the private dict — whatever they are (library); every key this
    contract knows may have been given a default"""
    from pyvc.core import fresh

    for k, t in RAW_KEYS.items():
        ex.write_field(st, self, "key:" + k, Val(t, fresh(t, "dflt_" + k)), node)
        ex.write_field(st, self, "has:" + k, Val(BOOL, z3.FreshConst(z3.BoolSort(), "hasdflt_" + k)), node)
    return Val.const(None)


cls(
    "CFFRawDict",
    fields={**{"key:" + k: t for k, t in RAW_KEYS.items()}, **{"has:" + k: BOOL for k in RAW_KEYS}},
    setitem=_raw_setitem, getitem=_raw_getitem, contains=_raw_contains, methods={"update": _raw_update},
    notes="PrivateDict.rawDict: operator name -> value, one typed slot per operator that setupTable_CFF writes (assumed dict semantics)",
)


def _private_init(ex, st, self, args, kwargs, node):
    """PrivateDict(strings=..): a private dict with an (empty) rawDict and the library's `defaults`"""
    if args or set(kwargs) - {"strings"}:
        raise Unsupported("PrivateDict(...) with other than strings=", node)
    ex.write_field(st, self, "strings", kwargs.get("strings", Val.const(None)), node)
    raw = ex.new_object(st, "CFFRawDict")
    for k in RAW_KEYS:
        ex.write_field(st, raw, "has:" + k, Val.const(False), node)
    ex.write_field(st, self, "rawDict", raw, node)
    ex.write_field(st, self, "defaults", ex.new_object(st, "CFFDefaults"), node)


cls("CFFDefaults", notes="PrivateDict.defaults (library table; opaque)")
cls("IndexedStrings", dynamic=True, notes="cffLib.IndexedStrings() (opaque bag)")
cls("PrivateDict", fields={"rawDict": Ref("CFFRawDict"), "defaults": Ref("CFFDefaults"), "strings": Ref("IndexedStrings")}, dynamic=True,
    methods={"__init__": _private_init}, notes="cffLib.PrivateDict: rawDict, defaults (assumed)")
cls("GlobalSubrsIndex", dynamic=True, methods={"__init__": record_init("private")}, notes="cffLib.GlobalSubrsIndex(private=..) (recording constructor)")


def _index_append(ex, st, self, args, kwargs, node):
    from pyvc import models

    cur = ex.read_field(st, self, "items")
    nv, _ = models.mutate(ex, st, cur, "append", list(args), {}, node)
    ex.write_field(st, self, "items", nv, node)
    return Val.const(None)


def _index_getitem(ex, st, self, idx, node):
    return ex.getitem(ex.read_field(st, self, "items"), idx, st, node)


def _index_len(ex, st, self):
    return Val(INT, z3.Length(lift(ex.read_field(st, self, "items"))))


def _subrs_init(ex, st, self, args, kwargs, node):
    if args or set(kwargs) - {"private", "globalSubrs"}:
        raise Unsupported("SubrsIndex(...) arguments", node)
    for k in ("private", "globalSubrs"):
        ex.write_field(st, self, k, kwargs.get(k, Val.const(None)), node)
    ex.write_field(st, self, "items", Val.const([]), node)


def _tdi_init(ex, st, self, args, kwargs, node):
    if args or kwargs:
        raise Unsupported("TopDictIndex(...) arguments", node)
    ex.write_field(st, self, "items", Val.const([]), node)


cls("CFFCharString", dynamic=True, notes="a compiled T2CharString (private / globalSubrs are attached here; its program is C01's)")
cls("SubrsIndex", fields={"items": List(Ref("CFFCharString")), "private": Ref("PrivateDict"), "globalSubrs": Ref("GlobalSubrsIndex")}, dynamic=True,
    methods={"__init__": _subrs_init, "append": _index_append}, getitem=_index_getitem, length=_index_len, notes="cffLib.SubrsIndex: items (assumed list semantics)")


def _cs_contains(ex, st, self, x):
    d = ex.read_field(st, self, "charStrings")
    s_ = d.ty.sort()
    return z3.Select(s_.dom(lift(d)), lift(x, STR))


def _charstrings_init(ex, st, self, args, kwargs, node):
    """CharStrings(file=None, charset=.., globalSubrs=.., private=.., fdSelect=.., fdArray=..): with no file, an empty name -> index
    table; globalSubrs and private are stored"""
    if args or set(kwargs) != {"file", "charset", "globalSubrs", "private", "fdSelect", "fdArray"} or not (is_const(kwargs["file"]) and kwargs["file"].py is None):
        raise Unsupported("CharStrings(...) other than the file=None form", node)
    ex.write_field(st, self, "globalSubrs", kwargs["globalSubrs"], node)
    ex.write_field(st, self, "private", kwargs["private"], node)
    ex.write_field(st, self, "charStrings", Val.const({}), node)


cls("CharStrings", fields={"charStrings": Dict(STR, INT), "charStringsIndex": Ref("SubrsIndex"), "charStringsAreIndexed": BOOL, "private": Ref("PrivateDict"), "globalSubrs": Ref("GlobalSubrsIndex")},
    dynamic=True, methods={"__init__": _charstrings_init}, contains=_cs_contains,
    notes="cffLib.CharStrings: charStrings = glyph name -> index, empty when built without a file (`in` looks at charStrings)")
cls("TopDict", fields={"charset": List(STR), "FontMatrix": List(REAL), "Private": Ref("PrivateDict"), "CharStrings": Ref("CharStrings"), "FontBBox": lib.BBOX,
                       "version": STR, "Notice": STR, "Copyright": STR, "FullName": STR, "FamilyName": STR, "Weight": Opt(STR), "isFixedPitch": INT, "ItalicAngle": REAL,
                       "UnderlinePosition": INT, "UnderlineThickness": INT},
    dynamic=True, methods={"__init__": record_init("GlobalSubrs", "strings")}, notes="cffLib.TopDict (recording constructor; attributes are plain stores)")
cls("TopDictIndex", fields={"items": List(Ref("TopDict"))}, dynamic=True, methods={"__init__": _tdi_init, "append": _index_append}, getitem=_index_getitem,
    length=_index_len, notes="cffLib.TopDictIndex: items (assumed list semantics)")
cls("CFFFontSet", fields={"fontNames": List(STR), "topDictIndex": Ref("TopDictIndex")}, dynamic=True, notes="cffLib.CFFFontSet (attribute bag)")
CLASSES[lib.table_class("CFF ")].fields.setdefault("cff", Ref("CFFFontSet"))


def _newTable_cff(ex, st, args, kwargs, node):
    """newTable('CFF '): a fresh table object whose `cff` is a fresh CFFFontSet"""
    tag = lib._need_tag(args[0], node)
    o = ex.new_object(st, lib.table_class(tag))
    if tag == "CFF ":
        ex.write_field(st, o, "cff", ex.new_object(st, "CFFFontSet"), node)
    return o


# ---- the compiler ------------------------------------------------------------------------------------------------------------
def _widths(ex, st, self, args, kwargs, node):
    """self.getDefaultAndNominalWidths(): a pair of integers determined by the compiler (summary of the contract proved under C01)"""
    f = [z3.Function("cff_" + n, lib.T.RefSort, z3.IntSort())(lift(self)) for n in ("defaultWidthX", "nominalWidthX")]
    return Val(PYOBJ, None, (Val(INT, f[0]), Val(INT, f[1])), True)


def _compiled(ex, st, self, args, kwargs, node):
    """self.getCompiledGlyphs(): name -> charstring for every glyph of the glyph order (summary of compileGlyphs' contract under C01:
    clause `every-glyph`)"""
    t = Dict(STR, Ref("CFFCharString"))
    d = Val(t, z3.Function("cff_compiledGlyphs", lib.T.RefSort, t.sort())(lift(self)))
    order = lift(ex.read_field(st, self, "glyphOrder"))
    i = z3.Int("cg_i")
    st.assume(z3.ForAll([i], z3.Implies(z3.And(0 <= i, i < z3.Length(order)), z3.Select(t.sort().dom(lift(d)), order[i]))))
    return d


cls("CFF_Info", fields={"trademark": Opt(STR), "copyright": Opt(STR), "postscriptUnderlinePosition": Opt(REAL)}, dynamic=True,
    notes="font.info as setupTable_CFF reads it directly (three attributes; UFO3 typing); everything else through getAttrWithFallback")
cls("CFF_Font", fields={"info": Ref("CFF_Info"), "lib": Ref("Lib")}, notes="source font: info, lib")
cls(
    "CFF_Compiler",
    fields={"ufo": Ref("CFF_Font"), "otf": Ref("TTFont"), "tables": Set(STR), "glyphOrder": List(STR), "fontBoundingBox": lib.BBOX},
    methods={"getDefaultAndNominalWidths": _widths, "getCompiledGlyphs": _compiled},
    repo="ufo2ft.outlineCompiler:OutlineOTFCompiler",
    notes="OutlineOTFCompiler instance as setupTable_CFF sees it",
)

_INFO = "self.ufo.info"


def gi(attr):
    return f"getAttrWithFallback({_INFO}, '{attr}')"


_CFFT = "self.otf['CFF '].cff"
_TD = f"{_CFFT}.topDictIndex[0]"
_RAW = f"{_TD}.Private.rawDict"
_REQ = "('CFF' in self.tables or 'CFF ' in self.tables)"


def _norm(v):
    """Notice / Copyright: the copyright sign spelled out, then the documented PostScript normalisation (spaces allowed); empty for None / ''"""
    return f"(ps_norm({v}.replace('\\u00a9', 'Copyright'), True) if ({v} is not None and {v} != '') else '')"


def _rounded_list(key, attr):
    return (f"({_RAW}['{key}'] is not None and len({_RAW}['{key}']) == len({gi(attr)}) and "
            f"all({_RAW}['{key}'][k] == otRound({gi(attr)}[k]) for k in range(len({gi(attr)}))))")


_ANY_BLUES = " or ".join(f"len({gi(a)}) > 0" for a in ("postscriptBlueValues", "postscriptOtherBlues", "postscriptFamilyBlues", "postscriptFamilyOtherBlues"))
_STEMS = f"(len({gi('postscriptStemSnapH')}) > 0 and len({gi('postscriptStemSnapV')}) > 0)"
_W = "self.getDefaultAndNominalWidths()"

FIELDS = {
    # ---- strings, as the code behaves.  FINDING (F9, known_findings.json): the property wants them "reduced to ASCII where the
    # format demands it"; FullName / FamilyName / Weight / the font name are stored un-normalised:
    #   "ascii-strings": all(ord(c) < 128 for c in FullName + FamilyName + (Weight or '') + fontNames[0])      # FINDING: F9
    "fontName": f"{_CFFT}.fontNames == [{gi('postscriptFontName')}]",
    "version": f"{_TD}.version == str({gi('versionMajor')}) + '.' + str({gi('versionMinor')})",
    "Notice": f"{_TD}.Notice == {_norm(gi('trademark'))}",
    "Copyright": f"{_TD}.Copyright == {_norm(gi('copyright'))}",
    "FullName": f"{_TD}.FullName == {gi('postscriptFullName')}",
    "FamilyName": f"{_TD}.FamilyName == {gi('openTypeNamePreferredFamilyName')}",
    "Weight": f"{_TD}.Weight == {gi('postscriptWeightName')}",
    # ---- numbers
    "isFixedPitch": f"{_TD}.isFixedPitch == (1 if {gi('postscriptIsFixedPitch')} else 0)",
    "ItalicAngle": f"{_TD}.ItalicAngle == {gi('italicAngle')}",
    # the lib key holds the `post` convention (top of the stroke); CFF wants the middle: minus half the thickness — but only when the
    # info attribute itself is unset
    "UnderlinePosition": f"{_TD}.UnderlinePosition == otRound((self.ufo.lib['{_ULP_KEY}'] - {gi('postscriptUnderlineThickness')} / 2) "
                         f"if ('{_ULP_KEY}' in self.ufo.lib and self.ufo.info.postscriptUnderlinePosition is None) else {gi('postscriptUnderlinePosition')})",
    "UnderlineThickness": f"{_TD}.UnderlineThickness == otRound({gi('postscriptUnderlineThickness')})",
    "FontMatrix": f"{_TD}.FontMatrix == [1.0 / otRound({gi('unitsPerEm')}), 0, 0, 1.0 / otRound({gi('unitsPerEm')}), 0, 0]",
    "FontBBox": f"{_TD}.FontBBox == self.fontBoundingBox",
    # ---- private dict: the widths are handed through when non-zero
    "defaultWidthX": f"implies({_W}[0] != 0, {_RAW}['defaultWidthX'] == {_W}[0])",
    "nominalWidthX": f"implies({_W}[1] != 0, {_RAW}['nominalWidthX'] == {_W}[1])",
    # hint data only if some blues are defined; each list only if non-empty; every number rounded
    "blue-scalars": f"implies({_ANY_BLUES}, {_RAW}['BlueFuzz'] == otRound({gi('postscriptBlueFuzz')}) and {_RAW}['BlueShift'] == otRound({gi('postscriptBlueShift')})"
                    f" and {_RAW}['BlueScale'] == {gi('postscriptBlueScale')} and {_RAW}['ForceBold'] == {gi('postscriptForceBold')})",
    **{k: f"implies(({_ANY_BLUES}) and len({gi(a)}) > 0, {_rounded_list(k, a)})" for k, a in (
        ("BlueValues", "postscriptBlueValues"), ("OtherBlues", "postscriptOtherBlues"), ("FamilyBlues", "postscriptFamilyBlues"), ("FamilyOtherBlues", "postscriptFamilyOtherBlues"))},
    # stems only if both are defined
    "stems": f"implies({_STEMS}, {_rounded_list('StemSnapH', 'postscriptStemSnapH')} and {_rounded_list('StemSnapV', 'postscriptStemSnapV')}"
             f" and {_RAW}['StdHW'] == otRound({gi('postscriptStemSnapH')}[0]) and {_RAW}['StdVW'] == otRound({gi('postscriptStemSnapV')}[0]))",
    "wiring": f"{_TD}.Private == {_TD}.CharStrings.private and {_CFFT}.major == 1 and {_CFFT}.minor == 0",
}


def _cff_cases(rng, n):
    from vcheck.hooks.c16 import rand_info

    out = []
    for k in range(n):
        d = rand_info(rng, latin1_only=True, valid_for_compile=True)
        # hint data: rand_info draws blue values / other blues; add the rest here
        for a, vals, p in (("postscriptFamilyBlues", [[], [-10, 0, 500.5, 510]], 0.3), ("postscriptFamilyOtherBlues", [[], [-250.5, -240]], 0.2),
                           ("postscriptStemSnapH", [[], [80, 90.5]], 0.4), ("postscriptStemSnapV", [[], [100.5, 120, 130]], 0.4),
                           ("postscriptBlueFuzz", [0, 1, 1.5], 0.3), ("postscriptBlueShift", [7, 6.5], 0.3), ("postscriptBlueScale", [0.039625, 0.05], 0.3),
                           ("postscriptForceBold", [False, True], 0.3), ("postscriptDefaultWidthX", [0, 500, 250.5], 0.4), ("postscriptNominalWidthX", [0, 400, 300.5], 0.4)):
            if rng.random() < p:
                d[a] = rng.choice(vals)
        desc = {"glyphs": {"a": {"width": 500, "unicodes": [97], "box": [10, 0, 300, 400]}, "space": {"width": 250, "unicodes": [32]}, "b": {"width": 500, "box": [0, 0, 100, 100]}},
                "info": d, "ufolib": "ufoLib2" if k % 2 == 0 else "defcon", "flavor": "otf", "lib": {}}
        if k % 3 == 0:
            desc["lib"][_ULP_KEY] = rng.choice([0, -120, -33.5, 17])
        if k % 7 == 3:
            desc["no_tables"] = True
        out.append(desc)
    return out


contract(
    "ufo2ft.outlineCompiler:OutlineOTFCompiler.setupTable_CFF",
    name="info",
    props=PROPS,
    params={"self": Ref("CFF_Compiler")},
    # a rounded unitsPerEm of 0 has no font matrix (the code divides by it)
    raises={"ZeroDivisionError": f"{_REQ} and otRound({gi('unitsPerEm')}) == 0"},
    ensures={
        **{k: f"implies({_REQ}, {v})" for k, v in FIELDS.items()},
        "not-requested": f"implies(not {_REQ}, self.otf.get('CFF ') == old(self.otf.get('CFF ')))",
    },
    canaries={"no-notice": f"{_REQ} and {_TD}.Notice == ''"},
    # frame: the font's 'CFF ' entry and the compiled charstrings (private / globalSubrs attached); the three containers filled by the
    # glyph loop belong to objects made here but are listed class-wide because the loop is summarised by an invariant
    modifies=["TTFont.tbl:CFF ", "CFFCharString.private", "CFFCharString.globalSubrs", "CharStrings.charStrings", "SubrsIndex.items", "TopDict.charset"],
    loops={
        "for glyphName in self.glyphOrder": Loop(
            index="i",
            invariants={
                # the glyph loop is C01's subject; here only what keeps its indexing safe
                "indices": "all(0 <= charStrings.charStrings[k] and charStrings.charStrings[k] < len(charStringsIndex.items) for k in charStrings.charStrings)",
                "same-length": "len(topDict.charset) == len(charStringsIndex.items)",
            },
        )
    },
    models={"fontTools.ttLib.ttFont.newTable": _newTable_cff, "fontTools.ttLib.newTable": _newTable_cff},
    calls={f"{MOD}:normalizeStringForPostscript": f"{MOD}:normalizeStringForPostscript#function"},
    extract_free=True,  # `items[glyphID] = charString`: position-wise facts instead of seq.extract (the clauses are position-wise)
    globals=G,
    runtime=Runtime(_cff_cases, c16._table_build(), call=lambda fn, a: fn(a["self"])),
)
