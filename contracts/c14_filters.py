"""C14 — the per-glyph `filter(glyph)` of the shipped filters that had no contract yet: ReverseContourDirection, SortContours, RemoveOverlaps,
CubicToQuadratic.  Each meets the subclass contract F1-F4 that BaseFilter.__call__#any (contracts/c14.py) relies on:

  * it writes ONLY the contours of the glyph passed in (frame `modifies=["glyph.contours"]`, checked by the engine; it reads nothing else);
  * it returns False exactly when the glyph has no contours, and then the glyph is untouched (so: changed => True);
  * it does not touch context.modified or the glyph set.

The other shipped filters are under contract elsewhere (not duplicated): DecomposeComponents / DecomposeTransformedComponents -> contracts/c01.py
(C01: decomposeCompositeGlyph, DecomposeComponentsFilter.filter), FlattenComponents -> contracts/c02.py (C02), Transformations -> contracts/c15.py (C15),
PropagateAnchors -> contracts/c15.py / c06*.py, SkipExportGlyphs -> contracts/c13.py (C13, incl. BaseFilter.__call__ for that receiver).
DottedCircle (adds a glyph, edits anchors font-wide) and ExplodeColorLayerGlyphs (known finding F5) have no per-glyph contract.

Library side (trusted): the point-pen protocol of ufoLib2/defcon glyphs -- `glyph.getPointPen()` / `getPen()` returns a pen that appends contours
to THAT glyph; `contour.drawPoints(pen)` reads the contour and draws into the pen; wrapper pens (ReverseContourPointPen, Cu2QuPointPen) forward to
the pen they wrap; booleanOperations / pathops `union(contours, pen)` draw into the pen.
"""
import z3

from pyvc import ty as T
from pyvc.api import BOOL, CLASSES, CONTRACTS, INT, REAL, SPECFNS, STR, Const, Dict, List, Loop, Map, Opt, Ref, Runtime, Set, Tuple, cls, contract, specfn, trusted
from pyvc.core import Unsupported, Val, fresh, fresh_name, lift
from pyvc.symex import FuncRef

OG, CT, PEN, UNI = "c14_OGlyph", "c14_Contour", "c14_Pen", "c14_OUniverse"
CONTOURS = List(Ref(CT))

_OLDC = {}  # run-time side table: id(glyph) -> its contour objects before the call
_OTHERS = {}  # run-time side table: id(glyph) -> the other glyphs of its font (ufoLib2 glyphs have slots and no back-reference)
cls(CT, notes="a contour object (its points are never inspected by ufo2ft code here)")


def _new_contour_into(ex, st, pen, node):
    """drawing one contour into a pen: a NEW contour object is appended to the contours of the pen's glyph (and of no other glyph)"""
    tgt = ex.read_field(st, pen, "target")
    cur = ex.read_field(st, tgt, "contours")
    c = ex.new_object(st, CT)
    ex.write_field(st, tgt, "contours", Val(CONTOURS, z3.Concat(lift(cur), z3.Unit(lift(c)))), node)


def _draw_points(ex, st, self, args, kwargs, node):
    _new_contour_into(ex, st, args[0], node)
    return Val.const(None)


_draw_points.modifies = [f"{OG}.contours"]
CLASSES[CT].methods["drawPoints"] = _draw_points


def _get_pen(ex, st, self, args, kwargs, node):
    p = ex.new_object(st, PEN)
    ex.write_field(st, p, "target", self, node)
    return p


def _clear(ex, st, self, args, kwargs, node):
    ex.write_field(st, self, "contours", Val(CONTOURS, z3.Empty(CONTOURS.sort())), node)
    return Val.const(None)


_clear.modifies = [f"{OG}.contours"]


def _glyph_iter(ex, st, self, node):
    return ex.iter_info(ex.read_field(st, self, "contours"), st, node)


def _append_contour(ex, st, self, args, kwargs, node):
    cur = ex.read_field(st, self, "contours")
    ex.write_field(st, self, "contours", Val(CONTOURS, z3.Concat(lift(cur), z3.Unit(lift(args[0])))), node)
    return Val.const(None)


_append_contour.modifies = [f"{OG}.contours"]

cls(OG, fields={"name": STR, "contours": CONTOURS, "components": List(INT), "has_appendContour": BOOL},
    methods={"getPointPen": _get_pen, "getPen": _get_pen, "clearContours": _clear, "appendContour": _append_contour},
    has={"appendContour": "has_appendContour"},
    iter=_glyph_iter, length=lambda ex, st, self: Val(INT, z3.Length(lift(ex.read_field(st, self, "contours")))),
    derived={"universe": lambda ex, st, self: Val(Set(Ref(OG)), z3.K(T.RefSort, z3.BoolVal(True)))},
    views={"contours": lambda o: list(o.contours), "components": lambda o: [0] * len(o.components), "has_appendContour": lambda o: hasattr(o, "appendContour"),
           "universe": lambda o: [__import__("pyvc.rt", fromlist=["Proxy"]).Proxy(x, CLASSES[OG]) for x in [o] + _OTHERS.get(id(o), [])]},
    notes="a ufoLib2 glyph as the contour filters see it: the list of contour objects, `len(glyph)` = number of contours, iteration = the contours, "
    "getPointPen()/getPen() = a pen drawing into this glyph, clearContours(), appendContour(c) when the object has it (ufoLib2 and defcon do; `has_appendContour`)")
cls(PEN, fields={"target": Ref(OG)}, notes="a (point) pen: everything drawn into it becomes a contour of its target glyph")


@trusted("c14.wrapper_pen", "a wrapper pen (ReverseContourPointPen, Cu2QuPointPen): forwards what is drawn into it to the pen it wraps (same target glyph)")
def _wrapper_pen(ex, st, args, kwargs, node):
    p = ex.new_object(st, PEN)
    ex.write_field(st, p, "target", ex.read_field(st, args[0], "target"), node)
    return p


def _ref(q, obj=None):
    return Val.obj(FuncRef(obj, q))


_FRAME = "all(x.contours == old(x.contours) for x in glyph.universe if x != glyph)"
_UNTOUCHED = "result == (len(old(glyph.contours)) != 0) and implies(not result, glyph.contours == old(glyph.contours))"
cls("c14_FOptions", fields={"reverseDirection": BOOL, "allQuadratic": BOOL}, notes="options of the CubicToQuadratic filter (passed on to the pen)")
cls("c14_OGlyphSet", fields={"objs": Map(STR, Ref(OG))}, getitem=lambda ex, st, self, idx, node: Val(Ref(OG), z3.Select(lift(ex.read_field(st, self, "objs")), lift(idx, STR))),
    notes="the glyph set in the filter's context (name -> glyph); the contour filters do not consult it")
cls("c14_FCtx", fields={"absoluteError": REAL, "stats": Dict(STR, INT), "glyphSet": Ref("c14_OGlyphSet")}, notes="the filter's context: glyph set; absoluteError / stats of the CubicToQuadratic filter (passed on to the pen)")


def _union(ex, st, args, kwargs, node):
    """booleanOperations.union / pathops.union(contours, pen): draws the union outline (some number of new contours) into the pen"""
    tgt = ex.read_field(st, args[1], "target")
    cur = ex.read_field(st, tgt, "contours")
    more = fresh(CONTOURS, "union_contours")
    ex.write_field(st, tgt, "contours", Val(CONTOURS, z3.Concat(lift(cur), more)), node)
    return Val.const(None)


cls("c14_ContourFilter", fields={"options": Ref("c14_FOptions"), "context": Ref("c14_FCtx")},
    derived={"penGetter": lambda ex, st, self: Val.const("getPointPen"), "union": lambda ex, st, self: Val.obj(FuncRef(None, "c14.union"))},
    notes="a contour filter instance; for RemoveOverlaps: penGetter / union as `start()` sets them for the booleanOperations backend")
trusted("c14.union", "booleanOperations.union(contours, pen) draws the resulting outline into `pen` and touches nothing else")(lambda ex, st, a, k, n: _union(ex, st, a, k, n))

_LOOP = {"for contour in contours": Loop(index="i", invariants={"pen": "pen.target == glyph", "frame": _FRAME})}


def contour_filter(target, glob, loops=True, extra=None, loop_spec=None):
    contract(
        target,
        name="c14",
        props=["C14"],
        params={"self": Ref("c14_ContourFilter"), "glyph": Ref(OG)},
        returns=BOOL,
        globals=glob,
        ensures={
            # False exactly for a glyph without contours, which is then untouched  (=> a changed glyph is reported: F2)
            "false-iff-no-contours-and-then-untouched": _UNTOUCHED,
            # no other glyph's contours change (also enforced for every object by the engine's `modifies` obligation)
            "other-glyphs-untouched": _FRAME,
            **(extra or {}),
        },
        canaries={"always-true": "result", "contours-kept": "glyph.contours == old(glyph.contours)"},
        # F1 / F3 / F4: only the contours of THIS glyph are written (checked by the engine against the body)
        modifies=["glyph.contours"],
        loops=loop_spec if loop_spec is not None else (_LOOP if loops else {}),
        sorted_axioms=True,
        merge_branches=False,
    )


contour_filter("ufo2ft.filters.reverseContourDirection:ReverseContourDirectionFilter.filter", {"ReverseContourPointPen": _ref("c14.wrapper_pen")})
contour_filter("ufo2ft.filters.cubicToQuadratic:CubicToQuadraticFilter.filter", {"Cu2QuPointPen": _ref("c14.wrapper_pen")})
contour_filter("ufo2ft.filters.removeOverlaps:RemoveOverlapsFilter.filter", {}, loops=False)

BOX = Tuple(REAL, REAL, REAL, REAL)


@specfn(BOX, opaque=True, contour=Ref(CT))
def c14_cbox(contour):
    """sortContours._control_bounding_box(contour): the control bounding box (xMin, yMin, xMax, yMax) of a contour, via fontTools' ControlBoundsPen (opaque)"""
    from ufo2ft.filters.sortContours import _control_bounding_box

    return tuple(float(v) for v in _control_bounding_box(contour))


@trusted("c14.control_bounding_box", "CALL-SITE SUMMARY of sortContours._control_bounding_box (two fontTools pens): a function of the contour, c14_cbox(contour); draws into a throw-away pen only")
def _cbox(ex, st, args, kwargs, node):
    return ex.apply_spec(SPECFNS["c14_cbox"], [args[0]], st, node)


_GC = "glyph.contours"
contour_filter(
    "ufo2ft.filters.sortContours:SortContoursFilter.filter", {"_control_bounding_box": _ref("c14.control_bounding_box")},
    loop_spec={"for contour in contours": Loop(index="i", seq="SC", invariants={
        "len": "len(glyph.contours) == i", "rest": "glyph.contours + SC[i:] == SC", "frame": _FRAME})},
    extra={
        # the glyph keeps exactly its contour objects (a permutation) ...
        "same-contours": f"len({_GC}) == len(old({_GC})) and all((c in {_GC}) == (c in old({_GC})) for c in glyph.allcontours)",
        # ... ordered by control bounding box
        "sorted-by-bounding-box": f"all(all(implies(a < b, c14_cbox({_GC}[a]) <= c14_cbox({_GC}[b])) for b in range(len({_GC}))) for a in range(len({_GC})))",
    },
)
CLASSES[OG].derived["allcontours"] = lambda ex, st, self: Val(Set(Ref(CT)), z3.K(T.RefSort, z3.BoolVal(True)))
CLASSES[OG].views["allcontours"] = lambda o: list(o.contours) + list(_OLDC.get(id(o), []))


# ---- run-time side ---------------------------------------------------------------------------------------------------


def _glyph_cases(rng, n):
    shapes = [[], [[(0, 0), (100, 0), (100, 100), (0, 100)]], [[(50, 50), (150, 50), (150, 150), (50, 150)], [(0, 0), (100, 0), (100, 100), (0, 100)]],
              [[(300, 0), (400, 0), (350, 80)], [(0, 200), (100, 200), (50, 280)], [(0, 0), (100, 0), (50, 80)]]]
    out = [{"contours": s, "components": c, "curve": cv} for s in shapes for c in (0, 1) for cv in (False, True)]
    rng.shuffle(out)
    return out[:max(n, 16)]


def _glyph_build(filter_path):
    def build(d):
        import importlib
        import logging

        import ufoLib2

        logging.getLogger("ufo2ft.filters.sortContours").setLevel(logging.ERROR)  # "contains components which will not be sorted" is expected
        font = ufoLib2.Font()
        font.info.unitsPerEm = 1000
        font.newGlyph("base").width = 100
        g = font.newGlyph("g")
        pen = g.getPen()
        for pts in d["contours"]:
            pen.moveTo(pts[0])
            if d["curve"] and len(pts) >= 4:
                pen.curveTo(pts[1], pts[2], pts[3])
            else:
                for p in pts[1:]:
                    pen.lineTo(p)
            pen.closePath()
        for _ in range(d["components"]):
            pen.addComponent("base", (1, 0, 0, 1, 10, 10))
        mod, qn = filter_path.split(":")
        f = getattr(importlib.import_module(mod), qn)()
        f.set_context(font, {x.name: x for x in font})
        _OTHERS[id(g)] = [x for x in font if x is not g]
        _OLDC[id(g)] = list(g.contours)
        return {"self": f, "glyph": g}

    return build


for _t in ("ufo2ft.filters.reverseContourDirection:ReverseContourDirectionFilter", "ufo2ft.filters.cubicToQuadratic:CubicToQuadraticFilter",
           "ufo2ft.filters.removeOverlaps:RemoveOverlapsFilter", "ufo2ft.filters.sortContours:SortContoursFilter"):
    CONTRACTS[_t + ".filter#c14"].runtime = Runtime(_glyph_cases, _glyph_build(_t), call=lambda fn, a: fn(a["self"], a["glyph"]))
