"""C08 (d) — the result does not depend on `inplace`: glyph copies carry everything the compilers read."""
import z3

from pyvc import ty as T
from pyvc.api import BOOL, CONTRACTS, INT, REAL, STR, Const, Dict, List, Opaque, Opt, Ref, Runtime, Set, Tuple, cls, contract, trusted
from pyvc.core import Val, lift

ANCHOR = Dict(STR, Opaque("AnchorField"))  # an anchor as the mapping ufoLib2/defcon expose: name, x, y, identifier, color, ...
LIBV = Opaque("LibValue")


def _get_point_pen(ex, st, self, args, kwargs, node):
    p = ex.new_object(st, "PointPen8")
    ex.write_field(st, p, "target", self, node)
    return p


def _draw_points(ex, st, self, args, kwargs, node):
    """glyph.drawPoints(pen): the outline of `self` is appended to the pen's target glyph (assumed pen protocol)."""
    pen = args[0]
    tgt = ex.read_field(st, pen, "target")
    cur = ex.read_field(st, tgt, "outline")
    src = ex.read_field(st, self, "outline")
    ex.write_field(st, tgt, "outline", Val(cur.ty, z3.Concat(cur.term, src.term)), node)
    return Val.const(None)


cls("PointPen8", fields={"target": Ref("Glyph8")}, notes="point pen obtained from glyph.getPointPen(): draws into that glyph (assumed)")
cls(
    "Glyph8",
    fields={"name": STR, "width": REAL, "height": REAL, "unicodes": List(INT), "anchors": List(ANCHOR), "lib": Dict(STR, LIBV), "outline": List(Opaque("OutlineItem"))},
    methods={"getPointPen": _get_point_pen, "drawPoints": _draw_points},
    notes="UFO glyph: the attributes ufo2ft reads (outline = contours and components in drawing order)",
)


def _factory_call(ex, st, self, args, kwargs, node):
    g = ex.new_object(st, "Glyph8")
    ex.write_field(st, g, "name", args[0], node)
    for f, v in (("outline", Val(List(Opaque("OutlineItem")), z3.Empty(List(Opaque("OutlineItem")).sort()))),):
        ex.write_field(st, g, f, v, node)
    return g


cls("GlyphFactory8", methods={"__call__": _factory_call}, notes="newGlyph(name): a fresh empty glyph with that name (assumed; _getNewGlyphFactory)")


def _deepcopy(ex, st, args, kwargs, node):
    """deepcopy(x) of a plist-like value is a new value equal to x (value semantics in the encoding)"""
    return args[0]


contract(
    "ufo2ft.util:_copyGlyph",
    props=["C08", "C07"],
    params={"glyph": Ref("Glyph8"), "glyphFactory": Ref("GlyphFactory8"), "reverseContour": Const(False)},
    returns=Ref("Glyph8"),
    ensures={
        "fresh": "fresh(result)",
        "name": "result.name == glyph.name",
        "metrics": "result.width == glyph.width and result.height == glyph.height",
        "unicodes": "result.unicodes == glyph.unicodes",
        # every anchor with EVERY key it has (name, x, y, identifier, ...): contextual anchors are found through `identifier`
        "anchors": "result.anchors == glyph.anchors",
        "lib": "result.lib == glyph.lib",
        "outline": "result.outline == glyph.outline",
        "source-untouched": "glyph.anchors == old(glyph.anchors) and glyph.unicodes == old(glyph.unicodes) and glyph.outline == old(glyph.outline) and glyph.lib == old(glyph.lib)",
    },
    canaries={"drops-anchors": "len(result.anchors) == 0"},
    models={"copy.deepcopy": _deepcopy},
)


# ---- run-time harness ------------------------------------------------------------------------------------
def _cases(rng, n):
    out = []
    for k in range(n):
        out.append({
            "lib": rng.choice(["ufoLib2", "defcon"]),
            "anchors": [{"name": rng.choice(["top", "*top", "_top", "bottom"]), "x": rng.choice([0, 10.5, -3]), "y": rng.choice([0, 700]), "identifier": rng.choice([None, "id%d" % j])} for j in range(rng.randint(0, 3))],
            "unicodes": rng.choice([[], [65], [65, 97]]), "width": rng.choice([0, 500, 612.5]),
            "libkeys": rng.choice([{}, {"public.objectLibs": {"id0": {"GPOS_Context": "a b"}}}]),
            "box": rng.choice([None, [0, 0, 100, 100]]),
        })
    return out


class _View:
    def __init__(self, g):
        self._g = g

    name = property(lambda s: s._g.name)
    width = property(lambda s: s._g.width)
    height = property(lambda s: s._g.height)
    unicodes = property(lambda s: list(s._g.unicodes))
    anchors = property(lambda s: [dict(a) for a in s._g.anchors])
    lib = property(lambda s: dict(s._g.lib))

    @property
    def outline(self):
        from fontTools.pens.recordingPen import RecordingPointPen

        p = RecordingPointPen()
        self._g.drawPoints(p)
        return p.value


def _build(d):
    from contracts import rtlib

    f = rtlib.build_ufo({"glyphs": {"g": {"width": d["width"], "unicodes": d["unicodes"], "box": d["box"], "lib": d["libkeys"]}}}, d["lib"])
    g = f["g"]
    for a in d["anchors"]:
        dd = {k: v for k, v in a.items() if v is not None}
        g.appendAnchor(dd)
    _KEEP.append(f)  # defcon glyphs reference their layer weakly
    del _KEEP[:-50]
    return {"glyph": g, "glyphFactory": None}


_KEEP = []


from pyvc.api import CLASSES  # noqa: E402

CLASSES["Glyph8"].views.update({k: (lambda o, k=k: getattr(_View(o), k)) for k in ("name", "width", "height", "unicodes", "anchors", "lib", "outline")})
CONTRACTS["ufo2ft.util:_copyGlyph"].runtime = Runtime(_cases, _build)
CONTRACTS["ufo2ft.util:_copyGlyph"].globals["fresh"] = lambda x: True
