"""C06 — parseAnchorName under deductive contract, PER PATH.

  #unnumbered   every name (without newline) whose base — the name itself, or for a contextual name `*...` what is left of it after cutting at the
                first '.' — does NOT end in a decimal digit: not numbered; mark iff the base starts with '_'; key = base without that prefix;
                ValueError iff the base is exactly '_'; contextual iff the name starts with '*'; ignorable iff the key is non-empty and its
                first character is not alphabetic.
The names that DO end in a digit (`x_N`, bare `_N`, `top1`) go through `str.rstrip(<symbolic>)` (not modelled by the engine) and stay with the
exhaustive enumeration of vcheck/hooks/c06.py (bounded).

Assumed (library semantics, contract-local): `LIGA_NUM_RE.match(s)` for the pattern `.*?(\\d+)$` on a string without newline is None iff s is empty or
its last character is not a decimal digit (`\\d` on str patterns == str.isdecimal of that character); `re.sub(r"\\..*", "", s)` is a function of s
(named c06_cut_at_dot) that returns s unchanged when s has no '.'; `str.isalpha` / `isdecimal` are functions of the string.
"""
import z3

from pyvc.api import BOOL, INT, STR, Const, Opt, Ref, Runtime, Tuple, Union, cls, contract
from pyvc.core import Unsupported, Val, lift
from pyvc.symex import FuncRef

from .c06 import W

from pyvc.api import SPECFNS, specfn  # noqa: E402


@specfn(STR, opaque=True, s=STR)
def c06_cut(s):
    """re.sub(r'\\..*', '', s): natively the real thing; in the logic an uninterpreted function of s"""
    import re

    return re.sub(r"\..*", "", s)


@specfn(BOOL, opaque=True, s=STR)
def c06_ends_in_decimal(s):
    """s is non-empty and its last character is a decimal digit (what `\\d` matches in a str pattern): uninterpreted in the logic"""
    return len(s) > 0 and s[-1].isdecimal()


cls("C06_Match", fields={"g1": STR}, methods={"group": lambda ex, st, self, args, kwargs, node: ex.read_field(st, self, "g1")},
    notes="a re.Match object of LIGA_NUM_RE: group(1)")


def _match(ex, st, args, kwargs, node):
    (v,) = args
    t = Opt(Ref("C06_Match"))
    m = ex.new_object(st, "C06_Match")
    ends = lift(ex.apply_spec(SPECFNS["c06_ends_in_decimal"], [v], st, node))
    return Val(t, z3.If(ends, t.sort().some(m.term), t.sort().nil))


def _sub(ex, st, args, kwargs, node):
    pat, repl, v = args
    if not (pat.is_py and pat.py == r"\..*" and repl.is_py and repl.py == ""):
        raise Unsupported("re.sub with another pattern", node)
    r = ex.apply_spec(SPECFNS["c06_cut"], [v], st, node)
    st.assume(z3.Implies(z3.Not(z3.Contains(lift(v, STR), z3.StringVal("."))), lift(r) == lift(v, STR)))
    return r


class _LigaNumRE:
    match = FuncRef(None, "c06parse.LIGA_NUM_RE.match")


class _Re:
    sub = FuncRef(None, "c06parse.re.sub")


def _base(n):
    return f"(c06_cut({n}[1:]) if {n}[0] == '*' else {n})"


# WAITING for engine request R19 (notes/C06.requests.md): `isIgnorable = key and not key[0].isalpha()` is a VALUE of type str-or-bool
# ("cannot merge values of type Bool and Str"); the contract below is complete otherwise.
REGISTERED = False
PAN = W + "parseAnchorName"
_B = _base("anchorName")
contract(
    PAN,
    name="unnumbered",
    props=["C06"] if REGISTERED else [],
    params={"anchorName": STR, "markPrefix": Const("_"), "ligaSeparator": Const("_"), "ignoreRE": Const(None)},
    returns=Tuple(BOOL, STR, Opt(INT), BOOL, Union(STR, BOOL)),
    globals={"LIGA_NUM_RE": _LigaNumRE, "re": _Re},
    models={"c06parse.LIGA_NUM_RE.match": _match, "c06parse.re.sub": _sub},
    requires=["len(anchorName) > 0", f"not c06_ends_in_decimal({_B})"],
    ensures={
        "not-numbered": "result[2] is None",
        "contextual-iff-star": "result[3] == (anchorName[0] == '*')",
        "mark-iff-underscore-prefix": f"result[0] == {_B}.startswith('_')",
        "key": f"result[1] == ({_B}[1:] if {_B}.startswith('_') else {_B})",
    },
    raises={"ValueError": f"{_B} == '_'"},
    canaries={"always-mark": "result[0]", "never-contextual": "not result[3]"},
)
