"""C06 — parseAnchorName (and NamedAnchor.__init__ through it) under deductive contract, as string functions of the anchor name.

The BASE of a name is the name itself, or for a contextual name `*...` what is left of it after cutting at the first '.'.
  #unnumbered   the base does NOT end in a decimal digit: not numbered; mark iff the base starts with '_'; key = base without that prefix;
                ValueError iff the base is exactly '_'; contextual iff the name starts with '*'; ignorable iff the key is non-empty and its
                first character is not alphabetic.
  #numbered     the base ends in a decimal digit; G = its maximal decimal suffix, P = what is in front of G.  If P ends in '_' (`key_N`, bare `_N`):
                number = int(G), key = P without the separator, not a mark anchor, ValueError iff the base starts with '_' and that key is not
                empty ("a mark anchor cannot be numbered").  Otherwise the digits belong to the name: not numbered, parsed like any other name.
  #grammar      both as one contract (callers select ONE callee contract); also hands the assumed facts about G on to the callers.
  NamedAnchor.__init__#grammar   the fields of the new anchor as those string functions of `name`; ValueError iff parseAnchorName raises or the
                component number is < 1; AssertionError iff the base is empty.  (The first-wave contract of __init__ in contracts/c06.py goes
                through a summary of parseAnchorName in opaque functions that is only enumerated; it stays, other contracts use its vocabulary.)
All for names without a newline (`.` and `$` of the two regular expressions treat '\\n' specially).

Assumed (library semantics, contract-local; enumerated over an alphabet by the hook part `parseAnchorName.library-model-facts`):
`LIGA_NUM_RE.match(s)` (pattern `.*?(\\d+)$`) is None iff s is empty or its last character is not a decimal digit (`\\d` on str patterns ==
str.isdecimal of that character); otherwise group(1) = c06_digits(s) is a non-empty suffix of s without '_'; `s.rstrip(group(1)) == s` without
that suffix (rstrip removes the longest suffix made of characters of its argument: all characters of the maximal decimal suffix are decimal
digits, the character in front of it is not); `int(<decimal digits>)` is a function of the string (c06_int); `re.sub(r"\\..*", "", s)` is a
function of s (c06_cut) that returns s unchanged when s has no '.'; `str.isalpha` is a function of the string.
"""
import z3

from pyvc.api import BOOL, CONTRACTS, INT, STR, Const, Opt, Ref, Runtime, Tuple, Union, cls, contract
from pyvc.core import Unsupported, Val, lift
from pyvc.symex import FuncRef

from .c06 import W

from pyvc.api import SPECFNS, specfn  # noqa: E402


@specfn(STR, opaque=True, s=STR)
def c06_cut(s):
    """re.sub(r'\\..*', '', s): natively the real thing; in the logic an uninterpreted function of s"""
    import re

    return re.sub(r"\..*", "", s)


@specfn(BOOL, opaque=True, s=STR)
def c06_ends_in_decimal(s):
    """s is non-empty and its last character is a decimal digit (what `\\d` matches in a str pattern): uninterpreted in the logic"""
    return len(s) > 0 and s[-1].isdecimal()


@specfn(STR, opaque=True, s=STR)
def c06_digits(s):
    """group(1) of LIGA_NUM_RE (`.*?(\\d+)$`) on s: the maximal suffix of decimal digits ('' if there is none): uninterpreted in the logic"""
    import re

    m = re.match(r".*?(\d+)$", s)
    return m.group(1) if m else ""


@specfn(INT, opaque=True, s=STR)
def c06_int(s):
    """int(s) for a string of decimal digits: uninterpreted in the logic"""
    return int(s)


cls("C06_Match", fields={"g1": STR}, methods={"group": lambda ex, st, self, args, kwargs, node: ex.read_field(st, self, "g1")},
    notes="a re.Match object of LIGA_NUM_RE: group(1)")


def _match(ex, st, args, kwargs, node):
    (v,) = args
    t = Opt(Ref("C06_Match"))
    m = ex.new_object(st, "C06_Match")
    ends = lift(ex.apply_spec(SPECFNS["c06_ends_in_decimal"], [v], st, node))
    # group(1): the maximal decimal suffix — non-empty and a suffix of the subject when there is a match
    g = lift(ex.apply_spec(SPECFNS["c06_digits"], [v], st, node))
    sv = lift(v, STR)
    ex.write_field(st, m, "g1", Val(STR, g), node)
    # (and '_' is not a decimal digit)
    st.assume(z3.Implies(ends, z3.And(z3.Length(g) >= 1, z3.SuffixOf(g, sv), z3.Not(z3.Contains(g, z3.StringVal("_"))))))
    # str.rstrip(chars) removes the longest suffix made of characters of `chars`; for chars = the maximal decimal suffix g of s that is g itself
    # (every character of g is one of g's; the character before g is no decimal digit, so none of g's).  Assumed here on these very terms,
    # enumerated over an alphabet by the hook (`parseAnchorName.rstrip-lemma`).
    rstrip2 = z3.Function("str_rstrip2", z3.StringSort(), z3.StringSort(), z3.StringSort())
    st.assume(z3.Implies(ends, rstrip2(sv, g) == z3.SubString(sv, 0, z3.Length(sv) - z3.Length(g))))
    return Val(t, z3.If(ends, t.sort().some(m.term), t.sort().nil))


def _sub(ex, st, args, kwargs, node):
    pat, repl, v = args
    if not (pat.is_py and pat.py == r"\..*" and repl.is_py and repl.py == ""):
        raise Unsupported("re.sub with another pattern", node)
    r = ex.apply_spec(SPECFNS["c06_cut"], [v], st, node)
    st.assume(z3.Implies(z3.Not(z3.Contains(lift(v, STR), z3.StringVal("."))), lift(r) == lift(v, STR)))
    return r


def _int(ex, st, args, kwargs, node):
    """int(<decimal string>): the named function c06_int"""
    (v,) = args
    if kwargs or v.ty != STR:
        raise Unsupported("int() of something else than a str", node)
    return ex.apply_spec(SPECFNS["c06_int"], [v], st, node)


class _LigaNumRE:
    match = FuncRef(None, "c06parse.LIGA_NUM_RE.match")


class _Re:
    sub = FuncRef(None, "c06parse.re.sub")


def _base(n):
    return f"(c06_cut({n}[1:]) if {n}[0] == '*' else {n})"


# (engine requests R19 — `key and not key[0].isalpha()` is a VALUE of type str-or-bool — and R18 — `str.rstrip(<symbolic>)` as the uninterpreted
# function str_rstrip2 — are done: registered)
REGISTERED = True
PAN = W + "parseAnchorName"
_B = _base("anchorName")
contract(
    PAN,
    name="unnumbered",
    props=["C06"] if REGISTERED else [],
    params={"anchorName": STR, "markPrefix": Const("_"), "ligaSeparator": Const("_"), "ignoreRE": Const(None)},
    returns=Tuple(BOOL, STR, Opt(INT), BOOL, Union(STR, BOOL)),
    globals={"LIGA_NUM_RE": _LigaNumRE, "re": _Re},
    models={"c06parse.LIGA_NUM_RE.match": _match, "c06parse.re.sub": _sub},
    # (no newline: `.` and `$` of the two regular expressions treat '\n' specially, the models above do not describe that)
    requires=["len(anchorName) > 0", "'\\n' not in anchorName", f"not c06_ends_in_decimal({_B})"],
    ensures={
        "not-numbered": "result[2] is None",
        "contextual-iff-star": "result[3] == (anchorName[0] == '*')",
        "mark-iff-underscore-prefix": f"result[0] == {_B}.startswith('_')",
        "key": f"result[1] == ({_B}[1:] if {_B}.startswith('_') else {_B})",
        # ('' — falsy — for an empty key, else a bool)
        "ignorable-iff-key-starts-with-a-non-letter": "iff(result[4], len(result[1]) > 0 and not result[1][0].isalpha())",
    },
    raises={"ValueError": f"{_B} == '_'"},
    canaries={"always-mark": "result[0]", "never-contextual": "not result[3]"},
)


# The names whose base DOES end in a decimal digit.  G = the maximal decimal suffix, P = what is in front of it.
_G = f"c06_digits({_B})"
_P = f"{_B}[:len({_B}) - len({_G})]"
_LIGA = f"{_P}.endswith('_')"  # a ligature-component name `key_N` (or the bare `_N`)
_K = f"{_P}[:len({_P}) - 1]"
contract(
    PAN,
    name="numbered",
    props=["C06"] if REGISTERED else [],
    params={"anchorName": STR, "markPrefix": Const("_"), "ligaSeparator": Const("_"), "ignoreRE": Const(None)},
    returns=Tuple(BOOL, STR, Opt(INT), BOOL, Union(STR, BOOL)),
    globals={"LIGA_NUM_RE": _LigaNumRE, "re": _Re},
    models={"c06parse.LIGA_NUM_RE.match": _match, "c06parse.re.sub": _sub, "builtins.int": _int},
    requires=["len(anchorName) > 0", "'\\n' not in anchorName", f"c06_ends_in_decimal({_B})"],
    ensures={
        "contextual-iff-star": "result[3] == (anchorName[0] == '*')",
        # `key_N`: component number N, key without the separator, never a mark anchor (the bare `_N` has the empty key)
        "component-number": f"implies({_LIGA}, result[2] == c06_int({_G}) and result[1] == {_K} and not result[0])",
        # digits that do not follow the separator belong to the name: not numbered, parsed like any other name
        "digits-without-separator-are-part-of-the-key": f"implies(not {_LIGA}, result[2] is None and result[0] == {_B}.startswith('_') and result[1] == ({_B}[1:] if {_B}.startswith('_') else {_B}))",
        "ignorable-iff-key-starts-with-a-non-letter": "iff(result[4], len(result[1]) > 0 and not result[1][0].isalpha())",
    },
    # a mark anchor cannot be numbered
    raises={"ValueError": f"{_LIGA} and {_B}.startswith('_') and len({_P}) > 1"},
    canaries={"always-numbered": "result[2] is not None", "never-numbered": "result[2] is None"},
)

# Both halves as ONE contract (for callers: `calls=` selects one key per callee) — every clause guarded by "the base ends / does not end in a decimal digit".
_ENDS = f"c06_ends_in_decimal({_B})"
_U, _N = CONTRACTS[PAN + "#unnumbered"], CONTRACTS[PAN + "#numbered"]
contract(
    PAN,
    name="grammar",
    props=["C06"] if REGISTERED else [],
    params=dict(_N.params),
    returns=_N.returns,
    globals={"LIGA_NUM_RE": _LigaNumRE, "re": _Re},
    models={"c06parse.LIGA_NUM_RE.match": _match, "c06parse.re.sub": _sub, "builtins.int": _int},
    requires=["len(anchorName) > 0", "'\\n' not in anchorName"],
    ensures={
        **{"plain-" + k: f"implies(not {_ENDS}, {v})" for k, v in _U.ensures.items() if k not in ("contextual-iff-star", "ignorable-iff-key-starts-with-a-non-letter")},
        **{"digits-" + k: f"implies({_ENDS}, {v})" for k, v in _N.ensures.items() if k not in ("contextual-iff-star", "ignorable-iff-key-starts-with-a-non-letter")},
        "contextual-iff-star": _N.ensures["contextual-iff-star"],
        "ignorable-iff-key-starts-with-a-non-letter": _N.ensures["ignorable-iff-key-starts-with-a-non-letter"],
        # (what the model of LIGA_NUM_RE.match assumes about the two named functions, handed on to the callers)
        "decimal-suffix": f"implies({_ENDS}, len({_G}) >= 1 and {_B}.endswith({_G}) and '_' not in {_G})",
    },
    raises={"ValueError": f"(not {_ENDS} and ({_U.raises['ValueError']})) or ({_ENDS} and ({_N.raises['ValueError']}))"},
    canaries={"always-numbered": "result[2] is not None", "never-mark": "not result[0]"},
)

# NamedAnchor.__init__ against the grammar contract of the REAL parseAnchorName (the first-wave contract of __init__, contracts/c06.py, goes through a summary
# in opaque functions that is only enumerated): the fields of the new anchor as string functions of its name.
NAI = W + "NamedAnchor.__init__"
_I0 = CONTRACTS[NAI]
_NB = _base("name")
_NG = f"c06_digits({_NB})"
_NP = f"{_NB}[:len({_NB}) - len({_NG})]"
_NENDS = f"c06_ends_in_decimal({_NB})"
_NLIGA = f"({_NENDS} and {_NP}.endswith('_'))"
_NPARSE_ERR = f"((not {_NENDS} and {_NB} == '_') or ({_NLIGA} and {_NB}.startswith('_') and len({_NP}) > 1))"
contract(
    NAI,
    name="grammar",
    props=["C06"] if REGISTERED else [],
    params=dict(_I0.params),
    requires=["len(name) > 0", "'\\n' not in name"],
    modifies=list(_I0.modifies),
    calls={PAN: PAN + "#grammar"},
    ensures={
        "position": "self.name == name and self.x == x and self.y == y and self.markClass is None",
        "contextual-iff-star": "self.isContextual == (name[0] == '*')",
        # `key_N` (N >= 1): component N of the ligature, key without the separator; never a mark anchor
        "component-anchor": f"implies({_NLIGA}, self.number == c06_int({_NG}) and self.number >= 1 and self.key == {_NP}[:len({_NP}) - 1] and not self.isMark)",
        # any other name: not numbered; a mark anchor iff it starts with '_'; the key is the name without that prefix and is not empty
        "plain-anchor": f"implies(not {_NLIGA}, self.number is None and self.isMark == {_NB}.startswith('_') and self.key == ({_NB}[1:] if {_NB}.startswith('_') else {_NB}) and self.key != '')",
    },
    raises={
        "ValueError": f"{_NPARSE_ERR} or ({_NLIGA} and c06_int({_NG}) < 1)",
        "AssertionError": f"not {_NENDS} and {_NB} == ''",
    },
    canaries={"always-mark": "self.isMark", "never-numbered": "self.number is None"},
)

# ---- run-time side: names over an alphabet with the separators, digits (inside, not at the end of the base), non-letters and non-ASCII letters ----
def _name_cases(rng, n):
    import re

    alpha = ["_", "*", ".", "a", "B", "é", "1", "-", "٣", "top", "_top", " "]
    out = ["_", "*", "*_", "*_top.alt", "_top", "top", "a.b", "*a.1", "-x", "1a", "*.x", "é"]
    seen = set(out)
    tries = 0
    while len(out) < n and tries < 50 * n:
        tries += 1
        s = "".join(rng.choice(alpha) for _ in range(rng.randint(1, 5)))
        base = re.sub(r"\..*", "", s[1:]) if s[0] == "*" else s
        if s in seen or "\n" in s or (len(base) > 0 and base[-1].isdecimal()):
            continue  # (names whose base ends in a decimal digit: the numbered paths, bounded — vcheck/hooks/c06.py)
        seen.add(s)
        out.append(s)
    return [{"name": s} for s in out[:n]]


from pyvc.api import CONTRACTS  # noqa: E402


def _numbered_cases(rng, n):
    import re

    alpha = ["_", "*", ".", "a", "B", "é", "1", "0", "2", "-", "٣", "top", "_top", " "]
    out = ["top_1", "_1", "_top_1", "top1", "*top_2.alt", "a_01", "a__1", "1", "_12", "a_1_2", "*_3", "*_a_3.x", "__1", "a_٣", "_٣", "é_10", "*1", "-_2", "x_0"]
    seen = set(out)
    tries = 0
    while len(out) < n and tries < 50 * n:
        tries += 1
        s = "".join(rng.choice(alpha) for _ in range(rng.randint(1, 6)))
        base = re.sub(r"\..*", "", s[1:]) if s[0] == "*" else s
        if s in seen or not (len(base) > 0 and base[-1].isdecimal()):
            continue
        seen.add(s)
        out.append(s)
    return [{"name": s} for s in out[:n]]


CONTRACTS[PAN + "#numbered"].runtime = Runtime(_numbered_cases, lambda d: {"anchorName": d["name"]}, call=lambda fn, a: fn(a["anchorName"]))

CONTRACTS[PAN + "#unnumbered"].runtime = Runtime(_name_cases, lambda d: {"anchorName": d["name"]}, call=lambda fn, a: fn(a["anchorName"]))


def _init_cases(rng, n):
    a, b = _name_cases(rng, n // 2 + 1), _numbered_cases(rng, n // 2 + 1)
    return [x for pair in zip(a, b) for x in pair][:n]


def _init_build(d):
    from ufo2ft.featureWriters.markFeatureWriter import NamedAnchor

    return {"self": NamedAnchor.__new__(NamedAnchor), "name": d["name"], "x": 10, "y": -20, "libData": None}


CONTRACTS[PAN + "#grammar"].runtime = Runtime(_init_cases, lambda d: {"anchorName": d["name"]}, call=lambda fn, a: fn(a["anchorName"]))
CONTRACTS[NAI + "#grammar"].runtime = Runtime(_init_cases, _init_build, call=lambda fn, a: fn(a["self"], a["name"], a["x"], a["y"], libData=a["libData"]))
