"""C13 — non-exported glyphs vanish without altering the remaining glyphs.

Deductive part (pyvc over the real ASTs):
  * util.decomposeCompositeGlyph (variant `skip`: include = a name set, decomposeNested=False): afterwards no component
    of the glyph has a base in `include`; components whose base is not in `include` are kept (same base, same
    transformation); no other glyph of the glyph set is touched.  [library pen protocol trusted]
  * SkipExportGlyphsFilter.filter: decides by "some component base is skipped", prunes exactly those references
  * BaseFilter.__call__ (receiver SkipExportGlyphsFilter): every glyph of the set is pruned, no key added/removed
  * SkipExportGlyphsFilter.__call__: afterwards no key of the glyph set is in the skip set, no other key is lost,
    no remaining glyph references a skipped glyph, removed names are reported
  * the interpolatable variants
  * BaseCompiler.preprocess / BaseInterpolatableCompiler._pre_compile_designspace: skip-list resolution
  * order lemma over spec.official_order: proved by four inductions (lemmas C13.ord.*, base + step each)
  * util._copyGlyph / _copyLayer / _GlyphSet.from_layer (the glyph set handed to the pre-processors, with the static filter run on it)
Bounded part: vcheck/hooks/c13.py (compile with / without skipping, compare rendering / advance / order / kerning).
"""
import z3

from pyvc import models as _models
from pyvc import ty as T
from pyvc.api import BOOL, CLASSES, CONTRACTS, INT, REAL, STR, Const, Dict, List, Loop, Map, Opt, Ref, Runtime, Set, Tuple, cls, contract, lemma, specfn, trusted
from pyvc.core import PYOBJ, Unsupported, Val, fresh, fresh_name, lift
from pyvc.symex import FuncRef

from . import lib, spec  # noqa: F401

XF6 = Tuple(REAL, REAL, REAL, REAL, REAL, REAL)


class _Ref(FuncRef):
    """a name of the function under contract re-bound (contract `globals`) to a trusted model registered in this file.
    Contract globals are also visible to the run-time clause interpreter, so a re-bound builtin stays callable there."""

    def __init__(self, qual, real=None, obj=None):
        FuncRef.__init__(self, obj, qual)
        self._real = real

    def __call__(self, *a, **k):
        return self._real(*a, **k)


# =====================================================================================================
# Object vocabulary: glyphs with components, glyph sets (name -> glyph), the decomposing pen (trusted)
# =====================================================================================================
GLYPHS = Dict(STR, Ref("SXGlyph"))


def _gs_glyphs(ex, st, self):
    return ex.read_field(st, self, "glyphs")


def _mentions(term, consts):
    ids = {c.get_id() for c in consts}
    seen, stack = set(), [term]
    while stack:
        t = stack.pop()
        if t.get_id() in seen:
            continue
        seen.add(t.get_id())
        if t.get_id() in ids:
            return True
        if z3.is_quantifier(t):
            stack.append(t.body())
        elif z3.is_app(t):
            stack.extend(t.children())
    return False


def _gs_getitem(ex, st, self, idx, node):
    d = _gs_glyphs(ex, st, self)
    if ex.qstack and not ex.spec_mode:
        # inside a comprehension / quantified generator: the facts about the bound variables (e.g. the filter
        # `if glyphName in glyphSet`) sit in the path condition, where the engine's quantified obligation cannot see
        # them; state the KeyError obligation with those facts as antecedents (they get bound together with the goal)
        bound = [v for vars_, _ in ex.qstack for v in vars_]
        ante = [p for p in st.pc if _mentions(p, bound)]
        sd = d.ty.sort()
        k = lift(idx, STR)
        ok = z3.Select(sd.dom(d.term), k)
        ex.safety(st, z3.Implies(z3.And(*ante), ok) if ante else ok, "KeyError", node)
        return Val(d.ty.v, z3.Select(sd.map(d.term), k))
    return ex.getitem(d, idx, st, node)


def _gs_contains(ex, st, self, x):
    d = _gs_glyphs(ex, st, self)
    return z3.Select(d.ty.sort().dom(d.term), lift(x, STR))


def _gs_keyset(ex, st, self):
    d = _gs_glyphs(ex, st, self)
    return Val(Set(STR), d.ty.sort().dom(d.term))


def _gs_get(ex, st, self, args, kwargs, node):
    return _models.value_method(ex, st, _gs_glyphs(ex, st, self), "get", args, kwargs, node)


def _gs_items(ex, st, self, args, kwargs, node):
    return _models.value_method(ex, st, _gs_glyphs(ex, st, self), "items", args, kwargs, node)


def _gs_delitem(ex, st, self, idx, node):
    d = _gs_glyphs(ex, st, self)
    nv = _models.del_item(ex, st, d, idx, node)
    ex.write_field(st, self, "glyphs", nv, node)


def _gs_setitem(ex, st, self, idx, v, node):
    d = _gs_glyphs(ex, st, self)
    ex.write_field(st, self, "glyphs", _models.set_item(ex, st, d, idx, v, node), node)


def _gs_len(ex, st, self):
    d = _gs_glyphs(ex, st, self)
    _models.dict_wf(st, d.ty, d.term)
    return Val(INT, z3.Length(d.ty.sort().keys(d.term)))


def _gs_view(field, ty):
    """name -> <field> of the glyph stored under that name (heap-derived view, a snapshot of the current heap)"""

    def view(ex, st, self):
        d = _gs_glyphs(ex, st, self)
        n = z3.Const("n!" + field, z3.StringSort())
        arr = ex.field_array(st, "SXGlyph", field)
        return Val(Map(STR, ty), z3.Lambda([n], z3.Select(arr, z3.Select(d.ty.sort().map(d.term), n))))

    return view


class _IdMap(dict):
    """run-time view name -> glyph object that survives old(): deep-copying keeps the object identities"""

    def __deepcopy__(self, memo):
        return _IdMap(self)


_GS = cls(
    "SXGlyphSet",
    fields={"glyphs": GLYPHS},
    derived={"keyset": _gs_keyset, "objs": lambda ex, st, self: Val(Map(STR, Ref("SXGlyph")), _gs_glyphs(ex, st, self).ty.sort().map(_gs_glyphs(ex, st, self).term)), "comps": _gs_view("components", List(Ref("SXComponent"))), "ncont": _gs_view("ncontours", INT)},
    getitem=_gs_getitem,
    setitem=_gs_setitem,
    contains=_gs_contains,
    length=_gs_len,
    delitem=_gs_delitem,
    methods={"keys": lambda ex, st, self, a, k, n: _gs_keyset(ex, st, self), "get": _gs_get, "items": _gs_items},
    views={"keyset": lambda o: set(o.keys()), "objs": lambda o: _IdMap(o), "comps": lambda o: {k: list(g.components) for k, g in o.items()}, "ncont": lambda o: {k: len(g) for k, g in o.items()}},
    notes="glyph set (dict / _GlyphSet): name -> glyph object; keys(), [], in, get, items, del, len (assumed dict protocol)",
)


def _glyph_len(ex, st, self):
    return ex.read_field(st, self, "ncontours")


# ---- the skip set: a frozenset of glyph names, as a heap object so that its methods can be modelled precisely -------------
def _ns_names(ex, st, self):
    return lift(ex.read_field(st, self, "names"))


def _ns_contains(ex, st, self, x):
    return z3.Select(_ns_names(ex, st, self), lift(x, STR))


def _ns_iter(ex, st, self, node):
    from pyvc.stmts import IterInfo

    return IterInfo("set", set_term=_ns_names(ex, st, self), elem=STR)


def _ns_truth(ex, st, self):
    return _ns_names(ex, st, self) != z3.K(z3.StringSort(), z3.BoolVal(False))


def _ns_isdisjoint(ex, st, self, args, kwargs, node):
    """S.isdisjoint(iterable)  <=>  no element produced by the iterable is in S.  For a generator expression this is
    evaluated as the quantified formula all(elt not in S for target in iter) (no intermediate set)."""
    import ast as _ast

    (a,) = args
    if a.is_py and isinstance(a.py, tuple) and len(a.py) == 3 and a.py[0] == "genexp":
        _, gnode, gst = a.py
        test = _ast.Compare(left=gnode.elt, ops=[_ast.NotIn()], comparators=[_ast.Name(id="__nameset", ctx=_ast.Load())])
        g2 = _ast.GeneratorExp(elt=test, generators=gnode.generators)
        _ast.copy_location(g2, gnode)
        _ast.fix_missing_locations(g2)
        s2 = gst.copy()
        s2.pc = gst.pc
        s2.env = dict(gst.env)
        s2.env["__nameset"] = self
        from pyvc.exprs import bool_val

        r = ex.quantified("all", g2, s2)
        return r
    if isinstance(a.ty, T.Set):
        return Val(BOOL, z3.SetIntersect(_ns_names(ex, st, self), lift(a)) == z3.K(z3.StringSort(), z3.BoolVal(False)))
    raise Unsupported("isdisjoint with this argument", node)


def _member_of_iterable(ex, st, a, x, node):
    """z3 Bool: `x` is produced by the iterable `a` (a set / list value, another name set, or a generator expression
    with one or more `for` clauses — evaluated as nested quantifiers, no intermediate container)"""
    import ast as _ast

    if a.is_py and isinstance(a.py, tuple) and len(a.py) == 3 and a.py[0] == "genexp":
        _, gnode, gst = a.py
        body = _ast.Compare(left=gnode.elt, ops=[_ast.Eq()], comparators=[_ast.Name(id="__member", ctx=_ast.Load())])
        for g in reversed(gnode.generators[1:]):
            inner = _ast.GeneratorExp(elt=body, generators=[g])
            body = _ast.Call(func=_ast.Name(id="any", ctx=_ast.Load()), args=[inner], keywords=[])
        g2 = _ast.GeneratorExp(elt=body, generators=[gnode.generators[0]])
        _ast.copy_location(g2, gnode)
        _ast.fix_missing_locations(g2)
        s2 = gst.copy()
        s2.pc = gst.pc
        s2.env = dict(gst.env)
        s2.env["__member"] = Val(STR, x)
        s2.env.pop("any", None)
        r = ex.quantified("any", g2, s2)
        return z3.BoolVal(bool(r.py)) if r.is_py else r.term
    if isinstance(a.ty, T.Ref) and a.ty.cls == "SXNameSet":
        return z3.Select(_ns_names(ex, st, a), x)
    if isinstance(a.ty, T.Set):
        return z3.Select(lift(a), x)
    if isinstance(a.ty, T.List):
        from pyvc.core import seq_contains_elem

        return seq_contains_elem(lift(a), x)
    raise Unsupported("name-set operation with this argument", node)


def _ns_setop(op):
    def model(ex, st, self, args, kwargs, node):
        """frozenset.intersection / union / difference(iterable): a NEW frozenset with the usual membership"""
        x = fresh(STR, "sx")
        mine = z3.Select(_ns_names(ex, st, self), x)
        theirs = [_member_of_iterable(ex, st, a, x, node) for a in args]
        if op == "intersection":
            body = z3.And(mine, *theirs)
        elif op == "union":
            body = z3.Or(mine, *theirs)
        else:
            body = z3.And(mine, *[z3.Not(t) for t in theirs])
        o = ex.new_object(st, "SXNameSet")
        ex.write_field(st, o, "names", Val(Set(STR), z3.Lambda([x], body)), node)
        return o

    return model


cls(
    "SXNameSet",
    fields={"names": Set(STR)},
    contains=_ns_contains,
    iter=_ns_iter,
    truth=_ns_truth,
    methods={"isdisjoint": _ns_isdisjoint, "intersection": _ns_setop("intersection"), "union": _ns_setop("union"), "difference": _ns_setop("difference")},
    views={"names": lambda o: set(o)},
    notes="frozenset of glyph names (options.skipExportGlyphs after start()): in, iteration (arbitrary order), truthiness, isdisjoint (assumed frozenset semantics)",
)

# ---- trusted library protocol: ufoLib2/defcon glyph + fontTools DecomposingFilterPointPen -------------------


def _glyph_getPointPen(ex, st, self, args, kwargs, node):
    p = ex.new_object(st, "SXPointPen")
    ex.write_field(st, p, "glyph", self, node)
    return p


def _pos_seq(st, ty, n, item, prefix):
    """a fresh sequence described position-wise (length n, element k = item(k)); keeps the solvers on quantifier
    instantiation over positions instead of seq.extract / seq.indexof reasoning"""
    r = fresh(ty, prefix)
    k = z3.Int(fresh_name(prefix + "_k"))
    st.assume(z3.Length(r) == n)
    st.assume(z3.ForAll([k], z3.Implies(z3.And(k >= 0, k < n), r[k] == item(k))))
    return r


def _glyph_removeComponent(ex, st, self, args, kwargs, node):
    (c,) = args
    comps = ex.read_field(st, self, "components")
    s = lift(comps)
    cz = lift(c)
    n = z3.Length(s)
    jj = z3.Int(fresh_name("rmw"))
    ex.safety(st, z3.Or(z3.And(n > 0, s[0] == cz), z3.Exists([jj], z3.And(jj >= 0, jj < n, s[jj] == cz))), "ValueError", node)
    # the first occurrence (position idx) is removed
    idx = z3.Int(fresh_name("rmidx"))
    j = z3.Int(fresh_name("rmj"))
    st.assume(z3.And(idx >= 0, idx < n, s[idx] == cz))
    st.assume(z3.ForAll([j], z3.Implies(z3.And(j >= 0, j < idx), s[j] != cz)))
    # the list without that position; the common case "c is the head" (idx == 0) is spelled out without a case distinction per
    # position, which spares the solvers the detour through idx
    head = z3.And(n > 0, s[0] == cz)
    res = fresh(comps.ty, "removed")
    k = z3.Int(fresh_name("removed_k"))
    st.assume(z3.Length(res) == n - 1)
    st.assume(z3.Implies(head, z3.ForAll([k], z3.Implies(z3.And(k >= 0, k < n - 1), res[k] == s[k + 1]))))
    st.assume(z3.Implies(z3.Not(head), z3.ForAll([k], z3.Implies(z3.And(k >= 0, k < n - 1), res[k] == z3.If(k < idx, s[k], s[k + 1])))))
    ex.write_field(st, self, "components", Val(comps.ty, res), node)
    return Val.const(None)


_glyph_removeComponent.modifies = ["SXGlyph.components"]


def _pen_init(ex, st, args, kwargs, node):
    """DecomposingFilterPointPen(outPen, glyphSet, reverseFlipped=, include=, decomposeNested=)"""
    names = ["outPen", "glyphSet", "skipMissingComponents", "reverseFlipped", "include", "decomposeNested"]
    bound = dict(zip(names, args))
    bound.update(kwargs)
    p = ex.new_object(st, "SXDecomposingPen")
    ex.write_field(st, p, "out", bound["outPen"], node)
    ex.write_field(st, p, "glyphSet", bound["glyphSet"], node)
    ex.write_field(st, p, "include", bound.get("include", Val.const(None)), node)
    ex.write_field(st, p, "decomposeNested", bound.get("decomposeNested", Val.const(True)), node)
    ex.write_field(st, p, "reverseFlipped", bound.get("reverseFlipped", Val.const(False)), node)
    return p


trusted(
    "c13.DecomposingFilterPointPen",
    "fontTools.pens.filterPen.DecomposingFilterPointPen(outPen, glyphSet, reverseFlipped, include, decomposeNested): "
    "a pen object recording its arguments",
)(_pen_init)


def _comp_drawPoints(ex, st, self, args, kwargs, node):
    """component.drawPoints(pen) with pen a DecomposingFilterPointPen writing into a glyph G (fontTools 4.55
    _DecomposingFilterPenMixin.addComponent + DecomposingPointPen + ufoLib2 GlyphPointPen):
      * a component whose base is NOT in `include` is passed through: exactly one component with the same base and
        transformation is appended to G, no contour is added, the glyph set is not consulted;
      * a component whose base IS in `include` (or include is None) is replaced by its base's content; components
        met while drawing the base come back through addComponent, so: every component appended to G has a base
        outside `include`; none is appended when include is None or (decomposeNested and include non-empty);
      * nothing but G.components / G's contours is modified.
    NOT modelled: the exceptional exit MissingComponentError (a base that is looked up and absent from the glyph set,
    i.e. a dangling component reference).  Every clause that depends on this model is about NORMAL return (partial
    correctness): a dangling reference aborts the compilation, with or without skipped glyphs."""
    (pen,) = args
    if not (isinstance(pen.ty, T.Ref) and pen.ty.cls == "SXDecomposingPen"):
        raise Unsupported("drawPoints with a pen that is not the decomposing filter pen", node)
    def rd(o, f):
        v = ex.read_field(st, o, f)
        return Val(v.ty, z3.simplify(v.term))

    out = rd(pen, "out")
    G = rd(out, "glyph")
    inc = rd(pen, "include")
    nested = lift(rd(pen, "decomposeNested"))
    gs = rd(pen, "glyphSet")
    b = lift(ex.read_field(st, self, "baseGlyph"))
    tr = lift(ex.read_field(st, self, "transformation"))
    so = inc.ty.sort()
    is_none = so.is_nil(lift(inc))
    incset = z3.Select(ex.field_array(st, "SXNameSet", "names"), so.val(lift(inc)))
    included = z3.Or(is_none, z3.Select(incset, b))
    new = fresh(List(Ref("SXComponent")), "passthru")
    k = z3.Int(fresh_name("pk"))
    inrange = z3.And(k >= 0, k < z3.Length(new))
    base_arr = ex.field_array(st, "SXComponent", "baseGlyph")
    tr_arr = ex.field_array(st, "SXComponent", "transformation")
    st.assume(z3.Implies(z3.Not(included), z3.And(z3.Length(new) == 1, z3.Select(base_arr, new[0]) == b, z3.Select(tr_arr, new[0]) == tr)))
    st.assume(z3.Implies(z3.Not(is_none), z3.ForAll([k], z3.Implies(inrange, z3.Not(z3.Select(incset, z3.Select(base_arr, new[k])))))))
    empty = z3.Or(is_none, z3.And(nested, incset != z3.K(z3.StringSort(), z3.BoolVal(False))))
    st.assume(z3.Implies(z3.And(included, empty), z3.Length(new) == 0))
    comps = ex.read_field(st, G, "components")
    cs = lift(comps)
    app = _pos_seq(st, comps.ty, z3.Length(cs) + z3.Length(new), lambda p: z3.If(p < z3.Length(cs), cs[p], new[p - z3.Length(cs)]), "appended")
    ex.write_field(st, G, "components", Val(comps.ty, app), node)
    cnt = z3.Int(fresh_name("ncont"))
    st.assume(cnt >= 0)
    st.assume(z3.Implies(z3.Not(included), cnt == 0))
    nc = ex.read_field(st, G, "ncontours")
    ex.write_field(st, G, "ncontours", Val(INT, lift(nc) + cnt), node)
    return Val.const(None)


_comp_drawPoints.modifies = ["SXGlyph.components", "SXGlyph.ncontours"]


cls("SXComponent", fields={"baseGlyph": STR, "transformation": XF6}, methods={"drawPoints": _comp_drawPoints},
    notes="ufoLib2/defcon Component: baseGlyph, transformation; drawPoints(pen) = pen.addComponent(baseGlyph, transformation) (assumed)")
def _frame_view(field, vty, dflt):
    """the heap field of ALL glyph objects except this one (frame clauses: `== old(...)` says nobody else was written)"""

    def view(ex, st, self):
        arr = ex.field_array(st, "SXGlyph", field)
        return Val(Map(Ref("SXGlyph"), vty), z3.Store(arr, lift(self), dflt()))

    return view


cls(
    "SXGlyph",
    fields={"name": STR, "components": List(Ref("SXComponent")), "ncontours": INT},
    derived={
        "frame_components": _frame_view("components", List(Ref("SXComponent")), lambda: z3.Empty(List(Ref("SXComponent")).sort())),
        "frame_ncontours": _frame_view("ncontours", INT, lambda: z3.IntVal(0)),
    },
    views={"frame_components": lambda o: None, "frame_ncontours": lambda o: None},
    methods={"getPointPen": _glyph_getPointPen, "removeComponent": _glyph_removeComponent},
    length=_glyph_len,
    notes="glyph object: name, components (list), len(glyph) = number of contours; getPointPen() writes into this glyph; "
    "removeComponent(c) removes the first occurrence of c (assumed ufoLib2/defcon API)",
)
cls("SXPointPen", fields={"glyph": Ref("SXGlyph")}, notes="pen returned by glyph.getPointPen()")
cls("SXDecomposingPen", fields={"out": Ref("SXPointPen"), "glyphSet": Ref("SXGlyphSet"), "include": Opt(Ref("SXNameSet")), "decomposeNested": BOOL, "reverseFlipped": BOOL},
    notes="fontTools DecomposingFilterPointPen (assumed)")

_PEN_GLOBALS = {"DecomposingFilterPointPen": _Ref("c13.DecomposingFilterPointPen")}

_OTHERS = "all(implies(glyphSet[n] != glyph, glyphSet.comps[n] == old(glyphSet.comps)[n] and glyphSet.ncont[n] == old(glyphSet.ncont)[n]) for n in glyphSet.keyset)"
_NONE_INCLUDED = "all(c.baseGlyph not in include for c in glyph.components)"

contract(
    "ufo2ft.util:decomposeCompositeGlyph",
    name="skip",
    props=["C13"],
    params={"glyph": Ref("SXGlyph"), "glyphSet": Ref("SXGlyphSet"), "include": Ref("SXNameSet"), "decomposeNested": Const(False)},
    globals=_PEN_GLOBALS,
    # solver order: the position-wise list-edit obligations of the loop (inv.step.wit / .new) are proved by cvc5 in < 1 s CPU, by z3 only
    # erratically (1-30 s); the listed solvers are tried first, the rest of the default portfolio follows
    portfolio=["cvc5", "z3-5.1"],
    ensures={
        # no reference to an included (= skipped) glyph is left in this glyph
        "none-included": _NONE_INCLUDED,
        # references to other glyphs stay components, with the same transformation
        "kept": "all(implies(old(glyph.components)[j].baseGlyph not in include,"
        " any(d.baseGlyph == old(glyph.components)[j].baseGlyph and d.transformation == old(glyph.components)[j].transformation for d in glyph.components))"
        " for j in range(len(old(glyph.components))))",
        # a glyph without included references is left alone
        "idle": "implies(all(c.baseGlyph not in include for c in old(glyph.components)), len(glyph) == old(len(glyph)) and len(glyph.components) == len(old(glyph.components)))",
        # frame: the key set and every other glyph of the set are untouched
        "keys": "glyphSet.keyset == old(glyphSet.keyset)",
        "others": _OTHERS,
        # ... and so is every other glyph object of the heap (whole-heap frame; logical only, trivially true at run time)
        "frame": "glyph.frame_components == old(glyph.frame_components) and glyph.frame_ncontours == old(glyph.frame_ncontours)",
    },
    canaries={"nothing-left": "len(glyph.components) == 0"},
    modifies=["SXGlyph.components", "SXGlyph.ncontours"],
    ghost_vars={
        # witness list: wN[j] = where the pass-through copy of K[j] sits, counted from the start of the appended part
        "wN": (List(INT), "[]"),
        # initial values (invariants cannot say old()): components / contour count of every glyph of the set, of `glyph`
        "C0": (Map(STR, List(Ref("SXComponent"))), "glyphSet.comps"),
        "N0": (Map(STR, INT), "glyphSet.ncont"),
        "NC0": (INT, "len(glyph)"),
        "F0": (Map(Ref("SXGlyph"), List(Ref("SXComponent"))), "glyph.frame_components"),
        "F1": (Map(Ref("SXGlyph"), INT), "glyph.frame_ncontours"),
    },
    ghost={"glyph.removeComponent(component)": ["wN = wN + [len(glyph.components) - len(K) + i]"]},
    # stepping stones between the two list edits of an iteration (proved, then assumed)
    hints={"component.drawPoints(pen)": [
        "glyph.components[0] == component and len(glyph.components) >= len(K) - i",
        "implies(component.baseGlyph not in include, glyph.components[len(glyph.components) - 1].baseGlyph == component.baseGlyph"
        " and glyph.components[len(glyph.components) - 1].transformation == component.transformation and len(glyph.components) > len(K) - i)",
    ]},
    loops={
        "for component in list(glyph.components)": Loop(
            index="i", seq="K",
            invariants={
                "rest": "len(glyph.components) >= len(K) - i and all(glyph.components[k] == K[i + k] for k in range(len(K) - i))",
                "new": "all(glyph.components[k].baseGlyph not in include for k in range(len(K) - i, len(glyph.components)))",
                "wit-len": "len(wN) == i",
                "wit": "all(implies(K[j].baseGlyph not in include, 0 <= wN[j] and len(K) - i + wN[j] < len(glyph.components)"
                " and glyph.components[len(K) - i + wN[j]].baseGlyph == K[j].baseGlyph"
                " and glyph.components[len(K) - i + wN[j]].transformation == K[j].transformation) for j in range(i))",
                # (whole-heap frame; the postcondition `others` about the glyphs of the set follows from it at loop exit)
                "frame": "glyph.frame_components == F0 and glyph.frame_ncontours == F1",
                "idle": "implies(all(K[j].baseGlyph not in include for j in range(i)), len(glyph) == NC0 and len(glyph.components) == len(K))",
            },
        )
    },
)


# =====================================================================================================
# SkipExportGlyphsFilter (static path)
# =====================================================================================================
cls("SXOptions", fields={"skipExportGlyphs": Ref("SXNameSet")}, notes="filter.options namespace: skipExportGlyphs (a frozenset after start())")
cls("SXContext", fields={"glyphSet": Ref("SXGlyphSet"), "modified": Set(STR), "font": Ref("SXFont"), "glyphFactory": Ref("SXFactory")}, dynamic=True, notes="filter.context namespace (set_context)")
cls(
    "SXFilter",
    fields={"options": Ref("SXOptions"), "context": Ref("SXContext")},
    repo="ufo2ft.filters.skipExportGlyphs:SkipExportGlyphsFilter",
    notes="SkipExportGlyphsFilter instance",
)

_SKIP = "self.options.skipExportGlyphs"
_CALLS_SKIP = {"ufo2ft.util:decomposeCompositeGlyph": "ufo2ft.util:decomposeCompositeGlyph#skip"}


def _kept(skip, comps="glyph.components"):
    return (
        f"all(implies(old({comps})[j].baseGlyph not in {skip},"
        f" any(d.baseGlyph == old({comps})[j].baseGlyph and d.transformation == old({comps})[j].transformation for d in {comps}))"
        f" for j in range(len(old({comps}))))"
    )


_FILTER_LEAN = {
    # afterwards the glyph references no skipped glyph ...
    "pruned": f"all(c.baseGlyph not in {_SKIP} for c in glyph.components)",
    # frame
    "keys": "self.context.glyphSet.keyset == old(self.context.glyphSet.keyset)",
    "others": _OTHERS.replace("glyphSet", "self.context.glyphSet"),
}
_FILTER_FULL = {
    # the decision: touched iff some component references a skipped glyph
    "decides": f"result == any(c.baseGlyph in {_SKIP} for c in old(glyph.components))",
    # ... references to exported glyphs are still components with the same transformation (decomposeNested=False)
    "kept": _kept(_SKIP),
    "idle": "implies(not result, glyph.components == old(glyph.components) and len(glyph) == old(len(glyph)))",
}
# two contracts on the same body: `SXFilter` is the summary callers see (BaseFilter.__call__ resolves self.filter to it);
# `full` adds the clauses no caller needs (kept out of the callers' hypotheses: they contain an existential)
for _nm, _ens in (("SXFilter", _FILTER_LEAN), ("full", {**_FILTER_LEAN, **_FILTER_FULL})):
    contract(
        "ufo2ft.filters.skipExportGlyphs:SkipExportGlyphsFilter.filter",
        name=_nm,
        props=["C13"],
        params={"self": Ref("SXFilter"), "glyph": Ref("SXGlyph")},
        returns=BOOL,
        calls=_CALLS_SKIP,
        ensures=_ens,
        canaries={"always-touched": "result", "drops-all-components": "len(glyph.components) == 0"},
        modifies=["SXGlyph.components", "SXGlyph.ncontours"],
    )


# ---- BaseFilter.set_context / BaseFilter.__call__ as run on a SkipExportGlyphsFilter ---------------------------------
cls("SXLayer", methods={"instantiateGlyphObject": lambda ex, st, self, a, k, n: ex.new_object(st, "SXGlyph")},
    notes="layer.instantiateGlyphObject() returns a new glyph object (assumed ufoLib2/defcon API)")
cls("SXLayers", fields={"defaultLayer": Ref("SXLayer")})
cls("SXFont", fields={"layers": Ref("SXLayers")}, notes="source font: only font.layers.defaultLayer is consulted here")
cls("SXFactory", notes="glyph factory closure returned by util._getNewGlyphFactory (opaque)")


@trusted("c13.SimpleNamespace", "types.SimpleNamespace(**kw): a new object with exactly the given attributes")
def _namespace(ex, st, args, kwargs, node):
    o = ex.new_object(st, "SXContext")
    for k, v in kwargs.items():
        ex.write_field(st, o, k, v, node)
    return o


@trusted("c13.opaque_helper", "helper whose value is only consumed by dropped logger calls / never inspected (font name, glyph factory)")
def _opaque_helper(ex, st, args, kwargs, node):
    return ex.new_object(st, "SXFactory")


@trusted("c13.sorted_by_key", "sorted(S, key=f) of a set S: some duplicate-free enumeration of S (the order itself is left arbitrary: over-approximation)")
def _sorted_by_key(ex, st, args, kwargs, node):
    (v,) = args
    if not isinstance(v.ty, T.Set):
        raise Unsupported("sorted(key=) of a non-set", node)
    r = _models.set_iteration_order(st, v)
    # position of every member (skolemised `exists i. r[i] == x`)
    pos = z3.Function(fresh_name("pos"), z3.StringSort(), z3.IntSort())
    x = fresh(STR, "px")
    st.assume(z3.ForAll([x], z3.Implies(z3.Select(lift(v), x), z3.And(pos(x) >= 0, pos(x) < z3.Length(r.term), r.term[pos(x)] == x))))
    a = z3.Int(fresh_name("pa"))
    st.assume(z3.ForAll([a], z3.Implies(z3.And(a >= 0, a < z3.Length(r.term)), z3.Select(lift(v), r.term[a]))))
    return r


@trusted("c13.len", "len(c); for a set: its cardinality (>= 0, and 0 exactly for the empty set)")
def _len_any(ex, st, args, kwargs, node):
    (v,) = args
    if isinstance(v.ty, T.Set) and not v.is_py:
        n = z3.Int(fresh_name("card"))
        st.assume(n >= 0)
        st.assume((n == 0) == (lift(v) == z3.K(v.ty.elem.sort(), z3.BoolVal(False))))
        return Val(INT, n)
    return _models.BUILTIN_MODELS["builtins.len"].model(ex, st, args, kwargs, node)


_HELPERS = {
    "len": _Ref("c13.len", len),
    "SimpleNamespace": _Ref("c13.SimpleNamespace"),
    "_getNewGlyphFactory": _Ref("c13.opaque_helper"),
    "_LazyFontName": _Ref("c13.opaque_helper"),
    "sorted": _Ref("c13.sorted_by_key", sorted),
}

contract(
    "ufo2ft.filters.base:BaseFilter.set_context",
    name="SXFilter",
    props=["C13"],
    params={"self": Ref("SXFilter"), "font": Ref("SXFont"), "glyphSet": Ref("SXGlyphSet")},
    returns=Ref("SXContext"),
    globals=_HELPERS,
    ensures={
        "context": "self.context == result and self.context.glyphSet == glyphSet",
        "modified-empty": "all(False for n in self.context.modified)",
    },
    canaries={"other-glyphset": "self.context.glyphSet != glyphSet"},
    modifies=["SXFilter.context", "SXContext.glyphSet", "SXContext.modified", "SXContext.font", "SXContext.glyphFactory"],
)

CLASSES["SXGlyphSet"].fields["name"] = Opt(STR)  # _GlyphSet.name (layer name or None); plain dicts have none (getattr default)
# `self.include`: the glyph predicate installed by BaseFilter.__init__.  Both construction sites of the skip-export filters
# (util.py `SkipExportGlyphsFilter(skipExportGlyphs)`, preProcessor.py `SkipExportGlyphsIFilter(skipExportGlyphs)`) pass neither
# include= nor exclude=, so it is `lambda g: True`; that call-site fact is what this model states.
CLASSES["SXFilter"].methods["include"] = lambda ex, st, self, a, k, n: Val.const(True)

_ALL_PRUNED = f"all(all(c.baseGlyph not in {_SKIP} for c in glyphSet[n].components) for n in glyphSet.keyset)"

contract(
    "ufo2ft.filters.base:BaseFilter.__call__",
    name="SXFilter",
    props=["C13"],
    params={"self": Ref("SXFilter"), "font": Ref("SXFont"), "glyphSet": Ref("SXGlyphSet")},
    returns=Set(STR),
    globals=_HELPERS,
    ensures={
        "context": "self.context.glyphSet == glyphSet",
        "keys": "glyphSet.keyset == old(glyphSet.keyset)",
        "same-objects": "all(glyphSet[n] == old(glyphSet.objs)[n] for n in glyphSet.keyset)",
        # every glyph of the set has been pruned of references to skipped glyphs
        "all-pruned": _ALL_PRUNED,
        "reports-members": "all(m in glyphSet.keyset for m in result)",
    },
    canaries={"reports-all": "all(n in result for n in glyphSet.keyset)", "no-components-left": "all(len(glyphSet[n].components) == 0 for n in glyphSet.keyset)"},
    modifies=["SXFilter.context", "SXContext.glyphSet", "SXContext.modified", "SXContext.font", "SXContext.glyphFactory", "SXGlyph.components", "SXGlyph.ncontours"],
    locals={"modified": Set(STR)},
    loops={
        "for glyphName in orderedGlyphs": Loop(
            index="i",
            invariants={
                "context": "self.context.glyphSet == glyphSet",
                "done": f"all(all(c.baseGlyph not in {_SKIP} for c in glyphSet[orderedGlyphs[a]].components) for a in range(i))",
                "todo-unreported": "all(orderedGlyphs[b] not in modified for b in range(i, len(orderedGlyphs)))",
                "reports-members": "all(m in glyphSet.keyset for m in modified)",
            },
        )
    },
)


# ---- SkipExportGlyphsFilter.__call__ -------------------------------------------------------------------------------------
# (`super().__call__(font, glyphSet)` resolves natively to the contract BaseFilter.__call__#SXFilter: MRO of the receiver's real class)
contract(
    "ufo2ft.filters.skipExportGlyphs:SkipExportGlyphsFilter.__call__",
    name="SXFilter",
    props=["C13"],
    params={"self": Ref("SXFilter"), "font": Ref("SXFont"), "glyphSet": Ref("SXGlyphSet")},
    returns=Set(STR),
    ensures={
        # skipped glyphs are gone from the glyph set ...
        "gone": f"all(n not in glyphSet.keyset for n in {_SKIP})",
        # ... and nothing else is: the remaining key set is the old one minus the skip set, holding the same glyph objects
        "only-skipped-removed": f"all(n in old(glyphSet.keyset) for n in glyphSet.keyset) and all(implies(n not in {_SKIP}, n in glyphSet.keyset) for n in old(glyphSet.keyset))",
        "same-objects": "all(glyphSet[n] == old(glyphSet.objs)[n] for n in glyphSet.keyset)",
        # no remaining glyph references a skipped glyph
        "no-dangling": _ALL_PRUNED,
        # removed names are reported as modified
        "reported": f"all(implies(n in old(glyphSet.keyset), n in result) for n in {_SKIP})",
    },
    canaries={"empties-the-set": "all(False for n in glyphSet.keyset)", "reports-nothing": "all(False for n in result)"},
    modifies=["SXFilter.context", "SXContext.glyphSet", "SXContext.modified", "SXContext.font", "SXContext.glyphFactory", "SXGlyph.components", "SXGlyph.ncontours", "SXGlyphSet.glyphs"],
    locals={"modified": Set(STR)},
    ghost_vars={"K0": (Set(STR), "glyphSet.keyset"), "G0": (Map(STR, Ref("SXGlyph")), "glyphSet.objs")},
    loops={
        "for glyphName in self.options.skipExportGlyphs": Loop(
            done="D",
            invariants={
                "alias": "glyphSet == self.context.glyphSet",
                "keys": "all(iff(n in glyphSet.keyset, n in K0 and n not in D) for n in K0) and all(n in K0 for n in glyphSet.keyset)",
                "objs": "all(glyphSet[n] == G0[n] for n in glyphSet.keyset)",
                "pruned": _ALL_PRUNED,
                "reported": "all(implies(n in K0, n in modified) for n in D)",
            },
        )
    },
)


# =====================================================================================================
# Run-time side for the static filter contracts (cross-check on real ufoLib2 objects)
# =====================================================================================================
class _NS:
    """run-time view of filter.context: .glyphSet / .glyphSets are wrapped so that the abstract fields (keyset, comps, ...) exist"""

    def __init__(self, ctx):
        self._ctx = ctx

    def __eq__(self, o):
        from pyvc.rt import Proxy

        if isinstance(o, Proxy):
            o = object.__getattribute__(o, "_obj")
        if isinstance(o, _NS):
            o = o._ctx
        return self._ctx is o

    def __hash__(self):
        return id(self._ctx)

    def __getattr__(self, name):
        from pyvc.rt import Proxy

        v = getattr(self._ctx, name)
        if name == "glyphSet":
            return Proxy(v, CLASSES["SXGlyphSet"])
        if name == "glyphSets":
            return [Proxy(g, CLASSES["SXGlyphSet"]) for g in v]
        return v


CLASSES["SXFilter"].views["context"] = lambda o: _NS(o.context)

_TRANSFORMS = [[1, 0, 0, 1, 0, 0], [1, 0, 0, 1, 30, -20], [-1, 0, 0, 1, 200, 0], [0.5, 0, 0, 0.5, 10, 10], [1, 0.2, 0, 1, 0, 0]]


def graph_cases(rng, n):
    """random acyclic component graphs (no dangling reference) with a random skip subset"""
    out = []
    for k in range(n):
        cnt = rng.randint(1, 6)
        names = [f"g{i}" for i in range(cnt)]
        glyphs = {}
        for i, nm in enumerate(names):
            g = {"width": rng.choice([0, 300, 500, 620])}
            if i == 0 or rng.random() < 0.5:
                x0 = rng.choice([0, 20, 50])
                g["box"] = [x0, 0, x0 + rng.choice([40, 100]), rng.choice([50, 700])]
            if i > 0 and rng.random() < 0.75:
                g["components"] = [[rng.choice(names[:i]), rng.choice(_TRANSFORMS)] for _ in range(rng.randint(1, 3))]
            glyphs[nm] = g
        skip = [nm for nm in names if rng.random() < 0.4]
        if k % 9 == 0:
            skip = []
        if k % 11 == 0:
            skip = skip + ["absent"]
        out.append({"glyphs": glyphs, "skip": skip, "target": rng.choice(names)})
    return out


def _mk(d):
    from ufo2ft.filters.skipExportGlyphs import SkipExportGlyphsFilter
    from ufo2ft.util import _GlyphSet

    from . import rtlib

    font = rtlib.build_ufo(d)
    gs = _GlyphSet.from_layer(font, copy=True)
    flt = SkipExportGlyphsFilter(list(d["skip"]))
    return font, gs, flt


def _b_decompose(d):
    font, gs, _ = _mk(d)
    return {"glyph": gs[d["target"]], "glyphSet": gs, "include": frozenset(d["skip"])}


def _b_filter(d):
    font, gs, flt = _mk(d)
    flt.set_context(font, gs)
    return {"self": flt, "glyph": gs[d["target"]]}


def _b_call(d):
    font, gs, flt = _mk(d)
    return {"self": flt, "font": font, "glyphSet": gs}


CONTRACTS["ufo2ft.util:decomposeCompositeGlyph#skip"].runtime = Runtime(graph_cases, _b_decompose)
CONTRACTS["ufo2ft.filters.skipExportGlyphs:SkipExportGlyphsFilter.filter#full"].runtime = Runtime(graph_cases, _b_filter)
CONTRACTS["ufo2ft.filters.base:BaseFilter.set_context#SXFilter"].runtime = Runtime(graph_cases, _b_call)
CONTRACTS["ufo2ft.filters.base:BaseFilter.__call__#SXFilter"].runtime = Runtime(graph_cases, _b_call)
CONTRACTS["ufo2ft.filters.skipExportGlyphs:SkipExportGlyphsFilter.__call__#SXFilter"].runtime = Runtime(graph_cases, _b_call)


# =====================================================================================================
# Interpolatable variant: SkipExportGlyphsIFilter
# =====================================================================================================

def _heap_view(clsname, field, kty, vty):
    def view(ex, st, self):
        return Val(Map(kty, vty), ex.field_array(st, clsname, field))

    return view


class _HeapSnapshot:
    """run-time stand-in for a whole-heap view: a snapshot of the glyph sets of filter.context, indexed by glyph set / glyph"""

    def __init__(self, flt, what):
        self.d = {}
        gss = getattr(flt.context, "glyphSets", None) or [flt.context.glyphSet]
        for gs in gss:
            if what == "glyphs":
                self.d[id(gs)] = dict(gs)
            for g in gs.values():
                if what == "components":
                    self.d[id(g)] = list(g.components)

    def __deepcopy__(self, memo):
        return self

    def _key(self, o):
        from pyvc.rt import Proxy

        if isinstance(o, Proxy):
            o = object.__getattribute__(o, "_obj")
        return id(o)

    def __getitem__(self, o):
        return self.d[self._key(o)]

    def __eq__(self, o):
        return isinstance(o, _HeapSnapshot) and self.d == o.d

    def __hash__(self):
        return 0


_HEAP_VIEWS = {
    "heap_components": _heap_view("SXGlyph", "components", Ref("SXGlyph"), List(Ref("SXComponent"))),
    "heap_glyphs": _heap_view("SXGlyphSet", "glyphs", Ref("SXGlyphSet"), GLYPHS),
}

cls("SXInstantiator", fields={"interpolated_layers": List(Ref("SXGlyphSet"))},
    notes="Instantiator: interpolated_layers = one name->glyph mapping per source (InterpolatedLayer seen as a glyph set)")
cls("SXIContext", fields={"glyphSets": List(Ref("SXGlyphSet")), "instantiator": Opt(Ref("SXInstantiator")), "modified": Set(STR)}, dynamic=True,
    notes="BaseIFilter.context namespace")
cls(
    "SXIFilter",
    fields={"options": Ref("SXOptions"), "context": Ref("SXIContext")},
    derived=dict(_HEAP_VIEWS),
    methods={"include": lambda ex, st, self, a, k, n: Val.const(True)},
    views={"context": lambda o: _NS(o.context), "heap_components": lambda o: _HeapSnapshot(o, "components"), "heap_glyphs": lambda o: _HeapSnapshot(o, "glyphs")},
    repo="ufo2ft.filters.skipExportGlyphs:SkipExportGlyphsIFilter",
    notes="SkipExportGlyphsIFilter instance; heap_* = whole-heap views used only in frame clauses",
)

_GSS = "self.context.glyphSets"
_LEN_MATCH = f"implies(self.context.instantiator is not None, len(self.context.instantiator.interpolated_layers) == len({_GSS}))"
_WELL_NAMED = f"all(all(gs[n].name == n for n in gs.keyset) for gs in {_GSS})"

def ifilter_summaries(cname, full_skip_set):
    """SUMMARIES (props=[]: used at call sites, NOT verified deductively; bounded checks in the hooks) of the two BaseIFilter
    helpers the interpolatable filters call, for a receiver class `cname`."""
    # `[None] * n` is outside the engine's subset
    contract(
        "ufo2ft.filters.base:BaseIFilter.getInterpolatedLayers",
        name=cname,
        props=[],
        params={"self": Ref(cname)},
        returns=List(Opt(Ref("SXGlyphSet"))),
        requires=[_LEN_MATCH],
        ensures={"one-per-master": f"len(result) == len({_GSS})"},
        notes="SUMMARY of a 4-line accessor: instantiator.interpolated_layers, or [None] * len(glyphSets)",
    )
    # frame summary + call-site obligation.  The skip-export filter must hand over its FULL skip set: the composite has to
    # exist wherever ANY skipped base, at any depth, has a source, and locationsFromComponentGlyphs only follows bases that
    # are in `include`.  The decompose filter passes nothing (include=None: every base is followed).
    contract(
        "ufo2ft.filters.base:BaseIFilter.ensureCompositeDefinedAtComponentLocations",
        name=cname,
        props=[],
        params={"self": Ref(cname), "glyphName": STR, "include": Opt(Ref("SXNameSet"))},
        requires=(["include is not None", f"all(n in include for n in {_SKIP})", f"all(n in {_SKIP} for n in include)"] if full_skip_set else ["include is None"]),
        ensures={"grow-only-this-name": _GROW, "well-named": f"implies(old({_WELL_NAMED}), {_WELL_NAMED})"},
        modifies=["SXGlyphSet.glyphs"],
        notes="SUMMARY (frame): may add `glyphName` (an interpolated instance carrying that name) to glyph sets, nothing else",
    )


_GROW = (
    f"all(all(n in gs.keyset and gs[n] == old(self.heap_glyphs)[gs][n] for n in old(self.heap_glyphs)[gs]) for gs in {_GSS})"
    f" and all(all(n == glyphName or n in old(self.heap_glyphs)[gs] for n in gs.keyset) for gs in {_GSS})"
)
ifilter_summaries("SXIFilter", True)

_PRUNED_ALL = f"all(implies(glyphName in gs.keyset, all(c.baseGlyph not in {_SKIP} for c in gs[glyphName].components)) for gs in {_GSS})"

_IFILTER_ENSURES = {
    # joint action: when the filter acts, then in EVERY master that has the glyph no reference to a skipped glyph is left
    "acted-on-all-masters": f"implies(result, {_PRUNED_ALL})",
    # joint decision: it declines only if NO glyph it was handed references a skipped glyph (with the requires clause
    # "glyphs holds every master's glyph" this gives _PRUNED_ALL on this path too: lemma C13.joint below)
    "declines-only-if-clean": f"implies(not result, all(all(c.baseGlyph not in {_SKIP} for c in g.components) for g in glyphs))",
    # left alone only if nothing was to do: then nothing at all is modified
    "idle": "implies(not result, self.heap_components == old(self.heap_components) and self.heap_glyphs == old(self.heap_glyphs))",
    # frame: glyphs of other names are untouched, glyph sets only gain this name
    "others": f"all(all(implies(n != glyphName, self.heap_components[gs[n]] == old(self.heap_components)[gs[n]]) for n in gs.keyset) for gs in {_GSS})",
    "grow-only-this-name": _GROW,
    "well-named": _WELL_NAMED,
}
# `SXIFilter` = the summary BaseIFilter.__call__ sees (frame clauses only); `full` = everything, same body, same requires
for _nm, _keys in (("SXIFilter", ("grow-only-this-name",)), ("full", tuple(_IFILTER_ENSURES))):
    contract(
        "ufo2ft.filters.skipExportGlyphs:SkipExportGlyphsIFilter.filter",
        name=_nm,
        props=["C13", "C09"],
        params={"self": Ref("SXIFilter"), "glyphName": STR, "glyphs": List(Ref("SXGlyph"))},
        returns=BOOL,
        calls=_CALLS_SKIP,
        globals={"zip_strict": _Ref("builtins.zip", zip, obj=zip)},
        requires=[
            _LEN_MATCH,
            # `glyphs` holds the glyph of every master that has the name (BaseIFilter.__call__ builds it that way)
            f"all(implies(glyphName in gs.keyset, gs[glyphName] in glyphs) for gs in {_GSS})",
        ]
        # every glyph object carries the name it is stored under (true of layers / _GlyphSet.from_layer); only the frame
        # clause `others` of the full variant needs it
        + ([_WELL_NAMED] if _nm == "full" else []),
        ensures={k: _IFILTER_ENSURES[k] for k in _keys},
        canaries={"always-touched": "result", "no-components": f"all(implies(glyphName in gs.keyset, len(gs[glyphName].components) == 0) for gs in {_GSS})"},
        modifies=["SXGlyph.components", "SXGlyph.ncontours", "SXGlyphSet.glyphs"],
        loops={
            "for (glyphSet, interpolatedLayer) in zip_strict(self.context.glyphSets, self.getInterpolatedLayers())": Loop(
                index="k",
                invariants={
                    "done": f"all(implies(glyphName in {_GSS}[a].keyset, all(c.baseGlyph not in {_SKIP} for c in {_GSS}[a][glyphName].components)) for a in range(k))",
                    **({"others": f"all(all(implies(n != glyphName, self.heap_components[gs[n]] == HC1[gs[n]]) for n in gs.keyset) for gs in {_GSS})"} if _nm == "full" else {}),
                },
            )
        },
        ghost_vars={"HC1": (Map(Ref("SXGlyph"), List(Ref("SXComponent"))), "self.heap_components")},
        # (ext-C19-C09, second wave) paths of `if glyph is not None:` kept apart: the ite-merge put the callee's quantified ensures
        # into the CONDITION of the merged heap (ite(<forall ...>, H', H)), on which inv.step.done / inv.step.others timed out
        merge_branches=False,
    )

# `mid` (second wave): the two result cases folded into ONE unconditional statement, proved directly on the body: after filter(), whatever
# it returns, in EVERY master that has the glyph no reference to a skipped glyph is left.  On the declining path this needs the step
# from `gs[glyphName] in glyphs` to a position of `glyphs` (engine option seq_positions=True); it makes the composition through the
# lemmas C13.joint / C13.seq-member-has-position below redundant (they are kept as an independent second derivation).
# Meant as the summary for a future post-state contract of BaseIFilter.__call__ (lean: no result-conditional clause, no array equality).
contract(
    "ufo2ft.filters.skipExportGlyphs:SkipExportGlyphsIFilter.filter",
    name="mid",
    props=["C13"],
    params={"self": Ref("SXIFilter"), "glyphName": STR, "glyphs": List(Ref("SXGlyph"))},
    returns=BOOL,
    calls=_CALLS_SKIP,
    globals={"zip_strict": _Ref("builtins.zip", zip, obj=zip)},
    requires=[_LEN_MATCH, f"all(implies(glyphName in gs.keyset, gs[glyphName] in glyphs) for gs in {_GSS})", _WELL_NAMED],
    ensures={
        "pruned-in-all-masters": _PRUNED_ALL,
        "others": _IFILTER_ENSURES["others"],
        "grow-only-this-name": _IFILTER_ENSURES["grow-only-this-name"],
        "well-named": _WELL_NAMED,
    },
    canaries={"always-touched": "result", "no-components": f"all(implies(glyphName in gs.keyset, len(gs[glyphName].components) == 0) for gs in {_GSS})"},
    modifies=["SXGlyph.components", "SXGlyph.ncontours", "SXGlyphSet.glyphs"],
    merge_branches=False,
    seq_positions=True,
    loops={
        "for (glyphSet, interpolatedLayer) in zip_strict(self.context.glyphSets, self.getInterpolatedLayers())": Loop(
            index="k",
            invariants={
                "done": f"all(implies(glyphName in {_GSS}[a].keyset, all(c.baseGlyph not in {_SKIP} for c in {_GSS}[a][glyphName].components)) for a in range(k))",
                "others": f"all(all(implies(n != glyphName, self.heap_components[gs[n]] == HC1[gs[n]]) for n in gs.keyset) for gs in {_GSS})",
            },
        )
    },
    ghost_vars={"HC1": (Map(Ref("SXGlyph"), List(Ref("SXComponent"))), "self.heap_components")},
)

# The two result cases of the filter compose to "no master is left with a reference to a skipped glyph".  The step from
# `x in glyphs` (how BaseIFilter.__call__'s list comprehension is encoded) to "some position of glyphs holds x" is the
# sequence-theory fact C13.seq-member-has-position (quantifier-free form, discharged by cvc5).
lemma(
    "C13.joint",
    props=["C13", "C09"],
    vars={"glyphs": List(Ref("SXGlyph")), "GS": List(Ref("SXGlyphSet")), "glyphName": STR, "skip": Ref("SXNameSet"), "result": BOOL},
    hyps=[
        "all(implies(glyphName in gs.keyset, any(g == gs[glyphName] for g in glyphs)) for gs in GS)",
        "implies(result, all(implies(glyphName in gs.keyset, all(c.baseGlyph not in skip for c in gs[glyphName].components)) for gs in GS))",
        "implies(not result, all(all(c.baseGlyph not in skip for c in g.components) for g in glyphs))",
    ],
    concl={"all-masters-pruned": "all(implies(glyphName in gs.keyset, all(c.baseGlyph not in skip for c in gs[glyphName].components)) for gs in GS)"},
    canaries={"no-components": "all(implies(glyphName in gs.keyset, len(gs[glyphName].components) == 0) for gs in GS)"},
)
lemma(
    "C13.seq-member-has-position",
    props=["C13", "C09"],
    vars={"L": List(Ref("SXGlyph")), "x": Ref("SXGlyph")},
    hyps=["x in L"],
    concl={"position": "0 <= L.index(x) and L.index(x) < len(L) and L[L.index(x)] == x"},
    canaries={"first": "L[0] == x"},
)


# ---- BaseIFilter.set_context / BaseIFilter.__call__ on a SkipExportGlyphsIFilter ------------------------------------------
for _f, _t in (("fonts", List(Ref("SXFont"))), ("glyphFactory", Ref("SXFactory")), ("componentLocations", Dict(STR, INT))):
    CLASSES["SXIContext"].fields[_f] = _t


@trusted("c13.SimpleNamespaceI", "types.SimpleNamespace(**kw): a new object with exactly the given attributes")
def _namespace_i(ex, st, args, kwargs, node):
    o = ex.new_object(st, "SXIContext")
    for k, v in kwargs.items():
        ex.write_field(st, o, k, v, node)
    return o


class _SetNS:
    """stand-in for the builtin `set` inside BaseIFilter.__call__: set(x) and set.union(*(<generator of sets>))"""

    @staticmethod
    def union(*a):
        raise NotImplementedError


_SetNS.union.__module__ = "c13"
_SetNS.union.__qualname__ = "set_union"


@trusted("c13.set", "set(c) = the set of elements of c")
def _set_call(ex, st, args, kwargs, node):
    return _models.BUILTIN_MODELS["builtins.set"].model(ex, st, args, kwargs, node)


@trusted("c13.set_union", "set.union(*(f(y) for y in ys)) over a list ys: x is a member iff x is in f(y) for some position y of ys")
def _set_union(ex, st, args, kwargs, node):
    # the engine expands `*<generator>` into the three parts of its generator carrier
    if not (len(args) == 3 and args[0].is_py and args[0].py == "genexp"):
        raise Unsupported("set.union with these arguments", node)
    import ast as _ast

    gnode, gst = args[1].py, args[2].py
    x = fresh(STR, "ux")
    test = _ast.Compare(left=_ast.Name(id="__ux", ctx=_ast.Load()), ops=[_ast.In()], comparators=[gnode.elt])
    g2 = _ast.GeneratorExp(elt=test, generators=gnode.generators)
    _ast.copy_location(g2, gnode)
    _ast.fix_missing_locations(g2)
    s2 = gst.copy()
    s2.pc = gst.pc
    s2.env = dict(gst.env)
    s2.env["__ux"] = Val(STR, x)
    body = ex.quantified("any", g2, s2)
    return Val(Set(STR), z3.Lambda([x], lift(body) if not body.is_py else z3.BoolVal(bool(body.py))))


_IHELPERS = {
    **_HELPERS,
    "SimpleNamespace": _Ref("c13.SimpleNamespaceI"),
    "set": _Ref("c13.set", set, obj=_SetNS),
    "kwargs": {},
}

_ICTX_MOD = ["SXIFilter.context", "SXIContext.glyphSets", "SXIContext.instantiator", "SXIContext.modified", "SXIContext.fonts", "SXIContext.glyphFactory", "SXIContext.componentLocations"]

contract(
    "ufo2ft.filters.base:BaseIFilter.set_context",
    name="SXIFilter",
    props=["C13", "C09"],
    params={"self": Ref("SXIFilter"), "fonts": List(Ref("SXFont")), "glyphSets": List(Ref("SXGlyphSet")), "instantiator": Opt(Ref("SXInstantiator"))},
    returns=Ref("SXIContext"),
    globals=_IHELPERS,
    requires=["len(fonts) == len(glyphSets)", "len(fonts) > 0"],
    ensures={
        "context": "self.context == result and self.context.glyphSets == glyphSets and self.context.instantiator == instantiator",
        "modified-empty": "all(False for n in self.context.modified)",
    },
    canaries={"drops-instantiator": "self.context.instantiator is None"},
    modifies=_ICTX_MOD,
)

contract(
    "ufo2ft.filters.base:BaseIFilter.__call__",
    name="SXIFilter",
    props=["C13", "C09"],
    params={"self": Ref("SXIFilter"), "fonts": List(Ref("SXFont")), "glyphSets": List(Ref("SXGlyphSet")), "instantiator": Opt(Ref("SXInstantiator"))},
    returns=Set(STR),
    globals=_IHELPERS,
    requires=[
        "len(fonts) == len(glyphSets)", "len(fonts) > 0",
        "implies(instantiator is not None, len(instantiator.interpolated_layers) == len(glyphSets))",
    ],
    # The decisive obligations of this contract are the pre@callsite ones of `filter_(glyphName, glyphs)`: the filter is
    # handed, for a name, the glyph of EVERY master that has that name (its `requires`), for each name of a
    # duplicate-free enumeration of the union of the key sets (so: once per name).
    # Not claimed here: what the glyph sets look like afterwards (the engine havocs the heap of a call under `and`
    # unconditionally, so frame clauses cannot be carried through the loop; see notes/C13.requests.md) -> bounded observer.
    ensures={"context": "self.context.glyphSets == glyphSets and self.context.instantiator == instantiator"},
    canaries={"reports-something": "any(True for n in result)"},
    modifies=_ICTX_MOD + ["SXGlyph.components", "SXGlyph.ncontours", "SXGlyphSet.glyphs"],
    locals={"modified": Set(STR)},
    loops={
        "for glyphName in orderedGlyphs": Loop(
            index="i",
            invariants={"context": "self.context.glyphSets == glyphSets and self.context.instantiator == instantiator"},
        )
    },
)


# ---- SkipExportGlyphsIFilter.__call__ ----------------------------------------------------------------------------------------
contract(
    "ufo2ft.filters.skipExportGlyphs:SkipExportGlyphsIFilter.__call__",
    name="SXIFilter",
    props=["C13"],
    params={"self": Ref("SXIFilter"), "fonts": List(Ref("SXFont")), "glyphSets": List(Ref("SXGlyphSet")), "instantiator": Opt(Ref("SXInstantiator"))},
    returns=Set(STR),
    globals={"kwargs": {}},
    requires=[
        "len(fonts) == len(glyphSets)", "len(fonts) > 0",
        "implies(instantiator is not None, len(instantiator.interpolated_layers) == len(glyphSets))",
    ],
    ensures={
        # in EVERY master the skipped glyphs are gone from the glyph set
        "gone-in-all-masters": f"all(all(n not in gs for n in {_SKIP}) for gs in glyphSets)",
    },
    bounded_ensures={
        # (bounded: these need the post-state of BaseIFilter.__call__, which the engine cannot carry through its loop)
        "no-dangling-in-all-masters": f"all(all(all(c.baseGlyph not in {_SKIP} for c in gs[n].components) for n in gs) for gs in glyphSets)",
        "only-skipped-removed": f"all((ks - set({_SKIP})) <= set(gs) for gs, ks in zip(glyphSets, old([set(g) for g in glyphSets])))",
        "reported": f"all(implies(any(n in ks for ks in old([set(g) for g in glyphSets])), n in result) for n in {_SKIP})",
    },
    canaries={"empties-the-sets": "all(len(gs) == 0 for gs in glyphSets)"},
    modifies=_ICTX_MOD + ["SXGlyph.components", "SXGlyph.ncontours", "SXGlyphSet.glyphs"],
    locals={"modified": Set(STR)},
    loops={
        "for glyphName in self.options.skipExportGlyphs": Loop(
            done="D",
            invariants={
                "context": "self.context.glyphSets == glyphSets",
                "gone": "all(all(n not in gs for n in D) for gs in glyphSets)",
            },
        ),
        "for glyphSet in self.context.glyphSets": Loop(
            index="k",
            invariants={
                "context": "self.context.glyphSets == glyphSets",
                "gone": "all(all(n not in gs for n in D) for gs in glyphSets)",
                "gone-this": "all(glyphName not in glyphSets[a] for a in range(k))",
            },
        ),
    },
)


# ---- run-time side of the interpolatable contracts ---------------------------------------------------------------------------
from . import c13rt  # noqa: E402


def _ifam_cases(rng, n):
    return c13rt.family_cases(rng, n)


def _imk(d):
    from ufo2ft.filters.skipExportGlyphs import SkipExportGlyphsIFilter

    ufos, gss, inst = c13rt.glyph_sets(d)
    return ufos, gss, inst, SkipExportGlyphsIFilter(list(d["skip"]))


def _ib_call(d):
    ufos, gss, inst, flt = _imk(d)
    return {"self": flt, "fonts": ufos, "glyphSets": gss, "instantiator": inst}


def _ib_filter(d):
    ufos, gss, inst, flt = _imk(d)
    flt.set_context(ufos, gss, inst)
    name = d["target"]
    return {"self": flt, "glyphName": name, "glyphs": [gs[name] for gs in gss if name in gs]}


def _call_positional(fn, a):
    a = dict(a)
    return fn(a.pop("self"), *[a.pop(k) for k in ("fonts", "glyphSets") if k in a], **a)


CONTRACTS["ufo2ft.filters.skipExportGlyphs:SkipExportGlyphsIFilter.filter#full"].runtime = Runtime(_ifam_cases, _ib_filter)
CONTRACTS["ufo2ft.filters.skipExportGlyphs:SkipExportGlyphsIFilter.filter#mid"].runtime = Runtime(_ifam_cases, _ib_filter)
CONTRACTS["ufo2ft.filters.base:BaseIFilter.set_context#SXIFilter"].runtime = Runtime(_ifam_cases, _ib_call)
CONTRACTS["ufo2ft.filters.base:BaseIFilter.__call__#SXIFilter"].runtime = Runtime(_ifam_cases, _ib_call)
CONTRACTS["ufo2ft.filters.skipExportGlyphs:SkipExportGlyphsIFilter.__call__#SXIFilter"].runtime = Runtime(_ifam_cases, _ib_call)


# =====================================================================================================
# Skip-list resolution: BaseCompiler.preprocess, BaseInterpolatableCompiler._pre_compile_designspace
# =====================================================================================================
_K = "'public.skipExportGlyphs'"


class _AnyPreProcessor:
    """stand-in for `self.preProcessorClass` (a class object): has initDefaultFilters, accepts skipExportGlyphs=.
    At run time the harness installs a recording class of the same shape (below)."""

    def __init__(self, ufo_or_ufos, skipExportGlyphs=None, **kwargs):
        self.ufo_or_ufos = ufo_or_ufos
        self.skipExportGlyphs = skipExportGlyphs
        self.kwargs = kwargs

    def initDefaultFilters(self, **kwargs):
        return []

    def process(self):
        return self


def _compiler_class(cname, pname, skip_ty):
    def pp_init(ex, st, args, kwargs, node):
        o = ex.new_object(st, pname)
        ex.write_field(st, o, "skipExportGlyphs", kwargs.get("skipExportGlyphs", Val.const(None)), node)
        return o

    trusted(f"c13.{pname}", "PreProcessorClass(ufo_or_ufos, **kw): a pre-processor object that keeps the skipExportGlyphs it was given")(pp_init)
    cls(pname, fields={"skipExportGlyphs": Opt(skip_ty)}, methods={"process": lambda ex, st, self, a, k, n: self},
        notes="pre-processor instance; process() is identified with the instance (its result is a function of the constructor arguments)")

    def d_dict(ex, st, self):
        return Val(PYOBJ, None, {"skipExportGlyphs": ex.read_field(st, self, "skipExportGlyphs"), "inplace": ex.read_field(st, self, "inplace")}, True)

    cls(
        cname,
        fields={"skipExportGlyphs": Opt(skip_ty), "inplace": BOOL},
        derived={"__dict__": d_dict, "preProcessorClass": lambda ex, st, self: Val.obj(_Ref(f"c13.{pname}", _AnyPreProcessor, obj=_AnyPreProcessor))},
        absent=("cubicConversionError",),
        repo="ufo2ft._compilers.baseCompiler:BaseCompiler",
        notes="compiler dataclass instance: skipExportGlyphs (None = not given), preProcessorClass",
    )


_compiler_class("SXCompilerS", "SXPreProcessorS", List(STR))
_compiler_class("SXCompilerL", "SXPreProcessorL", Set(STR))


@trusted("c13.prune_unknown_kwargs",
         "SUMMARY of util.prune_unknown_kwargs(kwargs, *callables) (signature introspection, outside the engine): the entries of kwargs whose "
         "name is a parameter of one of the callables, values unchanged; every pre-processor class of ufo2ft has the parameter "
         "`skipExportGlyphs` [bounded check in the hook]")
def _prune(ex, st, args, kwargs, node):
    d = args[0]
    if not (d.is_py and isinstance(d.py, dict)):
        raise Unsupported("prune_unknown_kwargs of a symbolic dict", node)
    return Val(PYOBJ, None, {k: v for k, v in d.py.items() if k in ("skipExportGlyphs", "inplace")}, True)


@trusted("c13.hasattr", "hasattr(obj, name): for a class object, whether the class has the attribute; otherwise the engine's builtin model")
def _hasattr(ex, st, args, kwargs, node):
    o, n = args
    if o.is_py and isinstance(o.py, FuncRef) and isinstance(o.py.obj, type):
        return Val.const(hasattr(o.py.obj, n.py))
    return _models.BUILTIN_MODELS["builtins.hasattr"].model(ex, st, args, kwargs, node)


_RES_GLOBALS = {"prune_unknown_kwargs": _Ref("c13.prune_unknown_kwargs"), "hasattr": _Ref("c13.hasattr", hasattr)}

contract(
    "ufo2ft._compilers.baseCompiler:BaseCompiler.preprocess",
    name="one-ufo",
    props=["C13"],
    params={"self": Ref("SXCompilerS"), "ufo_or_ufos": Ref("Font")},
    returns=Ref("SXPreProcessorS"),
    globals=_RES_GLOBALS,
    ensures={
        # an explicit argument wins over the UFO lib ...
        "argument-wins": "implies(old(self.skipExportGlyphs) is not None, result.skipExportGlyphs == old(self.skipExportGlyphs))",
        # ... otherwise the UFO's lib key, and nothing when it is absent
        "else-lib": f"implies(old(self.skipExportGlyphs) is None, result.skipExportGlyphs == ufo_or_ufos.lib.get({_K}, []))",
        "never-none": "result.skipExportGlyphs is not None",
    },
    canaries={"always-lib": f"result.skipExportGlyphs == ufo_or_ufos.lib.get({_K}, [])"},
    modifies=["SXCompilerS.skipExportGlyphs", "SXPreProcessorS.skipExportGlyphs"],
)

_LIBV = f"ufo_or_ufos[a].lib.get({_K}, [])"
contract(
    "ufo2ft._compilers.baseCompiler:BaseCompiler.preprocess",
    name="ufo-list",
    props=["C13"],
    params={"self": Ref("SXCompilerL"), "ufo_or_ufos": List(Ref("Font"))},
    returns=Ref("SXPreProcessorL"),
    globals=_RES_GLOBALS,
    ensures={
        "argument-wins": "implies(old(self.skipExportGlyphs) is not None, result.skipExportGlyphs == old(self.skipExportGlyphs))",
        # ... otherwise the UNION over all UFOs of their lib keys
        "else-union-sup": f"implies(old(self.skipExportGlyphs) is None, all(all(n in result.skipExportGlyphs for n in {_LIBV}) for a in range(len(ufo_or_ufos))))",
        "else-union-sub": f"implies(old(self.skipExportGlyphs) is None, all(any(n in {_LIBV} for a in range(len(ufo_or_ufos))) for n in result.skipExportGlyphs))",
        "never-none": "result.skipExportGlyphs is not None",
    },
    canaries={"first-only": f"all(n in ufo_or_ufos[0].lib.get({_K}, []) for n in result.skipExportGlyphs)"},
    modifies=["SXCompilerL.skipExportGlyphs", "SXPreProcessorL.skipExportGlyphs"],
    loops={
        "for ufo in ufo_or_ufos": Loop(
            index="i",
            invariants={
                "some": "self.skipExportGlyphs is not None",
                "sup": f"all(all(n in self.skipExportGlyphs for n in {_LIBV}) for a in range(i))",
                "sub": f"all(any(n in {_LIBV} for a in range(i)) for n in self.skipExportGlyphs)",
            },
        )
    },
)


# ---- BaseInterpolatableCompiler._pre_compile_designspace ----------------------------------------------------------------------
cls("SXSource", fields={"font": Opt(Ref("Font")), "layerName": Opt(STR), "name": STR}, notes="designspace SourceDescriptor: font, layerName")
cls("SXRule", fields={"subs": List(Tuple(STR, STR))}, notes="designspace RuleDescriptor: subs")
cls("SXDesignSpace", fields={"sources": List(Ref("SXSource")), "lib": Ref("Lib"), "rules": List(Ref("SXRule"))}, notes="DesignSpaceDocument: sources, lib, rules")
cls("SXNameBag", methods={"add": lambda ex, st, self, a, k, n: Val.const(None)}, notes="a set object reached through a defaultdict(set) (content not tracked)")
cls("SXDefaultDict", getitem=lambda ex, st, self, idx, node: ex.new_object(st, "SXNameBag"), notes="collections.defaultdict(set) (content not tracked)")
cls(
    "SXICompiler",
    fields={"skipExportGlyphs": Opt(List(STR)), "glyphSets": List(Ref("SXGlyphSet")), "layerNames": List(Opt(STR)), "notdefGlyph": Opt(Ref("SXFactory")),
            "extraSubstitutions": Ref("SXDefaultDict"), "instantiator": Ref("SXInstantiator")},
    repo="ufo2ft._compilers.baseCompiler:BaseInterpolatableCompiler",
    notes="interpolatable compiler dataclass instance",
)


class _InstantiatorNS:
    @staticmethod
    def from_designspace(*a, **k):
        raise NotImplementedError


_InstantiatorNS.from_designspace.__module__ = "c13"
_InstantiatorNS.from_designspace.__qualname__ = "inst_from_designspace"
trusted("c13.inst_from_designspace", "Instantiator.from_designspace(ds, ...): a new Instantiator (content not tracked here)")(
    lambda ex, st, args, kwargs, node: ex.new_object(st, "SXInstantiator")
)
trusted("c13.defaultdict", "collections.defaultdict(set): a new mapping (content not tracked here)")(lambda ex, st, args, kwargs, node: ex.new_object(st, "SXDefaultDict"))

contract(
    "ufo2ft._compilers.baseCompiler:BaseInterpolatableCompiler._pre_compile_designspace",
    props=["C13"],
    params={"self": Ref("SXICompiler"), "designSpaceDoc": Ref("SXDesignSpace")},
    returns=List(Opt(Ref("Font"))),
    globals={
        "_notdefGlyphFallback": _Ref("c13.opaque_helper"),
        "defaultdict": _Ref("c13.defaultdict"),
        "Instantiator": _Ref("c13.InstantiatorNS", obj=_InstantiatorNS),
    },
    raises={"AttributeError": "any(s.font is None for s in designSpaceDoc.sources)"},
    ensures={
        # designspace builds take the skip list from the DESIGNSPACE lib only (absent = nothing skipped): whatever the
        # caller or an earlier build left in self.skipExportGlyphs, and whatever the source UFOs' libs say, is not consulted
        "designspace-lib-only": f"self.skipExportGlyphs == designSpaceDoc.lib.get({_K}, [])",
        # the UFOs handed on to compile() are the sources' fonts, in source order, with their layer names
        "sources-in-order": "len(result) == len(designSpaceDoc.sources) and all(result[a] is not None and result[a] == designSpaceDoc.sources[a].font for a in range(len(result)))",
        "layer-names": "len(self.layerNames) == len(designSpaceDoc.sources) and all(self.layerNames[a] == designSpaceDoc.sources[a].layerName for a in range(len(designSpaceDoc.sources)))",
    },
    canaries={"nothing-skipped": "len(self.skipExportGlyphs) == 0"},
    modifies=["SXICompiler.skipExportGlyphs", "SXICompiler.glyphSets", "SXICompiler.layerNames", "SXICompiler.notdefGlyph", "SXICompiler.extraSubstitutions", "SXICompiler.instantiator"],
    locals={"ufos": List(Opt(Ref("Font")))},
    loops={
        "for source in designSpaceDoc.sources": Loop(
            index="i",
            invariants={
                "ufos": "len(ufos) == i and all(ufos[a] == designSpaceDoc.sources[a].font for a in range(i))",
                "layers": "len(self.layerNames) == i and all(self.layerNames[a] == designSpaceDoc.sources[a].layerName for a in range(i))",
                "fonts-present": "all(designSpaceDoc.sources[a].font is not None for a in range(i))",
            },
        )
    },
)


# ---- run-time side of the resolution contracts --------------------------------------------------------------------------------
def _res_cases(rng, n):
    out = []
    pool = ["a", "b", "c", "d"]
    for k in range(n):
        libs = [rng.choice([None, [], rng.sample(pool, rng.randint(1, 3))]) for _ in range(rng.randint(1, 3))]
        arg = rng.choice([None, None, [], rng.sample(pool, rng.randint(1, 2))])
        out.append({"libs": libs, "arg": arg, "dslib": rng.choice([None, [], rng.sample(pool, 2)]), "nofont": k % 13 == 5})
    return out


def _res_ufo(lib):
    import ufoLib2

    f = ufoLib2.Font()
    f.newGlyph("a")
    if lib is not None:
        f.lib["public.skipExportGlyphs"] = list(lib)
    return f


def _b_pre_one(d):
    from ufo2ft._compilers.otfCompiler import OTFCompiler

    return {"self": OTFCompiler(preProcessorClass=_AnyPreProcessor, skipExportGlyphs=d["arg"]), "ufo_or_ufos": _res_ufo(d["libs"][0])}


def _b_pre_list(d):
    from ufo2ft._compilers.interpolatableOTFCompiler import InterpolatableOTFCompiler

    arg = set(d["arg"]) if d["arg"] is not None else None
    return {"self": InterpolatableOTFCompiler(preProcessorClass=_AnyPreProcessor, skipExportGlyphs=arg), "ufo_or_ufos": [_res_ufo(x) for x in d["libs"]]}


def _b_pre_ds(d):
    from fontTools.designspaceLib import AxisDescriptor, DesignSpaceDocument, SourceDescriptor

    from ufo2ft._compilers.interpolatableTTFCompiler import InterpolatableTTFCompiler

    ds = DesignSpaceDocument()
    ax = AxisDescriptor()
    ax.name, ax.tag, ax.minimum, ax.default, ax.maximum = "Weight", "wght", 0, 0, 1000
    ds.addAxis(ax)
    n = len(d["libs"])
    for i, lib in enumerate(d["libs"]):
        s = SourceDescriptor()
        s.font, s.name, s.location = _res_ufo(lib), f"s{i}", {"Weight": 0 if n == 1 else 1000 * i // (n - 1)}
        if i > 0 and i % 2 == 0:
            s.layerName = "public.default"
        if d["nofont"] and i == n - 1:
            s.font = None
        ds.addSource(s)
    if d["dslib"] is not None:
        ds.lib["public.skipExportGlyphs"] = list(d["dslib"])
    return {"self": InterpolatableTTFCompiler(skipExportGlyphs=d["arg"]), "designSpaceDoc": ds}


CONTRACTS["ufo2ft._compilers.baseCompiler:BaseCompiler.preprocess#one-ufo"].runtime = Runtime(_res_cases, _b_pre_one)
CONTRACTS["ufo2ft._compilers.baseCompiler:BaseCompiler.preprocess#ufo-list"].runtime = Runtime(_res_cases, _b_pre_list)
CONTRACTS["ufo2ft._compilers.baseCompiler:BaseInterpolatableCompiler._pre_compile_designspace"].runtime = Runtime(_res_cases, _b_pre_ds)


# =====================================================================================================
# The order lemma:  official_order(N - S, O) == [x for x in official_order(N, O) if x not in S]
# (the glyph order of the font compiled without the skipped glyphs S is the old order with S struck out; official_order is
# the spec function makeOfficialGlyphOrder is proved equal to, contract `makeOfficialGlyphOrder#explicit`).
# Proved by hand-made inductions: every induction is a base lemma + a step lemma whose hypotheses contain the statement at
# the predecessor; the "for all" statements are kept as templates (_STMT) and every use of an already proved statement is
# produced from its template by substitution (_inst), so a hypothesis IS an instance of a proved conclusion.
# vcheck/hooks/c13.py evaluates every one of these lemmas natively on a small scope (guards against a mis-stated lemma and
# shows that the hypotheses are satisfiable) and still enumerates the end statement.
# =====================================================================================================
@specfn(List(STR), L=List(STR), S=Set(STR), n=INT)
def sx_keep_upto(L, S, n):
    """[x for x in L[:n] if x not in S], by recursion on n (the state of the comprehension's loop after n elements)"""
    if n <= 0:
        return []
    prev = sx_keep_upto(L, S, n - 1)
    x = L[n - 1]
    if x not in S:
        return prev + [x]
    return prev


@specfn(List(STR), L=List(STR), S=Set(STR))
def sx_keep(L, S):
    """[x for x in L if x not in S]"""
    return sx_keep_upto(L, S, len(L))


def _inst(template, **sub):
    """the clause `template` with its variables replaced by the given expressions (mechanical instantiation)"""
    import ast as _ast

    class _Sub(_ast.NodeTransformer):
        def visit_Name(self, node):
            if node.id in sub:
                return _ast.parse("(" + sub[node.id] + ")", mode="eval").body
            return node

    return _ast.unparse(_Sub().visit(_ast.parse(template, mode="eval")))


_STMT = {
    # (a) sx_keep_upto(L, S, n) reads L[:n] only                                           for all A, B, S and n <= len(A)
    "prefix": "sx_keep_upto(A + B, S, n) == sx_keep_upto(A, S, n)",
    # (b) the filter distributes over concatenation                                        for all A, B, S and 0 <= m <= len(B)
    "concat-upto": "sx_keep_upto(A + B, S, len(A) + m) == sx_keep(A, S) + sx_keep_upto(B, S, m)",
    "concat": "sx_keep(A + B, S) == sx_keep(A, S) + sx_keep(B, S)",                      # for all A, B, S
    # (c) striking S out of the listed part == listing against the smaller set            for all O, T, S and i <= len(O)
    "firsts": "sx_keep(firsts(O, T, i), S) == firsts(O, T - S, i)",
    # (d) striking S out of the sorted remainder == sorting the smaller set                for all FINITE R and all S
    "sorted": "sx_keep(sorted(R), S) == sorted(R - S)",
}
# TRUSTED about the library function `sorted` applied to a finite set X of strings: it is the increasing enumeration of X
# (Python: "a new sorted list from the items"; ascending, a permutation), used in this recursive form:
#   sorted(X) == []                         if X is empty
#   sorted(X) == sorted(X - {m}) + [m]      if m is the greatest element of X
# (conformance of both clauses with the real `sorted` is enumerated in the hook).  Nothing else is assumed about `sorted`.
SORTED_TRUSTED = {
    "sorted-empty": "implies(all(False for x in X), sorted(X) == [])",
    "sorted-greatest-last": "implies(m in X and all(x <= m for x in X), sorted(X) == sorted(X - {m}) + [m])",
}
_LS = {"A": List(STR), "B": List(STR), "S": Set(STR)}
_FV = {"O": List(STR), "T": Set(STR), "S": Set(STR)}
_RV = {"R": Set(STR), "S": Set(STR)}
_ORD = ["C13"]

# (a) induction on n
lemma("C13.ord.prefix.base", props=_ORD, vars={**_LS, "n": INT}, hyps=["n <= 0"],
      concl={"eq": _STMT["prefix"]}, canaries={"nonempty": "len(sx_keep_upto(A, S, n)) > 0"})
lemma("C13.ord.prefix.step", props=_ORD, vars={**_LS, "n": INT}, hyps=["0 <= n", "n < len(A)", _STMT["prefix"]],
      concl={"eq": _inst(_STMT["prefix"], n="n + 1")}, canaries={"drops": "sx_keep_upto(A, S, n + 1) == sx_keep_upto(A, S, n)"})
# (b) induction on m; the base case is (a) at n = len(A)
lemma("C13.ord.concat.base", props=_ORD, vars=_LS, hyps=[_inst(_STMT["prefix"], n="len(A)")],
      concl={"eq": _inst(_STMT["concat-upto"], m="0")}, canaries={"empty": "sx_keep(A, S) == []"})
lemma("C13.ord.concat.step", props=_ORD, vars={**_LS, "m": INT}, hyps=["0 <= m", "m < len(B)", _STMT["concat-upto"]],
      concl={"eq": _inst(_STMT["concat-upto"], m="m + 1")}, canaries={"drops": "sx_keep_upto(B, S, m + 1) == sx_keep_upto(B, S, m)"})
lemma("C13.ord.concat", props=_ORD, vars=_LS, hyps=[_inst(_STMT["concat-upto"], m="len(B)")],
      concl={"eq": _STMT["concat"]}, canaries={"empty": "sx_keep(A + B, S) == []"})
# (c) induction on i (firsts is spec.firsts: the names of T among O[:i], each at its first occurrence)
lemma("C13.ord.firsts.base", props=_ORD, vars={**_FV, "i": INT}, hyps=["i <= 0"],
      concl={"eq": _STMT["firsts"]}, canaries={"nonempty": "len(firsts(O, T, i)) > 0"})
lemma("C13.ord.firsts.step", props=_ORD, vars={**_FV, "i": INT},
      hyps=["0 <= i", "i < len(O)", _STMT["firsts"], _inst(_STMT["concat"], A="firsts(O, T, i)", B="[O[i]]")],
      concl={"eq": _inst(_STMT["firsts"], i="i + 1")},
      canaries={"drops": "firsts(O, T - S, i + 1) == firsts(O, T - S, i)", "takes": "firsts(O, T - S, i + 1) == firsts(O, T, i + 1)"})
# (d) induction on the finite set R: empty, or R - {m} plus its greatest element m (every non-empty finite set of strings has one)
lemma("C13.ord.sorted.base", props=_ORD, vars=_RV,
      hyps=["all(False for x in R)", _inst(SORTED_TRUSTED["sorted-empty"], X="R"), _inst(SORTED_TRUSTED["sorted-empty"], X="R - S")],
      concl={"eq": _STMT["sorted"]}, canaries={"nonempty": "len(sorted(R - S)) > 0"})
lemma("C13.ord.sorted.step", props=_ORD, vars={**_RV, "m": STR},
      hyps=["m in R", "all(x <= m for x in R)",
            _inst(SORTED_TRUSTED["sorted-greatest-last"], X="R"), _inst(SORTED_TRUSTED["sorted-greatest-last"], X="R - S"),
            _inst(_STMT["sorted"], R="R - {m}"),                                   # induction hypothesis
            _inst(_STMT["concat"], A="sorted(R - {m})", B="[m]")],
      concl={"eq": _STMT["sorted"]},
      canaries={"dropped": "sorted(R - S) == sorted((R - {m}) - S)", "kept": "sorted(R - S) == sorted((R - {m}) - S) + [m]"})
# composition: official_order = notdef_head + firsts(O, names, len(O)) + sorted(names not listed)
_oW = "without_notdef(N)"
_oH = "notdef_head(N)"
_oF = f"firsts(O, {_oW}, len(O))"
_oR = f"{_oW} - elems_upto(O, len(O))"
_oZ = f"sorted({_oR})"
lemma("C13.ord.order", props=_ORD, vars={"N": Set(STR), "S": Set(STR), "O": List(STR)},
      hyps=[_inst(_STMT["firsts"], T=_oW, i="len(O)"),
            _inst(_STMT["sorted"], R=_oR),                                        # N (a font's glyph names) is finite
            _inst(_STMT["concat"], A=f"{_oH} + {_oF}", B=_oZ),
            _inst(_STMT["concat"], A=_oH, B=_oF)],
      concl={"order": "official_order(N - S, O) == sx_keep(official_order(N, O), S)"},
      canaries={"nothing-skipped": "official_order(N - S, O) == official_order(N, O)"})
ORDER_LEMMAS = ["prefix.base", "prefix.step", "concat.base", "concat.step", "concat", "firsts.base", "firsts.step", "sorted.base", "sorted.step", "order"]


# =====================================================================================================
# _GlyphSet.from_layer (util.py): the glyph set the pre-processors work on, built from a layer, optionally copied, with the
# static skip-export filter run on it.  Under contract: util._copyGlyph (variant SX, over this file's glyph vocabulary),
# util._copyLayer, _GlyphSet.from_layer (two variants: default layer / named layer).  The filter call inside from_layer uses the
# contract SkipExportGlyphsFilter.__call__#SXFilter; the CONSTRUCTOR call SkipExportGlyphsFilter(names) is a summary (see
# _skip_filter_ctor).
# =====================================================================================================
from pyvc.api import Opaque  # noqa: E402

_FL_PROPS = ["C13"]
LIBT = Dict(STR, Opaque("SXLibValue"))
ANCH = Dict(STR, Opaque("SXAnchorField"))

# ---- vocabulary: what _copyGlyph reads besides name / components / contours ------------------------------------------
for _f, _t in (("width", REAL), ("height", REAL), ("unicodes", List(INT)), ("anchors", List(ANCH)), ("lib", LIBT)):
    CLASSES["SXGlyph"].fields[_f] = _t
CLASSES["SXGlyphSet"].fields["lib"] = LIBT


def _glyph_drawPoints(ex, st, self, args, kwargs, node):
    """glyph.drawPoints(pen) with pen = other.getPointPen() (ufoLib2/defcon Glyph.drawPoints + GlyphPointPen): the outline of
    `self` is replayed into the pen's glyph G: G gains as many contours as `self` has, and one NEW component per component of
    `self`, in order, with the same base glyph and the same transformation.  `self` is not modified."""
    (pen,) = args
    if not (isinstance(pen.ty, T.Ref) and pen.ty.cls == "SXPointPen"):
        raise Unsupported("glyph.drawPoints with a pen that is not a glyph's point pen", node)
    G = ex.read_field(st, pen, "glyph")
    src = lift(ex.read_field(st, self, "components"))
    cur = ex.read_field(st, G, "components")
    cs = lift(cur)
    new = fresh(cur.ty, "copied")
    k = z3.Int(fresh_name("ck"))
    base_arr = ex.field_array(st, "SXComponent", "baseGlyph")
    tr_arr = ex.field_array(st, "SXComponent", "transformation")
    st.assume(z3.Length(new) == z3.Length(src))
    st.assume(z3.ForAll([k], z3.Implies(z3.And(k >= 0, k < z3.Length(src)),
                                        z3.And(z3.Select(base_arr, new[k]) == z3.Select(base_arr, src[k]), z3.Select(tr_arr, new[k]) == z3.Select(tr_arr, src[k])))))
    app = _pos_seq(st, cur.ty, z3.Length(cs) + z3.Length(new), lambda p: z3.If(p < z3.Length(cs), cs[p], new[p - z3.Length(cs)]), "drawn")
    ex.write_field(st, G, "components", Val(cur.ty, app), node)
    ex.write_field(st, G, "ncontours", Val(INT, lift(ex.read_field(st, G, "ncontours")) + lift(ex.read_field(st, self, "ncontours"))), node)
    return Val.const(None)


_glyph_drawPoints.modifies = ["SXGlyph.components", "SXGlyph.ncontours"]
CLASSES["SXGlyph"].methods["drawPoints"] = _glyph_drawPoints


def _only_this_written(ex, st, self):
    """frame vocabulary: compared with the pre-state of the function (old), no glyph object OTHER than this one has different
    components / contours (logical only: `old` cannot mention `result`, so the comparison is packaged as a derived field)"""
    old = ex.old_state
    if old is None:
        raise Unsupported("only_this_written outside a postcondition")
    out = []
    for f, d in (("components", z3.Empty(List(Ref("SXComponent")).sort())), ("ncontours", z3.IntVal(0)), ("name", z3.StringVal(""))):
        now_arr = ex.field_array(st, "SXGlyph", f)
        old_arr = ex.field_array(old, "SXGlyph", f)
        out.append(z3.Store(now_arr, lift(self), d) == z3.Store(old_arr, lift(self), d))
    return Val(BOOL, z3.And(*out))


CLASSES["SXGlyph"].derived["only_this_written"] = _only_this_written
CLASSES["SXGlyph"].views["only_this_written"] = lambda o: True


def _factory_call(ex, st, self, args, kwargs, node):
    """newGlyph(name) (the closure returned by util._getNewGlyphFactory): a NEW empty glyph carrying that name"""
    g = ex.new_object(st, "SXGlyph")
    ex.write_field(st, g, "name", args[0], node)
    ex.write_field(st, g, "components", Val(List(Ref("SXComponent")), z3.Empty(List(Ref("SXComponent")).sort())), node)
    ex.write_field(st, g, "ncontours", Val(INT, z3.IntVal(0)), node)
    return g


CLASSES["SXFactory"].methods["__call__"] = _factory_call


@trusted("c13.deepcopy", "copy.deepcopy(x) of a plist value (lib): a new value equal to x (values have no identity in the encoding)")
def _deepcopy(ex, st, args, kwargs, node):
    return args[0]


_SAME_COMPS = ("len(result.components) == len(glyph.components) and all(result.components[k].baseGlyph == glyph.components[k].baseGlyph"
               " and result.components[k].transformation == glyph.components[k].transformation for k in range(len(glyph.components)))")

contract(
    "ufo2ft.util:_copyGlyph",
    name="SX",
    props=_FL_PROPS,
    params={"glyph": Ref("SXGlyph"), "glyphFactory": Ref("SXFactory"), "reverseContour": Const(False)},
    returns=Ref("SXGlyph"),
    globals={"deepcopy": _Ref("c13.deepcopy")},
    ensures={
        "new-object": "fresh(result)",
        "name": "result.name == glyph.name",
        # the copy has the same components (base, transformation; new component objects) and as many contours
        "components": _SAME_COMPS,
        "contours": "len(result) == len(glyph)",
        "metrics": "result.width == glyph.width and result.height == glyph.height and result.unicodes == glyph.unicodes",
        "anchors-lib": "result.anchors == glyph.anchors and result.lib == glyph.lib",
        # nothing that existed before is written (whole-heap frame)
        "frame": "result.only_this_written",
    },
    canaries={"no-components": "len(result.components) == 0"},
    modifies=["SXGlyph.components", "SXGlyph.ncontours", "SXGlyph.name", "SXGlyph.width", "SXGlyph.height", "SXGlyph.unicodes", "SXGlyph.anchors", "SXGlyph.lib"],
)


# ---- layers ----------------------------------------------------------------------------------------------------------------
for _f, _t in (("glyphs", List(Ref("SXGlyph"))), ("name", STR), ("lib", LIBT)):
    CLASSES["SXLayer"].fields[_f] = _t
CLASSES["SXLayer"].notes = ("ufoLib2/defcon Layer: iteration yields its glyph objects (`glyphs`, one entry per glyph), `name`, `lib`; instantiateGlyphObject(). "
                            "Library invariant assumed where stated (`requires`): the glyphs of a layer have pairwise different names")


def _layer_iter(ex, st, self, node):
    from pyvc.stmts import IterInfo

    v = ex.read_field(st, self, "glyphs")
    s = lift(v)
    return IterInfo("indexed", n=z3.Length(s), item=lambda i: Val(Ref("SXGlyph"), s[i]), seqval=v)


CLASSES["SXLayer"].iter = _layer_iter
CLASSES["SXLayer"].derived = {**(CLASSES["SXLayer"].derived or {}),
                              "heap_components": lambda ex, st, self: Val(Map(Ref("SXGlyph"), List(Ref("SXComponent"))), ex.field_array(st, "SXGlyph", "components")),
                              "heap_ncontours": lambda ex, st, self: Val(Map(Ref("SXGlyph"), INT), ex.field_array(st, "SXGlyph", "ncontours"))}
CLASSES["SXLayer"].views = {**getattr(CLASSES["SXLayer"], "views", {}), "glyphs": lambda o: list(o)}


@trusted("c13.iter", "iter(x): an iterator over x (identified with x)")
def _iter(ex, st, args, kwargs, node):
    return args[0]


@trusted("c13.next", "next(iter(layer)): the first glyph of the layer; StopIteration if the layer is empty")
def _next(ex, st, args, kwargs, node):
    (it,) = args
    if not (isinstance(it.ty, T.Ref) and it.ty.cls == "SXLayer"):
        raise Unsupported("next() of something that is not a layer iterator", node)
    s = lift(ex.read_field(st, it, "glyphs"))
    ex.safety(st, z3.Length(s) > 0, "StopIteration", node)
    return Val(Ref("SXGlyph"), s[0])


def _new_glyphset(ex, st, d, node):
    o = ex.new_object(st, "SXGlyphSet")
    ex.write_field(st, o, "glyphs", d, node)
    return o


@trusted("c13.GlyphSetType",
         "_GlyphSet (a dict subclass) called as a constructor: _GlyphSet() is a new empty mapping; _GlyphSet(pairs) is a new mapping holding, for "
         "every key among the pairs, the value of the LAST pair with that key, and no other key")
def _glyphset_ctor(ex, st, args, kwargs, node):
    if kwargs or len(args) > 1:
        raise Unsupported("_GlyphSet(...) with these arguments", node)
    if not args:
        from pyvc.core import _lift_py

        return _new_glyphset(ex, st, Val(GLYPHS, _lift_py({}, GLYPHS)), node)
    pairs = _models.materialize(ex, args[0])
    pt = pairs.ty
    if not (isinstance(pt, T.List) and isinstance(pt.elem, T.Tuple) and len(pt.elem.items) == 2 and pt.elem.items[0] == STR):
        raise Unsupported(f"_GlyphSet(<{pt}>)", node)
    s = lift(pairs)
    n = z3.Length(s)
    ts = pt.elem.sort()
    fst, snd = ts.accessor(0, 0), ts.accessor(0, 1)
    d = fresh(GLYPHS, "gsdict")
    sd = GLYPHS.sort()
    a = z3.Int(fresh_name("pa"))
    b = z3.Int(fresh_name("pb"))
    x = fresh(STR, "px")
    pos = z3.Function(fresh_name("lastpos"), z3.StringSort(), z3.IntSort())
    st.assume(z3.ForAll([a], z3.Implies(z3.And(a >= 0, a < n), z3.Select(sd.dom(d), fst(s[a])))))
    st.assume(z3.ForAll([x], z3.Implies(z3.Select(sd.dom(d), x), z3.And(pos(x) >= 0, pos(x) < n, fst(s[pos(x)]) == x, z3.Select(sd.map(d), x) == snd(s[pos(x)])))))
    st.assume(z3.ForAll([x, b], z3.Implies(z3.And(z3.Select(sd.dom(d), x), b > pos(x), b < n), fst(s[b]) != x)))
    _models.dict_wf(st, GLYPHS, d)
    return _new_glyphset(ex, st, Val(GLYPHS, d), node)


GSTYPE = _Ref("c13.GlyphSetType")
_DISTINCT = "all(all(implies(a != b, layer.glyphs[a].name != layer.glyphs[b].name) for b in range(len(layer.glyphs))) for a in range(len(layer.glyphs)))"
_LAYER_HELPERS = {"next": _Ref("c13.next"), "iter": _Ref("c13.iter"), "_getNewGlyphFactory": _Ref("c13.opaque_helper")}


def _copies(gs, upto):
    """every glyph layer.glyphs[a], a < upto, has a copy under its name in `gs`: same name, same components (base, transformation), as many contours"""
    return (f"all({gs}[layer.glyphs[a].name].name == layer.glyphs[a].name and len({gs}[layer.glyphs[a].name]) == len(layer.glyphs[a])"
            f" and len({gs}[layer.glyphs[a].name].components) == len(layer.glyphs[a].components)"
            f" and all({gs}[layer.glyphs[a].name].components[k].baseGlyph == layer.glyphs[a].components[k].baseGlyph"
            f" and {gs}[layer.glyphs[a].name].components[k].transformation == layer.glyphs[a].components[k].transformation for k in range(len(layer.glyphs[a].components)))"
            f" for a in range({upto}))")


contract(
    "ufo2ft.util:_copyLayer",
    name="SX",
    props=_FL_PROPS,
    params={"layer": Ref("SXLayer"), "obj_type": Const(GSTYPE)},
    returns=Ref("SXGlyphSet"),
    globals=_LAYER_HELPERS,
    calls={"ufo2ft.util:_copyGlyph": "ufo2ft.util:_copyGlyph#SX"},
    # library invariant of a Layer (a mapping name -> glyph whose glyphs carry their key as name); heap well-formedness (no dangling reference)
    requires=[_DISTINCT, "all(allocated(g) for g in layer.glyphs)"],
    ghost_vars={"C0": (Map(Ref("SXGlyph"), List(Ref("SXComponent"))), "layer.heap_components"), "N0": (Map(Ref("SXGlyph"), INT), "layer.heap_ncontours"),
                "CP": (List(Ref("SXGlyph")), "[]")},
    ghost={"glyphSet[glyph.name] = _copyGlyph(glyph, glyphFactory=newGlyph)": ["CP = CP + [glyphSet[glyph.name]]"]},
    ensures={
        "new-object": "fresh(result)",
        "keys-sup": "all(layer.glyphs[a].name in result.keyset for a in range(len(layer.glyphs)))",
        "keys-sub": "all(any(layer.glyphs[a].name == n for a in range(len(layer.glyphs))) for n in result.keyset)",
        "copies": _copies("result", "len(layer.glyphs)"),
        "new-glyphs": "all(fresh(result[n]) for n in result.keyset)",
        "source-untouched": "all(layer.glyphs[a].components == old(layer.glyphs[a].components) and len(layer.glyphs[a]) == old(len(layer.glyphs[a])) for a in range(len(layer.glyphs)))",
    },
    canaries={"empty": "all(False for n in result.keyset)"},
    modifies=["SXGlyph.components", "SXGlyph.ncontours", "SXGlyph.name", "SXGlyph.width", "SXGlyph.height", "SXGlyph.unicodes", "SXGlyph.anchors", "SXGlyph.lib", "SXGlyphSet.glyphs"],
    loops={
        "for glyph in layer": Loop(
            index="i",
            invariants={
                "keys-sup": "all(layer.glyphs[a].name in glyphSet.keyset for a in range(i))",
                "keys-sub": "all(any(layer.glyphs[a].name == n for a in range(i)) for n in glyphSet.keyset)",
                # CP (ghost) = the copies made so far, in layer order
                "distinct-names": _DISTINCT,
                "cp-len": "len(CP) == i",
                "cp-stored": "all(glyphSet[layer.glyphs[a].name] == CP[a] for a in range(i))",
                "cp-new": "all(fresh(CP[a]) and allocated(CP[a]) for a in range(i))",
                "cp-name": "all(CP[a].name == layer.glyphs[a].name for a in range(i))",
                "cp-contours": "all(len(CP[a]) == len(layer.glyphs[a]) for a in range(i))",
                "cp-ncomp": "all(len(CP[a].components) == len(layer.glyphs[a].components) for a in range(i))",
                "cp-comps": "all(all(CP[a].components[k].baseGlyph == layer.glyphs[a].components[k].baseGlyph and CP[a].components[k].transformation == layer.glyphs[a].components[k].transformation"
                            " for k in range(len(layer.glyphs[a].components))) for a in range(i))",
                "new-glyphs": "all(fresh(glyphSet[n]) and allocated(glyphSet[n]) for n in glyphSet.keyset)",
                "new-set": "fresh(glyphSet)",
                "source-untouched": "all(layer.heap_components[layer.glyphs[a]] == C0[layer.glyphs[a]] and layer.heap_ncontours[layer.glyphs[a]] == N0[layer.glyphs[a]] for a in range(len(layer.glyphs)))",
            },
        )
    },
)


# ---- _GlyphSet.from_layer ---------------------------------------------------------------------------------------------------
CLASSES["SXLayers"].fields["byname"] = Map(STR, Ref("SXLayer"))
CLASSES["SXLayers"].fields["names"] = Set(STR)


def _layers_getitem(ex, st, self, idx, node):
    """font.layers[name]: the layer of that name; KeyError if there is none (ufoLib2/defcon LayerSet)"""
    names = lift(ex.read_field(st, self, "names"))
    k = lift(idx, STR)
    ex.safety(st, z3.Select(names, k), "KeyError", node)
    bn = ex.read_field(st, self, "byname")
    return Val(Ref("SXLayer"), z3.Select(lift(bn), k))


CLASSES["SXLayers"].getitem = _layers_getitem


def _skip_filter_ctor(ex, st, args, kwargs, node):
    """SUMMARY (ufo2ft code outside the engine's subset: BaseFilter.__init__ processes *args / **kwargs with setattr, then calls
    start()): SkipExportGlyphsFilter(names) is a new filter object whose options.skipExportGlyphs is a frozenset with exactly the
    members of `names` (start(): `frozenset(self.options.skipExportGlyphs)`) and whose include predicate accepts every glyph
    (no include= / exclude=).  Bounded check in vcheck/hooks/c13.py."""
    if kwargs or len(args) != 1:
        raise Unsupported("SkipExportGlyphsFilter(...) with these arguments", node)
    (names,) = args
    if not isinstance(names.ty, T.List):
        raise Unsupported(f"SkipExportGlyphsFilter(<{names.ty}>)", node)
    ns = ex.new_object(st, "SXNameSet")
    # frozenset(names), stated position-wise in both directions (every entry is a member; every member sits at some position) instead of
    # through seq.contains, from which the solvers derive `names[i] in set` only slowly (post.skipped-gone was borderline at 3 s)
    L = lift(names)
    S = fresh(Set(STR), "skipset")
    i_ = z3.Int(fresh_name("si"))
    x_ = fresh(STR, "sx")
    pos = z3.Function(fresh_name("skippos"), z3.StringSort(), z3.IntSort())
    st.assume(z3.ForAll([i_], z3.Implies(z3.And(i_ >= 0, i_ < z3.Length(L)), z3.Select(S, L[i_]))))
    st.assume(z3.ForAll([x_], z3.Implies(z3.Select(S, x_), z3.And(pos(x_) >= 0, pos(x_) < z3.Length(L), L[pos(x_)] == x_)), patterns=[z3.Select(S, x_)]))
    st.assume(z3.ForAll([x_], z3.Select(S, x_) == z3.Contains(L, z3.Unit(x_))))   # ... and membership in the list as such (`x in names` in clauses)
    ex.write_field(st, ns, "names", Val(Set(STR), S), node)
    opts = ex.new_object(st, "SXOptions")
    ex.write_field(st, opts, "skipExportGlyphs", ns, node)
    f = ex.new_object(st, "SXFilter")
    ex.write_field(st, f, "options", opts, node)
    return f


_CTOR_Q = "ufo2ft.filters.skipExportGlyphs.SkipExportGlyphsFilter"
_FL_MOD = ["SXGlyph.components", "SXGlyph.ncontours", "SXGlyph.name", "SXGlyph.width", "SXGlyph.height", "SXGlyph.unicodes", "SXGlyph.anchors", "SXGlyph.lib",
           "SXGlyphSet.glyphs", "SXGlyphSet.lib", "SXGlyphSet.name", "SXFilter.context", "SXFilter.options", "SXOptions.skipExportGlyphs", "SXNameSet.names",
           "SXContext.glyphSet", "SXContext.modified", "SXContext.font", "SXContext.glyphFactory"]

for _nm, _lay, _lnty in (("default-layer", "font.layers.defaultLayer", Const(None)), ("named-layer", "font.layers.byname[layerName]", STR)):
    _L = lambda s: s.replace("layer.", _lay + ".")  # noqa: E731
    _skipping = "(skipExportGlyphs is not None and len(skipExportGlyphs) > 0)"
    contract(
        "ufo2ft.util:_GlyphSet.from_layer",
        name=_nm,
        props=_FL_PROPS,
        params={"cls": Const(GSTYPE), "font": Ref("SXFont"), "layerName": _lnty, "copy": BOOL, "skipExportGlyphs": Opt(List(STR))},
        returns=Ref("SXGlyphSet"),
        globals={"deepcopy": _Ref("c13.deepcopy")},
        models={_CTOR_Q: _skip_filter_ctor},
        calls={"ufo2ft.util:_copyLayer": "ufo2ft.util:_copyLayer#SX"},
        requires=[_L(_DISTINCT), _L("all(allocated(g) for g in layer.glyphs)")],
        raises=({"KeyError": "layerName not in font.layers.names"} if _nm == "named-layer" else {}),
        ensures={
            # the glyph set built from the layer with a skip list: no skipped name is a key ...
            "skipped-gone": "implies(skipExportGlyphs is not None, all(n not in result.keyset for n in skipExportGlyphs))",
            # ... every other glyph of the layer is there under its name, and nothing else
            "others-present": _L("all(implies(skipExportGlyphs is None or layer.glyphs[a].name not in skipExportGlyphs, layer.glyphs[a].name in result.keyset) for a in range(len(layer.glyphs)))"),
            "no-foreign-key": _L("all(any(layer.glyphs[a].name == n for a in range(len(layer.glyphs))) for n in result.keyset)"),
            # ... and no remaining glyph has a component whose base is skipped
            "no-dangling": "implies(skipExportGlyphs is not None, all(all(c.baseGlyph not in skipExportGlyphs for c in result[n].components) for n in result.keyset))",
            "well-named": "all(result[n].name == n for n in result.keyset)",
            # copy=True: the glyphs of the result are new objects (the source layer's glyph objects are not in it)
            "copies-are-new": "implies(copy, all(fresh(result[n]) for n in result.keyset))",
            # nothing skipped: copies equal to the source glyphs (copy=True) / the source glyph objects themselves (copy=False); the source is not modified
            "plain-copy": _L(f"implies(copy and not {_skipping}, " + _copies("result", "len(layer.glyphs)") + ")"),
            "plain-view": _L(f"implies(not copy and not {_skipping}, all(result[layer.glyphs[a].name] == layer.glyphs[a] for a in range(len(layer.glyphs))))"),
            "source-untouched": _L(f"implies(not {_skipping}, all(layer.glyphs[a].components == old(layer.glyphs[a].components) and len(layer.glyphs[a]) == old(len(layer.glyphs[a])) for a in range(len(layer.glyphs))))"),
            "layer-name": ("result.name is None" if _nm == "default-layer" else _L("result.name == layer.name")),
            "lib": _L("result.lib == layer.lib"),
        },
        canaries={"empty": "all(False for n in result.keyset)", "all-there": _L("all(layer.glyphs[a].name in result.keyset for a in range(len(layer.glyphs)))")},
        modifies=_FL_MOD,
        merge_branches=False,
        # solver order: post.skipped-gone on the copy+skip path is proved by the no-extensionality configuration at once (z3-5.1 default: > 3 s)
        portfolio=["z3-5.1/noext", "z3-5.1"],
    )


# ---- run-time side of the from_layer contracts ------------------------------------------------------------------------------
class _LayerMap(dict):
    """run-time stand-in for the total map font.layers.byname: a name that is not a layer answers with an empty layer, so that
    a precondition mentioning it is evaluable (the function itself then raises KeyError, which the raises clause expects)"""

    def __missing__(self, k):
        from pyvc.rt import Proxy
        from ufoLib2.objects import Layer

        return Proxy(Layer(name=k), CLASSES["SXLayer"])


def _rt_layer_views():
    from pyvc.rt import Proxy

    def layers_view(ls):
        return Proxy(ls, CLASSES["SXLayers"])

    CLASSES["SXFont"].views = {**(CLASSES["SXFont"].views or {}), "layers": lambda f: layers_view(f.layers)}
    CLASSES["SXLayers"].views = {
        **(CLASSES["SXLayers"].views or {}),
        "defaultLayer": lambda ls: Proxy(ls.defaultLayer, CLASSES["SXLayer"]),
        "byname": lambda ls: _LayerMap({l.name: Proxy(l, CLASSES["SXLayer"]) for l in ls}),
        "names": lambda ls: {l.name for l in ls},
    }


_rt_layer_views()


def _fl_cases(rng, n):
    out = []
    for k, d in enumerate(graph_cases(rng, n)):
        d = dict(d)
        d["copy"] = rng.random() < 0.6
        d["layer"] = rng.choice([None, "public.default", "bg"])
        if k % 10 == 7:
            d["skip"] = None
        if k % 17 == 3:
            d["layer"] = "no-such-layer"
        out.append(d)
    return out


def _fl_font(d):
    from . import rtlib

    font = rtlib.build_ufo(d)
    bg = font.newLayer("bg")
    for g in font:
        g2 = bg.newGlyph(g.name)
        g2.width = g.width + 10
        pen = g2.getPointPen()
        g.drawPoints(pen)
    return font


def _fl_cases_for(want_named):
    def gen(rng, n):
        return [d for d in _fl_cases(rng, 2 * n + 4) if (d["layer"] is not None) == want_named][:n]

    return gen


def _b_from_layer(d):
    return {"font": _fl_font(d), "layerName": d["layer"], "copy": d["copy"], "skipExportGlyphs": (list(d["skip"]) if d["skip"] is not None else None)}


def _call_from_layer(fn, a):
    from ufo2ft.util import _GlyphSet

    return _GlyphSet.from_layer(a["font"], a["layerName"], copy=a["copy"], skipExportGlyphs=a["skipExportGlyphs"])


def _b_copy_layer(d):
    from ufo2ft.util import _GlyphSet

    font = _fl_font(d)
    return {"layer": font.layers["bg"] if d["layer"] == "bg" else font.layers.defaultLayer, "obj_type": _GlyphSet}


def _b_copy_glyph(d):
    font = _fl_font(d)
    _KEEP_FONTS.append(font)
    del _KEEP_FONTS[:-20]
    return {"glyph": font[d["target"]], "glyphFactory": None}


_KEEP_FONTS = []
CONTRACTS["ufo2ft.util:_copyGlyph#SX"].runtime = Runtime(_fl_cases, _b_copy_glyph)
CONTRACTS["ufo2ft.util:_copyLayer#SX"].runtime = Runtime(_fl_cases, _b_copy_layer)
CONTRACTS["ufo2ft.util:_GlyphSet.from_layer#default-layer"].runtime = Runtime(_fl_cases_for(False), _b_from_layer, _call_from_layer)
CONTRACTS["ufo2ft.util:_GlyphSet.from_layer#named-layer"].runtime = Runtime(_fl_cases_for(True), _b_from_layer, _call_from_layer)
