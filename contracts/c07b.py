"""C07 (b) — the glyph set the compilers work on when `inplace` is false is made of FRESH, DEEP copies.

`_GlyphSet.from_layer(font, layerName, copy=True)` -> `_copyLayer(layer, obj_type=_GlyphSet)` -> `_copyGlyph(glyph, glyphFactory)` per glyph.
`contracts/c08.py` proves `_copyGlyph` (new object; name, width, height, unicodes, every key of every anchor, lib, outline equal to the
source's; source untouched).  This file lifts that to the two callers, over the same glyph vocabulary (`Glyph8`):

* `_copyLayer#c07`: the result is a NEW mapping whose keys are exactly the layer's glyph names, every value is a NEW glyph object (never a
  glyph of the layer) that is a deep copy of the layer's glyph of that name; no glyph of the layer is modified.
* `_GlyphSet.from_layer#copy`: the same for the returned glyph set, whose `lib` equals the layer's lib (a deep copy: values have no identity
  in the encoding) and whose `name` is the layer's name iff a layer name was given; the font, its layers and their glyphs are not written.

The frame analysis of C07 (pyvc/frames.py) treats these functions as analysed code; this is the SMT side of the same fact.
"""
import z3

from pyvc import ty as T
from pyvc.api import BOOL, CLASSES, CONTRACTS, INT, STR, Const, Dict, List, Loop, Opt, Ref, Runtime, cls, contract, trusted
from pyvc.core import Unsupported, Val, lift
from pyvc.symex import FuncRef

from . import c08  # noqa: F401  (Glyph8 / GlyphFactory8 / PointPen8 vocabulary, the proved _copyGlyph contract)
from .c08 import LIBV

P = ["C07"]
GLYPHS7 = Dict(STR, Ref("Glyph8"))
LIB7 = Dict(STR, LIBV)


class _PyFn(FuncRef):
    """a python callable usable as a contract constant by both interpreters"""

    def __call__(self, *a, **k):
        return self.obj(*a, **k)


# ---- vocabulary -------------------------------------------------------------------------------------------------------------
def _px(g):
    from pyvc import rt

    return g if isinstance(g, rt.Proxy) else rt.Proxy(g, CLASSES["Glyph8"])


def _layer_iter(ex, st, self, node):
    from pyvc.stmts import IterInfo

    v = ex.read_field(st, self, "glyphs")
    s = lift(v)
    return IterInfo("indexed", n=z3.Length(s), item=lambda i: Val(Ref("Glyph8"), s[i]), seqval=v)


cls("Layer7", fields={"glyphs": List(Ref("Glyph8")), "name": STR, "lib": LIB7}, iter=_layer_iter,
    views={"glyphs": lambda o: [_px(g) for g in o], "lib": lambda o: dict(o.lib)},
    notes="ufoLib2/defcon Layer: iteration yields its glyph objects (`glyphs`), `name`, `lib`. Library invariant used as a precondition: the glyphs of "
          "a layer have pairwise different names (a layer is a mapping name -> glyph)")


def _gs_getitem(ex, st, self, idx, node):
    return ex.getitem(ex.read_field(st, self, "glyphs"), idx, st, node)


def _gs_setitem(ex, st, self, idx, v, node):
    from pyvc import models

    ex.write_field(st, self, "glyphs", models.set_item(ex, st, ex.read_field(st, self, "glyphs"), idx, v, node), node)


def _gs_contains(ex, st, self, x):
    d = ex.read_field(st, self, "glyphs")
    return z3.Select(d.ty.sort().dom(d.term), lift(x, STR))


cls("GlyphSet7", fields={"glyphs": GLYPHS7, "lib": LIB7, "name": Opt(STR)}, getitem=_gs_getitem, setitem=_gs_setitem, contains=_gs_contains,
    views={"glyphs": lambda o: {k: _px(v) for k, v in o.items()}, "lib": lambda o: dict(o.lib), "name": lambda o: o.name},
    notes="ufo2ft.util._GlyphSet (a dict subclass with `lib` and `name`): `glyphs` = its mapping name -> glyph")


@trusted("c07b.GlyphSetType", "_GlyphSet() (dict subclass called without arguments): a NEW, EMPTY mapping")
def _glyphset_ctor(ex, st, args, kwargs, node):
    from pyvc.core import _lift_py

    if args or kwargs:
        raise Unsupported("_GlyphSet(...) with arguments (only the copy=True path is under this contract)", node)
    o = ex.new_object(st, "GlyphSet7")
    ex.write_field(st, o, "glyphs", Val(GLYPHS7, _lift_py({}, GLYPHS7)), node)
    return o


def _gstype():
    from ufo2ft.util import _GlyphSet

    return _PyFn(_GlyphSet, "c07b.GlyphSetType")


GSTYPE = _gstype()


@trusted("c07b.iter", "iter(layer): an iterator over the layer (identified with the layer)")
def _iter(ex, st, args, kwargs, node):
    return args[0]


@trusted("c07b.next", "next(iter(layer)): the first glyph of the layer; StopIteration if the layer is empty")
def _next(ex, st, args, kwargs, node):
    (it,) = args
    if not (isinstance(it.ty, T.Ref) and it.ty.cls == "Layer7"):
        raise Unsupported("next() of something that is not a layer iterator", node)
    s = lift(ex.read_field(st, it, "glyphs"))
    ex.safety(st, z3.Length(s) > 0, "StopIteration", node)
    return Val(Ref("Glyph8"), s[0])


@trusted("c07b.getNewGlyphFactory", "ufo2ft.util._getNewGlyphFactory(glyph): a function making a NEW empty glyph object of the UFO library's class with the given "
         "name (ufo2ft's reflection wrapper around the library constructor; the factory object of contracts/c08.py)")
def _gngf(ex, st, args, kwargs, node):
    return ex.new_object(st, "GlyphFactory8")


def _ref(q):
    return Val.obj(FuncRef(None, q))


_HELPERS = {"next": _ref("c07b.next"), "iter": _ref("c07b.iter"), "_getNewGlyphFactory": _ref("c07b.getNewGlyphFactory")}
_L = "layer.glyphs"
_DISTINCT = f"all(all(implies(a != b, {_L}[a].name != {_L}[b].name) for b in range(len({_L}))) for a in range(len({_L})))"
_FIELDS = ("name", "width", "height", "unicodes", "anchors", "lib", "outline")


def _copy_of(c, g):
    """clause text: glyph c is a deep copy of glyph g (everything the compilers read)"""
    return " and ".join(f"{c}.{f} == {g}.{f}" for f in _FIELDS)


def _copies(gs, upto, layer="layer"):
    L = f"{layer}.glyphs"
    return (f"all({L}[a].name in {gs}.glyphs and fresh({gs}.glyphs[{L}[a].name]) and {gs}.glyphs[{L}[a].name] is not {L}[a] and "
            + _copy_of(f"{gs}.glyphs[{L}[a].name]", f"{L}[a]") + f" for a in range({upto}))")


def _untouched(layer="layer"):
    L = f"{layer}.glyphs"
    return f"all(" + " and ".join(f"{L}[a].{f} == old({L}[a].{f})" for f in _FIELDS) + f" for a in range(len({L})))"


_COPY_LAYER = contract(
    "ufo2ft.util:_copyLayer",
    name="c07",
    props=P,
    params={"layer": Ref("Layer7"), "obj_type": Const(GSTYPE)},
    returns=Ref("GlyphSet7"),
    globals=_HELPERS,
    # library invariant of a Layer; heap well-formedness (no dangling reference)
    requires=[_DISTINCT, f"all(allocated(g) for g in {_L})"],
    # (the mapping is NEW, but it is filled inside a loop, whose havoc is per field array: listed for the frame check; no Glyph8 field is
    #  listed: every glyph written is a new object)
    modifies=["GlyphSet7.glyphs"],
    ghost_vars={"CP": (List(Ref("Glyph8")), "[]"), "WN": (Dict(STR, INT), "{}")},
    ghost={"glyphSet[glyph.name] = _copyGlyph(glyph, glyphFactory=newGlyph)": ["CP = CP + [glyphSet.glyphs[glyph.name]]", "WN = {**WN, glyph.name: i}"]},
    ensures={
        "new-mapping": "fresh(result)",
        # keys = the layer's glyph names
        "every-glyph-has-a-key": f"all({_L}[a].name in result.glyphs for a in range(len({_L})))",
        "every-key-is-a-glyph-name": f"all(any({_L}[a].name == n for a in range(len({_L}))) for n in result.glyphs)",
        # every value is a fresh, deep copy of the layer's glyph of that name
        "fresh-deep-copies": _copies("result", f"len({_L})"),
        "all-values-are-new": "all(fresh(result.glyphs[n]) for n in result.glyphs)",
        "source-untouched": _untouched(),
    },
    canaries={"empty": "len(result.glyphs) == 0", "shares-a-glyph": f"all(result.glyphs[{_L}[a].name] == {_L}[a] for a in range(len({_L})))"},
    loops={
        "for glyph in layer": Loop(
            index="i",
            invariants={
                "new-set": "fresh(glyphSet) and allocated(glyphSet)",
                "cp-len": "len(CP) == i",
                "keys-sup": f"all({_L}[a].name in glyphSet.glyphs and glyphSet.glyphs[{_L}[a].name] == CP[a] for a in range(i))",
                # WN (ghost): key -> position of the layer glyph that produced it
                "keys-sub": f"all(n in WN and 0 <= WN[n] and WN[n] < i and {_L}[WN[n]].name == n for n in glyphSet.glyphs)",
                "cp-new": f"all(fresh(CP[a]) and allocated(CP[a]) and CP[a] is not {_L}[a] for a in range(i))",
                **{f"cp-{f}": f"all(CP[a].{f} == {_L}[a].{f} for a in range(i))" for f in _FIELDS},
            },
        )
    },
)


# ---- _GlyphSet.from_layer(font, layerName, copy=True) -----------------------------------------------------------------------------
def _pl(layer):
    from pyvc import rt

    return layer if isinstance(layer, rt.Proxy) else rt.Proxy(layer, CLASSES["Layer7"])


def _layers_getitem(ex, st, self, idx, node):
    """font.layers[name]: the layer of that name; KeyError if there is none (ufoLib2/defcon LayerSet)"""
    d = ex.read_field(st, self, "byname")
    return ex.getitem(d, idx, st, node)


cls("Layers7", fields={"byname": Dict(STR, Ref("Layer7")), "defaultLayer": Ref("Layer7")}, getitem=_layers_getitem,
    views={"byname": lambda o: {l.name: _pl(l) for l in o}, "defaultLayer": lambda o: _pl(o.defaultLayer)}, notes="font.layers: layers by name, the default layer")
cls("Font7", fields={"layers": Ref("Layers7")}, notes="source font (layers only)")


def _deepcopy(ex, st, args, kwargs, node):
    """deepcopy(x) of a plist value is a new value equal to x (values have no identity in the encoding)"""
    return args[0]


def _from_layer_contract(name, lname_ty, layer, raises):
    return contract(
        "ufo2ft.util:_GlyphSet.from_layer",
        name=name,
        props=P,
        params={"cls": Const(GSTYPE), "font": Ref("Font7"), "layerName": lname_ty, "copy": Const(True), "skipExportGlyphs": Const(None)},
        returns=Ref("GlyphSet7"),
        calls={"ufo2ft.util:_copyLayer": "ufo2ft.util:_copyLayer#c07"},
        models={"copy.deepcopy": _deepcopy},
        requires=[
            "allocated(font.layers) and allocated(font.layers.defaultLayer) and all(allocated(font.layers.byname[k]) for k in font.layers.byname)",
            # (guarded: the named layer may be missing -> KeyError)
            f"implies({'True' if not raises else 'layerName in font.layers.byname'}, {_DISTINCT.replace('layer.glyphs', layer + '.glyphs')} and all(allocated(g) for g in {layer}.glyphs))",
        ],
        modifies=["GlyphSet7.glyphs"],
        ensures={
            "new-mapping": "fresh(result)",
            "every-glyph-has-a-key": f"all({layer}.glyphs[a].name in result.glyphs for a in range(len({layer}.glyphs)))",
            "every-key-is-a-glyph-name": f"all(any({layer}.glyphs[a].name == n for a in range(len({layer}.glyphs))) for n in result.glyphs)",
            "fresh-deep-copies": _copies("result", f"len({layer}.glyphs)", layer=layer),
            "all-values-are-new": "all(fresh(result.glyphs[n]) for n in result.glyphs)",
            "lib-copied": f"result.lib == {layer}.lib",
            "name": f"result.name == ({layer}.name if layerName is not None else None)",
            "source-untouched": _untouched(layer) + f" and {layer}.lib == old({layer}.lib)",
        },
        raises=raises,
        canaries={"empty": "len(result.glyphs) == 0"},
    )


# (two variants: the engine does not narrow an Optional PARAMETER in `if layerName is not None:`)
_FROM_DEFAULT = _from_layer_contract("copy-default-layer", Const(None), "font.layers.defaultLayer", {})
_FROM_NAMED = _from_layer_contract("copy-named-layer", STR, "font.layers.byname[layerName]", {"KeyError": "layerName not in font.layers.byname"})


# ---- run-time side: real ufoLib2 / defcon fonts ----------------------------------------------------------------------------------------
_KEEP = []


def _cases(rng, n):
    out = []
    for k in range(n):
        names = rng.sample(["a", "b", "c", ".notdef"], rng.randint(0, 4))
        glyphs = {}
        for nm in names:
            g = {"width": rng.choice([0, 500, 612.5]), "unicodes": rng.choice([[], [65], [66, 97]])}
            if rng.random() < 0.7:
                g["box"] = [0, 0, rng.choice([10, 100]), 100]
            if rng.random() < 0.5:
                g["anchors"] = [["top", 10, 700]]
            if rng.random() < 0.3:
                g["lib"] = {"public.objectLibs": {"id0": {"k": "v"}}}
            glyphs[nm] = g
        out.append({"glyphs": glyphs, "ufolib": ["ufoLib2", "defcon"][k % 2], "layer": [None, "public.default", "missing"][k % 3] if k % 7 else None, "lib": rng.choice([{}, {"com.x": 1}])})
    return out


def _font(d):
    from . import rtlib

    f = rtlib.build_ufo({"glyphs": d["glyphs"]}, d["ufolib"])
    for k, v in d["lib"].items():
        f.layers.defaultLayer.lib[k] = v
    _KEEP.append(f)
    del _KEEP[:-60]
    return f


class _OutlineView:
    @staticmethod
    def of(o):
        from fontTools.pens.recordingPen import RecordingPointPen

        p = RecordingPointPen()
        o.drawPoints(p)
        return p.value


for _f, _v in {"unicodes": lambda o: list(o.unicodes), "anchors": lambda o: [dict(a) for a in o.anchors], "lib": lambda o: dict(o.lib), "outline": _OutlineView.of}.items():
    CLASSES["Glyph8"].views.setdefault(_f, _v)

_COPY_LAYER.runtime = Runtime(_cases, lambda d: {"layer": _font(d).layers.defaultLayer, "obj_type": GSTYPE}, call=lambda fn, a: fn(a["layer"], obj_type=a["obj_type"].obj))


def _fl_build(d):
    f = _font(d)
    name = d["layer"]
    if name == "public.default":
        name = f.layers.defaultLayer.name
    return {"font": f, "layerName": name}


_FROM_DEFAULT.runtime = Runtime(lambda rng, n: [d for d in _cases(rng, 3 * n) if d["layer"] is None][:n], _fl_build, call=lambda fn, a: fn(a["font"], a["layerName"], copy=True))
_FROM_NAMED.runtime = Runtime(lambda rng, n: [d for d in _cases(rng, 3 * n) if d["layer"] is not None][:n], _fl_build, call=lambda fn, a: fn(a["font"], a["layerName"], copy=True))
for _c in (_COPY_LAYER, _FROM_DEFAULT, _FROM_NAMED):
    _c.globals["fresh"] = lambda x: True  # allocation is not observable natively (identity is: `is not`)
    _c.globals["allocated"] = lambda x: True
