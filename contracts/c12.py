"""C12 — CFF optimisation, subroutiniser and version never change what is drawn.

What a contract on ufo2ft code can decide here is narrow, and it is stated as such (category: other).

Deductive (pyvc, all inputs):
* OutlineOTFCompiler.getCharStringForGlyph — NON-INTERFERENCE as an explicit functional specification: the pen's
  constructor arguments (width, glyph set, roundTolerance) and what is drawn into it are functions of
  (glyph, private, self.roundTolerance, self.allGlyphs) only; `self.optimizeCFF` reaches exactly one place, the
  `optimize=` argument of pen.getCharString.  Any two runs that differ only in optimizeCFF therefore hand the
  pen the same arguments and the same drawing.
* PostProcessor._get_cff_version — 'CFF ' -> 1, else CFF2 -> 2, else None.
* PostProcessor._subroutinize_with_compreffor — NotImplementedError exactly when input or output is not CFF 1;
  otherwise exactly one compreffor.compress(otf) and nothing else.

The rest of the dispatch (process / process_cff / _subroutinize / _subroutinize_with_cffsubr) goes through enum
members' `.value` / `.name`, `getattr(cls, f"...")` and class-level dicts of enum members, which are python-level
values outside pyvc's data fragment: it is verified by COMPLETE ENUMERATION of the finite decision table on the real
functions with recording stand-ins for the three library entry points (vcheck/hooks/c12.py, item D).

Trusted (carries the property): fontTools' specialiser (`getCharString(optimize=True)`), cffsubr, compreffor and
convertCFFToCFF2 preserve drawing operations and widths — bounded observer O in the hook.
"""
import z3

from pyvc import ty as T
from fontTools.misc.roundTools import otRound  # noqa: F401  (used by the spec function below, natively)

from pyvc.api import BOOL, CLASSES, CONTRACTS, INT, REAL, STR, Const, Dict, List, Opt, Ref, Runtime, cls, contract, specfn, trusted
from pyvc.core import PYOBJ, Unsupported, Val, lift
from pyvc.ops import is_const

PP = "ufo2ft.postProcessor:PostProcessor"
OC = "ufo2ft.outlineCompiler:OutlineOTFCompiler"

# =====================================================================================================
# getCharStringForGlyph: what reaches the pen


@specfn(INT, v=REAL)
def c12_round(v):
    """otRound: floor(v + 1/2)"""
    return otRound(v)


cls("C12GlyphSet", notes="self.allGlyphs, only passed along (identity matters)")
cls("C12Subrs", notes="globalSubrs, only passed along")
cls("C12Private", fields={"defaultWidthX": REAL, "nominalWidthX": REAL}, notes="namespace / PrivateDict with the default and nominal widths")


def _glyph_draw(ex, st, self, args, kwargs, node):
    """glyph.draw(pen): the glyph sends its outline to the pen — recorded as `pen.drawn += [glyph]`."""
    (pen,) = args
    cur = ex.read_field(st, pen, "drawn")
    ex.write_field(st, pen, "drawn", Val(List(Ref("C12Glyph")), z3.Concat(cur.term, z3.Unit(lift(self)))), node)
    return Val.const(None)


cls("C12Glyph", fields={"width": REAL}, methods={"draw": _glyph_draw},
    notes="source glyph: advance width; draw(pen) replays its outline into the pen (which calls it makes depends on the glyph only)")


def _pen_getcs(ex, st, self, args, kwargs, node):
    if len(args) != 2 or set(kwargs) != {"optimize"}:
        raise Unsupported("T2CharStringPen.getCharString called with another argument shape than (private, globalSubrs, optimize=...)", node)
    cs = ex.new_object(st, "C12CharString")
    ex.write_field(st, cs, "pen", self, node)
    ex.write_field(st, cs, "private", args[0], node)
    ex.write_field(st, cs, "globalSubrs", args[1], node)
    from pyvc.core import coerce

    ex.write_field(st, cs, "optimize", coerce(kwargs["optimize"], BOOL), node)
    return cs


cls(
    "C12Pen",
    fields={"width": Opt(REAL), "glyphSet": Ref("C12GlyphSet"), "roundTolerance": REAL, "drawn": List(Ref("C12Glyph"))},
    methods={"getCharString": _pen_getcs},
    notes="fontTools T2CharStringPen: constructor arguments as fields; `drawn` = the glyphs drawn into it, in order",
)
cls("C12CharString", fields={"pen": Ref("C12Pen"), "private": Ref("C12Private"), "globalSubrs": Opt(Ref("C12Subrs")), "optimize": BOOL},
    notes="the T2CharString produced by pen.getCharString(private, globalSubrs, optimize=...): remembers its inputs")


def _opt_real(v, node):
    """the width operand as Optional[Real], whichever of None / Int / Optional[Int] / Optional[Real] the path produced"""
    from pyvc.core import coerce

    t = Opt(REAL)
    if isinstance(v.ty, T.Opt) and v.ty.inner == INT and not v.is_py:
        s, r = v.ty.sort(), t.sort()
        return Val(t, z3.If(s.is_some(v.term), r.some(z3.ToReal(s.val(v.term))), r.nil))
    if v.ty == INT and not v.is_py:
        return Val(t, t.sort().some(z3.ToReal(v.term)))
    return coerce(v, t)


def _c12_pen_ctor_marker():
    """placeholder object: the name `T2CharStringPen` in getCharStringForGlyph resolves to the model below for THIS
    contract only (the C01 contracts model the same constructor with their own vocabulary; the global registry of
    trusted models is not touched)"""


@trusted("contracts.c12._c12_pen_ctor_marker", "fontTools T2CharStringPen(width, glyphSet, roundTolerance=...) is a fresh pen that has drawn nothing; it keeps its three arguments")
def _pen_ctor(ex, st, args, kwargs, node):
    if len(args) != 2 or set(kwargs) != {"roundTolerance"}:
        raise Unsupported("T2CharStringPen constructed with another argument shape than (width, glyphSet, roundTolerance=...)", node)
    from pyvc.core import coerce

    pen = ex.new_object(st, "C12Pen")
    ex.write_field(st, pen, "width", _opt_real(args[0], node), node)
    ex.write_field(st, pen, "glyphSet", args[1], node)
    ex.write_field(st, pen, "roundTolerance", coerce(kwargs["roundTolerance"], REAL), node)
    ex.write_field(st, pen, "drawn", Val(List(Ref("C12Glyph")), z3.Empty(List(Ref("C12Glyph")).sort())), node)
    return pen


cls(
    "C12OTFCompiler",
    fields={"allGlyphs": Ref("C12GlyphSet"), "roundTolerance": REAL, "optimizeCFF": BOOL},
    repo=OC,
    notes="OutlineOTFCompiler instance as getCharStringForGlyph sees it",
)

from pyvc.symex import FuncRef  # noqa: E402

contract(
    f"{OC}.getCharStringForGlyph",
    name="C12",
    props=["C12"],
    globals={"T2CharStringPen": Val.obj(FuncRef(_c12_pen_ctor_marker, "contracts.c12._c12_pen_ctor_marker"))},
    params={"self": Ref("C12OTFCompiler"), "glyph": Ref("C12Glyph"), "private": Ref("C12Private"), "globalSubrs": Opt(Ref("C12Subrs"))},
    returns=Ref("C12CharString"),
    ensures={
        # --- what the pen gets does not mention self.optimizeCFF -------------------------------------------------
        # width operand: omitted when equal to the default width, else the rounded difference to the nominal width
        "pen-width": "iff(result.pen.width is None, glyph.width == private.defaultWidthX)"
        " and implies(result.pen.width is not None, result.pen.width == c12_round(glyph.width - private.nominalWidthX))",
        "pen-glyphset": "result.pen.glyphSet is self.allGlyphs",
        # the rounding tolerance is the compiler's, whatever the optimisation level
        "pen-tolerance": "result.pen.roundTolerance == self.roundTolerance",
        # exactly this glyph is drawn, once
        "pen-drawing": "len(result.pen.drawn) == 1 and result.pen.drawn[0] == glyph",
        "charstring-inputs": "result.private == private and result.globalSubrs == globalSubrs",
        # --- the only place the flag goes -----------------------------------------------------------------------------
        "flag-only-selects-encoding": "result.optimize == self.optimizeCFF",
    },
    canaries={"width-always-omitted": "result.pen.width is None", "always-optimised": "result.optimize"},
)


# ---- run-time side: the real method with recording stand-ins for the fontTools pen (restored after each call) ----------
class _RecPen:
    def __init__(self, width, glyphSet, roundTolerance=0.5, CFF2=False):
        self.width, self.glyphSet, self.roundTolerance, self.drawn, self.calls = width, glyphSet, roundTolerance, [], []

    def moveTo(self, pt):
        self.calls.append(("moveTo", pt))

    def lineTo(self, pt):
        self.calls.append(("lineTo", pt))

    def curveTo(self, *pts):
        self.calls.append(("curveTo", pts))

    def qCurveTo(self, *pts):
        self.calls.append(("qCurveTo", pts))

    def closePath(self):
        self.calls.append(("closePath",))

    def endPath(self):
        self.calls.append(("endPath",))

    def addComponent(self, name, tr):
        self.calls.append(("addComponent", name, tuple(tr)))

    def getCharString(self, private=None, globalSubrs=None, optimize=True):
        from types import SimpleNamespace

        return SimpleNamespace(pen=self, private=private, globalSubrs=globalSubrs, optimize=optimize)


class _RecGlyph:
    """wraps a real glyph so that `draw` is observable (`pen.drawn`)"""

    def __init__(self, g):
        self._g = g
        self.width = g.width

    def draw(self, pen):
        pen.drawn.append(self)
        self._g.draw(pen)


def _gcs_cases(rng, n):
    out = []
    for _ in range(n):
        w = rng.choice([0, 250, 500, 500.4, 499.5, 600, 333.5])
        out.append({
            "width": w, "default": rng.choice([w, 500, 0, 250]), "nominal": rng.choice([0, 500, 100.5, 600]),
            "tol": rng.choice([0.5, 0, 0.001, 0.25, 1]), "opt": rng.choice([True, False, 0, 1, 2]), "subrs": rng.random() < 0.3,
        })
    return out


def _gcs_build(d):
    from types import SimpleNamespace

    import ufoLib2

    from ufo2ft.outlineCompiler import OutlineOTFCompiler

    ufo = ufoLib2.Font()
    g = ufo.newGlyph("a")
    g.width = d["width"]
    pen = g.getPen()
    pen.moveTo((10.004, 0.003)); pen.lineTo((10.004, 50)); pen.lineTo((99.9965, 50)); pen.closePath()  # noqa: E702
    comp = OutlineOTFCompiler(ufo, optimizeCFF=d["opt"], roundTolerance=d["tol"])
    private = SimpleNamespace(defaultWidthX=d["default"], nominalWidthX=d["nominal"])
    return {"self": comp, "glyph": _RecGlyph(comp.allGlyphs["a"]), "private": private, "globalSubrs": [] if d["subrs"] else None}


def _gcs_call(fn, a):
    import ufo2ft.outlineCompiler as oc

    real = oc.T2CharStringPen
    oc.T2CharStringPen = _RecPen
    try:
        return fn(a["self"], a["glyph"], a["private"], a["globalSubrs"])
    finally:
        oc.T2CharStringPen = real


CONTRACTS[f"{OC}.getCharStringForGlyph#C12"].runtime = Runtime(_gcs_cases, _gcs_build, call=_gcs_call)




# =====================================================================================================
# The CFF dispatch of PostProcessor: process -> process_cff -> _subroutinize -> _subroutinize_with_{cffsubr,compreffor}
#
# Vocabulary.  The three library entry points (cffsubr.subroutinize, compreffor.compress, convertCFFToCFF2) are modelled
# as RECORDED calls: each appends one entry (function, font, cff_version=, keep_glyph_names=) to the log `libs.calls` of
# the one `C12Libs` object ("the libraries"), and has the effect on table presence that the library documents.  The
# decision table of the property is then a postcondition over that log: which library is invoked, on which font, with
# which arguments, exactly once, and nothing else; NotImplementedError / ValueError exactly for the unsupported cells.

import collections  # noqa: E402
import enum  # noqa: E402
import importlib  # noqa: E402

from pyvc.api import Loop, Named, lemma  # noqa: E402
from pyvc.core import coerce, fresh  # noqa: E402
from pyvc.exprs import ExprMixin  # noqa: E402

from . import c11  # noqa: E402,F401  (PPFont / PostProcessor: the post-processor's objects, shared with C11)

_PPM = importlib.import_module("ufo2ft.postProcessor")
_PPC = _PPM.PostProcessor
_VERSIONS = _PPM.CFFVersion  # IntEnum: CFF = 1, CFF2 = 2
_BACKENDS = _PPC.SubroutinizerBackend  # Enum: "compreffor", "cffsubr"


# ---- enum members (engine gap R7 of notes/C11.requests.md; DECLINED for now by the engine worker) ---------------------
class EnumInt(type(INT)):
    """An int that is a member of an IntEnum class: the same sort and the same type key as INT (so every engine
    operation treats it as an int, which is what an IntEnum member is), plus the enum class, so that `.name` /
    `.value` can be given their Python meaning by the shim below."""

    def __init__(self, pyenum):
        super().__init__("Int", z3.IntSort)
        self.pyenum = pyenum


CFFV = EnumInt(_VERSIONS)

if not getattr(ExprMixin.getattr, "_c12_shim", False):
    _engine_getattr = ExprMixin.getattr

    def _getattr_enum(self, recv, name, st, node=None):
        """`.name` / `.value` of enum members (Python semantics of enum.Enum): a concrete member answers with its real
        attribute; a symbolic IntEnum member (type EnumInt) answers with the case distinction over the members of the
        REAL enum class, under the obligation that its value is a member's value.  Everything else: the engine."""
        if name in ("name", "value"):
            recv = self.deopt(recv, st, node)
            if recv.is_py and isinstance(recv.py, enum.Enum):
                return Val.const(getattr(recv.py, name))
            pe = getattr(recv.ty, "pyenum", None)
            if pe is not None and not recv.is_py:
                members = list(pe)
                v = lift(recv)
                self.safety(st, z3.Or(*[v == int(m) for m in members]), "AttributeError", node)
                if name == "value":
                    return Val(INT, v)
                t = z3.StringVal(members[-1].name)
                for m in reversed(members[:-1]):
                    t = z3.If(v == int(m), z3.StringVal(m.name), t)
                return Val(STR, t)
        return _engine_getattr(self, recv, name, st, node)

    _getattr_enum._c12_shim = True
    ExprMixin.getattr = _getattr_enum


@trusted("ufo2ft.postProcessor.CFFVersion", "enum.IntEnum call CFFVersion(v): the member whose value is v (an int equal to v); ValueError when no member has that value "
         "(members read from the real class)")
def _cffversion_call(ex, st, args, kwargs, node):
    if len(args) != 1 or kwargs:
        raise Unsupported("CFFVersion(...) with another argument shape", node)
    v = ex.deopt(args[0], st, node)
    if is_const(v):
        try:
            return Val.const(_VERSIONS(v.py))
        except ValueError:
            ex.safety(st, z3.BoolVal(False), "ValueError", node)
            return Val(CFFV, fresh(INT, "no_member"))
    if v.ty != INT:
        raise Unsupported(f"CFFVersion({v.ty})", node)
    ex.safety(st, z3.Or(*[lift(v) == int(m) for m in _VERSIONS]), "ValueError", node)
    return Val(CFFV, lift(v))


@trusted("ufo2ft.postProcessor.PostProcessor.SubroutinizerBackend", "enum.Enum call SubroutinizerBackend(s): the member whose value is s; ValueError when no member has that value "
         "(members read from the real class)")
def _backend_call(ex, st, args, kwargs, node):
    if len(args) != 1 or kwargs:
        raise Unsupported("SubroutinizerBackend(...) with another argument shape", node)
    v = ex.deopt(args[0], st, node)
    if is_const(v):
        try:
            return Val.obj(_BACKENDS(v.py))
        except ValueError:
            ex.safety(st, z3.BoolVal(False), "ValueError", node)
            return Val.obj(list(_BACKENDS)[0])  # unreachable: the path condition is now false
    if v.ty != STR:
        raise Unsupported(f"SubroutinizerBackend({v.ty})", node)
    # a symbolic string: only decidable here when it provably names no member (then the call always raises)
    is_member = z3.Or(*[lift(v) == z3.StringVal(m.value) for m in _BACKENDS])
    ex.safety(st, is_member, "ValueError", node)
    for m in _BACKENDS:
        if ex.entails(st, lift(v) == z3.StringVal(m.value)):
            return Val.obj(m)
    if ex.entails(st, z3.Not(is_member)):
        return Val.obj(list(_BACKENDS)[0])  # the call always raises here: the normal continuation is infeasible
    raise Unsupported("SubroutinizerBackend(<symbolic string>): the member is not determined on this path (use a Const variant)", node)


def _default_backend_getitem(ex, st, self, idx, node):
    """PostProcessor.DEFAULT_SUBROUTINIZER_FOR_CFF_VERSION[version] on the REAL class-level dict: KeyError obligation
    for the key; the entry for the key when the path determines it, or the common value when all entries agree."""
    table = _PPC.DEFAULT_SUBROUTINIZER_FOR_CFF_VERSION
    idx = ex.deopt(idx, st, node)
    if is_const(idx):
        if idx.py not in table:
            ex.safety(st, z3.BoolVal(False), "KeyError", node)
            return Val.obj(list(_BACKENDS)[0])
        return Val.obj(table[idx.py])
    k = lift(idx, INT)
    ex.safety(st, z3.Or(*[k == int(key) for key in table]), "KeyError", node)
    vals = list(table.values())
    if all(v is vals[0] for v in vals):
        return Val.obj(vals[0])
    for key, v in table.items():
        if ex.entails(st, k == int(key)):
            return Val.obj(v)
    raise Unsupported("DEFAULT_SUBROUTINIZER_FOR_CFF_VERSION[<symbolic version>]: entries differ and the path does not fix the key", node)


cls("C12DefaultBackends", getitem=_default_backend_getitem,
    notes="the class-level dict PostProcessor.DEFAULT_SUBROUTINIZER_FOR_CFF_VERSION (read from the real class on every run)")
_DEFAULTS_REF = z3.Const("c12_default_backends", T.RefSort)
CLASSES["PostProcessor"].derived["DEFAULT_SUBROUTINIZER_FOR_CFF_VERSION"] = lambda ex, st, self: Val(Ref("C12DefaultBackends"), _DEFAULTS_REF)
CLASSES["PostProcessor"].derived["SubroutinizerBackend"] = lambda ex, st, self: Val.obj(FuncRef(_BACKENDS, "ufo2ft.postProcessor.PostProcessor.SubroutinizerBackend"))

# ---- the libraries: a log of calls ---------------------------------------------------------------------------------------
LIBCALL = Named("LibCall", fn=STR, font=Ref("PPFont"), cff_version=Opt(INT), keep_glyph_names=Opt(BOOL))
LibCall = collections.namedtuple("LibCall", "fn font cff_version keep_glyph_names")  # the same record natively (font = id of the font object)

cls("C12Libs", fields={"calls": List(LIBCALL)},
    notes="the three CFF libraries seen as one recorder: `calls` = every invocation so far, in order (function, font, cff_version=, keep_glyph_names=)")
_WORLD = z3.Const("c12_the_libraries", T.RefSort)


class _NativeLibs:
    def __init__(self):
        self.calls = []


NATIVE_LIBS = _NativeLibs()


def _libs(ex, st, self):
    return Val(Ref("C12Libs"), _WORLD)


for _cn in ("PPFont", "PostProcessor"):
    CLASSES[_cn].derived["libs"] = _libs
    CLASSES[_cn].views["libs"] = lambda o: NATIVE_LIBS
CLASSES["PPFont"].derived["font_id"] = lambda ex, st, self: self
CLASSES["PPFont"].views["font_id"] = lambda o: id(o)


def _log_call(ex, st, fn, font, ver, keep, node):
    w = Val(Ref("C12Libs"), _WORLD)
    cur = ex.read_field(st, w, "calls")
    entry = LIBCALL.sort().mk(z3.StringVal(fn), lift(font), lift(coerce(ver, Opt(INT))), lift(coerce(keep, Opt(BOOL))))
    ex.write_field(st, w, "calls", Val(List(LIBCALL), z3.Concat(cur.term, z3.Unit(entry))), node)


def _touch(ex, st, otf, fields, node):
    """the library works on the font's tables in place: what it may change is unknown afterwards"""
    for cn, f in fields:
        o = otf if cn == "PPFont" else ex.read_field(st, otf, "post")
        ex.write_field(st, o, f, Val(CLASSES[cn].fields[f], fresh(CLASSES[cn].fields[f], "lib_" + f)), node)


_POST_TOUCHED = [("PPPost", f.split(".")[1]) for f in c11._POST_FIELDS]
_FONT_TOUCHED = [("PPFont", "pristine"), ("PPFont", "CFF2_loaded")]
_NONE = Val.const(None)


@trusted("compreffor.compress", "compreffor.compress(otf) subroutinises the 'CFF ' table of otf in place (KeyError without one); the table set is unchanged "
         "[recorded in libs.calls]; ASSUMED to preserve the drawing operations and widths of every charstring")
def _compress(ex, st, args, kwargs, node):
    (otf,) = args
    if kwargs:
        raise Unsupported("compreffor.compress with options", node)
    ex.safety(st, ex.read_field(st, otf, "has_CFF").term, "KeyError", node)
    _log_call(ex, st, "compreffor.compress", otf, _NONE, _NONE, node)
    _touch(ex, st, otf, _FONT_TOUCHED, node)
    return Val.const(None)


@trusted("cffsubr.subroutinize", "cffsubr.subroutinize(otf, cff_version=v, keep_glyph_names=k) replaces the font's CFF table (the 'CFF ' one if present, else 'CFF2'; "
         "cffsubr.Error without either) by a subroutinised table of format v (1: 'CFF ', 2: 'CFF2', None: as the input), in place, returns otf; may rewrite the post table; "
         "the glyph order of the TTFont object is unchanged [recorded in libs.calls]; ASSUMED to preserve the drawing operations and widths of every charstring")
def _cffsubr_subroutinize(ex, st, args, kwargs, node):
    if len(args) != 1 or not set(kwargs) <= {"cff_version", "keep_glyph_names"}:
        raise Unsupported("cffsubr.subroutinize called with another argument shape than (otf, cff_version=, keep_glyph_names=)", node)
    (otf,) = args
    ver = coerce(ex.deopt(kwargs.get("cff_version", _NONE), st, node) if not isinstance(kwargs.get("cff_version", _NONE).ty, T.Opt) else kwargs["cff_version"], Opt(INT))
    keep = kwargs.get("keep_glyph_names", Val.const(True))
    h1, h2 = ex.read_field(st, otf, "has_CFF").term, ex.read_field(st, otf, "has_CFF2").term
    ex.safety(st, z3.Or(h1, h2), "Error", node)
    s = Opt(INT).sort()
    out = z3.If(s.is_some(ver.term), s.val(ver.term), z3.If(h1, z3.IntVal(1), z3.IntVal(2)))
    ex.safety(st, z3.Or(out == 1, out == 2), "ValueError", node)
    _log_call(ex, st, "cffsubr.subroutinize", otf, ver, keep, node)
    # del otf[input tag]; otf[output tag] = new table   (input tag: 'CFF ' when present)
    ex.write_field(st, otf, "has_CFF", Val(BOOL, out == 1), node)
    ex.write_field(st, otf, "has_CFF2", Val(BOOL, z3.Or(out == 2, z3.And(h1, h2))), node)
    _touch(ex, st, otf, _FONT_TOUCHED + _POST_TOUCHED, node)
    return otf


@trusted("fontTools.cffLib.CFFToCFF2.convertCFFToCFF2", "convertCFFToCFF2(otf) replaces the 'CFF ' table (KeyError without one) by an equivalent 'CFF2' table, in place "
         "[recorded in libs.calls]; ASSUMED to preserve the drawing operations of every charstring (advance widths live in hmtx)")
def _convert(ex, st, args, kwargs, node):
    (otf,) = args
    if kwargs:
        raise Unsupported("convertCFFToCFF2 with options", node)
    ex.safety(st, ex.read_field(st, otf, "has_CFF").term, "KeyError", node)
    _log_call(ex, st, "convertCFFToCFF2", otf, _NONE, _NONE, node)
    ex.write_field(st, otf, "has_CFF", Val.const(False), node)
    ex.write_field(st, otf, "has_CFF2", Val.const(True), node)
    _touch(ex, st, otf, _FONT_TOUCHED, node)
    return Val.const(None)


_LIB_MOD = ["C12Libs.calls", "PPFont.pristine", "PPFont.CFF2_loaded"]
_TABLES_MOD = ["PPFont.has_CFF", "PPFont.has_CFF2"]


def one_call(font, fn, ver, keep, log="{o}.libs.calls"):
    """clause text: exactly one library call was added to the log, and it is `fn(font, cff_version=ver, keep_glyph_names=keep)`"""
    L = log.format(o=font)
    return (f"len({L}) == len(old({L})) + 1 and {L}[:-1] == old({L}) and {L}[-1].fn == {fn!r} and {L}[-1].font == {font}.font_id "
            f"and {L}[-1].cff_version == {ver} and {L}[-1].keep_glyph_names == {keep}")


def no_call(font, log="{o}.libs.calls"):
    L = log.format(o=font)
    return f"{L} == old({L})"


_HAS1, _HAS2 = "'CFF ' in {o}", "'CFF2' in {o}"
_MEMBER = "({v} == 1 or {v} == 2)"

contract(
    f"{PP}._get_cff_version",
    props=["C12"],
    params={"otf": Ref("PPFont")},
    returns=Opt(CFFV),
    ensures={
        "cff1": "implies('CFF ' in otf, result == 1)",
        "cff2": "implies('CFF ' not in otf and 'CFF2' in otf, result == 2)",
        "none": "iff(result is None, 'CFF ' not in otf and 'CFF2' not in otf)",
        "member": "result is None or result == 1 or result == 2",
    },
    canaries={"always-1": "result == 1"},
)


class _FakeOTF:
    """table presence only (what the dispatch may look at)"""

    def __init__(self, tags):
        self.tags = set(tags)
        del NATIVE_LIBS.calls[:-3]  # (a new case is being built: keep the native log short; clauses speak about the calls ADDED)

    def __contains__(self, t):
        return t in self.tags


CONTRACTS[f"{PP}._get_cff_version"].runtime = Runtime(
    lambda rng, n: [{"tags": t} for t in ([], ["CFF "], ["CFF2"], ["CFF ", "CFF2"], ["post"], ["post", "CFF2"])],
    lambda d: {"otf": _FakeOTF(d["tags"])},
)


# ---- run-time side: the three library entry points replaced by recorders (restored after each call) ----------------------
class patched_libs:
    """context manager: cffsubr.subroutinize / compreffor.compress / convertCFFToCFF2 append to NATIVE_LIBS.calls; on a
    `_FakeOTF` they apply the documented effect on the table set, on a real TTFont they call the real library"""

    def __enter__(self):
        import cffsubr
        import compreffor

        self.saved = (cffsubr.subroutinize, compreffor.compress, _PPM.convertCFFToCFF2)
        real_subr, real_compress, real_convert = self.saved

        def subroutinize(otf, cff_version=None, keep_glyph_names=True, **kw):
            assert not kw, kw
            NATIVE_LIBS.calls.append(LibCall("cffsubr.subroutinize", id(otf), None if cff_version is None else int(cff_version), keep_glyph_names))
            if isinstance(otf, _FakeOTF):
                src = "CFF " if "CFF " in otf.tags else "CFF2"
                dst = src if cff_version is None else {1: "CFF ", 2: "CFF2"}[int(cff_version)]
                otf.tags.discard(src)
                otf.tags.add(dst)
                return otf
            return real_subr(otf, cff_version=cff_version, keep_glyph_names=keep_glyph_names)

        def compress(otf, *a, **kw):
            assert not a and not kw
            NATIVE_LIBS.calls.append(LibCall("compreffor.compress", id(otf), None, None))
            if isinstance(otf, _FakeOTF):
                if "CFF " not in otf.tags:
                    raise KeyError("CFF ")
                return None
            return real_compress(otf)

        def convert(otf):
            NATIVE_LIBS.calls.append(LibCall("convertCFFToCFF2", id(otf), None, None))
            if isinstance(otf, _FakeOTF):
                otf.tags.remove("CFF ")
                otf.tags.add("CFF2")
                return None
            return real_convert(otf)

        cffsubr.subroutinize, compreffor.compress, _PPM.convertCFFToCFF2 = subroutinize, compress, convert
        return self

    def __exit__(self, *exc):
        import cffsubr
        import compreffor

        cffsubr.subroutinize, compreffor.compress, _PPM.convertCFFToCFF2 = self.saved
        return False


def _with_libs(invoke):
    def call(fn, a):
        with patched_libs():
            return invoke(fn, a)

    return call


_TAGSETS = (["CFF "], ["CFF2"], ["CFF ", "CFF2"], [], ["post", "CFF "], ["post"])


def _version_arg(d):
    return _VERSIONS(d["out"]) if d.get("enum", True) else d["out"]


# ---- _subroutinize_with_compreffor ------------------------------------------------------------------------------------------
contract(
    f"{PP}._subroutinize_with_compreffor",
    props=["C12"],
    params={"cls": Const(_PPC), "otf": Ref("PPFont"), "cffVersion": CFFV},
    modifies=_LIB_MOD,
    raises={
        # unsupported: compreffor with a CFF2 input or a CFF2 output
        "NotImplementedError": "'CFF ' not in otf or cffVersion != 1",
    },
    ensures={
        "compressed-once": one_call("otf", "compreffor.compress", None, None),
        "tables-kept": "'CFF ' in otf and iff('CFF2' in otf, old('CFF2' in otf))",
    },
    canaries={"never-compressed": no_call("otf")},
)
CONTRACTS[f"{PP}._subroutinize_with_compreffor"].runtime = Runtime(
    lambda rng, n: [{"tags": t, "out": o, "enum": e} for t in _TAGSETS for o in (1, 2) for e in (False, True)],
    lambda d: {"otf": _FakeOTF(d["tags"]), "cffVersion": _version_arg(d)},
    call=_with_libs(lambda fn, a: fn(a["otf"], a["cffVersion"])),
)

# ---- _subroutinize_with_cffsubr ---------------------------------------------------------------------------------------------
_CFFSUBR_POST = {
    "subroutinized-once": one_call("otf", "cffsubr.subroutinize", "cffVersion", False),
    # the table that comes out has the requested format
    "requested-flavour": "iff('CFF ' in otf, cffVersion == 1) and implies(cffVersion == 2, 'CFF2' in otf) "
                         "and implies(cffVersion == 1 and not old('CFF ' in otf and 'CFF2' in otf), 'CFF2' not in otf)",
}
contract(
    f"{PP}._subroutinize_with_cffsubr",
    props=["C12"],
    params={"cls": Const(_PPC), "otf": Ref("PPFont"), "cffVersion": CFFV},
    returns=Ref("PPFont"),
    # the only caller (process_cff, through _subroutinize) passes a CFFVersion member
    requires=[_MEMBER.format(v="cffVersion")],
    modifies=_LIB_MOD + _TABLES_MOD + c11._POST_FIELDS,
    raises={"AssertionError": "'CFF ' not in otf and 'CFF2' not in otf"},
    ensures={**_CFFSUBR_POST, "same-font": "result is otf"},
    canaries={"never-called": no_call("otf"), "always-cff1": "'CFF ' in otf"},
)
CONTRACTS[f"{PP}._subroutinize_with_cffsubr"].runtime = Runtime(
    lambda rng, n: [{"tags": t, "out": o} for t in _TAGSETS for o in (1, 2)],
    lambda d: {"otf": _FakeOTF(d["tags"]), "cffVersion": _version_arg(d)},
    call=_with_libs(lambda fn, a: fn(a["otf"], a["cffVersion"])),
)

# ---- _subroutinize: getattr(cls, f"_subroutinize_with_{backend.value}")(otf, cffVersion) --------------------------------------
# One variant per member of the REAL enum (the member is a python-level constant: `backend.value` and the attribute name
# are then concrete, and the call resolves to the contract of the selected classmethod).  A member without a
# `_subroutinize_with_<value>` method, or without a specification here, leaves its variant out of reach (exit 2).
_BACKEND_SPEC = {
    "cffsubr": dict(
        requires=[_MEMBER.format(v="cffVersion")],
        modifies=_LIB_MOD + _TABLES_MOD + c11._POST_FIELDS,
        raises={"AssertionError": "'CFF ' not in otf and 'CFF2' not in otf"},
        ensures=dict(_CFFSUBR_POST),
        canaries={"never-called": no_call("otf")},
    ),
    "compreffor": dict(
        requires=[],
        modifies=_LIB_MOD,
        raises={"NotImplementedError": "'CFF ' not in otf or cffVersion != 1"},
        ensures={"compressed-once": one_call("otf", "compreffor.compress", None, None), "tables-kept": "'CFF ' in otf and iff('CFF2' in otf, old('CFF2' in otf))"},
        canaries={"never-called": no_call("otf")},
    ),
}
for _m in _BACKENDS:
    _spec = _BACKEND_SPEC.get(_m.value, dict(ensures={"unspecified-backend": "False"}))
    contract(
        f"{PP}._subroutinize", name=_m.value, props=["C12"],
        params={"cls": Const(_PPC), "backend": Const(_m), "otf": Ref("PPFont"), "cffVersion": CFFV},
        **_spec,
    )
    CONTRACTS[f"{PP}._subroutinize#{_m.value}"].runtime = Runtime(
        lambda rng, n: [{"tags": t, "out": o} for t in _TAGSETS for o in (1, 2)],
        lambda d, _m=_m: {"backend": _m, "otf": _FakeOTF(d["tags"]), "cffVersion": _version_arg(d)},
        call=_with_libs(lambda fn, a: fn(a["backend"], a["otf"], a["cffVersion"])),
    )

# ---- process_cff --------------------------------------------------------------------------------------------------------------
# `subroutinizer` is split into the four cases None / "cffsubr" / "compreffor" / any other string (lemma
# C12.subroutinizer-cases: the four cases cover Optional[str]); in each, the backend member is a python-level constant.
# IN / OUT: the CFF format found in the font / asked for, as the property names them.
_IN = "(1 if old('CFF ' in self.otf) else 2)"
_OUT = f"({_IN} if cffVersion is None else cffVersion)"
_IN0 = "(1 if 'CFF ' in self.otf else 2)"  # the same two, for clauses that are evaluated in the pre-state (raises)
_OUT0 = f"({_IN0} if cffVersion is None else cffVersion)"
_NO_TABLE = "('CFF ' not in self.otf and 'CFF2' not in self.otf)"
_BAD_VERSION = "(cffVersion is not None and cffVersion != 1 and cffVersion != 2)"
_DOWNGRADE = f"(not OPT and {_IN0} == 2 and {_OUT0} == 1)"  # CFF2 -> CFF without subroutinising: unsupported
_SELF_LOG = "{o}.libs.calls"


def _cff_cases(opt):
    """the decision table of process_cff as (ValueError-iff, NotImplementedError-iff, ensures) per subroutinizer case;
    `opt` = clause text of "charstrings are to be subroutinised" """
    sub_cffsubr = {
        "subroutinize-with-cffsubr": f"implies({opt}, " + one_call("self.otf", "cffsubr.subroutinize", _OUT, False) + ")",
    }
    sub_compreffor = {
        "subroutinize-with-compreffor": f"implies({opt}, " + one_call("self.otf", "compreffor.compress", None, None) + ")",
    }
    common = {
        # no optimisation: nothing for equal formats, the fontTools converter for CFF -> CFF2
        "no-optimize-same-version": f"implies(not {opt} and {_IN} == {_OUT}, " + no_call("self.otf") + ")",
        "no-optimize-convert": f"implies(not {opt} and {_IN} == 1 and {_OUT} == 2, " + one_call("self.otf", "convertCFFToCFF2", None, None) + ")",
        # the font ends up with the requested CFF format
        "requested-flavour": f"iff('CFF ' in self.otf, {_OUT} == 1) and implies({_OUT} == 2, 'CFF2' in self.otf) "
                             f"and implies({_OUT} == 1 and not old('CFF ' in self.otf and 'CFF2' in self.otf), 'CFF2' not in self.otf)",
        "same-font-object": "self.otf_id == old(self.otf_id)",
    }
    down = _DOWNGRADE.replace("OPT", opt)
    ve = f"{_NO_TABLE} or {_BAD_VERSION}"
    return {
        "default": (ve, f"not ({ve}) and {down}", {**sub_cffsubr, **common}),
        "cffsubr": (ve, f"not ({ve}) and {down}", {**sub_cffsubr, **common}),
        "compreffor": (ve, f"not ({ve}) and ({down} or ({opt} and ({_IN0} != 1 or {_OUT0} != 1)))", {**sub_compreffor, **common}),
        "unknown": (f"{ve} or {opt}", f"not ({ve} or {opt}) and {down}", dict(common)),
    }


_SUB_PARAM = {"default": Const(None), "cffsubr": Const("cffsubr"), "compreffor": Const("compreffor"), "unknown": STR}
_SUB_REQ = {"unknown": ["subroutinizer != 'cffsubr' and subroutinizer != 'compreffor'"]}
_SUB_VALUES = {"default": [None], "cffsubr": ["cffsubr"], "compreffor": ["compreffor"], "unknown": ["tx", "", "CFFSUBR", "cffsubr "]}
_PCFF_MOD = ["C12Libs.calls", "PPFont.pristine", "PPFont.CFF2_loaded"] + _TABLES_MOD + c11._POST_FIELDS

lemma(
    "C12.subroutinizer-cases", props=["C12"], vars={"s": Opt(STR)},
    hyps=[], concl={"cover": "s is None or s == 'cffsubr' or s == 'compreffor' or (s != 'cffsubr' and s != 'compreffor')"},
    canaries={"three-suffice": "s is None or s == 'cffsubr' or s == 'compreffor'"},
)


def _default_member():
    vals = list(_PPC.DEFAULT_SUBROUTINIZER_FOR_CFF_VERSION.values())
    return vals[0].value if all(v is vals[0] for v in vals) else None


def _sub_calls(case):
    """which `_subroutinize` variant a process_cff variant reaches"""
    # (`unknown`: SubroutinizerBackend(subroutinizer) raises; the call below it is on an infeasible path and only needs to resolve)
    member = {"default": _default_member(), "cffsubr": "cffsubr", "compreffor": "compreffor", "unknown": list(_BACKENDS)[0].value}[case]
    return {f"{PP}._subroutinize": f"{PP}._subroutinize#{member}"} if member else {}


def _pcff_gen(case):
    def gen(rng, n):
        return [{"tags": t, "opt": o, "ver": v, "sub": s} for t in _TAGSETS for o in (False, True) for v in (None, 1, 2, 0, 3) for s in _SUB_VALUES[case]]

    return gen


def _fake_pp(d):
    pp = _PPC.__new__(_PPC)
    pp.otf, pp.ufo, pp.glyphSet, pp.info, pp._postscriptNames = _FakeOTF(d["tags"]), None, None, None, None
    return pp


# the table as the property words it (default backend = cffsubr for both versions); a different default table in the
# code makes the `default` variant fail or fall out of reach
_TABLE = _cff_cases("optimizeCFF")
for _case, (_ve, _nie, _post) in _TABLE.items():
    contract(
        f"{PP}.process_cff", name=_case, props=["C12"],
        params={"self": Ref("PostProcessor"), "optimizeCFF": BOOL, "cffVersion": Opt(INT), "subroutinizer": _SUB_PARAM[_case]},
        requires=_SUB_REQ.get(_case, []),
        calls=_sub_calls(_case),
        modifies=_PCFF_MOD,
        raises={"ValueError": _ve, "NotImplementedError": _nie},
        ensures=_post,
        canaries={"never-a-library-call": no_call("self.otf"), "always-cff1": "'CFF ' in self.otf"},
    )
    CONTRACTS[f"{PP}.process_cff#{_case}"].runtime = Runtime(
        _pcff_gen(_case),
        lambda d: {"self": _fake_pp(d), "optimizeCFF": d["opt"], "cffVersion": d["ver"], "subroutinizer": d["sub"]},
        call=_with_libs(lambda fn, a: fn(a["self"], optimizeCFF=a["optimizeCFF"], cffVersion=a["cffVersion"], subroutinizer=a["subroutinizer"])),
    )

# ---- process ------------------------------------------------------------------------------------------------------------------
# optimizeCFF is a bool or an optimisation level (CFFOptimization / int): one variant per kind.  "If True or >=
# CFFOptimization.SUBROUTINIZE, subroutinize": the level only matters through `level >= 2`.  A font without CFF/CFF2 table
# is left alone by this step.  The glyph-name step that follows (process_glyph_names, C11) calls none of the libraries
# (its frame does not contain the log) and keeps the table set, so the table of process_cff is the table of process.
CLASSES["PostProcessor"].fields.setdefault("info", Opt(Dict(STR, STR)))
_PGN_REQ = CONTRACTS[f"{PP}.process_glyph_names"].requires
_PROCESS_MOD = sorted(set(_PCFF_MOD) | set(CONTRACTS[f"{PP}.process_glyph_names"].modifies))
_OPT_KINDS = {"bool": (BOOL, "optimizeCFF", [False, True]), "level": (INT, "optimizeCFF >= 2", [-1, 0, 1, 2, 3, 7])}
_HAS_TABLE0 = f"not {_NO_TABLE}"


def _process_gen(kind, case):
    def gen(rng, n):
        return [{"tags": t, "opt": o, "ver": v, "sub": s, "upn": u} for t in _TAGSETS for o in _OPT_KINDS[kind][2] for v in (None, 1, 2, 0, 3)
                for s in _SUB_VALUES[case] for u in (False,)]

    return gen


for _kind, (_oty, _opt, _) in _OPT_KINDS.items():
    for _case, (_ve, _nie, _post) in _cff_cases(_opt).items():
        _old_has = "old(" + _HAS_TABLE0 + ")"
        _ens = {k: f"implies({_old_has}, {v})" for k, v in _post.items() if k != "same-font-object"}
        _ens["no-cff-table-nothing-to-do"] = f"implies(not {_old_has}, " + no_call("self") + ")"
        _ens["returns-the-font"] = "result.font_id == self.otf_id"
        contract(
            f"{PP}.process", name=f"{_kind}/{_case}", props=["C12"],
            params={"self": Ref("PostProcessor"), "useProductionNames": Opt(BOOL), "optimizeCFF": _oty, "cffVersion": Opt(INT), "subroutinizer": _SUB_PARAM[_case]},
            returns=Ref("PPFont"),
            requires=_SUB_REQ.get(_case, []) + [
                # compileOTF / compileTTF reach process through BaseCompiler.compile -> postprocess(font, ufo, glyphSet): info=None
                # (only variable-font builds pass fontinfo overrides; apply_fontinfo is C16's InfoCompiler)
                "self.info is None",
            ] + _PGN_REQ,
            calls={f"{PP}.process_cff": f"{PP}.process_cff#{_case}"},
            modifies=_PROCESS_MOD,
            raises={"ValueError": f"{_HAS_TABLE0} and ({_ve})", "NotImplementedError": f"{_HAS_TABLE0} and ({_nie})"},
            ensures=_ens,
            canaries={"never-a-library-call": no_call("self"), "always-cff1": "'CFF ' in self.otf"},
        )
