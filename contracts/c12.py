"""C12 — CFF optimisation, subroutiniser and version never change what is drawn.

What a contract on ufo2ft code can decide here is narrow, and it is stated as such (category: other).

Deductive (pyvc, all inputs):
* OutlineOTFCompiler.getCharStringForGlyph — NON-INTERFERENCE as an explicit functional specification: the pen's
  constructor arguments (width, glyph set, roundTolerance) and what is drawn into it are functions of
  (glyph, private, self.roundTolerance, self.allGlyphs) only; `self.optimizeCFF` reaches exactly one place, the
  `optimize=` argument of pen.getCharString.  Any two runs that differ only in optimizeCFF therefore hand the
  pen the same arguments and the same drawing.
* PostProcessor._get_cff_version — 'CFF ' -> 1, else CFF2 -> 2, else None.
* PostProcessor._subroutinize_with_compreffor — NotImplementedError exactly when input or output is not CFF 1;
  otherwise exactly one compreffor.compress(otf) and nothing else.

The rest of the dispatch (process / process_cff / _subroutinize / _subroutinize_with_cffsubr) goes through enum
members' `.value` / `.name`, `getattr(cls, f"...")` and class-level dicts of enum members, which are python-level
values outside pyvc's data fragment: it is verified by COMPLETE ENUMERATION of the finite decision table on the real
functions with recording stand-ins for the three library entry points (vcheck/hooks/c12.py, item D).

Trusted (carries the property): fontTools' specialiser (`getCharString(optimize=True)`), cffsubr, compreffor and
convertCFFToCFF2 preserve drawing operations and widths — bounded observer O in the hook.
"""
import z3

from pyvc import ty as T
from fontTools.misc.roundTools import otRound  # noqa: F401  (used by the spec function below, natively)

from pyvc.api import BOOL, CLASSES, CONTRACTS, INT, REAL, STR, Const, Dict, List, Opt, Ref, Runtime, cls, contract, specfn, trusted
from pyvc.core import PYOBJ, Unsupported, Val, lift
from pyvc.ops import is_const

PP = "ufo2ft.postProcessor:PostProcessor"
OC = "ufo2ft.outlineCompiler:OutlineOTFCompiler"

# =====================================================================================================
# getCharStringForGlyph: what reaches the pen


@specfn(INT, v=REAL)
def c12_round(v):
    """otRound: floor(v + 1/2)"""
    return otRound(v)


cls("C12GlyphSet", notes="self.allGlyphs, only passed along (identity matters)")
cls("C12Subrs", notes="globalSubrs, only passed along")
cls("C12Private", fields={"defaultWidthX": REAL, "nominalWidthX": REAL}, notes="namespace / PrivateDict with the default and nominal widths")


def _glyph_draw(ex, st, self, args, kwargs, node):
    """glyph.draw(pen): the glyph sends its outline to the pen — recorded as `pen.drawn += [glyph]`."""
    (pen,) = args
    cur = ex.read_field(st, pen, "drawn")
    ex.write_field(st, pen, "drawn", Val(List(Ref("C12Glyph")), z3.Concat(cur.term, z3.Unit(lift(self)))), node)
    return Val.const(None)


cls("C12Glyph", fields={"width": REAL}, methods={"draw": _glyph_draw},
    notes="source glyph: advance width; draw(pen) replays its outline into the pen (which calls it makes depends on the glyph only)")


def _pen_getcs(ex, st, self, args, kwargs, node):
    if len(args) != 2 or set(kwargs) != {"optimize"}:
        raise Unsupported("T2CharStringPen.getCharString called with another argument shape than (private, globalSubrs, optimize=...)", node)
    cs = ex.new_object(st, "C12CharString")
    ex.write_field(st, cs, "pen", self, node)
    ex.write_field(st, cs, "private", args[0], node)
    ex.write_field(st, cs, "globalSubrs", args[1], node)
    from pyvc.core import coerce

    ex.write_field(st, cs, "optimize", coerce(kwargs["optimize"], BOOL), node)
    return cs


cls(
    "C12Pen",
    fields={"width": Opt(REAL), "glyphSet": Ref("C12GlyphSet"), "roundTolerance": REAL, "drawn": List(Ref("C12Glyph"))},
    methods={"getCharString": _pen_getcs},
    notes="fontTools T2CharStringPen: constructor arguments as fields; `drawn` = the glyphs drawn into it, in order",
)
cls("C12CharString", fields={"pen": Ref("C12Pen"), "private": Ref("C12Private"), "globalSubrs": Opt(Ref("C12Subrs")), "optimize": BOOL},
    notes="the T2CharString produced by pen.getCharString(private, globalSubrs, optimize=...): remembers its inputs")


def _opt_real(v, node):
    """the width operand as Optional[Real], whichever of None / Int / Optional[Int] / Optional[Real] the path produced"""
    from pyvc.core import coerce

    t = Opt(REAL)
    if isinstance(v.ty, T.Opt) and v.ty.inner == INT and not v.is_py:
        s, r = v.ty.sort(), t.sort()
        return Val(t, z3.If(s.is_some(v.term), r.some(z3.ToReal(s.val(v.term))), r.nil))
    if v.ty == INT and not v.is_py:
        return Val(t, t.sort().some(z3.ToReal(v.term)))
    return coerce(v, t)


def _c12_pen_ctor_marker():
    """placeholder object: the name `T2CharStringPen` in getCharStringForGlyph resolves to the model below for THIS
    contract only (the C01 contracts model the same constructor with their own vocabulary; the global registry of
    trusted models is not touched)"""


@trusted("contracts.c12._c12_pen_ctor_marker", "fontTools T2CharStringPen(width, glyphSet, roundTolerance=...) is a fresh pen that has drawn nothing; it keeps its three arguments")
def _pen_ctor(ex, st, args, kwargs, node):
    if len(args) != 2 or set(kwargs) != {"roundTolerance"}:
        raise Unsupported("T2CharStringPen constructed with another argument shape than (width, glyphSet, roundTolerance=...)", node)
    from pyvc.core import coerce

    pen = ex.new_object(st, "C12Pen")
    ex.write_field(st, pen, "width", _opt_real(args[0], node), node)
    ex.write_field(st, pen, "glyphSet", args[1], node)
    ex.write_field(st, pen, "roundTolerance", coerce(kwargs["roundTolerance"], REAL), node)
    ex.write_field(st, pen, "drawn", Val(List(Ref("C12Glyph")), z3.Empty(List(Ref("C12Glyph")).sort())), node)
    return pen


cls(
    "C12OTFCompiler",
    fields={"allGlyphs": Ref("C12GlyphSet"), "roundTolerance": REAL, "optimizeCFF": BOOL},
    repo=OC,
    notes="OutlineOTFCompiler instance as getCharStringForGlyph sees it",
)

from pyvc.symex import FuncRef  # noqa: E402

contract(
    f"{OC}.getCharStringForGlyph",
    name="C12",
    props=["C12"],
    globals={"T2CharStringPen": Val.obj(FuncRef(_c12_pen_ctor_marker, "contracts.c12._c12_pen_ctor_marker"))},
    params={"self": Ref("C12OTFCompiler"), "glyph": Ref("C12Glyph"), "private": Ref("C12Private"), "globalSubrs": Opt(Ref("C12Subrs"))},
    returns=Ref("C12CharString"),
    ensures={
        # --- what the pen gets does not mention self.optimizeCFF -------------------------------------------------
        # width operand: omitted when equal to the default width, else the rounded difference to the nominal width
        "pen-width": "iff(result.pen.width is None, glyph.width == private.defaultWidthX)"
        " and implies(result.pen.width is not None, result.pen.width == c12_round(glyph.width - private.nominalWidthX))",
        "pen-glyphset": "result.pen.glyphSet is self.allGlyphs",
        # the rounding tolerance is the compiler's, whatever the optimisation level
        "pen-tolerance": "result.pen.roundTolerance == self.roundTolerance",
        # exactly this glyph is drawn, once
        "pen-drawing": "len(result.pen.drawn) == 1 and result.pen.drawn[0] == glyph",
        "charstring-inputs": "result.private == private and result.globalSubrs == globalSubrs",
        # --- the only place the flag goes -----------------------------------------------------------------------------
        "flag-only-selects-encoding": "result.optimize == self.optimizeCFF",
    },
    canaries={"width-always-omitted": "result.pen.width is None", "always-optimised": "result.optimize"},
)


# ---- run-time side: the real method with recording stand-ins for the fontTools pen (restored after each call) ----------
class _RecPen:
    def __init__(self, width, glyphSet, roundTolerance=0.5, CFF2=False):
        self.width, self.glyphSet, self.roundTolerance, self.drawn, self.calls = width, glyphSet, roundTolerance, [], []

    def moveTo(self, pt):
        self.calls.append(("moveTo", pt))

    def lineTo(self, pt):
        self.calls.append(("lineTo", pt))

    def curveTo(self, *pts):
        self.calls.append(("curveTo", pts))

    def qCurveTo(self, *pts):
        self.calls.append(("qCurveTo", pts))

    def closePath(self):
        self.calls.append(("closePath",))

    def endPath(self):
        self.calls.append(("endPath",))

    def addComponent(self, name, tr):
        self.calls.append(("addComponent", name, tuple(tr)))

    def getCharString(self, private=None, globalSubrs=None, optimize=True):
        from types import SimpleNamespace

        return SimpleNamespace(pen=self, private=private, globalSubrs=globalSubrs, optimize=optimize)


class _RecGlyph:
    """wraps a real glyph so that `draw` is observable (`pen.drawn`)"""

    def __init__(self, g):
        self._g = g
        self.width = g.width

    def draw(self, pen):
        pen.drawn.append(self)
        self._g.draw(pen)


def _gcs_cases(rng, n):
    out = []
    for _ in range(n):
        w = rng.choice([0, 250, 500, 500.4, 499.5, 600, 333.5])
        out.append({
            "width": w, "default": rng.choice([w, 500, 0, 250]), "nominal": rng.choice([0, 500, 100.5, 600]),
            "tol": rng.choice([0.5, 0, 0.001, 0.25, 1]), "opt": rng.choice([True, False, 0, 1, 2]), "subrs": rng.random() < 0.3,
        })
    return out


def _gcs_build(d):
    from types import SimpleNamespace

    import ufoLib2

    from ufo2ft.outlineCompiler import OutlineOTFCompiler

    ufo = ufoLib2.Font()
    g = ufo.newGlyph("a")
    g.width = d["width"]
    pen = g.getPen()
    pen.moveTo((10.004, 0.003)); pen.lineTo((10.004, 50)); pen.lineTo((99.9965, 50)); pen.closePath()  # noqa: E702
    comp = OutlineOTFCompiler(ufo, optimizeCFF=d["opt"], roundTolerance=d["tol"])
    private = SimpleNamespace(defaultWidthX=d["default"], nominalWidthX=d["nominal"])
    return {"self": comp, "glyph": _RecGlyph(comp.allGlyphs["a"]), "private": private, "globalSubrs": [] if d["subrs"] else None}


def _gcs_call(fn, a):
    import ufo2ft.outlineCompiler as oc

    real = oc.T2CharStringPen
    oc.T2CharStringPen = _RecPen
    try:
        return fn(a["self"], a["glyph"], a["private"], a["globalSubrs"])
    finally:
        oc.T2CharStringPen = real


CONTRACTS[f"{OC}.getCharStringForGlyph#C12"].runtime = Runtime(_gcs_cases, _gcs_build, call=_gcs_call)


# =====================================================================================================
# _get_cff_version / _subroutinize_with_compreffor

from . import c11  # noqa: E402,F401  (PPFont: table presence as the post-processor sees it)

contract(
    f"{PP}._get_cff_version",
    props=["C12"],
    params={"otf": Ref("PPFont")},
    returns=Opt(INT),
    ensures={
        "cff1": "implies('CFF ' in otf, result == 1)",
        "cff2": "implies('CFF ' not in otf and 'CFF2' in otf, result == 2)",
        "none": "iff(result is None, 'CFF ' not in otf and 'CFF2' not in otf)",
    },
    canaries={"always-1": "result == 1"},
)


class _FakeOTF:
    def __init__(self, tags):
        self.tags = set(tags)
        self.calls = []

    def __contains__(self, t):
        return t in self.tags


CONTRACTS[f"{PP}._get_cff_version"].runtime = Runtime(
    lambda rng, n: [{"tags": t} for t in ([], ["CFF "], ["CFF2"], ["CFF ", "CFF2"], ["post"], ["post", "CFF2"])],
    lambda d: {"otf": _FakeOTF(d["tags"])},
)

CLASSES["PPFont"].fields["compress_calls"] = INT  # how often compreffor.compress was applied to this font (ghost counter)


@trusted("compreffor.compress", "compreffor.compress(otf) subroutinises the CFF table of otf in place (recorded: otf.compress_calls += 1); "
         "ASSUMED to preserve the drawing operations and widths of every charstring")
def _compress(ex, st, args, kwargs, node):
    (otf,) = args
    if kwargs:
        raise Unsupported("compreffor.compress with options", node)
    n = ex.read_field(st, otf, "compress_calls")
    ex.write_field(st, otf, "compress_calls", Val(INT, n.term + 1), node)
    return Val.const(None)


def _pp_class():
    import importlib

    return importlib.import_module("ufo2ft.postProcessor").PostProcessor


contract(
    f"{PP}._subroutinize_with_compreffor",
    props=["C12"],
    params={"cls": Const(_pp_class()), "otf": Ref("PPFont"), "cffVersion": INT},
    modifies=["PPFont.compress_calls"],
    raises={
        # unsupported: compreffor with a CFF2 input or a CFF2 output
        "NotImplementedError": "'CFF ' not in otf or cffVersion != 1",
    },
    ensures={
        "compressed-once": "otf.compress_calls == old(otf.compress_calls) + 1",
    },
    canaries={"never-compressed": "otf.compress_calls == old(otf.compress_calls)"},
)


def _compreffor_call(fn, a):
    import compreffor

    real = compreffor.compress

    def rec(otf, *args, **kw):
        otf.compress_calls += 1

    compreffor.compress = rec
    try:
        return fn(a["otf"], a["cffVersion"])
    finally:
        compreffor.compress = real


def _compreffor_build(d):
    from ufo2ft.postProcessor import CFFVersion

    otf = _FakeOTF(d["tags"])
    otf.compress_calls = 0
    return {"otf": otf, "cffVersion": CFFVersion(d["out"]) if d["enum"] else d["out"]}


CONTRACTS[f"{PP}._subroutinize_with_compreffor"].runtime = Runtime(
    lambda rng, n: [{"tags": t, "out": o, "enum": e} for t in (["CFF "], ["CFF2"], ["CFF ", "CFF2"], []) for o in (1, 2) for e in (False, True)],
    _compreffor_build, call=_compreffor_call,
)
