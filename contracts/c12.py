"""C12 — CFF optimisation, subroutiniser and version never change what is drawn.

What contracts on ufo2ft code can decide here is stated as such (category: other): everything the LIBRARIES do to the
drawing is assumed; everything ufo2ft decides is proved.

Deductive (pyvc, all inputs):
* OutlineOTFCompiler.getCharStringForGlyph — NON-INTERFERENCE as an explicit functional specification: the pen's
  constructor arguments (width, glyph set, roundTolerance) and what is drawn into it are functions of
  (glyph, private, self.roundTolerance, self.allGlyphs) only; `self.optimizeCFF` reaches exactly one place, the
  `optimize=` argument of pen.getCharString.
* OutlineOTFCompiler.__init__ / BaseCompiler.compileOutlines — the optimisation level becomes "specialise iff level >=
  SPECIALIZE"; roundTolerance is the argument's alone.
* The CFF dispatch PostProcessor._get_cff_version / _subroutinize_with_compreffor / _subroutinize_with_cffsubr /
  _subroutinize / process_cff / process and BaseCompiler.postprocess — the decision table of the property as
  postconditions over a LOG of library calls (which library, on which font, with which arguments, exactly once;
  NotImplementedError / ValueError exactly for the unsupported cells).

Python-level enum members (`backend.value`, `cffVersion.name`, `CFFVersion(v)`, `SubroutinizerBackend(s)`, the class-level
dict of default backends) are outside the engine: handled here by one variant per member / per `subroutinizer` case,
trusted models of enum member lookup that read the REAL classes, and a small shim for `.name` / `.value`.

Trusted (carries the property): fontTools' specialiser (`getCharString(optimize=True)`), cffsubr, compreffor and
convertCFFToCFF2 preserve drawing operations and widths — bounded observer O in the hook (vcheck/hooks/c12.py), which
also keeps the complete enumeration of the decision table on the real functions as a cross-check (D).
"""
import z3

from pyvc import ty as T
from fontTools.misc.roundTools import otRound  # noqa: F401  (used by the spec function below, natively)

from pyvc.api import BOOL, CLASSES, CONTRACTS, INT, REAL, STR, Const, Dict, List, Opt, Ref, Runtime, cls, contract, specfn, trusted
from pyvc.core import PYOBJ, Unsupported, Val, lift
from pyvc.ops import is_const

PP = "ufo2ft.postProcessor:PostProcessor"
OC = "ufo2ft.outlineCompiler:OutlineOTFCompiler"

# =====================================================================================================
# getCharStringForGlyph: what reaches the pen


@specfn(INT, v=REAL)
def c12_round(v):
    """otRound: floor(v + 1/2)"""
    return otRound(v)


cls("C12GlyphSet", notes="self.allGlyphs, only passed along (identity matters)")
cls("C12Subrs", notes="globalSubrs, only passed along")
cls("C12Private", fields={"defaultWidthX": REAL, "nominalWidthX": REAL}, notes="namespace / PrivateDict with the default and nominal widths")


def _glyph_draw(ex, st, self, args, kwargs, node):
    """glyph.draw(pen): the glyph sends its outline to the pen — recorded as `pen.drawn += [glyph]`."""
    (pen,) = args
    cur = ex.read_field(st, pen, "drawn")
    ex.write_field(st, pen, "drawn", Val(List(Ref("C12Glyph")), z3.Concat(cur.term, z3.Unit(lift(self)))), node)
    return Val.const(None)


cls("C12Glyph", fields={"width": REAL}, methods={"draw": _glyph_draw},
    notes="source glyph: advance width; draw(pen) replays its outline into the pen (which calls it makes depends on the glyph only)")


def _pen_getcs(ex, st, self, args, kwargs, node):
    if len(args) != 2 or set(kwargs) != {"optimize"}:
        raise Unsupported("T2CharStringPen.getCharString called with another argument shape than (private, globalSubrs, optimize=...)", node)
    cs = ex.new_object(st, "C12CharString")
    ex.write_field(st, cs, "pen", self, node)
    ex.write_field(st, cs, "private", args[0], node)
    ex.write_field(st, cs, "globalSubrs", args[1], node)
    from pyvc.core import coerce

    ex.write_field(st, cs, "optimize", coerce(kwargs["optimize"], BOOL), node)
    return cs


cls(
    "C12Pen",
    fields={"width": Opt(REAL), "glyphSet": Ref("C12GlyphSet"), "roundTolerance": REAL, "drawn": List(Ref("C12Glyph"))},
    methods={"getCharString": _pen_getcs},
    notes="fontTools T2CharStringPen: constructor arguments as fields; `drawn` = the glyphs drawn into it, in order",
)
cls("C12CharString", fields={"pen": Ref("C12Pen"), "private": Ref("C12Private"), "globalSubrs": Opt(Ref("C12Subrs")), "optimize": BOOL},
    notes="the T2CharString produced by pen.getCharString(private, globalSubrs, optimize=...): remembers its inputs")


def _opt_real(v, node):
    """the width operand as Optional[Real], whichever of None / Int / Optional[Int] / Optional[Real] the path produced"""
    from pyvc.core import coerce

    t = Opt(REAL)
    if isinstance(v.ty, T.Opt) and v.ty.inner == INT and not v.is_py:
        s, r = v.ty.sort(), t.sort()
        return Val(t, z3.If(s.is_some(v.term), r.some(z3.ToReal(s.val(v.term))), r.nil))
    if v.ty == INT and not v.is_py:
        return Val(t, t.sort().some(z3.ToReal(v.term)))
    return coerce(v, t)


def _c12_pen_ctor_marker():
    """placeholder object: the name `T2CharStringPen` in getCharStringForGlyph resolves to the model below for THIS
    contract only (the C01 contracts model the same constructor with their own vocabulary; the global registry of
    trusted models is not touched)"""


@trusted("contracts.c12._c12_pen_ctor_marker", "fontTools T2CharStringPen(width, glyphSet, roundTolerance=...) is a fresh pen that has drawn nothing; it keeps its three arguments")
def _pen_ctor(ex, st, args, kwargs, node):
    if len(args) != 2 or set(kwargs) != {"roundTolerance"}:
        raise Unsupported("T2CharStringPen constructed with another argument shape than (width, glyphSet, roundTolerance=...)", node)
    from pyvc.core import coerce

    pen = ex.new_object(st, "C12Pen")
    ex.write_field(st, pen, "width", _opt_real(args[0], node), node)
    ex.write_field(st, pen, "glyphSet", args[1], node)
    ex.write_field(st, pen, "roundTolerance", coerce(kwargs["roundTolerance"], REAL), node)
    ex.write_field(st, pen, "drawn", Val(List(Ref("C12Glyph")), z3.Empty(List(Ref("C12Glyph")).sort())), node)
    return pen


cls(
    "C12OTFCompiler",
    fields={"allGlyphs": Ref("C12GlyphSet"), "roundTolerance": REAL, "optimizeCFF": BOOL},
    repo=OC,
    notes="OutlineOTFCompiler instance as getCharStringForGlyph sees it",
)

from pyvc.symex import FuncRef  # noqa: E402

contract(
    f"{OC}.getCharStringForGlyph",
    name="C12",
    props=["C12"],
    globals={"T2CharStringPen": Val.obj(FuncRef(_c12_pen_ctor_marker, "contracts.c12._c12_pen_ctor_marker"))},
    params={"self": Ref("C12OTFCompiler"), "glyph": Ref("C12Glyph"), "private": Ref("C12Private"), "globalSubrs": Opt(Ref("C12Subrs"))},
    returns=Ref("C12CharString"),
    ensures={
        # --- what the pen gets does not mention self.optimizeCFF -------------------------------------------------
        # width operand: omitted when equal to the default width, else the rounded difference to the nominal width
        "pen-width": "iff(result.pen.width is None, glyph.width == private.defaultWidthX)"
        " and implies(result.pen.width is not None, result.pen.width == c12_round(glyph.width - private.nominalWidthX))",
        "pen-glyphset": "result.pen.glyphSet is self.allGlyphs",
        # the rounding tolerance is the compiler's, whatever the optimisation level
        "pen-tolerance": "result.pen.roundTolerance == self.roundTolerance",
        # exactly this glyph is drawn, once
        "pen-drawing": "len(result.pen.drawn) == 1 and result.pen.drawn[0] == glyph",
        "charstring-inputs": "result.private == private and result.globalSubrs == globalSubrs",
        # --- the only place the flag goes -----------------------------------------------------------------------------
        "flag-only-selects-encoding": "result.optimize == self.optimizeCFF",
    },
    canaries={"width-always-omitted": "result.pen.width is None", "always-optimised": "result.optimize"},
)


# ---- run-time side: the real method with recording stand-ins for the fontTools pen (restored after each call) ----------
class _RecPen:
    def __init__(self, width, glyphSet, roundTolerance=0.5, CFF2=False):
        self.width, self.glyphSet, self.roundTolerance, self.drawn, self.calls = width, glyphSet, roundTolerance, [], []

    def moveTo(self, pt):
        self.calls.append(("moveTo", pt))

    def lineTo(self, pt):
        self.calls.append(("lineTo", pt))

    def curveTo(self, *pts):
        self.calls.append(("curveTo", pts))

    def qCurveTo(self, *pts):
        self.calls.append(("qCurveTo", pts))

    def closePath(self):
        self.calls.append(("closePath",))

    def endPath(self):
        self.calls.append(("endPath",))

    def addComponent(self, name, tr):
        self.calls.append(("addComponent", name, tuple(tr)))

    def getCharString(self, private=None, globalSubrs=None, optimize=True):
        from types import SimpleNamespace

        return SimpleNamespace(pen=self, private=private, globalSubrs=globalSubrs, optimize=optimize)


class _RecGlyph:
    """wraps a real glyph so that `draw` is observable (`pen.drawn`)"""

    def __init__(self, g):
        self._g = g
        self.width = g.width

    def draw(self, pen):
        pen.drawn.append(self)
        self._g.draw(pen)


def _gcs_cases(rng, n):
    out = []
    for _ in range(n):
        w = rng.choice([0, 250, 500, 500.4, 499.5, 600, 333.5])
        out.append({
            "width": w, "default": rng.choice([w, 500, 0, 250]), "nominal": rng.choice([0, 500, 100.5, 600]),
            "tol": rng.choice([0.5, 0, 0.001, 0.25, 1]), "opt": rng.choice([True, False, 0, 1, 2]), "subrs": rng.random() < 0.3,
        })
    return out


def _gcs_build(d):
    from types import SimpleNamespace

    import ufoLib2

    from ufo2ft.outlineCompiler import OutlineOTFCompiler

    ufo = ufoLib2.Font()
    g = ufo.newGlyph("a")
    g.width = d["width"]
    pen = g.getPen()
    pen.moveTo((10.004, 0.003)); pen.lineTo((10.004, 50)); pen.lineTo((99.9965, 50)); pen.closePath()  # noqa: E702
    comp = OutlineOTFCompiler(ufo, optimizeCFF=d["opt"], roundTolerance=d["tol"])
    private = SimpleNamespace(defaultWidthX=d["default"], nominalWidthX=d["nominal"])
    return {"self": comp, "glyph": _RecGlyph(comp.allGlyphs["a"]), "private": private, "globalSubrs": [] if d["subrs"] else None}


def _gcs_call(fn, a):
    import ufo2ft.outlineCompiler as oc

    real = oc.T2CharStringPen
    oc.T2CharStringPen = _RecPen
    try:
        return fn(a["self"], a["glyph"], a["private"], a["globalSubrs"])
    finally:
        oc.T2CharStringPen = real


CONTRACTS[f"{OC}.getCharStringForGlyph#C12"].runtime = Runtime(_gcs_cases, _gcs_build, call=_gcs_call)




# =====================================================================================================
# The CFF dispatch of PostProcessor: process -> process_cff -> _subroutinize -> _subroutinize_with_{cffsubr,compreffor}
#
# Vocabulary.  The three library entry points (cffsubr.subroutinize, compreffor.compress, convertCFFToCFF2) are modelled
# as RECORDED calls: each appends one entry (function, font, cff_version=, keep_glyph_names=) to the log `libs.calls` of
# the one `C12Libs` object ("the libraries"), and has the effect on table presence that the library documents.  The
# decision table of the property is then a postcondition over that log: which library is invoked, on which font, with
# which arguments, exactly once, and nothing else; NotImplementedError / ValueError exactly for the unsupported cells.

import collections  # noqa: E402
import enum  # noqa: E402
import importlib  # noqa: E402

from pyvc.api import Loop, Named, lemma  # noqa: E402
from pyvc.core import coerce, fresh  # noqa: E402
from pyvc.exprs import ExprMixin  # noqa: E402

from . import c11  # noqa: E402,F401  (PPFont / PostProcessor: the post-processor's objects, shared with C11)

_PPM = importlib.import_module("ufo2ft.postProcessor")
_PPC = _PPM.PostProcessor
_VERSIONS = _PPM.CFFVersion  # IntEnum: CFF = 1, CFF2 = 2
_BACKENDS = _PPC.SubroutinizerBackend  # Enum: "compreffor", "cffsubr"


# ---- enum members (engine gap R7 of notes/C11.requests.md; DECLINED for now by the engine worker) ---------------------
class EnumInt(type(INT)):
    """An int that is a member of an IntEnum class: the same sort and the same type key as INT (so every engine
    operation treats it as an int, which is what an IntEnum member is), plus the enum class, so that `.name` /
    `.value` can be given their Python meaning by the shim below."""

    def __init__(self, pyenum):
        super().__init__("Int", z3.IntSort)
        self.pyenum = pyenum


CFFV = EnumInt(_VERSIONS)

if not getattr(ExprMixin.getattr, "_c12_shim", False):
    _engine_getattr = ExprMixin.getattr

    def _getattr_enum(self, recv, name, st, node=None):
        """`.name` / `.value` of enum members (Python semantics of enum.Enum): a concrete member answers with its real
        attribute; a symbolic IntEnum member (type EnumInt) answers with the case distinction over the members of the
        REAL enum class, under the obligation that its value is a member's value.  Everything else: the engine."""
        if name in ("name", "value"):
            recv = self.deopt(recv, st, node)
            if recv.is_py and isinstance(recv.py, enum.Enum):
                return Val.const(getattr(recv.py, name))
            pe = getattr(recv.ty, "pyenum", None)
            if pe is not None and not recv.is_py:
                members = list(pe)
                v = lift(recv)
                self.safety(st, z3.Or(*[v == int(m) for m in members]), "AttributeError", node)
                if name == "value":
                    return Val(INT, v)
                t = z3.StringVal(members[-1].name)
                for m in reversed(members[:-1]):
                    t = z3.If(v == int(m), z3.StringVal(m.name), t)
                return Val(STR, t)
        return _engine_getattr(self, recv, name, st, node)

    _getattr_enum._c12_shim = True
    ExprMixin.getattr = _getattr_enum


@trusted("ufo2ft.postProcessor.CFFVersion", "enum.IntEnum call CFFVersion(v): the member whose value is v (an int equal to v); ValueError when no member has that value "
         "(members read from the real class)")
def _cffversion_call(ex, st, args, kwargs, node):
    if len(args) != 1 or kwargs:
        raise Unsupported("CFFVersion(...) with another argument shape", node)
    v = ex.deopt(args[0], st, node)
    if is_const(v):
        try:
            return Val.const(_VERSIONS(v.py))
        except ValueError:
            ex.safety(st, z3.BoolVal(False), "ValueError", node)
            return Val(CFFV, fresh(INT, "no_member"))
    if v.ty != INT:
        raise Unsupported(f"CFFVersion({v.ty})", node)
    ex.safety(st, z3.Or(*[lift(v) == int(m) for m in _VERSIONS]), "ValueError", node)
    return Val(CFFV, lift(v))


@trusted("ufo2ft.postProcessor.PostProcessor.SubroutinizerBackend", "enum.Enum call SubroutinizerBackend(s): the member whose value is s; ValueError when no member has that value "
         "(members read from the real class)")
def _backend_call(ex, st, args, kwargs, node):
    if len(args) != 1 or kwargs:
        raise Unsupported("SubroutinizerBackend(...) with another argument shape", node)
    v = ex.deopt(args[0], st, node)
    if is_const(v):
        try:
            return Val.obj(_BACKENDS(v.py))
        except ValueError:
            ex.safety(st, z3.BoolVal(False), "ValueError", node)
            return Val.obj(list(_BACKENDS)[0])  # unreachable: the path condition is now false
    if v.ty != STR:
        raise Unsupported(f"SubroutinizerBackend({v.ty})", node)
    # a symbolic string: only decidable here when it provably names no member (then the call always raises)
    is_member = z3.Or(*[lift(v) == z3.StringVal(m.value) for m in _BACKENDS])
    ex.safety(st, is_member, "ValueError", node)
    for m in _BACKENDS:
        if ex.entails(st, lift(v) == z3.StringVal(m.value)):
            return Val.obj(m)
    if ex.entails(st, z3.Not(is_member)):
        return Val.obj(list(_BACKENDS)[0])  # the call always raises here: the normal continuation is infeasible
    raise Unsupported("SubroutinizerBackend(<symbolic string>): the member is not determined on this path (use a Const variant)", node)


def _default_backend_getitem(ex, st, self, idx, node):
    """PostProcessor.DEFAULT_SUBROUTINIZER_FOR_CFF_VERSION[version] on the REAL class-level dict: KeyError obligation
    for the key; the entry for the key when the path determines it, or the common value when all entries agree."""
    table = _PPC.DEFAULT_SUBROUTINIZER_FOR_CFF_VERSION
    idx = ex.deopt(idx, st, node)
    if is_const(idx):
        if idx.py not in table:
            ex.safety(st, z3.BoolVal(False), "KeyError", node)
            return Val.obj(list(_BACKENDS)[0])
        return Val.obj(table[idx.py])
    k = lift(idx, INT)
    ex.safety(st, z3.Or(*[k == int(key) for key in table]), "KeyError", node)
    vals = list(table.values())
    if all(v is vals[0] for v in vals):
        return Val.obj(vals[0])
    for key, v in table.items():
        if ex.entails(st, k == int(key)):
            return Val.obj(v)
    raise Unsupported("DEFAULT_SUBROUTINIZER_FOR_CFF_VERSION[<symbolic version>]: entries differ and the path does not fix the key", node)


cls("C12DefaultBackends", getitem=_default_backend_getitem,
    notes="the class-level dict PostProcessor.DEFAULT_SUBROUTINIZER_FOR_CFF_VERSION (read from the real class on every run)")
_DEFAULTS_REF = z3.Const("c12_default_backends", T.RefSort)
CLASSES["PostProcessor"].derived["DEFAULT_SUBROUTINIZER_FOR_CFF_VERSION"] = lambda ex, st, self: Val(Ref("C12DefaultBackends"), _DEFAULTS_REF)
CLASSES["PostProcessor"].derived["SubroutinizerBackend"] = lambda ex, st, self: Val.obj(FuncRef(_BACKENDS, "ufo2ft.postProcessor.PostProcessor.SubroutinizerBackend"))

# ---- the libraries: a log of calls ---------------------------------------------------------------------------------------
LIBCALL = Named("LibCall", fn=STR, font=Ref("PPFont"), cff_version=Opt(INT), keep_glyph_names=Opt(BOOL))
LibCall = collections.namedtuple("LibCall", "fn font cff_version keep_glyph_names")  # the same record natively (font = id of the font object)

cls("C12Libs", fields={"calls": List(LIBCALL)},
    notes="the three CFF libraries seen as one recorder: `calls` = every invocation so far, in order (function, font, cff_version=, keep_glyph_names=)")
_WORLD = z3.Const("c12_the_libraries", T.RefSort)


class _NativeLibs:
    def __init__(self):
        self.calls = []


NATIVE_LIBS = _NativeLibs()


def _libs(ex, st, self):
    return Val(Ref("C12Libs"), _WORLD)


for _cn in ("PPFont", "PostProcessor"):
    CLASSES[_cn].derived["libs"] = _libs
    CLASSES[_cn].views["libs"] = lambda o: NATIVE_LIBS
CLASSES["PPFont"].derived["font_id"] = lambda ex, st, self: self
CLASSES["PPFont"].views["font_id"] = lambda o: id(o)


def _log_call(ex, st, fn, font, ver, keep, node):
    w = Val(Ref("C12Libs"), _WORLD)
    cur = ex.read_field(st, w, "calls")
    entry = LIBCALL.sort().mk(z3.StringVal(fn), lift(font), lift(coerce(ver, Opt(INT))), lift(coerce(keep, Opt(BOOL))))
    ex.write_field(st, w, "calls", Val(List(LIBCALL), z3.Concat(cur.term, z3.Unit(entry))), node)


def _touch(ex, st, otf, fields, node):
    """the library works on the font's tables in place: what it may change is unknown afterwards"""
    for cn, f in fields:
        o = otf if cn == "PPFont" else ex.read_field(st, otf, "post")
        ex.write_field(st, o, f, Val(CLASSES[cn].fields[f], fresh(CLASSES[cn].fields[f], "lib_" + f)), node)


_POST_TOUCHED = [("PPPost", f.split(".")[1]) for f in c11._POST_FIELDS]
_FONT_TOUCHED = [("PPFont", "pristine"), ("PPFont", "CFF2_loaded")]
_NONE = Val.const(None)


@trusted("compreffor.compress", "compreffor.compress(otf) subroutinises the 'CFF ' table of otf in place (KeyError without one); the table set is unchanged "
         "[recorded in libs.calls]; ASSUMED to preserve the drawing operations and widths of every charstring")
def _compress(ex, st, args, kwargs, node):
    (otf,) = args
    if kwargs:
        raise Unsupported("compreffor.compress with options", node)
    ex.safety(st, ex.read_field(st, otf, "has_CFF").term, "KeyError", node)
    _log_call(ex, st, "compreffor.compress", otf, _NONE, _NONE, node)
    _touch(ex, st, otf, _FONT_TOUCHED, node)
    return Val.const(None)


@trusted("cffsubr.subroutinize", "cffsubr.subroutinize(otf, cff_version=v, keep_glyph_names=k) replaces the font's CFF table (the 'CFF ' one if present, else 'CFF2'; "
         "cffsubr.Error without either) by a subroutinised table of format v (1: 'CFF ', 2: 'CFF2', None: as the input), in place, returns otf; may rewrite the post table; "
         "the glyph order of the TTFont object is unchanged [recorded in libs.calls]; ASSUMED to preserve the drawing operations and widths of every charstring")
def _cffsubr_subroutinize(ex, st, args, kwargs, node):
    if len(args) != 1 or not set(kwargs) <= {"cff_version", "keep_glyph_names"}:
        raise Unsupported("cffsubr.subroutinize called with another argument shape than (otf, cff_version=, keep_glyph_names=)", node)
    (otf,) = args
    ver = coerce(ex.deopt(kwargs.get("cff_version", _NONE), st, node) if not isinstance(kwargs.get("cff_version", _NONE).ty, T.Opt) else kwargs["cff_version"], Opt(INT))
    keep = kwargs.get("keep_glyph_names", Val.const(True))
    h1, h2 = ex.read_field(st, otf, "has_CFF").term, ex.read_field(st, otf, "has_CFF2").term
    ex.safety(st, z3.Or(h1, h2), "Error", node)
    s = Opt(INT).sort()
    out = z3.If(s.is_some(ver.term), s.val(ver.term), z3.If(h1, z3.IntVal(1), z3.IntVal(2)))
    ex.safety(st, z3.Or(out == 1, out == 2), "ValueError", node)
    _log_call(ex, st, "cffsubr.subroutinize", otf, ver, keep, node)
    # del otf[input tag]; otf[output tag] = new table   (input tag: 'CFF ' when present)
    ex.write_field(st, otf, "has_CFF", Val(BOOL, out == 1), node)
    ex.write_field(st, otf, "has_CFF2", Val(BOOL, z3.Or(out == 2, z3.And(h1, h2))), node)
    _touch(ex, st, otf, _FONT_TOUCHED + _POST_TOUCHED, node)
    return otf


@trusted("fontTools.cffLib.CFFToCFF2.convertCFFToCFF2", "convertCFFToCFF2(otf) replaces the 'CFF ' table (KeyError without one) by an equivalent 'CFF2' table, in place "
         "[recorded in libs.calls]; ASSUMED to preserve the drawing operations of every charstring (advance widths live in hmtx)")
def _convert(ex, st, args, kwargs, node):
    (otf,) = args
    if kwargs:
        raise Unsupported("convertCFFToCFF2 with options", node)
    ex.safety(st, ex.read_field(st, otf, "has_CFF").term, "KeyError", node)
    _log_call(ex, st, "convertCFFToCFF2", otf, _NONE, _NONE, node)
    ex.write_field(st, otf, "has_CFF", Val.const(False), node)
    ex.write_field(st, otf, "has_CFF2", Val.const(True), node)
    _touch(ex, st, otf, _FONT_TOUCHED, node)
    return Val.const(None)


_LIB_MOD = ["C12Libs.calls", "PPFont.pristine", "PPFont.CFF2_loaded"]
_TABLES_MOD = ["PPFont.has_CFF", "PPFont.has_CFF2"]


def one_call(font, fn, ver, keep, log="{o}.libs.calls"):
    """clause text: exactly one library call was added to the log, and it is `fn(font, cff_version=ver, keep_glyph_names=keep)`"""
    L = log.format(o=font)
    return (f"len({L}) == len(old({L})) + 1 and {L}[:-1] == old({L}) and {L}[-1].fn == {fn!r} and {L}[-1].font == {font}.font_id "
            f"and {L}[-1].cff_version == {ver} and {L}[-1].keep_glyph_names == {keep}")


def no_call(font, log="{o}.libs.calls"):
    L = log.format(o=font)
    return f"{L} == old({L})"


_HAS1, _HAS2 = "'CFF ' in {o}", "'CFF2' in {o}"
_MEMBER = "({v} == 1 or {v} == 2)"

contract(
    f"{PP}._get_cff_version",
    props=["C12"],
    params={"otf": Ref("PPFont")},
    returns=Opt(CFFV),
    ensures={
        "cff1": "implies('CFF ' in otf, result == 1)",
        "cff2": "implies('CFF ' not in otf and 'CFF2' in otf, result == 2)",
        "none": "iff(result is None, 'CFF ' not in otf and 'CFF2' not in otf)",
        "member": "result is None or result == 1 or result == 2",
    },
    canaries={"always-1": "result == 1"},
)


class _FakeOTF:
    """table presence only (what the dispatch may look at)"""

    def __init__(self, tags):
        self.tags = set(tags)
        del NATIVE_LIBS.calls[:-3]  # (a new case is being built: keep the native log short; clauses speak about the calls ADDED)

    def __contains__(self, t):
        return t in self.tags


CONTRACTS[f"{PP}._get_cff_version"].runtime = Runtime(
    lambda rng, n: [{"tags": t} for t in ([], ["CFF "], ["CFF2"], ["CFF ", "CFF2"], ["post"], ["post", "CFF2"])],
    lambda d: {"otf": _FakeOTF(d["tags"])},
)


# ---- run-time side: the three library entry points replaced by recorders (restored after each call) ----------------------
class patched_libs:
    """context manager: cffsubr.subroutinize / compreffor.compress / convertCFFToCFF2 append to NATIVE_LIBS.calls; on a
    `_FakeOTF` they apply the documented effect on the table set, on a real TTFont they call the real library"""

    def __enter__(self):
        import cffsubr
        import compreffor

        self.saved = (cffsubr.subroutinize, compreffor.compress, _PPM.convertCFFToCFF2)
        real_subr, real_compress, real_convert = self.saved

        def subroutinize(otf, cff_version=None, keep_glyph_names=True, **kw):
            assert not kw, kw
            NATIVE_LIBS.calls.append(LibCall("cffsubr.subroutinize", id(otf), None if cff_version is None else int(cff_version), keep_glyph_names))
            if isinstance(otf, _FakeOTF):
                src = "CFF " if "CFF " in otf.tags else "CFF2"
                dst = src if cff_version is None else {1: "CFF ", 2: "CFF2"}[int(cff_version)]
                otf.tags.discard(src)
                otf.tags.add(dst)
                return otf
            return real_subr(otf, cff_version=cff_version, keep_glyph_names=keep_glyph_names)

        def compress(otf, *a, **kw):
            assert not a and not kw
            NATIVE_LIBS.calls.append(LibCall("compreffor.compress", id(otf), None, None))
            if isinstance(otf, _FakeOTF):
                if "CFF " not in otf.tags:
                    raise KeyError("CFF ")
                return None
            return real_compress(otf)

        def convert(otf):
            NATIVE_LIBS.calls.append(LibCall("convertCFFToCFF2", id(otf), None, None))
            if isinstance(otf, _FakeOTF):
                otf.tags.remove("CFF ")
                otf.tags.add("CFF2")
                return None
            return real_convert(otf)

        cffsubr.subroutinize, compreffor.compress, _PPM.convertCFFToCFF2 = subroutinize, compress, convert
        return self

    def __exit__(self, *exc):
        import cffsubr
        import compreffor

        cffsubr.subroutinize, compreffor.compress, _PPM.convertCFFToCFF2 = self.saved
        return False


def _with_libs(invoke):
    def call(fn, a):
        with patched_libs():
            return invoke(fn, a)

    return call


_TAGSETS = (["CFF "], ["CFF2"], ["CFF ", "CFF2"], [], ["post", "CFF "], ["post"])


def _version_arg(d):
    return _VERSIONS(d["out"]) if d.get("enum", True) else d["out"]


# ---- _subroutinize_with_compreffor ------------------------------------------------------------------------------------------
contract(
    f"{PP}._subroutinize_with_compreffor",
    props=["C12"],
    params={"cls": Const(_PPC), "otf": Ref("PPFont"), "cffVersion": CFFV},
    modifies=_LIB_MOD,
    raises={
        # unsupported: compreffor with a CFF2 input or a CFF2 output
        "NotImplementedError": "'CFF ' not in otf or cffVersion != 1",
    },
    ensures={
        "compressed-once": one_call("otf", "compreffor.compress", None, None),
        "tables-kept": "'CFF ' in otf and iff('CFF2' in otf, old('CFF2' in otf))",
    },
    canaries={"never-compressed": no_call("otf")},
)
CONTRACTS[f"{PP}._subroutinize_with_compreffor"].runtime = Runtime(
    lambda rng, n: [{"tags": t, "out": o, "enum": e} for t in _TAGSETS for o in (1, 2) for e in (False, True)],
    lambda d: {"otf": _FakeOTF(d["tags"]), "cffVersion": _version_arg(d)},
    call=_with_libs(lambda fn, a: fn(a["otf"], a["cffVersion"])),
)

# ---- _subroutinize_with_cffsubr ---------------------------------------------------------------------------------------------
_CFFSUBR_POST = {
    "subroutinized-once": one_call("otf", "cffsubr.subroutinize", "cffVersion", False),
    # the table that comes out has the requested format
    "requested-flavour": "iff('CFF ' in otf, cffVersion == 1) and implies(cffVersion == 2, 'CFF2' in otf) "
                         "and implies(cffVersion == 1 and not old('CFF ' in otf and 'CFF2' in otf), 'CFF2' not in otf)",
}
contract(
    f"{PP}._subroutinize_with_cffsubr",
    props=["C12"],
    params={"cls": Const(_PPC), "otf": Ref("PPFont"), "cffVersion": CFFV},
    returns=Ref("PPFont"),
    # the only caller (process_cff, through _subroutinize) passes a CFFVersion member
    requires=[_MEMBER.format(v="cffVersion")],
    modifies=_LIB_MOD + _TABLES_MOD + c11._POST_FIELDS,
    raises={"AssertionError": "'CFF ' not in otf and 'CFF2' not in otf"},
    ensures={**_CFFSUBR_POST, "same-font": "result is otf"},
    canaries={"never-called": no_call("otf"), "always-cff1": "'CFF ' in otf"},
)
CONTRACTS[f"{PP}._subroutinize_with_cffsubr"].runtime = Runtime(
    lambda rng, n: [{"tags": t, "out": o} for t in _TAGSETS for o in (1, 2)],
    lambda d: {"otf": _FakeOTF(d["tags"]), "cffVersion": _version_arg(d)},
    call=_with_libs(lambda fn, a: fn(a["otf"], a["cffVersion"])),
)

# ---- _subroutinize: getattr(cls, f"_subroutinize_with_{backend.value}")(otf, cffVersion) --------------------------------------
# One variant per member of the REAL enum (the member is a python-level constant: `backend.value` and the attribute name
# are then concrete, and the call resolves to the contract of the selected classmethod).  A member without a
# `_subroutinize_with_<value>` method, or without a specification here, leaves its variant out of reach (exit 2).
_BACKEND_SPEC = {
    "cffsubr": dict(
        requires=[_MEMBER.format(v="cffVersion")],
        modifies=_LIB_MOD + _TABLES_MOD + c11._POST_FIELDS,
        raises={"AssertionError": "'CFF ' not in otf and 'CFF2' not in otf"},
        ensures=dict(_CFFSUBR_POST),
        canaries={"never-called": no_call("otf")},
    ),
    "compreffor": dict(
        requires=[],
        modifies=_LIB_MOD,
        raises={"NotImplementedError": "'CFF ' not in otf or cffVersion != 1"},
        ensures={"compressed-once": one_call("otf", "compreffor.compress", None, None), "tables-kept": "'CFF ' in otf and iff('CFF2' in otf, old('CFF2' in otf))"},
        canaries={"never-called": no_call("otf")},
    ),
}
for _m in _BACKENDS:
    _spec = _BACKEND_SPEC.get(_m.value, dict(ensures={"unspecified-backend": "False"}))
    contract(
        f"{PP}._subroutinize", name=_m.value, props=["C12"],
        params={"cls": Const(_PPC), "backend": Const(_m), "otf": Ref("PPFont"), "cffVersion": CFFV},
        **_spec,
    )
    CONTRACTS[f"{PP}._subroutinize#{_m.value}"].runtime = Runtime(
        lambda rng, n: [{"tags": t, "out": o} for t in _TAGSETS for o in (1, 2)],
        lambda d, _m=_m: {"backend": _m, "otf": _FakeOTF(d["tags"]), "cffVersion": _version_arg(d)},
        call=_with_libs(lambda fn, a: fn(a["backend"], a["otf"], a["cffVersion"])),
    )

# ---- the decision table of the property, as clause text --------------------------------------------------------------------------
# `subroutinizer` is split into the four cases None / "cffsubr" / "compreffor" / any other string (lemma
# C12.subroutinizer-cases: the four cases cover Optional[str]); in each, the backend member is a python-level constant.
_SUB_PARAM = {"default": Const(None), "cffsubr": Const("cffsubr"), "compreffor": Const("compreffor"), "unknown": STR}
_SUB_VALUES = {"default": [None], "cffsubr": ["cffsubr"], "compreffor": ["compreffor"], "unknown": ["tx", "", "CFFSUBR", "cffsubr "]}


class Table:
    """The decision table for one entry point.  opt: clause text of "charstrings are to be subroutinised"; pre / post:
    expressions denoting the font before / after (the same object for process_cff; process and postprocess may end with a
    reloaded font); ver: the requested CFF version (None = as the input); sub: the subroutinizer argument; log: the library log.
    IN / OUT = the CFF format found in the font / asked for, as the property names them."""

    def __init__(self, opt, pre, post, ver="cffVersion", sub="subroutinizer", log="self.libs.calls"):
        self.opt, self.pre, self.post, self.ver, self.sub, self.log = opt, pre, post, ver, sub, log
        self.IN = f"(1 if old('CFF ' in {pre}) else 2)"
        self.OUT = f"({self.IN} if {ver} is None else {ver})"
        # the same two for clauses evaluated in the pre-state (raises, requires)
        self.IN0 = f"(1 if 'CFF ' in {pre} else 2)"
        self.OUT0 = f"({self.IN0} if {ver} is None else {ver})"
        self.has_table0 = f"('CFF ' in {pre} or 'CFF2' in {pre})"
        self.bad_version0 = f"({ver} is not None and {ver} != 1 and {ver} != 2)"
        self.downgrade0 = f"(not ({opt}) and {self.IN0} == 2 and {self.OUT0} == 1)"  # CFF2 -> CFF without subroutinising: unsupported

    def one_call(self, fn, ver, keep):
        L = self.log
        return (f"len({L}) == len(old({L})) + 1 and {L}[:-1] == old({L}) and {L}[-1].fn == {fn!r} and {L}[-1].font == old({self.pre}.font_id) "
                f"and {L}[-1].cff_version == {ver} and {L}[-1].keep_glyph_names == {keep}")

    def no_call(self):
        return f"{self.log} == old({self.log})"

    def value_error(self, case):
        """ValueError iff (given that the font has a CFF/CFF2 table): invalid version, or an unknown subroutinizer is needed"""
        return self.bad_version0 + (f" or ({self.opt})" if case == "unknown" else "")

    def not_implemented(self, case):
        extra = f" or (({self.opt}) and ({self.IN0} != 1 or {self.OUT0} != 1))" if case == "compreffor" else ""
        return f"not ({self.value_error(case)}) and ({self.downgrade0}{extra})"

    def ensures(self, case):
        opt, IN, OUT = self.opt, self.IN, self.OUT
        sub = {
            "cffsubr": {"subroutinize-with-cffsubr": f"implies({opt}, " + self.one_call("cffsubr.subroutinize", OUT, False) + ")"},
            "compreffor": {"subroutinize-with-compreffor": f"implies({opt}, " + self.one_call("compreffor.compress", None, None) + ")"},
            "unknown": {},
        }
        sub["default"] = sub["cffsubr"]  # "By default cffsubr is used for both CFF 1 and CFF 2"
        return {
            **sub[case],
            # no optimisation: nothing for equal formats, the fontTools converter for CFF -> CFF2
            "no-optimize-same-version": f"implies(not ({opt}) and {IN} == {OUT}, " + self.no_call() + ")",
            "no-optimize-convert": f"implies(not ({opt}) and {IN} == 1 and {OUT} == 2, " + self.one_call("convertCFFToCFF2", None, None) + ")",
            # the font ends up with the requested CFF format
            "requested-flavour": f"iff('CFF ' in {self.post}, {OUT} == 1) and implies({OUT} == 2, 'CFF2' in {self.post})",
        }


lemma(
    "C12.subroutinizer-cases", props=["C12"], vars={"s": Opt(STR)},
    hyps=[], concl={"cover": "s is None or s == 'cffsubr' or s == 'compreffor' or (s != 'cffsubr' and s != 'compreffor')"},
    canaries={"three-suffice": "s is None or s == 'cffsubr' or s == 'compreffor'"},
)

# ---- process_cff --------------------------------------------------------------------------------------------------------------
_PCFF_MOD = ["C12Libs.calls", "PPFont.pristine", "PPFont.CFF2_loaded"] + _TABLES_MOD + c11._POST_FIELDS


def _sub_req(case, sub="subroutinizer"):
    return [f"{sub} != 'cffsubr' and {sub} != 'compreffor'"] if case == "unknown" else []


def _default_member():
    vals = list(_PPC.DEFAULT_SUBROUTINIZER_FOR_CFF_VERSION.values())
    return vals[0].value if all(v is vals[0] for v in vals) else None


def _sub_calls(case):
    """which `_subroutinize` variant a process_cff variant reaches
    (`unknown`: SubroutinizerBackend(subroutinizer) raises; the call below it is on an infeasible path and only needs to resolve)"""
    member = {"default": _default_member(), "cffsubr": "cffsubr", "compreffor": "compreffor", "unknown": list(_BACKENDS)[0].value}[case]
    return {f"{PP}._subroutinize": f"{PP}._subroutinize#{member}"} if member else {}


def _pcff_gen(case):
    def gen(rng, n):
        return [{"tags": t, "opt": o, "ver": v, "sub": s} for t in _TAGSETS for o in (False, True) for v in (None, 1, 2, 0, 3) for s in _SUB_VALUES[case]]

    return gen


def _fake_pp(d):
    pp = _PPC.__new__(_PPC)
    pp.otf, pp.ufo, pp.glyphSet, pp.info, pp._postscriptNames = _FakeOTF(d["tags"]), None, None, None, None
    return pp


# the table as the property words it (default backend = cffsubr for both versions); a different default table in the
# code makes the `default` variant fail or fall out of reach
_T_PCFF = Table("optimizeCFF", "self.otf", "self.otf")
for _case in _SUB_PARAM:
    contract(
        f"{PP}.process_cff", name=_case, props=["C12"],
        params={"self": Ref("PostProcessor"), "optimizeCFF": BOOL, "cffVersion": Opt(INT), "subroutinizer": _SUB_PARAM[_case]},
        requires=_sub_req(_case),
        calls=_sub_calls(_case),
        modifies=_PCFF_MOD,
        raises={
            "ValueError": f"not {_T_PCFF.has_table0} or {_T_PCFF.value_error(_case)}",
            "NotImplementedError": f"{_T_PCFF.has_table0} and {_T_PCFF.not_implemented(_case)}",
        },
        ensures={**_T_PCFF.ensures(_case), "same-font-object": "self.otf_id == old(self.otf_id)"},
        canaries={"never-a-library-call": _T_PCFF.no_call(), "always-cff1": "'CFF ' in self.otf"},
    )
    CONTRACTS[f"{PP}.process_cff#{_case}"].runtime = Runtime(
        _pcff_gen(_case),
        lambda d: {"self": _fake_pp(d), "optimizeCFF": d["opt"], "cffVersion": d["ver"], "subroutinizer": d["sub"]},
        call=_with_libs(lambda fn, a: fn(a["self"], optimizeCFF=a["optimizeCFF"], cffVersion=a["cffVersion"], subroutinizer=a["subroutinizer"])),
    )

# ---- process ------------------------------------------------------------------------------------------------------------------
# optimizeCFF is a bool or an optimisation level (CFFOptimization / int): one variant per kind.  "If True or >=
# CFFOptimization.SUBROUTINIZE, subroutinize": the level only matters through `level >= 2`.  A font without CFF/CFF2 table
# is left alone by this step.  The glyph-name step that follows (process_glyph_names, C11) calls none of the libraries
# (its frame does not contain the log) and keeps the table set, so the table of process_cff is the table of process.
CLASSES["PostProcessor"].fields.setdefault("info", Opt(Dict(STR, STR)))
# the glyph-name step is used through its FRAME contract (contracts/c11.py: no precondition, all flavours): it writes names only
_PGN_FRAME = f"{PP}.process_glyph_names#frame"
_PROCESS_MOD = sorted(set(_PCFF_MOD) | set(CONTRACTS[_PGN_FRAME].modifies))
_OPT_KINDS = {"bool": (BOOL, "optimizeCFF", [False, True]), "level": (INT, "optimizeCFF >= 2", [-1, 0, 1, 2, 3, 7])}


def no_cffsubr_downgrade(T, case):
    """precondition of process / postprocess (not of process_cff): the font is not a CFF2 font that cffsubr is asked to turn into
    CFF 1.  ufo2ft accepts that cell (process_cff proves the call that is made), but `cffsubr.subroutinize(otf, cff_version=1,
    keep_glyph_names=False)` on a CFF2 font whose post table stores no names invents glyph names, so the new CFF charset
    disagrees with the TTFont's glyph order and the font can no longer be saved (KeyError in hhea.recalc) — which is what the
    glyph-name step does next when it renames (notes/C12.md, observation F-C12-a).  Call sites: compileOTF hands the
    post-processor the outline compiler's font, which has a 'CFF ' table (IN = 1); CFF2 fonts come from varLib (variable fonts),
    for which CFF 1 is not an output format."""
    if case not in ("default", "cffsubr"):
        return []
    return [f"not ({T.has_table0} and ({T.opt}) and {T.IN0} == 2 and {T.OUT0} == 1)"]


def process_contract_parts(T, case):
    old_has = "old(" + T.has_table0 + ")"
    ens = {k: f"implies({old_has}, {v})" for k, v in T.ensures(case).items()}
    # a font without CFF/CFF2 table is none of this step's business
    ens["no-cff-table-nothing-to-do"] = f"implies(not {old_has}, " + T.no_call() + ")"
    raises = {"ValueError": f"{T.has_table0} and ({T.value_error(case)})", "NotImplementedError": f"{T.has_table0} and {T.not_implemented(case)}"}
    return ens, raises


for _kind, (_oty, _opt, _) in _OPT_KINDS.items():
    _T = Table(_opt, "self.otf", "self.otf")
    for _case in _SUB_PARAM:
        _ens, _raises = process_contract_parts(_T, _case)
        contract(
            f"{PP}.process", name=f"{_kind}/{_case}", props=["C12"],
            params={"self": Ref("PostProcessor"), "useProductionNames": Opt(BOOL), "optimizeCFF": _oty, "cffVersion": Opt(INT), "subroutinizer": _SUB_PARAM[_case]},
            returns=Ref("PPFont"),
            requires=_sub_req(_case) + [
                # compileOTF / compileTTF reach process through BaseCompiler.compile -> postprocess(font, ufo, glyphSet): info=None
                # (only variable-font builds pass fontinfo overrides; apply_fontinfo is C16's InfoCompiler)
                "self.info is None",
            ] + no_cffsubr_downgrade(_T, _case),
            calls={f"{PP}.process_cff": f"{PP}.process_cff#{_case}", f"{PP}.process_glyph_names": _PGN_FRAME},
            modifies=_PROCESS_MOD,
            raises=_raises,
            ensures={**_ens, "returns-the-font": "result.font_id == self.otf_id"},
            canaries={"never-a-library-call": _T.no_call(), "always-cff1": "'CFF ' in self.otf"},
        )


# run-time side of process: REAL compiled fonts (OutlineOTFCompiler / OutlineTTFCompiler output, optionally converted to
# CFF2) and the REAL libraries behind the recorders, so the table effects assumed of the libraries are exercised too
def _process_cases(kind, case):
    def gen(rng, n):
        cap = 10 if n <= 100 else 40
        out = []
        names = c11.names_cases(rng, 8)
        for flavor in ("cff", "cff2", "ttf"):
            for o in _OPT_KINDS[kind][2]:
                for v in (None, 1, 2, 0):
                    for s in _SUB_VALUES[case]:
                        d = dict(rng.choice(names))
                        if any(ord(ch) > 126 for g in d["glyphs"] for ch in g):
                            continue
                        d.update(flavor=flavor, lib={}, opt=o, ver=v, sub=s, upn=rng.choice([None, False, False, True]))
                        out.append(d)
        rng.shuffle(out)
        return out[:cap]

    return gen


def _process_build(d):
    pp = c11.compiled_font(d)
    pp.info = None
    del NATIVE_LIBS.calls[:-3]
    return {"self": pp, "useProductionNames": d["upn"], "optimizeCFF": d["opt"], "cffVersion": d["ver"], "subroutinizer": d["sub"]}


for _kind in _OPT_KINDS:
    for _case in _SUB_PARAM:
        CONTRACTS[f"{PP}.process#{_kind}/{_case}"].runtime = Runtime(
            _process_cases(_kind, _case), _process_build,
            call=_with_libs(lambda fn, a: fn(a["self"], useProductionNames=a["useProductionNames"], optimizeCFF=a["optimizeCFF"], cffVersion=a["cffVersion"], subroutinizer=a["subroutinizer"])),
        )


# =====================================================================================================
# Option plumbing: how optimizeCFF / roundTolerance / cffVersion / subroutinizer travel from the compiler dataclass to
# the outline compiler (charstring specialisation) and to the post-processor (subroutinisation, CFF format)

# ---- OutlineOTFCompiler.__init__: level -> "specialise charstrings" ------------------------------------------------------------
cls("C12_SuperInit", methods={"__init__": lambda ex, st, self, args, kwargs, node: Val.const(None)},
    notes="super() inside OutlineOTFCompiler.__init__: BaseOutlineCompiler.__init__ is summarised by its FRAME only — it stores neither "
          "roundTolerance nor optimizeCFF (syntactic obligation C12.frame.attribute-stores in the hook: an exhaustive AST scan of Lib/ufo2ft)")


@trusted("c12.super_init", "frame summary of BaseOutlineCompiler.__init__ (no store to roundTolerance / optimizeCFF / _defaultAndNominalWidths): "
         "discharged syntactically by hook obligation C12.frame.attribute-stores")
def _super_init(ex, st, args, kwargs, node):
    return ex.new_object(st, "C12_SuperInit")


cls("C12Font", notes="the source font handed to the outline compiler (only passed along)")
CLASSES["C12OTFCompiler"].fields["_defaultAndNominalWidths"] = Opt(INT)  # only ever None here

for _kind, (_oty, _spec, _vals) in {"bool": (BOOL, "optimizeCFF", [False, True]), "level": (INT, "optimizeCFF >= 1", [-1, 0, 1, 2, 3])}.items():
    contract(
        f"{OC}.__init__", name=f"C12-{_kind}", props=["C12"],
        params={"self": Ref("C12OTFCompiler"), "font": Ref("C12Font"), "roundTolerance": Opt(REAL), "optimizeCFF": _oty},
        globals={"super": Val.obj(FuncRef(None, "c12.super_init"))},
        modifies=["C12OTFCompiler.roundTolerance", "C12OTFCompiler.optimizeCFF", "C12OTFCompiler._defaultAndNominalWidths"],
        ensures={
            # charstrings are specialised iff True / level >= CFFOptimization.SPECIALIZE; nothing else depends on the level
            "specialise-iff": f"self.optimizeCFF == ({_spec})",
            # the rounding tolerance is the argument's business alone (None: round to integers)
            "tolerance": "self.roundTolerance == (0.5 if roundTolerance is None else roundTolerance)",
        },
        canaries={"always-specialise": "self.optimizeCFF", "always-half": "self.roundTolerance == 0.5"},
    )

    def _oc_init_build(d):
        import ufoLib2

        from ufo2ft.outlineCompiler import OutlineOTFCompiler

        ufo = ufoLib2.Font()
        ufo.newGlyph("a").width = 500
        return {"self": OutlineOTFCompiler.__new__(OutlineOTFCompiler), "font": ufo, "roundTolerance": d["rt"], "optimizeCFF": d["opt"]}

    CONTRACTS[f"{OC}.__init__#C12-{_kind}"].runtime = Runtime(
        lambda rng, n, _vals=_vals: [{"rt": r, "opt": o} for r in (None, 0, 0.001, 0.25, 0.5, 1) for o in _vals], _oc_init_build,
    )

# ---- PostProcessor.__init__ -----------------------------------------------------------------------------------------------------
contract(
    f"{PP}.__init__", props=["C12", "C11"],
    # glyphSet: the compilers always pass the pre-processed glyph set (BaseCompiler.postprocess: glyphSet=glyphSet)
    params={"self": Ref("PostProcessor"), "otf": Ref("PPFont"), "ufo": Ref("PPUfo"), "glyphSet": Ref("PPGlyphSet"), "info": Opt(Dict(STR, STR))},
    modifies=["PostProcessor.ufo", "PostProcessor.glyphSet", "PostProcessor.info", "PostProcessor.otf", "PostProcessor._postscriptNames"],
    ensures={
        "font": "self.otf_id == otf.font_id", "source": "self.ufo is ufo", "glyph-set": "self.glyphSet is glyphSet", "info": "self.info == info",
        # the renaming map is the UFO's public.postscriptNames (None when the key is absent)
        "postscript-names": "self._postscriptNames == ufo.lib.get('public.postscriptNames')",
    },
    canaries={"no-names": "self._postscriptNames is None"},
)


def _pp_init_build(d):
    pp = c11.build_pp(d)
    return {"self": _PPC.__new__(_PPC), "otf": pp.otf, "ufo": pp.ufo, "glyphSet": dict((g.name, g) for g in pp.ufo), "info": None}


CONTRACTS[f"{PP}.__init__"].runtime = Runtime(lambda rng, n: c11.names_cases(rng, min(n, 60)), _pp_init_build)

# ---- the compiler dataclass (OTFCompiler) ---------------------------------------------------------------------------------------
import dataclasses  # noqa: E402

from pyvc.api import Opaque  # noqa: E402
from pyvc.exprs import BoundMethod  # noqa: E402

_OTFC = importlib.import_module("ufo2ft._compilers.otfCompiler").OTFCompiler
_UTIL = importlib.import_module("ufo2ft.util")
_DC_TYPED = {"optimizeCFF": INT, "roundTolerance": Opt(REAL), "cffVersion": Opt(INT), "subroutinizer": Opt(STR), "useProductionNames": Opt(BOOL)}
_DC_FIELDS = [f.name for f in dataclasses.fields(_OTFC)] + ["logger", "timer"]  # what the instance __dict__ holds (__post_init__ adds the last two)


def _dc_dict(ex, st, self):
    """vars(compiler): every dataclass field (+ logger, timer) under its name"""
    return Val(PYOBJ, None, {n: ex.read_field(st, self, n) for n in _DC_FIELDS if n not in ("postProcessorClass", "outlineCompilerClass")}, True)


cls(
    "C12Compiler",
    fields={**{n: Opaque("dataclass_field_" + n) for n in _DC_FIELDS}, **_DC_TYPED},
    derived={
        "__dict__": _dc_dict,
        "postProcessorClass": lambda ex, st, self: Val.obj(FuncRef(_PPC, "ufo2ft.postProcessor.PostProcessor")),
        "outlineCompilerClass": lambda ex, st, self: Val.obj(FuncRef(importlib.import_module("ufo2ft.outlineCompiler").OutlineOTFCompiler, "ufo2ft.outlineCompiler.OutlineOTFCompiler")),
    },
    repo="ufo2ft._compilers.otfCompiler:OTFCompiler",
    notes="OTFCompiler dataclass instance: optimizeCFF (CFFOptimization level), roundTolerance, cffVersion, subroutinizer, useProductionNames; every other "
          "field opaque; postProcessorClass / outlineCompilerClass at their defaults (PostProcessor, OutlineOTFCompiler)",
)


def _c12_prune_marker():
    """placeholder: the name `prune_unknown_kwargs` in BaseCompiler.postprocess / compileOutlines resolves to the model below"""


@trusted("contracts.c12._c12_prune_marker", "util.prune_unknown_kwargs(kwargs, *callables) is RUN (the real function, on the real callables) on the KEY SET of kwargs; "
         "the entries under the surviving keys are passed on unchanged. ASSUMED: the function does not look at the values (its body is a dict comprehension "
         "`{k: v for k, v in kwargs.items() if k in known_args}`) [bounded: run-time cross-check of the callers]")
def _prune(ex, st, args, kwargs, node):
    d, callables = args[0], args[1:]
    if not (d.is_py and isinstance(d.py, dict)) or kwargs:
        raise Unsupported("prune_unknown_kwargs of a symbolic dict", node)
    real = []
    for c in callables:
        o = c.py if c.is_py else None
        if isinstance(o, FuncRef) and o.obj is not None:
            real.append(o.obj)
        elif isinstance(o, BoundMethod) and isinstance(o.recv.ty, T.Ref) and ex.real_class(ex.class_of(o.recv.ty)) is not None:
            k = ex.real_class(ex.class_of(o.recv.ty))
            real.append(getattr(k.__new__(k), o.name))  # a bound method of an (uninitialised) instance of the real class
        else:
            raise Unsupported(f"prune_unknown_kwargs: callable {c} is not a real function / class / bound method", node)
    kept = _UTIL.prune_unknown_kwargs({k: None for k in d.py}, *real)
    return Val(PYOBJ, None, {k: v for k, v in d.py.items() if k in kept}, True)


_PRUNE_GLOBALS = {"prune_unknown_kwargs": Val.obj(FuncRef(_c12_prune_marker, "contracts.c12._c12_prune_marker"))}

# ---- BaseCompiler.compileOutlines: optimizeCFF / roundTolerance reach the outline compiler ----------------------------------------
BC = "ufo2ft._compilers.baseCompiler:BaseCompiler"
cls("C12Compiled", fields={"compiler": Ref("C12OTFCompiler")}, notes="what OutlineOTFCompiler.compile() returns: remembers the outline compiler that built it")


def _oc_compile(ex, st, self, args, kwargs, node):
    r = ex.new_object(st, "C12Compiled")
    ex.write_field(st, r, "compiler", self, node)
    return r


CLASSES["C12OTFCompiler"].methods["compile"] = _oc_compile


def _oc_ctor(ex, st, args, kwargs, node):
    """OutlineOTFCompiler(...) = a new instance initialised by the contract of its __init__ (level variant)"""
    obj = ex.new_object(st, "C12OTFCompiler")
    ex.call_contract(CONTRACTS[f"{OC}.__init__#C12-level"], [obj] + list(args), kwargs, st, node, implicit=1)
    return obj


contract(
    f"{BC}.compileOutlines", name="C12", props=["C12"],
    params={"self": Ref("C12Compiler"), "ufo": Ref("C12Font"), "glyphSet": Ref("C12GlyphSet")},
    returns=Ref("C12Compiled"),
    globals=_PRUNE_GLOBALS,
    models={"ufo2ft.outlineCompiler.OutlineOTFCompiler": _oc_ctor},
    modifies=["C12OTFCompiler.roundTolerance", "C12OTFCompiler.optimizeCFF", "C12OTFCompiler._defaultAndNominalWidths", "C12Compiled.compiler"],
    ensures={
        # charstring specialisation is on iff the compiler's level is >= CFFOptimization.SPECIALIZE ...
        "level-reaches-outline-compiler": "result.compiler.optimizeCFF == (self.optimizeCFF >= 1)",
        # ... and the rounding tolerance is the compiler's, whatever the level
        "tolerance-reaches-outline-compiler": "result.compiler.roundTolerance == (0.5 if self.roundTolerance is None else self.roundTolerance)",
    },
    canaries={"always-specialise": "result.compiler.optimizeCFF"},
)


def _co_build(d):
    from types import SimpleNamespace

    import ufoLib2

    from ufo2ft.outlineCompiler import OutlineOTFCompiler

    class Rec(OutlineOTFCompiler):
        def compile(self):
            return SimpleNamespace(compiler=self)

    ufo = ufoLib2.Font()
    ufo.newGlyph("a").width = 500
    kw = {} if d["rt"] == "unset" else {"roundTolerance": d["rt"]}
    return {"self": _OTFC(optimizeCFF=d["opt"], outlineCompilerClass=Rec, **kw), "ufo": ufo, "glyphSet": {g.name: g for g in ufo}}


CONTRACTS[f"{BC}.compileOutlines#C12"].runtime = Runtime(
    lambda rng, n: [{"rt": r, "opt": o} for r in ("unset", None, 0, 0.001, 0.25, 0.5) for o in (0, 1, 2, 3)], _co_build,
)

# ---- BaseCompiler.postprocess: optimizeCFF / cffVersion / subroutinizer / useProductionNames reach PostProcessor.process -------------
# (static builds: BaseCompiler.compile calls self.postprocess(font, ufo, glyphSet), i.e. info=None)
_T_POST = Table("self.optimizeCFF >= 2", "ttf", "result", ver="self.cffVersion", sub="self.subroutinizer", log="ttf.libs.calls")
_SUB_IS = {"default": "self.subroutinizer is None", "cffsubr": "self.subroutinizer == 'cffsubr'", "compreffor": "self.subroutinizer == 'compreffor'",
           "unknown": "self.subroutinizer is not None and self.subroutinizer != 'cffsubr' and self.subroutinizer != 'compreffor'"}
_POSTPROCESS_MOD = sorted(set(_PROCESS_MOD) | set(CONTRACTS[f"{PP}.__init__"].modifies))

for _case in _SUB_PARAM:
    _ens, _raises = process_contract_parts(_T_POST, _case)
    contract(
        f"{BC}.postprocess", name=f"C12/{_case}", props=["C12"],
        params={"self": Ref("C12Compiler"), "ttf": Ref("PPFont"), "ufo": Ref("PPUfo"), "glyphSet": Ref("PPGlyphSet"), "info": Const(None)},
        returns=Ref("PPFont"),
        globals=_PRUNE_GLOBALS,
        requires=[_SUB_IS[_case]] + no_cffsubr_downgrade(_T_POST, _case),
        calls={f"{PP}.process": f"{PP}.process#level/{_case}"},
        modifies=_POSTPROCESS_MOD,
        raises=_raises,
        ensures=_ens,
        canaries={"never-a-library-call": _T_POST.no_call(), "always-cff1": "'CFF ' in result"},
    )


def _postprocess_cases(case):
    def gen(rng, n):
        cap = 10 if n <= 100 else 40
        out = []
        names = c11.names_cases(rng, 8)
        for flavor in ("cff", "cff2", "ttf"):
            for o in (0, 1, 2, 3):
                for v in (None, 1, 2, 0):
                    for s in _SUB_VALUES[case]:
                        d = dict(rng.choice(names))
                        if any(ord(ch) > 126 for g in d["glyphs"] for ch in g):
                            continue
                        d.update(flavor=flavor, lib={}, opt=o, ver=v, sub=s, upn=rng.choice([None, False, False, True]))
                        out.append(d)
        rng.shuffle(out)
        return out[:cap]

    return gen


def _postprocess_build(d):
    pp = c11.compiled_font(d)
    del NATIVE_LIBS.calls[:-3]
    comp = _OTFC(optimizeCFF=d["opt"], cffVersion=d["ver"], subroutinizer=d["sub"], useProductionNames=d["upn"])
    return {"self": comp, "ttf": pp.otf, "ufo": pp.ufo, "glyphSet": pp.glyphSet, "info": None}


for _case in _SUB_PARAM:
    CONTRACTS[f"{BC}.postprocess#C12/{_case}"].runtime = Runtime(
        _postprocess_cases(_case), _postprocess_build, call=_with_libs(lambda fn, a: fn(a["self"], a["ttf"], a["ufo"], a["glyphSet"])),
    )


# =====================================================================================================
# End to end: BaseCompiler.compile as run by compileOTF (= OTFCompiler(**kwargs).compile(ufo), hook S): preprocess ->
# compileOutlines -> compileFeatures -> postprocess.  What is proved here is the COMPOSITION: the outline compiler that
# builds the font got "specialise iff level >= SPECIALIZE" and the compiler's roundTolerance, and the font it built (a 'CFF '
# font, IN = 1) goes through the dispatch table of postprocess with the compiler's level / cffVersion / subroutinizer.
_NativeLibs.compiles = []
CLASSES["C12Compiler"].fields.update({"layerName": Opt(STR), "skipFeatureCompilation": BOOL})
CLASSES["C12Compiler"].derived["libs"] = _libs
CLASSES["C12Compiler"].views["libs"] = lambda o: NATIVE_LIBS


_OC_COMPILE_DOC = """SUMMARY of OutlineOTFCompiler.compile() (ufo2ft code, not executed here): returns a new font with a 'CFF ' table and no
'CFF2' table (sfntVersion 'OTTO': setupTable_CFF always runs for the full table set) [bounded: run-time cross-check of
compile#C12 on real UFOs, observer O]; recorded in libs.compiles"""


cls("C12OTFCompilerE", fields=dict(CLASSES["C12OTFCompiler"].fields), repo=OC,
    notes="OutlineOTFCompiler instance whose compile() is summarised as 'a new CFF font' (end-to-end composition)")
CLASSES["C12Libs"].fields["compiles"] = List(Ref("C12OTFCompilerE"))  # the outline compilers that have built a font, in order


def _oc_compile_font_e(ex, st, self, args, kwargs, node):
    r = ex.new_object(st, "PPFont")
    ex.write_field(st, r, "has_CFF", Val.const(True), node)
    ex.write_field(st, r, "has_CFF2", Val.const(False), node)
    w = Val(Ref("C12Libs"), _WORLD)
    cur = ex.read_field(st, w, "compiles")
    ex.write_field(st, w, "compiles", Val(List(Ref("C12OTFCompilerE")), z3.Concat(cur.term, z3.Unit(lift(self)))), node)
    return r


_oc_compile_font_e.__doc__ = _OC_COMPILE_DOC
CLASSES["C12OTFCompilerE"].methods["compile"] = _oc_compile_font_e

for _kind, (_oty, _spec) in {"level": (INT, "optimizeCFF >= 1")}.items():
    contract(
        f"{OC}.__init__", name="C12-e2e", props=["C12"],
        params={"self": Ref("C12OTFCompilerE"), "font": Ref("C12Font"), "roundTolerance": Opt(REAL), "optimizeCFF": _oty},
        globals={"super": Val.obj(FuncRef(None, "c12.super_init"))},
        modifies=["self.roundTolerance", "self.optimizeCFF", "self._defaultAndNominalWidths"],
        ensures={"specialise-iff": f"self.optimizeCFF == ({_spec})", "tolerance": "self.roundTolerance == (0.5 if roundTolerance is None else roundTolerance)"},
        canaries={"always-specialise": "self.optimizeCFF"},
    )


def _oc_ctor_e(ex, st, args, kwargs, node):
    """OutlineOTFCompiler(ufo, glyphSet=.., **kw) = a new instance initialised by the contract of its __init__ (the source font is
    only passed along: it is replaced by an opaque object here)"""
    obj = ex.new_object(st, "C12OTFCompilerE")
    kw = {k: v for k, v in kwargs.items() if k != "glyphSet"}
    ex.call_contract(CONTRACTS[f"{OC}.__init__#C12-e2e"], [obj, ex.new_object(st, "C12Font")], kw, st, node, implicit=1)
    return obj


_E2E_OC_MOD = ["C12OTFCompilerE.roundTolerance", "C12OTFCompilerE.optimizeCFF", "C12OTFCompilerE._defaultAndNominalWidths", "C12Libs.compiles",
               "PPFont.has_CFF", "PPFont.has_CFF2"]
_BUILT = "self.libs.compiles"
contract(
    f"{BC}.compileOutlines", name="C12-e2e", props=["C12"],
    params={"self": Ref("C12Compiler"), "ufo": Ref("PPUfo"), "glyphSet": Ref("PPGlyphSet")},
    returns=Ref("PPFont"),
    globals=_PRUNE_GLOBALS,
    models={"ufo2ft.outlineCompiler.OutlineOTFCompiler": _oc_ctor_e},
    modifies=_E2E_OC_MOD,
    ensures={
        "one-outline-compiler": f"len({_BUILT}) == len(old({_BUILT})) + 1",
        "level-reaches-outline-compiler": f"{_BUILT}[-1].optimizeCFF == (self.optimizeCFF >= 1)",
        "tolerance-reaches-outline-compiler": f"{_BUILT}[-1].roundTolerance == (0.5 if self.roundTolerance is None else self.roundTolerance)",
        "a-new-cff-font": "fresh(result) and 'CFF ' in result and 'CFF2' not in result",
        "no-library-call": "self.libs.calls == old(self.libs.calls)",
    },
    canaries={"always-specialise": f"{_BUILT}[-1].optimizeCFF"},
)

# SUMMARIES of the two steps that are other properties' business (ufo2ft code; used at the two call sites in compile, never proved
# here): they do not touch the compiler's CFF options (hook S: no attribute store to them anywhere in Lib/ufo2ft), call none of
# the CFF libraries (hook S: the three entry points are referenced in postProcessor.py only) and leave the font's table SET
# alone as far as 'CFF ' / 'CFF2' / 'post' go (feature compilation ADDS layout tables) [bounded: run-time cross-check of
# compile#C12, observer O].
contract(
    f"{BC}.preprocess", name="C12-summary", props=[],
    params={"self": Ref("C12Compiler"), "ufo_or_ufos": Ref("PPUfo")}, returns=Ref("PPGlyphSet"),
    modifies=["C12Compiler.skipExportGlyphs"],
    notes="assumed summary (frame only)",
)
contract(
    f"{BC}.compileFeatures", name="C12-summary", props=[],
    params={"self": Ref("C12Compiler"), "ufo": Ref("PPUfo"), "ttFont": Ref("PPFont"), "glyphSet": Ref("PPGlyphSet")},
    modifies=["C12Compiler.featureCompilerClass", "PPFont.pristine", "PPFont.CFF2_loaded"],
    notes="assumed summary (frame only)",
)

_E2E_MOD = sorted(set(_POSTPROCESS_MOD) | set(_E2E_OC_MOD) | {"C12Compiler.skipExportGlyphs", "C12Compiler.featureCompilerClass"})
_L = "self.libs.calls"
_VER = "self.cffVersion"
_OUT1 = f"(1 if {_VER} is None else {_VER})"  # IN is 1: the outline compiler builds a 'CFF ' table
_OPT_E = "(self.optimizeCFF >= 2)"
_BADV = f"({_VER} is not None and {_VER} != 1 and {_VER} != 2)"


def _e2e_one_call(fn, ver, keep):
    return (f"len({_L}) == len(old({_L})) + 1 and {_L}[:-1] == old({_L}) and {_L}[-1].fn == {fn!r} and {_L}[-1].cff_version == {ver} "
            f"and {_L}[-1].keep_glyph_names == {keep}")


def _e2e_parts(case):
    ve = _BADV + (f" or {_OPT_E}" if case == "unknown" else "")
    nie = f"not ({ve}) and {_OPT_E} and {_OUT1} != 1" if case == "compreffor" else "False"
    sub = {
        "cffsubr": {"subroutinize-with-cffsubr": f"implies({_OPT_E}, " + _e2e_one_call("cffsubr.subroutinize", _OUT1, False) + ")"},
        "compreffor": {"subroutinize-with-compreffor": f"implies({_OPT_E}, " + _e2e_one_call("compreffor.compress", None, None) + ")"},
        "unknown": {},
    }
    sub["default"] = sub["cffsubr"]
    ens = {
        **sub[case],
        "no-optimize-cff1": f"implies(not {_OPT_E} and {_OUT1} == 1, {_L} == old({_L}))",
        "no-optimize-convert": f"implies(not {_OPT_E} and {_OUT1} == 2, " + _e2e_one_call("convertCFFToCFF2", None, None) + ")",
        "requested-flavour": f"iff('CFF ' in result, {_OUT1} == 1) and implies({_OUT1} == 2, 'CFF2' in result)",
        # the font was drawn by exactly one outline compiler, which specialises iff level >= SPECIALIZE and rounds as the compiler says
        "one-outline-compiler": f"len({_BUILT}) == len(old({_BUILT})) + 1",
        "level-reaches-outline-compiler": f"{_BUILT}[-1].optimizeCFF == (self.optimizeCFF >= 1)",
        "tolerance-reaches-outline-compiler": f"{_BUILT}[-1].roundTolerance == (0.5 if self.roundTolerance is None else self.roundTolerance)",
    }
    return ens, {"ValueError": ve, "NotImplementedError": nie}


for _case in _SUB_PARAM:
    _ens, _raises = _e2e_parts(_case)
    contract(
        f"{BC}.compile", name=f"C12/{_case}", props=["C12"],
        params={"self": Ref("C12Compiler"), "ufo": Ref("PPUfo")},
        returns=Ref("PPFont"),
        requires=[_SUB_IS[_case]],
        calls={f"{BC}.preprocess": f"{BC}.preprocess#C12-summary", f"{BC}.compileOutlines": f"{BC}.compileOutlines#C12-e2e",
               f"{BC}.compileFeatures": f"{BC}.compileFeatures#C12-summary", f"{BC}.postprocess": f"{BC}.postprocess#C12/{_case}"},
        modifies=_E2E_MOD,
        raises={k: v for k, v in _raises.items() if v != "False"},
        ensures=_ens,
        canaries={"never-a-library-call": f"{_L} == old({_L})", "always-cff1": "'CFF ' in result"},
    )


def _e2e_cases(case):
    def gen(rng, n):
        cap = 8 if n <= 100 else 30
        out = []
        names = c11.names_cases(rng, 8)
        for o in (0, 1, 2, 3):
            for v in (None, 1, 2, 0):
                for s_ in _SUB_VALUES[case]:
                    for rt_ in ("unset", None, 0, 0.25):
                        d = dict(rng.choice(names))
                        # (a font holding nothing but .notdef cannot be read back by fontTools - cffLib charset AttributeError - so the
                        # reload inside the glyph-name step fails for reasons that are not this property's: keep one named glyph)
                        if not d["glyphs"] or any(ord(ch) > 126 for g in d["glyphs"] for ch in g):
                            continue
                        d.update(opt=o, ver=v, sub=s_, rt=rt_, upn=rng.choice([None, False, True]))
                        out.append(d)
        rng.shuffle(out)
        return out[:cap]

    return gen


def _e2e_build(d):
    import logging

    from ufo2ft.outlineCompiler import OutlineOTFCompiler

    logging.getLogger("ufo2ft").setLevel(logging.ERROR)
    logging.getLogger("fontTools").setLevel(logging.ERROR)

    class Rec(OutlineOTFCompiler):
        def compile(self):
            NATIVE_LIBS.compiles.append(self)
            return super().compile()

    ufo = c11.build_pp(d, otf=c11.FakeFont([])).ufo
    del NATIVE_LIBS.calls[:-3]
    del NATIVE_LIBS.compiles[:-3]
    kw = {} if d["rt"] == "unset" else {"roundTolerance": d["rt"]}
    return {"self": _OTFC(optimizeCFF=d["opt"], cffVersion=d["ver"], subroutinizer=d["sub"], useProductionNames=d["upn"], outlineCompilerClass=Rec, **kw), "ufo": ufo}


for _case in _SUB_PARAM:
    CONTRACTS[f"{BC}.compile#C12/{_case}"].runtime = Runtime(_e2e_cases(_case), _e2e_build, call=_with_libs(lambda fn, a: fn(a["self"], a["ufo"])))
CONTRACTS[f"{BC}.compileOutlines#C12-e2e"].runtime = Runtime(
    lambda rng, n: [dict(d, opt=o, ver=None, sub=None, rt=r, upn=None) for d in c11.names_cases(rng, 3) for o in (0, 1, 2) for r in ("unset", 0.25)
                    if not any(ord(ch) > 126 for g in d["glyphs"] for ch in g)],
    lambda d: (lambda a: {"self": a["self"], "ufo": a["ufo"], "glyphSet": {g.name: g for g in a["ufo"]}})(_e2e_build(d)),
)
