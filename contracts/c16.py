"""C16 — font info: explicit values win, absent ones fall back; PostScript name characters.

What is under contract here (all on the real functions of ufo2ft/fontInfoData.py):

* `getAttrWithFallback`, one NAMED variant per attribute (the attribute name is a literal at every call site;
  call sites elsewhere use the trusted summary of contracts/lib.py registered under the bare name):
    explicit   a present, non-None value is returned unchanged — `is not None`, so 0 / False / [] / "" win;
    fallback   otherwise the DOCUMENTED fallback: a constant (table `STATIC` below, written from the UFO /
               ufo2ft documentation, not read from the code) or the documented formula over other
               with-fallback values (table `SPECIAL`).
* every special fallback function that pyvc can reach, against its documented formula;
* `intListToNum`, one variant per call-site signature (start, length): the loop is unrolled, the result is
  the sum of 2^(i-start) over the DISTINCT bit numbers i of the range that occur in the list;
* `normalizeNameForPostscript` through the contract of `normalizeStringForPostscript`, whose per-character
  clause is discharged by complete enumeration in vcheck/hooks/c16.py (the function itself is outside
  pyvc's subset: str.encode/decode).
"""
import math as _math

import ufo2ft.fontInfoData as _fid
import z3
from fontTools.misc.fixedTools import otRound as _otRound
from pyvc.api import BOOL, CLASSES, CONTRACTS, INT, REAL, STR, Const, Dict, List, Loop, Map, Opaque, Opt, Ref, Runtime, Set, Tuple, cls, contract, lemma, specfn, trusted
from pyvc.core import PYOBJ, Unsupported, Val, lift
from pyvc.ops import is_const
from pyvc.symex import FuncRef

from . import lib, spec  # noqa: F401

P = ["C16"]
MOD = "ufo2ft.fontInfoData"


class _Fn(FuncRef):
    """A real function usable in clauses by BOTH interpreters: the symbolic one sees the FuncRef (and so the
    callee's contract / trusted model), CPython calls the real function."""

    def __init__(self, obj):
        FuncRef.__init__(self, obj, f"{obj.__module__}.{obj.__qualname__}")

    def __call__(self, *a, **k):
        return self.obj(*a, **k)


# names the clauses use beyond the clause language (same objects as in the module under verification)
G = {"getAttrWithFallback": _Fn(_fid.getAttrWithFallback), "otRound": _Fn(_otRound), "math": _math}

# =========================================================================================================
# Documented fallbacks.  STATIC: attribute -> (type, constant).  Written from the documentation of the UFO3
# fontinfo attributes / ufo2ft's documented defaults — deliberately NOT read from staticFallbackData.
NUM, TXT, INTS, NUMS = REAL, STR, List(INT), List(REAL)
NAMEREC = Opaque("NameRecord")

STATIC = {
    # UFO3: versionMajor is an integer, versionMinor a non-negative integer
    "versionMajor": (INT, 0),
    "versionMinor": (INT, 0),
    "copyright": (TXT, None),
    "trademark": (TXT, None),
    "familyName": (TXT, "New Font"),
    "styleName": (TXT, "Regular"),
    "unitsPerEm": (NUM, 1000),
    "italicAngle": (NUM, 0),
    "year": (NUM, None),
    "note": (TXT, None),
    "openTypeHeadLowestRecPPEM": (NUM, 6),
    "openTypeHeadFlags": (INTS, [0, 1]),
    "openTypeHheaLineGap": (NUM, 0),
    "openTypeHheaCaretOffset": (NUM, 0),
    "openTypeNameDesigner": (TXT, None),
    "openTypeNameDesignerURL": (TXT, None),
    "openTypeNameManufacturer": (TXT, None),
    "openTypeNameManufacturerURL": (TXT, None),
    "openTypeNameLicense": (TXT, None),
    "openTypeNameLicenseURL": (TXT, None),
    "openTypeNameDescription": (TXT, None),
    "openTypeNameCompatibleFullName": (TXT, None),
    "openTypeNameSampleText": (TXT, None),
    "openTypeNameRecords": (List(NAMEREC), []),
    "openTypeOS2WidthClass": (NUM, 5),
    "openTypeOS2WeightClass": (NUM, 400),
    "openTypeOS2Selection": (INTS, []),
    "openTypeOS2VendorID": (TXT, "NONE"),
    "openTypeOS2Panose": (INTS, [0, 0, 0, 0, 0, 0, 0, 0, 0, 0]),
    "openTypeOS2FamilyClass": (INTS, [0, 0]),
    "openTypeOS2UnicodeRanges": (INTS, None),
    "openTypeOS2CodePageRanges": (INTS, None),
    "openTypeOS2Type": (INTS, [2]),
    "openTypeOS2SubscriptXSize": (NUM, None),
    "openTypeOS2SubscriptYSize": (NUM, None),
    "openTypeOS2SubscriptXOffset": (NUM, None),
    "openTypeOS2SubscriptYOffset": (NUM, None),
    "openTypeOS2SuperscriptXSize": (NUM, None),
    "openTypeOS2SuperscriptYSize": (NUM, None),
    "openTypeOS2SuperscriptXOffset": (NUM, None),
    "openTypeOS2SuperscriptYOffset": (NUM, None),
    "openTypeOS2StrikeoutSize": (NUM, None),
    "openTypeOS2StrikeoutPosition": (NUM, None),
    "openTypeVheaVertTypoAscender": (NUM, None),
    "openTypeVheaVertTypoDescender": (NUM, None),
    "openTypeVheaVertTypoLineGap": (NUM, None),
    "openTypeVheaCaretSlopeRise": (NUM, 0),
    "openTypeVheaCaretSlopeRun": (NUM, 1),
    "openTypeVheaCaretOffset": (NUM, 0),
    "postscriptUniqueID": (NUM, None),
    "postscriptWeightName": (TXT, None),
    "postscriptIsFixedPitch": (BOOL, False),
    "postscriptBlueValues": (NUMS, []),
    "postscriptOtherBlues": (NUMS, []),
    "postscriptFamilyBlues": (NUMS, []),
    "postscriptFamilyOtherBlues": (NUMS, []),
    "postscriptStemSnapH": (NUMS, []),
    "postscriptStemSnapV": (NUMS, []),
    "postscriptBlueFuzz": (NUM, 0),
    "postscriptBlueShift": (NUM, 7),
    "postscriptForceBold": (BOOL, False),
    "postscriptDefaultWidthX": (NUM, 200),
    "postscriptNominalWidthX": (NUM, 0),
    "postscriptDefaultCharacter": (TXT, None),
    "postscriptWindowsCharacterSet": (NUM, None),
    "macintoshFONDFamilyID": (NUM, None),
    "macintoshFONDName": (TXT, None),
}


def g(attr):
    """clause text: the with-fallback value of another attribute"""
    return f"getAttrWithFallback(info, '{attr}')"


_STYLES = "['regular', 'bold', 'italic', 'bold italic']"
_EXPL_RUN = "(info.has_openTypeHheaCaretSlopeRun and info.openTypeHheaCaretSlopeRun is not None)"
_TAN = f"math.tan(math.radians(-{g('italicAngle')}))"
# style name the style-map family name is derived from: styleMapStyleName when set (non-empty), else the
# (with-fallback) typographic subfamily name
_SM_STYLE = f"ite(info.styleMapStyleName is not None and info.styleMapStyleName != '', info.styleMapStyleName, {g('openTypeNamePreferredSubfamilyName')})"

# SPECIAL: attribute -> dict(ty, fn, formula [, requires, raises, locals, canary])
SPECIAL = {
    "ascender": dict(ty=NUM, fn="ascenderFallback", formula=f"otRound({g('unitsPerEm')} * 0.8)", canary="result == 800"),
    "descender": dict(ty=NUM, fn="descenderFallback", formula=f"-otRound({g('unitsPerEm')} * 0.2)", canary="result == -200"),
    "capHeight": dict(ty=NUM, fn="capHeightFallback", formula=f"otRound({g('unitsPerEm')} * 0.7)", canary="result == 700"),
    "xHeight": dict(ty=NUM, fn="xHeightFallback", formula=f"otRound({g('unitsPerEm')} * 0.5)", canary="result == 500"),
    "styleMapFamilyName": dict(
        ty=TXT, fn="styleMapFamilyNameFallback",
        # family name alone when the style is one of the four style-map styles, else "family style"
        formula=f"({g('openTypeNamePreferredFamilyName')} + ' ' + ite(({_SM_STYLE}).lower() in {_STYLES}, '', {_SM_STYLE})).strip()",
        # the function reads info.styleMapStyleName directly: the info object must have the attribute
        # (defcon / ufoLib2 Info objects define every fontinfo attribute)
        requires=["info.has_styleMapStyleName"],
        locals={"styleName": Opt(STR)},
        canary=f"result == {g('openTypeNamePreferredFamilyName')}",
    ),
    "styleMapStyleName": dict(
        ty=TXT, fn="styleMapStyleNameFallback",
        formula=f"ite({g('openTypeNamePreferredSubfamilyName')}.strip().lower() in {_STYLES}, {g('openTypeNamePreferredSubfamilyName')}.strip().lower(), 'regular')",
        extra={"one-of-four": f"result in {_STYLES}"},
        locals={"styleName": STR},
        canary="result == 'regular'",
    ),
    "openTypeHheaAscender": dict(ty=NUM, fn="openTypeHheaAscenderFallback", formula=f"{g('ascender')} + {g('openTypeOS2TypoLineGap')}", canary=f"result == {g('ascender')}"),
    "openTypeHheaDescender": dict(ty=NUM, fn="openTypeHheaDescenderFallback", formula=g("descender"), canary="result == -200"),
    "openTypeHheaCaretSlopeRise": dict(
        ty=NUM, fn="openTypeHheaCaretSlopeRiseFallback",
        formula=f"ite({g('italicAngle')} != 0 and {_EXPL_RUN}, otRound(info.openTypeHheaCaretSlopeRun / {_TAN}), {g('unitsPerEm')})",
        # over the reals tan(radians(-a)) can be 0 for a != 0 (a = 180): the division is then undefined
        raises={"ZeroDivisionError": f"{g('italicAngle')} != 0 and {_EXPL_RUN} and {_TAN} == 0"},
        canary=f"result == {g('unitsPerEm')}",
    ),
    "openTypeHheaCaretSlopeRun": dict(
        ty=NUM, fn="openTypeHheaCaretSlopeRunFallback",
        formula=f"ite({g('italicAngle')} != 0, otRound({_TAN} * {g('openTypeHheaCaretSlopeRise')}), 0)",
        canary="result == 0",
    ),
    "openTypeNamePreferredFamilyName": dict(ty=TXT, fn="openTypeNamePreferredFamilyNameFallback", formula=g("familyName"), canary="result == 'New Font'"),
    "openTypeNamePreferredSubfamilyName": dict(ty=TXT, fn="openTypeNamePreferredSubfamilyNameFallback", formula=g("styleName"), canary="result == 'Regular'"),
    "openTypeNameWWSFamilyName": dict(ty=TXT, fn="openTypeNameWWSFamilyNameFallback", formula=None, canary="result is not None"),
    "openTypeNameWWSSubfamilyName": dict(ty=TXT, fn="openTypeNameWWSSubfamilyNameFallback", formula=None, canary="result is not None"),
    "openTypeOS2TypoAscender": dict(ty=NUM, fn="openTypeOS2TypoAscenderFallback", formula=g("ascender"), canary="result == 800"),
    "openTypeOS2TypoDescender": dict(ty=NUM, fn="openTypeOS2TypoDescenderFallback", formula=g("descender"), canary="result == -200"),
    "openTypeOS2TypoLineGap": dict(
        ty=NUM, fn="openTypeOS2TypoLineGapFallback",
        formula=f"max(int({g('unitsPerEm')} * 1.2) - {g('ascender')} + {g('descender')}, 0)",
        extra={"non-negative": "result >= 0"},
        canary="result == 0",
    ),
    "openTypeOS2WinAscent": dict(ty=NUM, fn="openTypeOS2WinAscentFallback", formula=f"{g('ascender')} + {g('openTypeOS2TypoLineGap')}", canary=f"result == {g('ascender')}"),
    "openTypeOS2WinDescent": dict(ty=NUM, fn="openTypeOS2WinDescentFallback", formula=f"abs({g('descender')})", extra={"non-negative": "result >= 0"}, canary=f"result == {g('descender')}"),
    "postscriptSlantAngle": dict(ty=NUM, fn="postscriptSlantAngleFallback", formula=g("italicAngle"), canary="result == 0"),
    "postscriptUnderlineThickness": dict(ty=NUM, fn="postscriptUnderlineThicknessFallback", formula=f"{g('unitsPerEm')} * 0.05", canary="result == 50"),
    "postscriptUnderlinePosition": dict(ty=NUM, fn="postscriptUnderlinePositionFallback", formula=f"{g('unitsPerEm')} * -0.075", canary="result == -75"),
}

# String-building fallbacks, each against its documented formula.  They need str.format / zfill / replace in the
# engine (notes/C16.requests.md R4, R5, R7); an attribute listed in ENABLED is treated like the SPECIAL ones above (contract on
# the fallback function + full `getAttrWithFallback#<attr>` variant), the others stay in OUT_OF_REACH (explicit half only).
_PF, _PS = g("openTypeNamePreferredFamilyName"), g("openTypeNamePreferredSubfamilyName")
_VMJ, _VMN = g("versionMajor"), g("versionMinor")
# str(minor).zfill(3): zero-filled to three characters, Python's own str.zfill (library; uninterpreted in the logic)
_ZFILL3 = f"str({_VMN}).zfill(3)"
SPECIAL_PENDING = {
    "postscriptFullName": dict(ty=TXT, fn="postscriptFullNameFallback", formula=f"{_PF} + ' ' + {_PS}", canary="result == 'New Font Regular'"),
    "postscriptFontName": dict(
        ty=TXT, fn="postscriptFontNameFallback",
        # "family-style", normalised (documented normalisation ps_norm, spaces not allowed)
        formula=f"ps_norm({_PF} + '-' + {_PS}, False)",
        # the property's last sentence: printable ASCII only, no space, none of []{{}}<>()/%
        extra={"chars": "all(ps_char_ok(result[i], False) for i in range(len(result)))"},
        canary="result == 'NewFont-Regular'",
    ),
    "openTypeNameVersion": dict(ty=TXT, fn="openTypeNameVersionFallback", formula=f"'Version ' + str({_VMJ}) + '.' + {_ZFILL3}", canary="result == 'Version 0.000'"),
    "openTypeNameUniqueID": dict(
        ty=TXT, fn="openTypeNameUniqueIDFallback",
        # version (without the 'Version ' prefix);vendor;PostScript name
        formula=f"{g('openTypeNameVersion')}.replace('Version ', '') + ';' + {g('openTypeOS2VendorID')} + ';' + {g('postscriptFontName')}",
        canary="result == '0.000;NONE;NewFont-Regular'",
    ),
}
ENABLED = {"postscriptFullName", "postscriptFontName", "openTypeNameVersion", "openTypeNameUniqueID"}
for _a in sorted(ENABLED):
    SPECIAL[_a] = SPECIAL_PENDING[_a]

# Special fallbacks whose bodies are outside pyvc's subset (str.format / zfill / replace, os.environ + time,
# zip over stepped slices).  For these attributes only the "explicit value wins" half is proved (variant
# `<attr>/explicit`); the fallback half is checked against an independent formula, bounded, in the hook.
OUT_OF_REACH = {
    "openTypeHeadCreated": TXT,
    "openTypeNameVersion": TXT,
    "openTypeNameUniqueID": TXT,
    "postscriptFontName": TXT,
    "postscriptFullName": TXT,
    "postscriptBlueScale": NUM,
}
for _a in ENABLED:
    OUT_OF_REACH.pop(_a, None)

ATTR_TYPES = {**{a: t for a, (t, _) in STATIC.items()}, **{a: d["ty"] for a, d in SPECIAL.items()}, **OUT_OF_REACH}

# the summary symbols info_<attr>(info) used at call sites default to Real; the string-valued ones that the
# formulas above combine are typed here (setdefault: another property's file may already have done so)
for _a in ("familyName", "styleName", "openTypeNamePreferredFamilyName", "openTypeNamePreferredSubfamilyName", "styleMapFamilyName", "styleMapStyleName"):
    lib.INFO_ATTR_TYPES.setdefault(_a, STR)


def _view_has(a):
    return lambda o: hasattr(o, a)


_fields, _has, _views = {}, {}, {}
for _a, _t in ATTR_TYPES.items():
    _fields[_a] = Opt(_t)
    _fields["has_" + _a] = BOOL
    _has[_a] = "has_" + _a
    _views["has_" + _a] = _view_has(_a)
cls(
    "FontInfo", fields=_fields, has=_has, views=_views,
    notes="font.info as getAttrWithFallback sees it: per fontinfo attribute an optional typed value and whether the object has the attribute at all (assumed typing: UFO3 fontinfo)",
)


@trusted("math.tan", "math.tan: an (uninterpreted) function Real -> Real")
def _tan(ex, st, args, kwargs, node):
    if is_const(args[0]):
        return Val.const(_math.tan(args[0].py))
    return Val(REAL, z3.Function("math_tan", z3.RealSort(), z3.RealSort())(lift(args[0], REAL)))


@trusted("math.radians", "math.radians: an (uninterpreted) function Real -> Real")
def _radians(ex, st, args, kwargs, node):
    if is_const(args[0]):
        return Val.const(_math.radians(args[0].py))
    return Val(REAL, z3.Function("math_radians", z3.RealSort(), z3.RealSort())(lift(args[0], REAL)))


# ---------------------------------------------------------------------------------------------------------
# openTypeHeadCreatedFallback: SOURCE_DATE_EPOCH (reproducible builds) if set, otherwise now.  The process environment,
# int(str), datetime.fromtimestamp / strftime and the clock are LIBRARY pieces: opaque spec functions name what they
# return (natively: the real thing), trusted models local to the contract tie the calls to those names.
_EPOCH = "SOURCE_DATE_EPOCH"


@specfn(BOOL, opaque=True, k=STR)
def environ_has(k):
    """the process environment has the variable"""
    import os

    return k in os.environ


@specfn(STR, opaque=True, k=STR)
def environ_get(k):
    """the value of an environment variable that is set"""
    import os

    return os.environ[k]


@specfn(BOOL, opaque=True, s=STR)
def int_literal(s):
    """int(s) accepts the string"""
    try:
        int(s)
        return True
    except ValueError:
        return False


@specfn(INT, opaque=True, s=STR)
def int_value(s):
    """int(s) of an accepted string (natively 0 for a rejected one, so that clauses stay total)"""
    return int(s) if int_literal(s) else 0


@specfn(STR, opaque=True, n=INT)
def utc_error(n):
    """name of the exception datetime.fromtimestamp(n, timezone.utc) raises (time_t / year range), '' if none"""
    from datetime import datetime, timezone

    try:
        datetime.fromtimestamp(n, timezone.utc)
        return ""
    except (ValueError, OverflowError, OSError) as e:
        return type(e).__name__


@specfn(STR, opaque=True, n=INT)
def utc_date_string(n):
    """n seconds after 1970-01-01 00:00:00 UTC as 'YYYY/MM/DD HH:MM:SS' (independent of datetime: time.gmtime)"""
    import time

    return time.strftime("%Y/%m/%d %H:%M:%S", time.gmtime(n))


def _sf(ex, name):
    from pyvc.api import SPECFNS

    return ex.spec_decl(SPECFNS[name])


def _environ_contains(ex, st, self, x):
    return _sf(ex, "environ_has")(lift(x, STR))


def _environ_getitem(ex, st, self, idx, node):
    k = lift(idx, STR)
    ex.safety(st, _sf(ex, "environ_has")(k), "KeyError", node)
    return Val(STR, _sf(ex, "environ_get")(k))


cls("Environ", fields={}, contains=_environ_contains, getitem=_environ_getitem, notes="os.environ, read-only: `in` and `[]` (assumed: a function of the variable name during the call)")
cls("OsModule", fields={"environ": Ref("Environ")}, notes="the module object `os` as far as openTypeHeadCreatedFallback uses it")


def _int_c16(ex, st, args, kwargs, node):
    """int(s) of a string: ValueError iff not int_literal(s); else int_value(s).  Numbers: as usual."""
    from pyvc import models

    if len(args) == 1 and not is_const(args[0]) and ex.deopt(args[0], st, node).ty == STR:
        s = lift(ex.deopt(args[0], st, node), STR)
        ex.safety(st, _sf(ex, "int_literal")(s), "ValueError", node)
        return Val(INT, _sf(ex, "int_value")(s))
    return models.BUILTIN_MODELS["builtins.int"].model(ex, st, args, kwargs, node)


def _dt_strftime(ex, st, self, args, kwargs, node):
    (fmt,) = args
    if not is_const(fmt) or fmt.py != "%Y/%m/%d %H:%M:%S":
        raise Unsupported("datetime.strftime with a format other than the UFO3 date format", node)
    return Val(STR, _sf(ex, "utc_date_string")(lift(ex.read_field(st, self, "timestamp"), INT)))


cls("DateTimeUTC", fields={"timestamp": INT}, methods={"strftime": _dt_strftime}, notes="an aware datetime in UTC, as the instant it denotes (assumed)")


def _fromtimestamp(ex, st, args, kwargs, node):
    """datetime.fromtimestamp(n, timezone.utc): raises the exception named utc_error(n) if any; else the UTC datetime of
    the instant n, whose strftime('%Y/%m/%d %H:%M:%S') is utc_date_string(n)"""
    from datetime import timezone

    if len(args) != 2 or kwargs or not (args[1].is_py and args[1].py is timezone.utc):
        raise Unsupported("datetime.fromtimestamp: expected (seconds, timezone.utc)", node)
    n = lift(args[0], INT)
    err = _sf(ex, "utc_error")(n)
    for e in ("ValueError", "OverflowError", "OSError"):
        ex.safety(st, err != z3.StringVal(e), e, node)
    st.assume(err == z3.StringVal(""))
    o = ex.new_object(st, "DateTimeUTC")
    ex.write_field(st, o, "timestamp", Val(INT, n), node)
    return o


_EPOCH_VAL = f"int_value(environ_get('{_EPOCH}'))"
SPECIAL["openTypeHeadCreated"] = dict(
    ty=TXT, fn="openTypeHeadCreatedFallback",
    # SOURCE_DATE_EPOCH seconds as a UTC date string if the variable is set; otherwise the current time: some valid date string
    clause=f"(result == utc_date_string({_EPOCH_VAL}) if environ_has('{_EPOCH}') else date_valid(result))",
    raises={
        "ValueError": f"environ_has('{_EPOCH}') and (not int_literal(environ_get('{_EPOCH}')) or utc_error({_EPOCH_VAL}) == 'ValueError')",
        # (the engine treats the exceptional exits of one statement independently of each other: int()'s ValueError is not
        # known to come first, so these two conditions do not mention int_literal)
        "OverflowError": f"environ_has('{_EPOCH}') and utc_error({_EPOCH_VAL}) == 'OverflowError'",
        "OSError": f"environ_has('{_EPOCH}') and utc_error({_EPOCH_VAL}) == 'OSError'",
    },
    canary="result == '2020/01/02 03:04:05'",
    models={"builtins.int": _int_c16, "None.datetime.fromtimestamp": _fromtimestamp},
    globals={"os": Val(Ref("OsModule"), z3.Const("the_os_module", Ref("OsModule").sort()))},
)
OUT_OF_REACH.pop("openTypeHeadCreated")

# ---------------------------------------------------------------------------------------------------------
# special fallback functions (bare keys: getAttrWithFallback's variants call them through these contracts)
def _fallback_clause(d):
    """the documented fallback as a clause over `result`: an equation with the formula, `is None`, or a free-form clause"""
    if "clause" in d:
        return d["clause"]
    return "result is None" if d["formula"] is None else f"result == {d['formula']}"


for _a, _d in SPECIAL.items():
    _ens = {("none" if _d.get("formula", 0) is None else "formula"): _fallback_clause(_d)}
    _ens.update(_d.get("extra", {}))
    contract(
        f"{MOD}:{_d['fn']}",
        props=P,
        params={"info": Ref("FontInfo")},
        returns=(Opt(_d["ty"]) if _d.get("formula", 0) is None else _d["ty"]),
        requires=list(_d.get("requires", [])),
        ensures=_ens,
        raises=dict(_d.get("raises", {})),
        canaries={"pinned": _d["canary"]},
        locals=dict(_d.get("locals", {})),
        models=dict(_d.get("models", {})),
        globals={**G, **_d.get("globals", {})},
    )


# ---------------------------------------------------------------------------------------------------------
# getAttrWithFallback, one variant per attribute
def _explicit(a):
    return f"(info.has_{a} and info.{a} is not None)"


def _const_clause(v):
    if v is None:
        return "result is None"
    return f"result == {v!r}"


for _a, (_t, _v) in STATIC.items():
    contract(
        f"{MOD}:getAttrWithFallback",
        name=_a,
        props=P,
        params={"info": Ref("FontInfo"), "attr": Const(_a)},
        returns=Opt(_t),
        ensures={
            "explicit-wins": f"implies({_explicit(_a)}, result == info.{_a})",
            "fallback": f"implies(not {_explicit(_a)}, {_const_clause(_v)})",
        },
        canaries={"always-fallback": _const_clause(_v)},
        globals=G,
    )

for _a, _d in SPECIAL.items():
    _fb = _fallback_clause(_d)
    _r = {}
    for _e, _c in _d.get("raises", {}).items():
        _r[_e] = f"not {_explicit(_a)} and ({_c})"
    contract(
        f"{MOD}:getAttrWithFallback",
        name=_a,
        props=P,
        params={"info": Ref("FontInfo"), "attr": Const(_a)},
        returns=Opt(_d["ty"]),
        requires=list(_d.get("requires", [])),
        ensures={
            "explicit-wins": f"implies({_explicit(_a)}, result == info.{_a})",
            "fallback": f"implies(not {_explicit(_a)}, {_fb})",
        },
        raises=_r,
        canaries={"always-fallback": _fb},
        globals=G,
    )

for _a, _t in OUT_OF_REACH.items():
    contract(
        f"{MOD}:getAttrWithFallback",
        name=_a + "/explicit",
        props=P,
        params={"info": Ref("FontInfo"), "attr": Const(_a)},
        returns=Opt(_t),
        # case split, not a call-site precondition: the absent case of these six attributes is covered by the
        # bounded fallback check of vcheck/hooks/c16.py
        requires=[_explicit(_a)],
        ensures={"explicit-wins": f"result == info.{_a}"},
        canaries={"pinned": "result is None"},
        globals=G,
    )


# =========================================================================================================
# intListToNum


@trusted(
    "fontTools.misc.textTools.binary2num",
    "binary2num(s), s a string of concrete length: whitespace is dropped; the remaining characters are binary digits, most significant first, "
    "every character other than '0' counting as 1 (conformance: vcheck/hooks/c16.py)",
)
def _binary2num(ex, st, args, kwargs, node):
    (v,) = args
    if is_const(v):
        from fontTools.misc.textTools import binary2num

        return Val.const(binary2num(v.py))
    parts = _flatten(lift(v, STR), node)
    acc = z3.IntVal(0)
    for p in parts:
        if isinstance(p, str):
            for ch in p:
                if ch.isspace():
                    continue
                acc = acc * 2 + (0 if ch == "0" else 1)
        else:
            acc = acc * 2 + p
    return Val(INT, z3.simplify(acc))


def _flatten(t, node):
    """string term -> list of concrete pieces / one-digit Int terms (ite(c, '1', '0') -> ite(c, 1, 0))"""
    if z3.is_string_value(t):
        return [t.as_string()]
    k = t.decl().kind()
    if k == z3.Z3_OP_SEQ_CONCAT:
        out = []
        for c in t.children():
            out += _flatten(c, node)
        return out
    if k == z3.Z3_OP_ITE and z3.is_string_value(t.arg(1)) and z3.is_string_value(t.arg(2)):
        a, b = t.arg(1).as_string(), t.arg(2).as_string()
        if len(a) == 1 and len(b) == 1 and not a.isspace() and not b.isspace():
            return [z3.If(t.arg(0), z3.IntVal(0 if a == "0" else 1), z3.IntVal(0 if b == "0" else 1))]
    raise Unsupported("binary2num of a string that is not a concatenation of constant pieces and two-way digit choices", node)


SIGNATURES = [(0, 16), (0, 32), (32, 32), (64, 32), (96, 32), (0, 4)]


def bits_sum(start, length):
    """clause text: sum of 2^(i-start) over the bit numbers i of the range that occur in intList"""
    return " + ".join(f"ite({i} in intList, {2 ** (i - start)}, 0)" for i in range(start, start + length))


def _ilt_gen(start, length):
    def gen(rng, n):
        out = [[], [start], [start + length - 1], [start + length], [start - 1], [start, start], list(range(start, start + length)), [start + 7, start + 8][: 2 if length > 8 else 1]]
        while len(out) < n:
            k = rng.randint(0, 8)
            xs = [rng.randint(start - 3, start + length + 3) for _ in range(k)]
            if xs and rng.random() < 0.5:
                xs += [rng.choice(xs) for _ in range(rng.randint(1, 3))]  # duplicates must not matter
            out.append(xs)
        return out[:n]

    return gen


for _s, _l in SIGNATURES:
    contract(
        f"{MOD}:intListToNum",
        name=f"{_s}+{_l}",
        props=P,
        params={"intList": List(INT), "start": Const(_s), "length": Const(_l)},
        returns=INT,
        ensures={
            "bit-sum": f"result == {bits_sum(_s, _l)}",
            "range": f"0 <= result and result < {2 ** _l}",
        },
        canaries={"msb-first": "result == " + " + ".join(f"ite({i} in intList, {2 ** (_s + _l - 1 - i)}, 0)" for i in range(_s, _s + _l))},
        runtime=Runtime(_ilt_gen(_s, _l), lambda d: {"intList": list(d)}, call=(lambda s, l: lambda fn, a: fn(a["intList"], s, l))(_s, _l)),
    )


# =========================================================================================================
# PostScript name characters


@specfn(BOOL, ch=STR, allowSpaces=BOOL)
def ps_char_ok(ch, allowSpaces):
    """ch is one printable ASCII character (33..126) other than [](){}<>/% — or a space, if spaces are allowed"""
    if ch == " ":
        return allowSpaces
    return len(ch) == 1 and "!" <= ch and ch <= "~" and ch not in "[](){}<>/%"


_PS_OK = {chr(i) for i in range(33, 127)} - set("[](){}<>/%")


def ps_norm_char(c, allow_spaces):
    """Independent reading of the documented normalisation of ONE character: acceptable printable ASCII is kept; a
    space is kept only where spaces are allowed; any other ASCII character is dropped; a non-ASCII character is
    compatibility-decomposed (NFKD), what is still not ASCII becomes '?', and only acceptable characters survive."""
    import unicodedata

    okset = _PS_OK | ({" "} if allow_spaces else set())
    if c in _PS_OK:
        return c
    if ord(c) < 128:
        return c if c in okset else ""
    d = unicodedata.normalize("NFKD", c)
    return "".join(y for y in (x if ord(x) < 128 else "?" for x in d) if y in okset)


@specfn(STR, opaque=True, s=STR, allowSpaces=BOOL)
def ps_norm(s, allowSpaces):
    """the documented normalisation of a string: the concatenation of the normalised characters (opaque in the logic)"""
    return "".join(ps_norm_char(c, allowSpaces) for c in s)


_NSP = contract(
    f"{MOD}:normalizeStringForPostscript",
    props=[],  # NOT discharged by pyvc (str.encode/.decode, unicodedata are outside the subset): discharged by
    # COMPLETE ENUMERATION of all 0x110000 code points x {allowSpaces} through the real function plus the
    # mechanical check that the loop body is a function of the current character only (vcheck/hooks/c16.py,
    # obligations C16.normalizeStringForPostscript.*).  Callers below use it as a callee contract.
    params={"s": STR, "allowSpaces": BOOL},
    returns=STR,
    ensures={
        "chars": "all(ps_char_ok(result[i], allowSpaces) for i in range(len(result)))",
        # the WHOLE result: equal to the independent reading ps_norm (enumeration: f(c) == ps_norm_char(c) for every code
        # point; both sides are concatenations of per-character results — f by the AST shape check, ps_norm by definition)
        "function": "result == ps_norm(s, allowSpaces)",
    },
    notes="discharged by enumeration in vcheck/hooks/c16.py",
    # replay of a failing code point found by the enumeration (./check replay <file>)
    runtime=Runtime(lambda rng, n: [], lambda d: {"s": d["s"], "allowSpaces": d["allowSpaces"]}),
)

# the `function` clause alone (a sub-contract of the one above: fewer clauses, nothing new), for callers that only need the value
# and are slowed down by the quantified `chars` clause
contract(
    f"{MOD}:normalizeStringForPostscript",
    name="function",
    props=[],
    params={"s": STR, "allowSpaces": BOOL},
    returns=STR,
    ensures={"function": _NSP.ensures["function"]},
    notes="the `function` clause of normalizeStringForPostscript (discharged by enumeration in vcheck/hooks/c16.py)",
)

contract(
    f"{MOD}:normalizeNameForPostscript",
    props=P,
    params={"name": STR},
    returns=STR,
    ensures={
        "chars": "all(ps_char_ok(result[i], False) for i in range(len(result)))",
        "no-space": "all(result[i] != ' ' for i in range(len(result)))",
        "function": "result == ps_norm(name, False)",
    },
    canaries={"empty": "result == ''", "spaces-kept": "result == ps_norm(name, True)"},
    runtime=Runtime(
        lambda rng, n: (["", " ", "A B", "a[b]c", "Ä ö", " x", "（全角）", "a/b%c", "\x00\x1f\x7f", "ﬁ ﬂ", "½", "𝔘𝔫𝔦"] + ["".join(chr(rng.choice([rng.randint(0, 0x2FF), rng.randint(0x2000, 0x33FF), rng.randint(0xFF00, 0xFFEF), rng.randint(32, 126)])) for _ in range(rng.randint(0, 6))) for _ in range(n)])[:n],
        lambda d: {"name": d},
    ),
)

# the concatenation step of the per-character argument: if every character of two strings is acceptable, so is
# every character of their concatenation (A = any set of acceptable one-character strings)
lemma(
    "C16.concat_preserves_chars",
    props=P,
    # a string as the sequence of its characters (each a one-character string)
    vars={"a": List(STR), "b": List(STR), "A": Set(STR)},
    hyps=["all(a[i] in A for i in range(len(a)))", "all(b[i] in A for i in range(len(b)))"],
    concl={"concat": "all((a + b)[i] in A for i in range(len(a + b)))"},
    canaries={"empty-set": "len(a + b) == 0"},
)


# =========================================================================================================
# run-time harness for getAttrWithFallback / the special fallbacks: real info objects (ufoLib2 Info, which has
# every attribute, and a bare namespace that has only the listed ones) with random subsets of attributes;
# falsy explicit values (0, 0.0, False, "", []) are drawn often
_VALUES = {
    INT.key: [0, 0, 1, 3, 5, 12, 50, 100, 999, 1000, -5, -12],
    NUM.key: [0, 0.0, 1, -1, 500, 1000, 2048, 750.5, -250.25, 12.5, 180],
    TXT.key: ["", "Regular", "Bold", " bold italic ", "Italic", "Ünï cødé", "A  B", "x", "Version 2.5", "Version Version 1", "a[b] (c)/d", "字 体"],
    BOOL.key: [False, True],
    INTS.key: [[], [0], [1, 2], [0, 0, 5], [0, 1, 2, 3, 4, 5, 6, 7, 8, 9], [3, 4]],
    NUMS.key: [[], [0, 10], [-20, 0, 500, 510.5]],
    List(NAMEREC).key: [[], [{"nameID": 1, "platformID": 3, "encodingID": 1, "languageID": 0x409, "string": "Fam"}]],
}
_CORE = [
    "unitsPerEm", "ascender", "descender", "italicAngle", "familyName", "styleName", "styleMapStyleName", "openTypeOS2TypoLineGap",
    "openTypeNamePreferredFamilyName", "openTypeNamePreferredSubfamilyName", "openTypeHheaCaretSlopeRun", "openTypeHheaCaretSlopeRise",
    "versionMajor", "versionMinor", "openTypeNameVersion", "openTypeOS2VendorID", "postscriptFontName",
]


def _info_gen(focus):
    def gen(rng, n):
        out = []
        for k in range(n):
            d = {}
            for a in _CORE:
                if rng.random() < 0.4:
                    d[a] = rng.choice(_VALUES[ATTR_TYPES[a].key])
            mode = k % 3  # 0: absent, 1: explicit, 2: explicitly None
            if mode == 0:
                d.pop(focus, None)
            elif mode == 1:
                d[focus] = rng.choice(_VALUES[ATTR_TYPES[focus].key])
            else:
                d[focus] = None
            out.append({"attrs": d, "bare": rng.random() < 0.3})
        return out

    return gen


def build_info(desc):
    import types

    info = None
    if not desc.get("bare"):
        import ufoLib2

        info = ufoLib2.Font().info
        try:
            for k, v in desc["attrs"].items():
                setattr(info, k, v)
        except (ValueError, TypeError):
            info = None  # ufoLib2 validates a few attributes (e.g. unitsPerEm >= 0): use the bare object instead
    if info is None:
        info = types.SimpleNamespace()
        # the style-map family fallback reads this attribute directly (its contract requires it)
        info.styleMapStyleName = None
        for k, v in desc["attrs"].items():
            setattr(info, k, v)
    return info


for _k, _c in list(CONTRACTS.items()):
    if "C16" not in _c.props or "info" not in _c.params:
        continue
    if _c.target.endswith(":getAttrWithFallback"):
        _focus = _c.params["attr"].value
    else:
        _focus = next(a for a, d in SPECIAL.items() if _c.target.endswith(":" + d["fn"]))
    _c.runtime = Runtime(_info_gen(_focus), lambda d: {"info": build_info(d)})


# openTypeHeadCreated: the cases also choose the process environment (SOURCE_DATE_EPOCH unset / valid / not a number /
# out of the year range / out of the time_t range); build() puts it in place for the call and the clauses
_EPOCHS = [None, "1577934245", "0", "abc", "", "253402300800", "99999999999999999999999", "-5", " 12 ", "1e3", "-62135596801"]


def _epoch_gen(focus):
    base = _info_gen(focus)

    def gen(rng, n):
        out = base(rng, n)
        for k, d in enumerate(out):
            d["epoch"] = _EPOCHS[k % len(_EPOCHS)] if k < 2 * len(_EPOCHS) else rng.choice(_EPOCHS + [str(rng.randint(-10**10, 10**11))])
        return out

    return gen


def _epoch_build(d):
    import os

    if d.get("epoch") is None:
        os.environ.pop(_EPOCH, None)
    else:
        os.environ[_EPOCH] = d["epoch"]
    return {"info": build_info(d)}


for _k in (f"{MOD}:openTypeHeadCreatedFallback", f"{MOD}:getAttrWithFallback#openTypeHeadCreated"):
    CONTRACTS[_k].runtime = Runtime(_epoch_gen("openTypeHeadCreated"), _epoch_build)


# =========================================================================================================
# InfoCompiler._set_attrs: the attributes built from the overriding info are copied onto the original font's
# table — every value that `is not None` (0, False, [] included), nothing else.
# Own vocabulary (not the shared TTFont of lib.py): two fonts whose tables are bags of optional values.
SET_ATTRS_SITES = {
    "head": ["fontRevision", "unitsPerEm", "created", "macStyle", "flags", "lowestRecPPEM"],
    "hhea": ["ascent", "descent", "lineGap", "caretSlopeRise", "caretSlopeRun", "caretOffset"],
    "vhea": ["ascent", "descent", "lineGap", "caretSlopeRise", "caretSlopeRun", "caretOffset"],
    "OS/2": [
        "usWeightClass", "usWidthClass", "fsType", "ySubscriptXSize", "ySubscriptYSize", "ySubscriptYOffset", "ySubscriptXOffset",
        "ySuperscriptXSize", "ySuperscriptYSize", "ySuperscriptYOffset", "ySuperscriptXOffset", "yStrikeoutSize", "yStrikeoutPosition",
        "sFamilyClass", "panose", "ulUnicodeRange1", "ulUnicodeRange2", "ulUnicodeRange3", "ulUnicodeRange4", "achVendID", "fsSelection",
        "sTypoAscender", "sTypoDescender", "sTypoLineGap", "usWinAscent", "usWinDescent", "ulCodePageRange1", "ulCodePageRange2",
        "sxHeight", "sCapHeight",
    ],
    "post": ["italicAngle", "underlinePosition", "underlineThickness", "isFixedPitch"],
    "gasp": ["gaspRange"],
}


def _tclass(tag):
    return "InfoTable_" + tag.replace("/", "")


def _proxy_tables(d):
    from pyvc.rt import Proxy

    return {t: Proxy(o, CLASSES[_tclass(t)]) for t, o in d.items()}


def _itt_getitem(ex, st, self, idx, node):
    if not is_const(idx) or idx.py not in SET_ATTRS_SITES:
        raise Unsupported("InfoTTFont subscript with an unknown tag", node)
    return ex.read_field(st, self, "tbl:" + idx.py)


for _tag, _attrs in SET_ATTRS_SITES.items():
    _f, _h, _v = {}, {}, {}
    for _a in _attrs:
        # table values are modelled as numbers (truthiness = "!= 0"); strings / lists / objects are covered by the
        # run-time harness below and by the enumeration in the hook
        _f[_a] = Opt(REAL)
        _f["has_" + _a] = BOOL
        _h[_a] = "has_" + _a
        _v["has_" + _a] = _view_has(_a)
    cls(_tclass(_tag), fields=_f, has=_h, views=_v, notes=f"'{_tag}' table as the bag of the attributes InfoCompiler copies (assumed)")
cls("InfoTTFont", fields={"tbl:" + t: Ref(_tclass(t)) for t in SET_ATTRS_SITES}, getitem=_itt_getitem, notes="font as tag -> table object (assumed)")
cls(
    "InfoCompilerObj", fields={"otf": Ref("InfoTTFont"), "orig_otf": Ref("InfoTTFont")},
    views={"otf": lambda o: _proxy_tables(o.otf), "orig_otf": lambda o: _proxy_tables(o.orig_otf)},
    notes="InfoCompiler instance: the temporary font built from the overriding info (otf) and the font being updated (orig_otf)",
)

_SA_VALUES = [None, 0, 0.0, False, "", [], (), 1, -3, 2.5, True, "NONE", [0, 1]]


def _sa_gen(tag):
    attrs = SET_ATTRS_SITES[tag]

    def gen(rng, n):
        out = []
        for k in range(n):
            temp = {a: rng.choice(_SA_VALUES) for a in attrs if rng.random() < 0.8}  # some attributes missing on temp
            orig = {a: rng.choice(_SA_VALUES[1:]) for a in attrs}
            out.append({"tag": tag, "temp": temp, "orig": orig})
        return out

    return gen


def _sa_build(d):
    import types

    from ufo2ft.infoCompiler import InfoCompiler

    comp = InfoCompiler.__new__(InfoCompiler)
    comp.otf = {d["tag"]: types.SimpleNamespace(**d["temp"])}
    comp.orig_otf = {d["tag"]: types.SimpleNamespace(**d["orig"])}
    return {"self": comp}


for _tag, _attrs in SET_ATTRS_SITES.items():
    _T, _O = f"self.otf['{_tag}']", f"self.orig_otf['{_tag}']"
    _ens = {}
    for _a in _attrs:
        _set = f"({_T}.has_{_a} and {_T}.{_a} is not None)"
        _ens["copied:" + _a] = f"implies({_set}, {_O}.{_a} == {_T}.{_a})"
        _ens["kept:" + _a] = f"implies(not {_set}, {_O}.{_a} == old({_O}.{_a}))"
    contract(
        "ufo2ft.infoCompiler:InfoCompiler._set_attrs",
        name=_tag,
        props=P,
        params={"self": Ref("InfoCompilerObj"), "tag": Const(_tag), "attrs": Const(set(_attrs))},
        # the temporary font is freshly built: its tables are not the original font's tables
        requires=[f"{_T} is not {_O}"],
        ensures=_ens,
        canaries={"never-copied": f"{_O}.{_attrs[0]} == old({_O}.{_attrs[0]})"},
        loops={"for attr in attrs": Loop(unroll=True)},
        modifies=[f"{_tclass(_tag)}.{_a}" for _a in _attrs],
        runtime=Runtime(_sa_gen(_tag), _sa_build, call=(lambda t, at: lambda fn, a: fn(a["self"], t, set(at)))(_tag, _attrs)),
    )


# =========================================================================================================
# Table fields after compile: the outline compiler's setupTable_* functions read the info object through
# getAttrWithFallback (at these call sites: the trusted summary symbol of contracts/lib.py, whose meaning per
# attribute is what the `getAttrWithFallback#<attr>` variants above prove) and store
#   identity | otRound(value) | intListToNum(value, start, length) | int(value) | float(value)
# into the table object.  Field ranges / struct packing are fontTools' (out of scope).
from . import rtlib  # noqa: E402

# types of the summary symbols these functions read (setdefault: another property's file may have typed them); only
# the attributes read by the functions under contract in THIS file are typed here — other properties rely on the
# numeric default for theirs
_READ_HERE = [
    "openTypeOS2Type", "openTypeOS2FamilyClass", "openTypeOS2Panose", "openTypeOS2UnicodeRanges", "openTypeOS2CodePageRanges", "openTypeOS2VendorID",
    "openTypeOS2Selection", "openTypeOS2SubscriptXSize", "openTypeOS2SubscriptYSize", "openTypeOS2SubscriptXOffset", "openTypeOS2SubscriptYOffset",
    "openTypeOS2SuperscriptXSize", "openTypeOS2SuperscriptYSize", "openTypeOS2SuperscriptXOffset", "openTypeOS2SuperscriptYOffset",
    "openTypeOS2StrikeoutSize", "openTypeOS2StrikeoutPosition", "postscriptIsFixedPitch", "openTypeHeadCreated", "openTypeHeadFlags",
    "copyright", "trademark", "openTypeNameDesigner", "openTypeNameDesignerURL", "openTypeNameManufacturer", "openTypeNameManufacturerURL",
    "openTypeNameLicense", "openTypeNameLicenseURL", "openTypeNameDescription", "openTypeNameCompatibleFullName", "openTypeNameSampleText",
    "openTypeNameUniqueID", "openTypeNameVersion", "postscriptFontName", "postscriptFullName", "openTypeNameWWSFamilyName", "openTypeNameWWSSubfamilyName",
]
for _a in _READ_HERE:
    _t = ATTR_TYPES[_a]
    if (_a in STATIC and STATIC[_a][1] is None) or _a in ("openTypeNameWWSFamilyName", "openTypeNameWWSSubfamilyName"):
        _t = Opt(_t)  # documented fallback None: the with-fallback value is optional
    lib.INFO_ATTR_TYPES.setdefault(_a, _t)
# the UFO3 specification types versionMajor / versionMinor as integers
lib.INFO_ATTR_TYPES.setdefault("versionMajor", INT)
lib.INFO_ATTR_TYPES.setdefault("versionMinor", INT)
lib.LIB_TYPES.setdefault("public.openTypePostUnderlinePosition", REAL)

_INFO = "self.ufo.info"
_ULP_KEY = "public.openTypePostUnderlinePosition"


def gi(attr):
    """clause text: the with-fallback value of an attribute of the compiler's font"""
    return f"getAttrWithFallback({_INFO}, '{attr}')"


def _table_info_cases(extra_attrs=()):
    """run-time cases: 2-glyph UFO with a random subset of (valid) info attributes, both UFO libraries, both flavours"""

    def gen(rng, n):
        from vcheck.hooks.c16 import rand_info

        out = []
        for k in range(n):
            d = rand_info(rng, latin1_only=True, valid_for_compile=True)
            desc = {"glyphs": {"a": {"width": 500, "unicodes": [97], "box": [10, 0, 300, 400]}, "space": {"width": 250, "unicodes": [32]}}, "info": d,
                    "ufolib": "ufoLib2" if k % 2 == 0 else "defcon", "flavor": "otf" if (k // 2) % 2 else "ttf", "lib": {}}
            if k % 3 == 0:
                desc["lib"][_ULP_KEY] = rng.choice([0, -120, -33.5, 17])
            if k % 7 == 3:
                desc["no_tables"] = True
            out.append(desc)
        return out

    return gen


def _table_build(upto=()):
    def build(d):
        import os

        # a fixed clock for the creation date: the clauses read the with-fallback value AFTER the call
        os.environ[_EPOCH] = "1577934245"
        comp = rtlib.outline_compiler(d, d["flavor"], upto=upto)
        if d.get("no_tables"):
            comp.tables = frozenset()
        return {"self": comp}

    return build


_POST = "self.otf['post']"
contract(
    "ufo2ft.outlineCompiler:BaseOutlineCompiler.setupTable_post",
    name="c16",
    props=P,
    params={"self": Ref("OutlineCompiler")},
    ensures={
        "italicAngle": f"implies('post' in self.tables, {_POST}.italicAngle == {gi('italicAngle')})",
        # the lib key (an underline position measured to the top of the stroke, as `post` wants it) overrides the info value
        "underlinePosition": f"implies('post' in self.tables, {_POST}.underlinePosition == otRound(self.ufo.lib['{_ULP_KEY}'] if '{_ULP_KEY}' in self.ufo.lib else {gi('postscriptUnderlinePosition')}))",
        "underlineThickness": f"implies('post' in self.tables, {_POST}.underlineThickness == otRound({gi('postscriptUnderlineThickness')}))",
        "isFixedPitch": f"implies('post' in self.tables, {_POST}.isFixedPitch == (1 if {gi('postscriptIsFixedPitch')} else 0))",
        "constants": f"implies('post' in self.tables, {_POST}.formatType == 3.0 and {_POST}.minMemType42 == 0 and {_POST}.maxMemType42 == 0 and {_POST}.minMemType1 == 0 and {_POST}.maxMemType1 == 0)",
        "not-requested": "implies('post' not in self.tables, self.otf.get('post') == old(self.otf.get('post')))",
    },
    canaries={"fixed-pitch-always": f"'post' in self.tables and {_POST}.isFixedPitch == 1"},
    # frame: the font's 'post' entry (the fields of the NEW table object are the function's own)
    modifies=["TTFont.tbl:post"],
    globals=G,
    runtime=Runtime(_table_info_cases(), _table_build(), call=lambda fn, a: fn(a["self"])),
)


# ---- intListToNum at call sites with several signatures in one caller ------------------------------------------
# `calls=` maps a callee to ONE variant; setupTable_OS2 uses five signatures.  The bare key therefore carries the
# CONJUNCTION of the six proved variants, built mechanically from their `ensures` (props=[]: nothing new is claimed
# or assumed here — each conjunct is exactly the postcondition that the variant `#<start>+<length>` discharges with
# start / length fixed to those constants; a call with any other signature fails `pre@callsite`).
_ilt_ens = {}
for _s, _l in SIGNATURES:
    for _k, _e in CONTRACTS[f"{MOD}:intListToNum#{_s}+{_l}"].ensures.items():
        _ilt_ens[f"{_s}+{_l}:{_k}"] = f"implies(start == {_s} and length == {_l}, {_e})"
contract(
    f"{MOD}:intListToNum",
    props=[],
    params={"intList": List(INT), "start": INT, "length": INT},
    returns=INT,
    requires=[" or ".join(f"(start == {_s} and length == {_l})" for _s, _l in SIGNATURES)],
    ensures=_ilt_ens,
    notes="conjunction of the proved variants intListToNum#<start>+<length> (same clause texts)",
)


def bits_of(expr, start, length):
    """clause text: intListToNum(expr, start, length) as the sum over the distinct bit numbers present in expr"""
    return "(" + " + ".join(f"ite({i} in {expr}, {2 ** (i - start)}, 0)" for i in range(start, start + length)) + ")"


# ---- OS/2 -------------------------------------------------------------------------------------------------------
def _havoc_fields(*fields):
    def model(ex, st, self, args, kwargs, node):
        for f in fields:
            ex.write_field(st, self, f, Val(INT, z3.FreshConst(z3.IntSort(), "recalc_" + f)), node)
        return Val.const(None)

    return model


_OS2C = CLASSES[lib.table_class("OS/2")]
# fontTools library methods of the OS/2 table object (trusted): each recomputes the named fields from OTHER tables
_OS2C.methods.setdefault("recalcAvgCharWidth", _havoc_fields("xAvgCharWidth"))
_OS2C.methods.setdefault("recalcUnicodeRanges", _havoc_fields("ulUnicodeRange1", "ulUnicodeRange2", "ulUnicodeRange3", "ulUnicodeRange4"))
_OS2C.methods.setdefault("recalcCodePageRanges", _havoc_fields("ulCodePageRange1", "ulCodePageRange2"))
if "Panose" not in CLASSES:
    cls("Panose", dynamic=True, notes="fontTools Panose(): attribute bag (assumed)")

_OS2 = "self.otf['OS/2']"
_UPM = gi("unitsPerEm")
_ANG = gi("italicAngle")
_SM = gi("styleMapStyleName")
_XH = gi("xHeight")
_PANOSE_FIELDS = ["bFamilyType", "bSerifStyle", "bWeight", "bProportion", "bContrast", "bStrokeVariation", "bArmStyle", "bLetterForm", "bMidline", "bXHeight"]


def _or_default(attr, dflt):
    return f"otRound({gi(attr)} if {gi(attr)} is not None else {dflt})"


def _adj(off):
    """AFDKO: X offset of a sub/superscript from its Y offset and the italic angle"""
    return f"({off} * math.tan(math.radians(-{_ANG})) if {_ANG} != 0 else 0)"


_style_bit = {6: f"{_SM} == 'regular'", 5: f"({_SM} == 'bold' or {_SM} == 'bold italic')", 0: f"({_SM} == 'italic' or {_SM} == 'bold italic')"}
_FS_SELECTION = "(" + " + ".join(
    f"ite({i} in {gi('openTypeOS2Selection')}" + (f" or {_style_bit[i]}" if i in _style_bit else "") + f", {2 ** i}, 0)" for i in range(16)
) + ")"

_OS2_FIELDS = {
    "version": f"{_OS2}.version == 4",
    "usWeightClass": f"{_OS2}.usWeightClass == {gi('openTypeOS2WeightClass')}",
    "usWidthClass": f"{_OS2}.usWidthClass == {gi('openTypeOS2WidthClass')}",
    "fsType": f"{_OS2}.fsType == {bits_of(gi('openTypeOS2Type'), 0, 16)}",
    # subscript / superscript / strikeout: the explicit value rounded, else the AFDKO defaults derived from unitsPerEm,
    # italicAngle and xHeight
    "ySubscriptXSize": f"{_OS2}.ySubscriptXSize == {_or_default('openTypeOS2SubscriptXSize', f'{_UPM} * 0.65')}",
    "ySubscriptYSize": f"{_OS2}.ySubscriptYSize == {_or_default('openTypeOS2SubscriptYSize', f'{_UPM} * 0.6')}",
    "ySubscriptYOffset": f"{_OS2}.ySubscriptYOffset == {_or_default('openTypeOS2SubscriptYOffset', f'{_UPM} * 0.075')}",
    "ySubscriptXOffset": f"{_OS2}.ySubscriptXOffset == {_or_default('openTypeOS2SubscriptXOffset', _adj(f'-{_OS2}.ySubscriptYOffset'))}",
    "ySuperscriptXSize": f"{_OS2}.ySuperscriptXSize == {_or_default('openTypeOS2SuperscriptXSize', f'{_OS2}.ySubscriptXSize')}",
    "ySuperscriptYSize": f"{_OS2}.ySuperscriptYSize == {_or_default('openTypeOS2SuperscriptYSize', f'{_OS2}.ySubscriptYSize')}",
    "ySuperscriptYOffset": f"{_OS2}.ySuperscriptYOffset == {_or_default('openTypeOS2SuperscriptYOffset', f'{_UPM} * 0.35')}",
    "ySuperscriptXOffset": f"{_OS2}.ySuperscriptXOffset == {_or_default('openTypeOS2SuperscriptXOffset', _adj(f'{_OS2}.ySuperscriptYOffset'))}",
    "yStrikeoutSize": f"{_OS2}.yStrikeoutSize == {_or_default('openTypeOS2StrikeoutSize', gi('postscriptUnderlineThickness'))}",
    "yStrikeoutPosition": f"{_OS2}.yStrikeoutPosition == " + _or_default("openTypeOS2StrikeoutPosition", f"({_XH} * 0.6 if {_XH} != 0 else {_UPM} * 0.22)"),
    "sFamilyClass": f"{_OS2}.sFamilyClass == {gi('openTypeOS2FamilyClass')}[0] * 256 + {gi('openTypeOS2FamilyClass')}[1]",
    **{f"panose.{f}": f"{_OS2}.panose.{f} == {gi('openTypeOS2Panose')}[{k}]" for k, f in enumerate(_PANOSE_FIELDS)},
    **{f"ulUnicodeRange{k + 1}": f"implies({gi('openTypeOS2UnicodeRanges')} is not None, {_OS2}.ulUnicodeRange{k + 1} == {bits_of(gi('openTypeOS2UnicodeRanges'), 32 * k, 32)})" for k in range(4)},
    **{f"ulCodePageRange{k + 1}": f"implies({gi('openTypeOS2CodePageRanges')} is not None, {_OS2}.ulCodePageRange{k + 1} == {bits_of(gi('openTypeOS2CodePageRanges'), 32 * k, 32)})" for k in range(2)},
    "achVendID": f"{_OS2}.achVendID == {gi('openTypeOS2VendorID')}.ljust(4)",
    "sxHeight": f"{_OS2}.sxHeight == otRound({gi('xHeight')})",
    "sCapHeight": f"{_OS2}.sCapHeight == otRound({gi('capHeight')})",
    "sTypoAscender": f"{_OS2}.sTypoAscender == otRound({gi('openTypeOS2TypoAscender')})",
    "sTypoDescender": f"{_OS2}.sTypoDescender == otRound({gi('openTypeOS2TypoDescender')})",
    "sTypoLineGap": f"{_OS2}.sTypoLineGap == otRound({gi('openTypeOS2TypoLineGap')})",
    "usWinAscent": f"{_OS2}.usWinAscent == otRound({gi('openTypeOS2WinAscent')})",
    "usWinDescent": f"{_OS2}.usWinDescent == otRound({gi('openTypeOS2WinDescent')})",
    # the explicit selection bits plus the style-map bits: regular -> 6, bold -> 5, italic -> 0, bold italic -> 0 and 5
    "fsSelection": f"{_OS2}.fsSelection == {_FS_SELECTION}",
    "constants": f"{_OS2}.usBreakChar == 32 and {_OS2}.usDefaultChar == 0 and {_OS2}.usMaxContex == 0",
}

contract(
    "ufo2ft.outlineCompiler:BaseOutlineCompiler.setupTable_OS2",
    name="c16",
    props=P,
    params={"self": Ref("OutlineCompiler")},
    # hypothesis of the property (spec-valid info): UFO3 fixes the lengths of these two lists
    requires=[f"len({gi('openTypeOS2FamilyClass')}) == 2", f"len({gi('openTypeOS2Panose')}) == 10"],
    ensures={
        **{k: f"implies('OS/2' in self.tables, {v})" for k, v in _OS2_FIELDS.items()},
        "not-requested": "implies('OS/2' not in self.tables, self.otf.get('OS/2') == old(self.otf.get('OS/2')))",
    },
    canaries={"weight-400": f"'OS/2' in self.tables and {_OS2}.usWeightClass == 400"},
    modifies=["TTFont.tbl:OS/2"],
    locals={"selection": List(INT), "unicodes": List(INT)},
    globals=G,
    runtime=Runtime(_table_info_cases(), _table_build(), call=lambda fn, a: fn(a["self"])),
)


# ---- name ---------------------------------------------------------------------------------------------------------
# The name table object as the contracts see it: `recs` = (nameID, platformID, platEncID, langID) -> string.
NKEY = Tuple(INT, INT, INT, INT)
_NAME_IDS = [0, 1, 2, 3, 4, 5, 6, 7, 8, 9, 10, 11, 12, 13, 14, 16, 17, 18, 19, 21, 22]


def _name_key(args, node):
    return Val(NKEY, NKEY.sort().mk(*[lift(a, INT) for a in args]))


# The records of a name table, as the contracts see them, in two disjoint layers (each key lives in exactly one):
#   * SLOTS for the keys ufo2ft builds itself — (nameID in 0..22, platform 3, encoding 1 or 10, language 0x409): per key two
#     scalar fields `h_<id>_<enc>` (record present) and `s_<id>_<enc>` (its string);
#   * an OVERLAY for every other key: `keyset` (keys present) and `recs` (key -> string).
# Scalar fields keep the heap terms of the 21 unrolled iterations of setupTable_name small (each field is written once).
_SLOT_ENCS = (1, 10)


def _slot(n, e, kind):
    return f"{kind}_{n}_{e}"


def _name_parts(args):
    return [lift(a, INT) for a in args]


def _slot_form(nid, plat, enc, lang):
    return z3.And(z3.Or(*[nid == n for n in _NAME_IDS]), plat == 3, z3.Or(*[enc == e for e in _SLOT_ENCS]), lang == 0x409)


def _name_getName(ex, st, self, args, kwargs, node):
    """fontTools table__n_a_m_e.getName(nameID, platformID, platEncID, langID): the matching record or None.  ufo2ft
    only tests the result's truthiness (a NameRecord defines neither __bool__ nor __len__): modelled as the Bool
    'a record with that key exists'."""
    if len(args) != 4 or kwargs:
        raise Unsupported("name.getName: expected (nameID, platformID, platEncID, langID)", node)
    nid, plat, enc, lang = _name_parts(args)
    hits = []
    for n in _NAME_IDS:
        if z3.is_false(z3.simplify(nid == n)):
            continue
        for e in _SLOT_ENCS:
            if z3.is_false(z3.simplify(enc == e)):
                continue
            hits.append(z3.And(nid == n, plat == 3, enc == e, lang == 0x409, lift(ex.read_field(st, self, _slot(n, e, "h")))))
    sf = z3.simplify(_slot_form(nid, plat, enc, lang))
    if not z3.is_true(sf):
        ks = ex.read_field(st, self, "keyset")
        hits.append(z3.And(z3.Not(sf), z3.Select(lift(ks), lift(_name_key(args, node)))))
    return Val(BOOL, z3.simplify(z3.Or(*hits)) if hits else z3.BoolVal(False))


def _name_setName(ex, st, self, args, kwargs, node):
    """fontTools table__n_a_m_e.setName(string, nameID, platformID, platEncID, langID): the record with that key gets the
    string (replaced if it exists, appended otherwise)"""
    if len(args) != 5 or kwargs:
        raise Unsupported("name.setName: expected (string, nameID, platformID, platEncID, langID)", node)
    s = ex.deopt(args[0], st, node)
    if s.ty != STR:
        raise Unsupported(f"name.setName with a {s.ty} string", node)
    nid, plat, enc, lang = _name_parts(args[1:])
    for n in _NAME_IDS:
        if z3.is_false(z3.simplify(z3.And(nid == n, plat == 3, lang == 0x409))):
            continue
        for e in _SLOT_ENCS:
            c = z3.simplify(z3.And(nid == n, plat == 3, enc == e, lang == 0x409))
            if z3.is_false(c):
                continue
            # the merged VALUE is stored (store(H, obj, ite(c, new, old))), not a choice between two heaps
            oh, os_ = ex.read_field(st, self, _slot(n, e, "h")), ex.read_field(st, self, _slot(n, e, "s"))
            ex.write_field(st, self, _slot(n, e, "h"), Val(BOOL, z3.simplify(z3.If(c, z3.BoolVal(True), lift(oh)))), node)
            ex.write_field(st, self, _slot(n, e, "s"), Val(STR, z3.simplify(z3.If(c, lift(s), lift(os_)))), node)
    sf = z3.simplify(_slot_form(nid, plat, enc, lang))
    if not z3.is_true(sf) and not ex.entails(st, sf):
        k = lift(_name_key(args[1:], node))
        ks, recs = ex.read_field(st, self, "keyset"), ex.read_field(st, self, "recs")
        ex.write_field(st, self, "keyset", Val(Set(NKEY), z3.If(sf, lift(ks), z3.Store(lift(ks), k, z3.BoolVal(True)))), node)
        ex.write_field(st, self, "recs", Val(Map(NKEY, STR), z3.If(sf, lift(recs), z3.Store(lift(recs), k, lift(s)))), node)
    return Val.const(None)


def _native_recs(tbl):
    return {(n.nameID, n.platformID, n.platEncID, n.langID): n.toUnicode() for n in tbl.names}


def _is_slot_key(k):
    return k[0] in _NAME_IDS and k[1] == 3 and k[2] in _SLOT_ENCS and k[3] == 0x409


_NAMEC = CLASSES[lib.table_class("name")]
_NAMEC.fields.setdefault("recs", Map(NKEY, STR))
_NAMEC.fields.setdefault("keyset", Set(NKEY))
_NAMEC.views.setdefault("recs", lambda tbl: {k: v for k, v in _native_recs(tbl).items() if not _is_slot_key(k)})
_NAMEC.views.setdefault("keyset", lambda tbl: {k for k in _native_recs(tbl) if not _is_slot_key(k)})
for _n in _NAME_IDS:
    for _e in _SLOT_ENCS:
        _NAMEC.fields.setdefault(_slot(_n, _e, "h"), BOOL)
        _NAMEC.fields.setdefault(_slot(_n, _e, "s"), STR)
        _NAMEC.views.setdefault(_slot(_n, _e, "h"), (lambda n, e: lambda tbl: (n, 3, e, 0x409) in _native_recs(tbl))(_n, _e))
        _NAMEC.views.setdefault(_slot(_n, _e, "s"), (lambda n, e: lambda tbl: _native_recs(tbl).get((n, 3, e, 0x409), ""))(_n, _e))
_NAMEC.methods.setdefault("getName", _name_getName)
_NAMEC.methods.setdefault("setName", _name_setName)


def _ufo_namerec_getitem(ex, st, self, idx, node):
    if not is_const(idx) or idx.py not in ("nameID", "platformID", "encodingID", "languageID", "string"):
        raise Unsupported("UFO name record subscript with an unknown key", node)
    return ex.read_field(st, self, idx.py)


cls("UfoNameRecord", fields={"nameID": INT, "platformID": INT, "encodingID": INT, "languageID": INT, "string": STR}, getitem=_ufo_namerec_getitem,
    notes="an entry of info.openTypeNameRecords: dict with keys nameID, platformID, encodingID, languageID (ints) and string (UFO3 typing, assumed)")
lib.INFO_ATTR_TYPES["openTypeNameRecords"] = List(Ref("UfoNameRecord"))


def _newTable_c16(ex, st, args, kwargs, node):
    """newTable(tag): a fresh table object; a fresh 'name' table holds no records"""
    tag = lib._need_tag(args[0], node)
    o = ex.new_object(st, lib.table_class(tag))
    if tag == "name":
        ex.write_field(st, o, "keyset", Val(Set(NKEY), z3.K(NKEY.sort(), z3.BoolVal(False))), node)
        for n in _NAME_IDS:
            for e in _SLOT_ENCS:
                ex.write_field(st, o, _slot(n, e, "h"), Val.const(False), node)
    return o


@trusted("builtins.ord", "ord(c) of a one-character string: its code point (SMT-LIB str.to_code)")
def _ord(ex, st, args, kwargs, node):
    """ord(c) of a one-character string: its code point (SMT-LIB str.to_code)"""
    (c,) = args
    if is_const(c):
        return Val.const(ord(c.py))
    return Val(INT, z3.StrToCode(lift(c, STR)))


class _TableMap:
    """run-time view of a TTFont for clauses: font[tag] is the real table seen through its class vocabulary"""

    def __init__(self, otf):
        self._otf = otf

    def __getitem__(self, tag):
        from pyvc.rt import Proxy

        return Proxy(self._otf[tag], CLASSES[lib.table_class(tag)])

    def __contains__(self, tag):
        return tag in self._otf

    def get(self, tag, default=None):
        return self[tag] if tag in self._otf else default


cls(
    "OutlineCompilerN",
    fields={"ufo": Ref("Font"), "otf": Ref("TTFont"), "tables": Set(STR)},
    views={"otf": lambda o: _TableMap(o.otf)},
    repo="ufo2ft.outlineCompiler:BaseOutlineCompiler",
    notes="BaseOutlineCompiler instance as setupTable_name sees it (run-time view: tables through their class vocabulary)",
)

_NAME_MODELS = {"fontTools.ttLib.ttFont.newTable": _newTable_c16, "fontTools.ttLib.newTable": _newTable_c16, "builtins.ord": _ord}

contract(
    "ufo2ft.outlineCompiler:_isNonBMP",
    props=P,
    params={"s": STR},
    returns=BOOL,
    ensures={"iff": "result == non_bmp_from(s, 0)"},
    canaries={"never": "not result", "first-only": "result == (len(s) > 0 and ord(s[0]) > 65535)"},
    # everything before position i is in the BMP: whether a later character is not decides the answer
    loops={"for c in s": Loop(index="i", invariants={"none-yet": "non_bmp_from(s, 0) == non_bmp_from(s, i)"})},
    models={"builtins.ord": _ord},
    runtime=Runtime(lambda rng, n: ["", "a", "\U0001d518", "ab\U0001f600c", "\uffff", "\U00010000", "\U00010000a", "a\uffff\U00010000"] + ["".join(chr(rng.choice([rng.randint(32, 0x2FF), rng.randint(0xFF00, 0x10100), rng.randint(0x1F000, 0x1F6FF)])) for _ in range(rng.randint(0, 5))) for _ in range(n)], lambda d: {"s": d}),
)

# The same contract under the NAME `non_bmp` (:= non_bmp_from(s, 0), never unfolded), for callers.  Nothing is assumed beyond the
# proved contract above: the clause is its postcondition with the definition of the name folded (props=[]; hook step A checks
# mechanically that the name's definition is literally `return non_bmp_from(s, 0)` and that the proved clause is the unfolded one).
contract(
    "ufo2ft.outlineCompiler:_isNonBMP",
    name="named",
    props=[],
    params={"s": STR},
    returns=BOOL,
    ensures={"iff": "result == non_bmp(s)"},
    notes="definitional folding of the proved contract _isNonBMP",
)

_NAME = "self.otf['name']"
@specfn(BOOL, s=STR, i=INT)
def non_bmp_from(s, i):
    """some character of s at position i or later lies outside the Basic Multilingual Plane"""
    if i < 0 or i >= len(s):
        return False
    return ord(s[i]) > 65535 or non_bmp_from(s, i + 1)


@specfn(BOOL, opaque=True, s=STR)
def non_bmp(s):
    """the string has a character outside the Basic Multilingual Plane (such records use platform encoding 10, else 1).
    A NAME for `non_bmp_from(s, 0)` that the logic never unfolds: callers of `_isNonBMP` only need "the same predicate of the
    string" (21 unfolded definitions over str.to_code make every obligation of setupTable_name time out)."""
    return non_bmp_from(s, 0)


_RECS = f"{_NAME}.recs"
_KEYS = f"{_NAME}.keyset"
_R = gi("openTypeNameRecords")


_RKEYS = ("nameID", "platformID", "encodingID", "languageID")


def _rk(a):
    return "(" + ", ".join(f"{_R}[{a}]['{f}']" for f in _RKEYS) + ")"


def _rk_same(a, b):
    """clause text: records a and b have the same key (componentwise: two tuple displays cannot be compared directly)"""
    return "(" + " and ".join(f"{_R}[{a}]['{f}'] == {_R}[{b}]['{f}']" for f in _RKEYS) + ")"


def _rk_is(a, n):
    """clause text: record a has the key of the built record for name ID n"""
    v = _NAME_VALUES[n][0]
    return f"({_R}[{a}]['nameID'] == {n} and {_R}[{a}]['platformID'] == 3 and {_R}[{a}]['encodingID'] == (10 if non_bmp({v}) else 1) and {_R}[{a}]['languageID'] == 1033)"


_PSN = gi("postscriptFontName")
_PFAM, _PSUB = gi("openTypeNamePreferredFamilyName"), gi("openTypeNamePreferredSubfamilyName")
# nameID -> (value as a clause text, may the value be None?)
_NAME_VALUES = {
    0: (gi("copyright"), True),
    1: (gi("styleMapFamilyName"), False),
    2: (f"{_SM}.title()", False),
    3: (gi("openTypeNameUniqueID"), False),
    4: (f"({_PFAM} + ' ' + {_PSUB})", False),
    5: (gi("openTypeNameVersion"), False),
    # the PostScript name is normalised (spaces allowed here) — an explicit one too
    6: (f"ite({_PSN} != '', ps_norm({_PSN}, True), '')", False),
    7: (gi("trademark"), True),
    8: (gi("openTypeNameManufacturer"), True),
    9: (gi("openTypeNameDesigner"), True),
    10: (gi("openTypeNameDescription"), True),
    11: (gi("openTypeNameManufacturerURL"), True),
    12: (gi("openTypeNameDesignerURL"), True),
    13: (gi("openTypeNameLicense"), True),
    14: (gi("openTypeNameLicenseURL"), True),
    16: (_PFAM, False),
    17: (_PSUB, False),
    18: (gi("openTypeNameCompatibleFullName"), True),
    19: (gi("openTypeNameSampleText"), True),
    21: (gi("openTypeNameWWSFamilyName"), True),
    22: (gi("openTypeNameWWSSubfamilyName"), True),
}
assert sorted(_NAME_VALUES) == _NAME_IDS
# the typographic names are left out when BOTH equal the legacy (style-map) names
_ELIDE = f"({_NAME_VALUES[1][0]} == {_NAME_VALUES[16][0]} and {_NAME_VALUES[2][0]} == {_NAME_VALUES[17][0]})"


def _present(n):
    v, opt = _NAME_VALUES[n]
    t = f"({v} is not None and {v} != '')" if opt else f"({v} != '')"
    return f"({t} and not {_ELIDE})" if n in (16, 17) else t


def _bkey(n):
    return f"({n}, 3, (10 if non_bmp({_NAME_VALUES[n][0]}) else 1), 1033)"


def _slot_clause(n):
    """the record of name ID n: present with the value as its string under the encoding the value demands (10 if it has a
    character outside the BMP, else 1) and absent under the other encoding; no record at all for an empty / None / elided value"""
    v = _NAME_VALUES[n][0]
    h1, s1, h10, s10 = (f"{_NAME}.{_slot(n, e, k)}" for e in _SLOT_ENCS for k in ("h", "s"))
    return (
        f"implies({_present(n)} and non_bmp({v}), {h10} and {s10} == {v} and not {h1})"
        f" and implies({_present(n)} and not non_bmp({v}), {h1} and {s1} == {v} and not {h10})"
        f" and implies(not {_present(n)}, not {h1} and not {h10})"
    )


_NAME_ENS = {f"record:{_n}": f"implies('name' in self.tables, {_slot_clause(_n)})" for _n in _NAME_IDS}
# no record beyond the Windows / English (3, 1|10, 0x409) ones of the 21 name IDs
_NAME_ENS["nothing-else"] = f"implies('name' in self.tables, len({_KEYS}) == 0)"
_NAME_ENS["not-requested"] = "implies('name' not in self.tables, self.otf.get('name') == old(self.otf.get('name')))"

# setupTable_name for a font WITHOUT explicit name records (info.openTypeNameRecords empty or absent — this `requires` is a
# case split, not a call-site precondition; the other case, explicit records overriding / adding records, is covered by
# observer O only): the table holds exactly the records built from the info attributes.
_NAME_PROPS = P
contract(
    "ufo2ft.outlineCompiler:BaseOutlineCompiler.setupTable_name",
    name="c16/no-records",
    props=_NAME_PROPS,
    params={"self": Ref("OutlineCompilerN")},
    requires=[f"len({_R}) == 0"],
    ensures=_NAME_ENS,
    canaries={"no-family-name": f"'name' in self.tables and not {_NAME}.{_slot(1, 1, 'h')} and not {_NAME}.{_slot(1, 10, 'h')}"},
    # frame: the font's 'name' entry; the record fields are listed class-wide because the loop over the explicit records (whose
    # body never runs here) is summarised by an invariant about THIS table only
    modifies=["TTFont.tbl:name", "table_name.keyset", "table_name.recs"] + [f"table_name.{_slot(_n, _e, _k)}" for _n in _NAME_IDS for _e in _SLOT_ENCS for _k in ("h", "s")],
    loops={
        "for nameRecord in getAttrWithFallback(font.info, 'openTypeNameRecords')": Loop(
            index="i",
            # the list of explicit records is empty: the loop body never runs, what the first loop built stays
            invariants={
                "is-table": "self.otf.get('name') is not None and name == self.otf['name']",
                "no-overlay": f"len({_KEYS}) == 0",
                **{f"record:{_n}": _slot_clause(_n) for _n in _NAME_IDS},
            },
        )
    },
    models=_NAME_MODELS,
    calls={"ufo2ft.outlineCompiler:_isNonBMP": "ufo2ft.outlineCompiler:_isNonBMP#named"},
    globals=G,
    runtime=Runtime(_table_info_cases(), _table_build(), call=lambda fn, a: fn(a["self"])),
)


# ---- head: dates ------------------------------------------------------------------------------------------------
_DATE_FMT = "%Y/%m/%d %H:%M:%S"  # the UFO3 openTypeHeadCreated format
STRUCT_TIME = Opaque("struct_time")


@specfn(BOOL, opaque=True, date=STR)
def date_valid(date):
    """the string parses as a UFO3 date 'YYYY/MM/DD HH:MM:SS' (library: time.strptime with that format accepts it)"""
    import time

    try:
        time.strptime(date, _DATE_FMT)
        return True
    except ValueError:
        return False


@specfn(INT, opaque=True, date=STR)
def date_seconds(date):
    """seconds since 1970-01-01 00:00:00 UTC of a valid UFO3 date string read as UTC (library: calendar.timegm)"""
    import calendar
    import time

    return calendar.timegm(time.strptime(date, _DATE_FMT))


def _struct_of(ex):
    return z3.Function("time_strptime_ufo3", z3.StringSort(), STRUCT_TIME.sort())


def _strptime(ex, st, args, kwargs, node):
    """time.strptime(s, '%Y/%m/%d %H:%M:%S'): ValueError iff not date_valid(s); otherwise a struct_time t with
    calendar.timegm(t) == date_seconds(s)"""
    from pyvc.api import SPECFNS

    s, fmt = args
    if not is_const(fmt) or fmt.py != _DATE_FMT or kwargs:
        raise Unsupported("time.strptime with a format other than the UFO3 date format", node)
    sz = lift(ex.deopt(s, st, node), STR)
    ex.safety(st, ex.spec_decl(SPECFNS["date_valid"])(sz), "ValueError", node)
    t = _struct_of(ex)(sz)
    st.assume(_timegm_fn()(t) == ex.spec_decl(SPECFNS["date_seconds"])(sz))
    return Val(STRUCT_TIME, t)


def _timegm_fn():
    return z3.Function("calendar_timegm", STRUCT_TIME.sort(), z3.IntSort())


def _timegm(ex, st, args, kwargs, node):
    """calendar.timegm(t): an integer determined by t"""
    (t,) = args
    if t.ty != STRUCT_TIME:
        raise Unsupported("calendar.timegm of something that is not a struct_time", node)
    return Val(INT, _timegm_fn()(lift(t)))


def _gmtime(ex, st, args, kwargs, node):
    """time.gmtime(): the current time — some struct_time"""
    if args or kwargs:
        raise Unsupported("time.gmtime with arguments", node)
    return Val(STRUCT_TIME, z3.FreshConst(STRUCT_TIME.sort(), "now"))


def _strftime(ex, st, args, kwargs, node):
    """time.strftime('%Y/%m/%d %H:%M:%S', t): a string that time.strptime accepts with the same format"""
    from pyvc.api import SPECFNS

    fmt, t = args
    if not is_const(fmt) or fmt.py != _DATE_FMT or t.ty != STRUCT_TIME:
        raise Unsupported("time.strftime with a format other than the UFO3 date format", node)
    s = z3.Function("time_strftime_ufo3", STRUCT_TIME.sort(), z3.StringSort())(lift(t))
    st.assume(ex.spec_decl(SPECFNS["date_valid"])(s))
    return Val(STR, s)


_DATE_MODELS = {"time.strptime": _strptime, "calendar.timegm": _timegm, "time.gmtime": _gmtime, "time.strftime": _strftime}
_DATES = ["2020/01/02 03:04:05", "1999/12/31 23:59:59", "1970/01/01 00:00:00", "2020/1/2 3:4:5", "2020/02/30 00:00:00", "2020-01-02 03:04:05", "", "x", "2020/01/02", "2020/01/02 03:04:05 ",
          "1904/01/01 00:00:00", "2040/02/29 12:00:00", "2041/02/29 12:00:00", "2020/13/01 00:00:00", "2020/01/02 24:00:00", "2020/01/02  03:04:05", "２０２０/01/02 03:04:05", "0001/01/01 00:00:00"]

contract(
    f"{MOD}:dateStringToTimeValue",
    props=P,
    params={"date": STR},
    returns=INT,
    # a date that does not parse is NOT an error: the value is 0 (1970-01-01)
    ensures={"value": "result == (date_seconds(date) if date_valid(date) else 0)"},
    canaries={"always-zero": "result == 0", "never-zero": "result == date_seconds(date)"},
    models=_DATE_MODELS,
    runtime=Runtime(lambda rng, n: (_DATES + ["%04d/%02d/%02d %02d:%02d:%02d" % (rng.randint(1, 9999), rng.randint(0, 13), rng.randint(0, 32), rng.randint(0, 25), rng.randint(0, 61), rng.randint(0, 62)) for _ in range(n)])[:max(n, len(_DATES))], lambda d: {"date": d}),
)

contract(
    f"{MOD}:dateStringForNow",
    props=P,
    params={},
    returns=STR,
    ensures={"parses": "date_valid(result)"},
    canaries={"fixed": "result == '2020/01/02 03:04:05'"},
    models=_DATE_MODELS,
    runtime=Runtime(lambda rng, n: [0, 1, 2], lambda d: {}),
)


# ---- head -------------------------------------------------------------------------------------------------------
@specfn(REAL, opaque=True, s=STR)
def decimal_value(s):
    """the number a decimal numeral denotes (library: float(s))"""
    return float(s)


@specfn(REAL, opaque=True, x=REAL)
def round3(x):
    """x rounded to three decimal places (library: round(x, 3))"""
    return round(x, 3)


def _float_c16(ex, st, args, kwargs, node):
    """float(x): of a string, the number it denotes (uninterpreted decimal_value); of a number, the number"""
    from pyvc import models
    from pyvc.api import SPECFNS

    (v,) = args
    if not is_const(v) and v.ty == STR:
        return Val(REAL, ex.spec_decl(SPECFNS["decimal_value"])(lift(v)))
    return models.BUILTIN_MODELS["builtins.float"].model(ex, st, args, kwargs, node)


def _round_c16(ex, st, args, kwargs, node):
    """round(x, 3): uninterpreted round3(x)"""
    from pyvc import models
    from pyvc.api import SPECFNS

    if len(args) == 2 and is_const(args[1]) and args[1].py == 3 and not is_const(args[0]):
        return Val(REAL, ex.spec_decl(SPECFNS["round3"])(lift(args[0], REAL)))
    return models.BUILTIN_MODELS["builtins.round"].model(ex, st, args, kwargs, node)


cls(
    "OutlineCompilerH",
    fields={"ufo": Ref("Font"), "otf": Ref("TTFont"), "tables": Set(STR), "fontBoundingBox": lib.BBOX, "glyphDataFormat": INT, "has_glyphDataFormat": BOOL},
    has={"glyphDataFormat": "has_glyphDataFormat"},
    views={"has_glyphDataFormat": lambda o: hasattr(o, "glyphDataFormat")},
    repo="ufo2ft.outlineCompiler:BaseOutlineCompiler",
    notes="BaseOutlineCompiler instance as setupTable_head sees it (only the TrueType compiler has glyphDataFormat)",
)

_HEAD = "self.otf['head']"
_VMAJ, _VMIN = gi("versionMajor"), gi("versionMinor")
_CREATED = gi("openTypeHeadCreated")
_HEAD_FIELDS = {
    # "major.minor" with the minor version zero-padded to three digits ('%d.%03d', Python's own formatting: library), read
    # as a decimal number and kept to three places
    "fontRevision": f"{_HEAD}.fontRevision == round3(decimal_value('%d.%03d' % ({_VMAJ}, {_VMIN})))",
    "unitsPerEm": f"{_HEAD}.unitsPerEm == otRound({gi('unitsPerEm')})",
    # seconds since 1904-01-01 (= seconds since 1970 + 2082844800); an unparsable date counts as 1970-01-01
    "created": f"{_HEAD}.created == (date_seconds({_CREATED}) if date_valid({_CREATED}) else 0) + 2082844800",
    "bbox": f"{_HEAD}.xMin == self.fontBoundingBox[0] and {_HEAD}.yMin == self.fontBoundingBox[1] and {_HEAD}.xMax == self.fontBoundingBox[2] and {_HEAD}.yMax == self.fontBoundingBox[3]",
    "macStyle": f"{_HEAD}.macStyle == ite({_SM} == 'bold', 1, ite({_SM} == 'bold italic', 3, ite({_SM} == 'italic', 2, 0)))",
    "flags": f"{_HEAD}.flags == {bits_of(gi('openTypeHeadFlags'), 0, 16)}",
    "lowestRecPPEM": f"{_HEAD}.lowestRecPPEM == otRound({gi('openTypeHeadLowestRecPPEM')})",
    "constants": f"{_HEAD}.checkSumAdjustment == 0 and {_HEAD}.tableVersion == 1.0 and {_HEAD}.magicNumber == 0x5F0F3CF5 and {_HEAD}.fontDirectionHint == 2 and {_HEAD}.indexToLocFormat == 0"
    f" and {_HEAD}.glyphDataFormat == (self.glyphDataFormat if self.has_glyphDataFormat else 0)",
}
_HEAD_PROPS = P

contract(
    "ufo2ft.outlineCompiler:BaseOutlineCompiler.setupTable_head",
    name="c16",
    props=_HEAD_PROPS,
    params={"self": Ref("OutlineCompilerH")},
    ensures={
        **{k: f"implies('head' in self.tables, {v})" for k, v in _HEAD_FIELDS.items()},
        "not-requested": "implies('head' not in self.tables, self.otf.get('head') == old(self.otf.get('head')))",
    },
    canaries={"regular": f"'head' in self.tables and {_HEAD}.macStyle == 0"},
    modifies=["TTFont.tbl:head"],
    locals={"macStyle": List(INT)},
    models={**_DATE_MODELS, "builtins.float": _float_c16, "builtins.round": _round_c16},
    calls={f"{MOD}:intListToNum": f"{MOD}:intListToNum#0+16"},
    globals=G,
    runtime=Runtime(_table_info_cases(), _table_build(), call=lambda fn, a: fn(a["self"])),
)


# ---- hhea / vhea: the info-derived fields (the glyph-derived ones are C04's variants of the same function) -----------------
def _hv_contract(tag):
    hv = tag == "hhea"
    T_ = f"self.otf['{tag}']"
    mtx = "hmtx" if hv else "vmtx"
    M = f"self.otf['{mtx}'].metrics"
    pre = "openTypeHhea" if hv else "openTypeVhea"
    mpre = pre if hv else pre + "VertTypo"
    fields = {
        "ascent": mpre + "Ascender", "descent": mpre + "Descender", "lineGap": mpre + "LineGap",
        "caretSlopeRise": pre + "CaretSlopeRise", "caretSlopeRun": pre + "CaretSlopeRun", "caretOffset": pre + "CaretOffset",
    }
    reserved = range(4) if hv else range(1, 5)
    return contract(
        "ufo2ft.outlineCompiler:BaseOutlineCompiler._setupTable_hhea_or_vhea",
        name="c16-" + tag,
        props=P,
        params={"self": Ref("OutlineCompiler"), "tag": Const(tag)},
        requires=[
            # from the code (as in the C04 variant): the metrics table and the glyph boxes know every glyph of the order
            f"self.otf.get('{mtx}') is not None",
            f"all(g in {M} and g in self.glyphBoundingBoxes for g in self.glyphOrder)",
        ],
        ensures={
            **{f: f"implies('{tag}' in self.tables, {T_}.{f} == otRound({gi(a)}))" for f, a in fields.items()},
            "reserved": f"implies('{tag}' in self.tables, " + " and ".join(f"{T_}.reserved{i} == 0" for i in reserved) + ")",
            "not-requested": f"implies('{tag}' not in self.tables, self.otf.get('{tag}') == old(self.otf.get('{tag}')))",
        },
        canaries={"no-line-gap": f"'{tag}' in self.tables and {T_}.lineGap == 0"},
        modifies=[f"TTFont.tbl:{tag}"],
        locals={"advances": List(INT), "firstSideBearings": List(INT), "secondSideBearings": List(INT), "extents": List(INT), "numLongMetrics": INT},
        loops={
            "for glyphName in self.glyphOrder": Loop(index="i", invariants={"adv": "len(advances) >= 0"}),
            "while advances[numLongMetrics - 2] == lastAdvance": Loop(invariants={"range": "2 <= numLongMetrics and numLongMetrics <= len(advances)"}),
        },
        globals=G,
    )


_hv_contract("hhea")
_hv_contract("vhea")


def _hv_cases(vertical):
    base = _table_info_cases()

    def gen(rng, n):
        out = base(rng, n)
        for d in out:
            d.pop("no_tables", None)
            d["vertical"] = vertical
            if vertical:
                # the stub .notdef's height comes from ascender - descender (vmtx refuses a negative height): keep them sane
                d["info"].update({"ascender": 800, "descender": -200})
                d["info"].update({"openTypeVheaVertTypoAscender": rng.choice([500, 499, 0]), "openTypeVheaVertTypoDescender": rng.choice([-500, -1]), "openTypeVheaVertTypoLineGap": rng.choice([0, 33])})
                for a, vs in (("openTypeVheaCaretSlopeRise", [0, 1, 7]), ("openTypeVheaCaretSlopeRun", [1, 0, 3]), ("openTypeVheaCaretOffset", [0, -20, 15])):
                    if rng.random() < 0.5:
                        d["info"][a] = rng.choice(vs)
        return out

    return gen


for _tag in ("hhea", "vhea"):
    CONTRACTS["ufo2ft.outlineCompiler:BaseOutlineCompiler._setupTable_hhea_or_vhea#c16-" + _tag].runtime = Runtime(
        _hv_cases(_tag == "vhea"),
        (lambda t: lambda d: {"self": rtlib.outline_compiler(d, d["flavor"], upto=("hmtx",) if t == "hhea" else ("head", "hmtx", "hhea", "maxp", "OS2", "vmtx")), "tag": t})(_tag),
        call=lambda fn, a: fn(a["self"], a["tag"]),
    )
