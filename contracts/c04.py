"""C04 — derived fields agree with the stored glyph data (hhea/vhea, hmtx/vmtx, bbox, OS/2 indices, VORG)."""
from pyvc.api import BOOL, INT, REAL, STR, CLASSES, CONTRACTS, Const, Dict, List, Loop, Opt, Ref, Runtime, Set, Tuple, contract

from . import lib, spec  # noqa: F401

# ---------------------------------------------------------------------------------------------------------
# _setupTable_hhea_or_vhea, one contract variant per tag (the tag is always a literal at the call sites)


def _hhea_contract(tag):
    hv = tag == "hhea"
    mtx = "hmtx" if hv else "vmtx"
    T_ = f"self.otf['{tag}']"
    M = f"self.otf['{mtx}'].metrics"
    B = "self.glyphBoundingBoxes"
    O = "self.glyphOrder"
    lo, hi = ("xMin", "xMax") if hv else ("yMin", "yMax")
    advMax = "advanceWidthMax" if hv else "advanceHeightMax"
    minFirst = "minLeftSideBearing" if hv else "minTopSideBearing"
    minSecond = "minRightSideBearing" if hv else "minBottomSideBearing"
    maxExt = "xMaxExtent" if hv else "yMaxExtent"
    num = "numberOfHMetrics" if hv else "numberOfVMetrics"

    def adv(g):
        return f"{M}[{g}][0]"

    def fsb(g):
        return f"{M}[{g}][1]"

    def span(g):
        return f"({B}[{g}].{hi} - {B}[{g}].{lo})"

    has = f"any({B}[g] is not None for g in {O})"
    return contract(
        "ufo2ft.outlineCompiler:BaseOutlineCompiler._setupTable_hhea_or_vhea",
        name=tag,
        props=["C04"],
        params={"self": Ref("OutlineCompiler"), "tag": Const(tag)},
        requires=[
            f"'{tag}' in self.tables",
            f"self.otf.get('{mtx}') is not None",
            # the code indexes both maps with every glyph name (KeyError otherwise): preconditions from the code
            f"all(g in {M} and g in {B} for g in {O})",
        ],
        ensures={
            # (each field: a bound over all glyphs, and "attained by some glyph" — two clauses, so that each obligation has
            #  one quantifier shape)
            "advance-max-bound": f"all({T_}.{advMax} >= {adv('g')} for g in {O})",
            "advance-max-attained": f"any({T_}.{advMax} == {adv('g')} for g in {O}) or (len({O}) == 0 and {T_}.{advMax} == 0)",
            # bearings / extent range over the glyphs that HAVE a bounding box only
            "min-first-bearing-bound": f"all(implies({B}[g] is not None, {T_}.{minFirst} <= {fsb('g')}) for g in {O})",
            "min-first-bearing-attained": f"any({B}[g] is not None and {T_}.{minFirst} == {fsb('g')} for g in {O}) or (not {has} and {T_}.{minFirst} == 0)",
            "min-second-bearing-bound": f"all(implies({B}[g] is not None, {T_}.{minSecond} <= {adv('g')} - {fsb('g')} - {span('g')}) for g in {O})",
            "min-second-bearing-attained": f"any({B}[g] is not None and {T_}.{minSecond} == {adv('g')} - {fsb('g')} - {span('g')} for g in {O}) or (not {has} and {T_}.{minSecond} == 0)",
            "max-extent-bound": f"all(implies({B}[g] is not None, {T_}.{maxExt} >= {fsb('g')} + {span('g')}) for g in {O})",
            "max-extent-attained": f"any({B}[g] is not None and {T_}.{maxExt} == {fsb('g')} + {span('g')} for g in {O}) or (not {has} and {T_}.{maxExt} == 0)",
            # the long-metric count is the SMALLEST count whose decoding reproduces every advance
            "long-metrics": f"implies(len({O}) > 0, 1 <= {T_}.{num} and {T_}.{num} <= len({O})"
            f" and all({adv(f'{O}[k]')} == {adv(f'{O}[len({O}) - 1]')} for k in range({T_}.{num} - 1, len({O})))"
            f" and ({T_}.{num} == 1 or {adv(f'{O}[{T_}.{num} - 2]')} != {adv(f'{O}[len({O}) - 1]')}))",
            "long-metrics-empty": f"implies(len({O}) == 0, {T_}.{num} == 0)",
            "format": f"{T_}.metricDataFormat == 0 and {T_}.tableVersion == {0x00010000 if hv else 0x00011000}",
        },
        canaries={"advance-max-is-first": f"implies(len({O}) > 0, {T_}.{advMax} == {adv(f'{O}[0]')})"},
        modifies=[f"TTFont.tbl:{tag}"],  # frame: only the font's slot for this table is written (the table object itself is new)
        locals={"advances": List(INT), "firstSideBearings": List(INT), "secondSideBearings": List(INT), "extents": List(INT), "numLongMetrics": INT},
        # Ghost state, one triple per extremum X in {F: min first bearing, S: min second bearing, E: max extent}: gX = the running
        # extremum over the boxed glyphs seen so far, aX = index (in the glyph order) of a glyph attaining it, kX = position in the
        # list where that value sits.  Every invariant then relates ONE quantified variable to ground ghost terms (no nested
        # sequence indexing), which every solver of the portfolio instantiates in the first round.
        ghost_vars={f"{v}{x}": (INT, "0") for x in "FSE" for v in "gak"},
        ghost={"extents.append(extent)": [
            stmt
            for x, val, better in (("F", "firstSideBearing", "<"), ("S", "secondSideBearing", "<"), ("E", "extent", ">"))
            for stmt in (
                f"a{x} = i if (len(extents) == 1 or {val} {better} g{x}) else a{x}",
                f"k{x} = len(extents) - 1 if (len(extents) == 1 or {val} {better} g{x}) else k{x}",
                f"g{x} = {val} if (len(extents) == 1 or {val} {better} g{x}) else g{x}",
            )
        ]},
        loops={
            "for glyphName in self.glyphOrder": Loop(
                index="i",
                invariants={
                    "adv": f"len(advances) == i and all(advances[a] == {adv(f'{O}[a]')} for a in range(i))",
                    "lens": "len(extents) == len(firstSideBearings) and len(extents) == len(secondSideBearings)",
                    # a list is non-empty as soon as one boxed glyph was seen
                    "some": f"all(implies({B}[{O}[a]] is not None, len(extents) > 0) for a in range(i))",
                    **{
                        f"{x}-{nm}": inv
                        for x, lst, val, le in (
                            ("F", "firstSideBearings", fsb(f"{O}[$]"), "<="),
                            ("S", "secondSideBearings", f"{adv(f'{O}[$]')} - {fsb(f'{O}[$]')} - {span(f'{O}[$]')}", "<="),
                            ("E", "extents", f"{fsb(f'{O}[$]')} + {span(f'{O}[$]')}", ">="),
                        )
                        for nm, inv in (
                            # the running extremum bounds every boxed glyph seen so far ...
                            ("bound", f"all(implies({B}[{O}[a]] is not None, g{x} {le} {val.replace('$', 'a')}) for a in range(i))"),
                            # ... is attained by the boxed glyph number aX ...
                            ("glyph", f"implies(len(extents) > 0, 0 <= a{x} and a{x} < i and {B}[{O}[a{x}]] is not None and g{x} == {val.replace('$', f'a{x}')})"),
                            # ... bounds every list entry and sits in the list at position kX
                            ("list", f"all(g{x} {le} {lst}[k] for k in range(len({lst})))"),
                            ("at", f"implies(len(extents) > 0, 0 <= k{x} and k{x} < len({lst}) and {lst}[k{x}] == g{x})"),
                        )
                    },
                },
            ),
            "while advances[numLongMetrics - 2] == lastAdvance": Loop(
                invariants={
                    "range": "2 <= numLongMetrics and numLongMetrics <= len(advances)",
                    "tail": "all(advances[k] == lastAdvance for k in range(numLongMetrics - 1, len(advances)))",
                }
            ),
        },
    )


_hhea_contract("hhea")
_hhea_contract("vhea")


# ---- run-time harness -------------------------------------------------------------------------------------
from . import rtlib  # noqa: E402

_VINFO = {"openTypeVheaVertTypoAscender": 500, "openTypeVheaVertTypoDescender": -500, "openTypeVheaVertTypoLineGap": 0}


def _hhea_cases(vertical):
    def gen(rng, n):
        out = []
        for k in range(n):
            d = {"glyphs": rtlib.rand_glyphs(rng, vertical=vertical), "vertical": vertical}
            if k % 5 == 0:
                # every outlined glyph with strictly positive bearings
                for g in d["glyphs"].values():
                    g["width"] = 600
                    g["box"] = [50, 50, 450, 500]
            if k % 7 == 0:
                for g in d["glyphs"].values():
                    g["width"] = 500
            if vertical:
                d["info"] = dict(_VINFO)
            out.append(d)
        return out

    return gen


def _hhea_build(tag):
    def build(d):
        steps = ("hmtx",) if tag == "hhea" else ("head", "hmtx", "hhea", "maxp", "OS2", "vmtx")
        comp = rtlib.outline_compiler(d, "otf", upto=steps)
        return {"self": comp, "tag": tag}

    return build


for _tag in ("hhea", "vhea"):
    CONTRACTS["ufo2ft.outlineCompiler:BaseOutlineCompiler._setupTable_hhea_or_vhea#" + _tag].runtime = Runtime(
        _hhea_cases(_tag == "vhea"), _hhea_build(_tag), call=lambda fn, a: fn(a["self"], a["tag"])
    )


# =====================================================================================================
# setupTable_VORG: the default origin plus the records reproduce every glyph's vertical origin
import z3  # noqa: E402

from pyvc import ops, ty as T  # noqa: E402
from pyvc.api import cls, trusted  # noqa: E402
from pyvc.core import Unsupported, Val, fresh, fresh_name, lift  # noqa: E402

from pyvc.api import SPECFNS, specfn  # noqa: E402

_RT_OTF = [None]


@specfn(INT, opaque=True, g=Ref("GlyphV"))
def vertical_origin(g):
    """the glyph's vertical origin as ufo2ft computes it (opaque in the logic; natively the real helper)"""
    from ufo2ft.outlineCompiler import _getVerticalOrigin

    return _getVerticalOrigin(_RT_OTF[0], getattr(g, "_obj", g))


def _vo_model(ex, st, args, kwargs, node):
    """_getVerticalOrigin(otf, glyph): an integer that depends on the glyph (and on tables that VORG building does
    not touch) only — summary of the 8-line helper"""
    return Val(INT, ex.spec_decl(SPECFNS["vertical_origin"])(lift(args[1])))


def _gsv_values(ex, st, self, args, kwargs, node):
    return ex.call_method(ex.read_field(st, self, "glyphs"), "values", [], {}, st, node)


def _gsv_items(ex, st, self, args, kwargs, node):
    return ex.call_method(ex.read_field(st, self, "glyphs"), "items", [], {}, st, node)


cls("GlyphV", fields={"name": STR}, notes="glyph object as VORG sees it (identity only)")
cls("GlyphSetV", fields={"glyphs": Dict(STR, Ref("GlyphV"))}, methods={"values": _gsv_values, "items": _gsv_items},
    views={"glyphs": lambda o: dict(o)}, notes="self.allGlyphs: name -> glyph")


def _counter(ex, st, args, kwargs, node):
    """collections.Counter(iterable): .vals = the distinct values; len() = their number; most_common(1)[0][0] is one
    of them (assumed; 'a most frequent one' is not needed for the property)"""
    from pyvc import models

    seq = models.materialize(ex, args[0])
    c = ex.new_object(st, "CounterV")
    s = lift(seq)
    ex.write_field(st, c, "seq", seq, node)
    return c


def _counter_len(ex, st, self):
    s = lift(ex.read_field(st, self, "seq"))
    n = z3.Int(fresh_name("ndistinct"))
    i, j = z3.Int(fresh_name("ci")), z3.Int(fresh_name("cj"))
    ln = z3.Length(s)
    st.assume(z3.And(n >= 0, n <= ln))
    st.assume((n == 0) == (ln == 0))
    # n <= 1  <=>  all entries equal
    st.assume((n <= 1) == z3.ForAll([i, j], z3.Implies(z3.And(0 <= i, i < ln, 0 <= j, j < ln), s[i] == s[j])))
    return Val(INT, n)


def _most_common(ex, st, self, args, kwargs, node):
    s = lift(ex.read_field(st, self, "seq"))
    w = z3.Int(fresh_name("mc"))
    ex.safety(st, z3.Length(s) > 0, "IndexError", node)
    st.assume(z3.And(0 <= w, w < z3.Length(s)))
    cnt = z3.Int(fresh_name("cnt"))
    return Val(List(Tuple(INT, INT)), z3.Unit(Tuple(INT, INT).sort().mk(s[w], cnt)))


cls("CounterV", fields={"seq": List(INT)}, methods={"most_common": _most_common}, length=_counter_len)
CLASSES_VORG_TABLE = cls("table_VORG", fields={"majorVersion": INT, "minorVersion": INT, "VOriginRecords": Dict(STR, INT), "defaultVertOriginY": INT, "numVertOriginYMetrics": INT}, dynamic=True)
cls("OutlineCompilerV", fields={"otf": Ref("TTFont"), "tables": Set(STR), "allGlyphs": Ref("GlyphSetV")}, repo="ufo2ft.outlineCompiler:BaseOutlineCompiler")

_VT = "self.otf['VORG']"
contract(
    "ufo2ft.outlineCompiler:BaseOutlineCompiler.setupTable_VORG",
    props=["C04"],
    params={"self": Ref("OutlineCompilerV")},
    requires=["'VORG' in self.tables", "len(self.allGlyphs.glyphs) > 0"],
    ensures={
        # what a reader reconstructs (record if present, else the default) is every glyph's own origin
        "origins": f"all(({_VT}.VOriginRecords[g] if g in {_VT}.VOriginRecords else {_VT}.defaultVertOriginY) == vertical_origin(self.allGlyphs.glyphs[g]) for g in self.allGlyphs.glyphs)",
        "records-only-for-glyphs": f"all(g in self.allGlyphs.glyphs for g in {_VT}.VOriginRecords)",
        "minimal": f"all({_VT}.VOriginRecords[g] != {_VT}.defaultVertOriginY for g in {_VT}.VOriginRecords)",
        "count": f"{_VT}.numVertOriginYMetrics == len({_VT}.VOriginRecords)",
        "version": f"{_VT}.majorVersion == 1 and {_VT}.minorVersion == 0",
    },
    canaries={"no-records": f"len({_VT}.VOriginRecords) == 0"},
    # (VOriginRecords is written on the NEW table only, but inside a loop, whose havoc is per field array: listed for the frame check)
    modifies=["TTFont.tbl:VORG", "table_VORG.VOriginRecords"],
    models={"ufo2ft.outlineCompiler._getVerticalOrigin": _vo_model, "collections.Counter": _counter},
    loops={
        "for (glyphName, glyph) in self.allGlyphs.items()": Loop(
            index="i", seq="K",
            invariants={
                "done": f"all(({_VT}.VOriginRecords[K[a]] if K[a] in {_VT}.VOriginRecords else {_VT}.defaultVertOriginY) == vertical_origin(self.allGlyphs.glyphs[K[a]]) for a in range(i))",
                # ghost wr: record key -> position of the glyph that produced it (names the witness: no exists under forall)
                "only": f"all(g in wr and 0 <= wr[g] and wr[g] < i and K[wr[g]] == g and {_VT}.VOriginRecords[g] != {_VT}.defaultVertOriginY for g in {_VT}.VOriginRecords)",
                "default-kept": f"{_VT}.defaultVertOriginY == old_default",
            },
        )
    },
    ghost_vars={"old_default": (INT, "0"), "wr": (Dict(STR, INT), "{}")},
    ghost={"vorg.defaultVertOriginY = vorg_count.most_common(1)[0][0]": ["old_default = vorg.defaultVertOriginY"],
           "vorg.VOriginRecords[glyphName] = vertOriginY": ["wr = {**wr, glyphName: i}"]},
)


def _vorg_cases(rng, n):
    out = []
    for k in range(n):
        d = {"glyphs": rtlib.rand_glyphs(rng, n=rng.randint(1, 5), vertical=True), "vertical": True, "info": dict(_VINFO)}
        if k % 3 == 0:  # most glyphs share an explicit origin that differs from the OS/2 fallback; one glyph has none
            names = list(d["glyphs"])
            for nm in names:
                d["glyphs"][nm]["lib"] = {"public.verticalOrigin": 800}
            d["glyphs"][names[-1]].pop("lib", None)
        out.append(d)
    return out


def _vorg_build(d):
    comp = rtlib.outline_compiler(d, "otf", upto=("head", "hmtx", "hhea", "maxp", "OS2", "vmtx"))
    _RT_OTF[0] = comp.otf
    return {"self": comp}


CONTRACTS["ufo2ft.outlineCompiler:BaseOutlineCompiler.setupTable_VORG"].runtime = Runtime(_vorg_cases, _vorg_build, call=lambda fn, a: fn(a["self"]))


# =====================================================================================================
# makeFontBoundingBox: the font box is the UNION of the glyph boxes (glyphs without a box are skipped; no box
# at all -> (0, 0, 0, 0)).  Stated as "encloses every glyph box" + "every side is attained by some glyph box"
# (= the smallest enclosing rectangle); ghost w0..w3 name the glyph (position in the dict) attaining each side.


@trusted("fontTools.misc.arrayTools.unionRect", "unionRect(a, b) == (min(a[0], b[0]), min(a[1], b[1]), max(a[2], b[2]), max(a[3], b[3])) as a plain 4-tuple")
def _unionRect(ex, st, args, kwargs, node):
    a, b = [ex.unpack(ex.deopt(x, st, node), 4, st, node) for x in args]
    out = []
    for k in range(4):
        x, y, t = ops.num_join(a[k], b[k])
        out.append(Val(t, z3.If((x <= y) if k < 2 else (x >= y), x, y)))
    return Val(lib.BBOX, lib.BBOX.sort().mk(*[lift(o, INT) for o in out]))


_B = "self.glyphBoundingBoxes"
_SIDES = ("xMin", "yMin", "xMax", "yMax")
_HASBOX = f"any({_B}[g] is not None for g in {_B})"


def _encloses(box, g):
    return (f"{box}[0] <= {_B}[{g}].xMin and {box}[1] <= {_B}[{g}].yMin and {box}[2] >= {_B}[{g}].xMax and {box}[3] >= {_B}[{g}].yMax")


contract(
    "ufo2ft.outlineCompiler:BaseOutlineCompiler.makeFontBoundingBox",
    props=["C04"],
    params={"self": Ref("OutlineCompiler")},
    returns=lib.BBOX,
    ensures={
        **{f"encloses-{sd}": f"all(implies({_B}[g] is not None, result[{k}] {'<=' if k < 2 else '>='} {_B}[g].{sd}) for g in {_B})" for k, sd in enumerate(_SIDES)},
        **{f"tight-{s}": f"implies({_HASBOX}, any({_B}[g] is not None and {_B}[g].{s} == result[{k}] for g in {_B}))" for k, s in enumerate(_SIDES)},
        "empty": f"implies(not {_HASBOX}, result == (0, 0, 0, 0))",
    },
    canaries={"is-first-box": f"implies(len({_B}) > 0 and {_B}[list({_B})[0]] is not None, result == {_B}[list({_B})[0]])"},
    merge_branches=False,  # first box / union with the box so far: two simple paths per iteration
    ghost_vars={f"w{k}": (INT, "0") for k in range(4)},
    ghost={
        "fontBox = glyphBox": [f"w{k} = i" for k in range(4)],
        "fontBox = unionRect(fontBox, glyphBox)": [f"w{k} = i if fontBox[{k}] == glyphBox[{k}] else w{k}" for k in range(4)],
    },
    loops={
        "for glyphBox in self.glyphBoundingBoxes.values()": Loop(
            index="i", seq="K",
            locals={"fontBox": Opt(lib.BBOX)},
            invariants={
                "none-yet": f"iff(fontBox is None, all({_B}[K[a]] is None for a in range(i)))",
                **{f"encloses-{sd}": f"implies(fontBox is not None, all(implies({_B}[K[a]] is not None, fontBox[{k}] {'<=' if k < 2 else '>='} {_B}[K[a]].{sd}) for a in range(i)))" for k, sd in enumerate(_SIDES)},
                **{f"attained-{s}": f"implies(fontBox is not None, 0 <= w{k} and w{k} < i and {_B}[K[w{k}]] is not None and {_B}[K[w{k}]].{s} == fontBox[{k}])" for k, s in enumerate(_SIDES)},
            },
        )
    },
)


def _fbb_cases(rng, n):
    out = []
    for k in range(n):
        d = {"glyphs": rtlib.rand_glyphs(rng), "flavor": "otf" if k % 2 else "ttf"}
        if k % 6 == 0:  # no outlined glyph at all
            for g in d["glyphs"].values():
                g.pop("box", None)
        out.append(d)
    return out


def _fbb_build(d):
    return {"self": rtlib.outline_compiler(d, d["flavor"])}


CONTRACTS["ufo2ft.outlineCompiler:BaseOutlineCompiler.makeFontBoundingBox"].runtime = Runtime(_fbb_cases, _fbb_build, call=lambda fn, a: fn(a["self"]))


# =====================================================================================================
# setupTable_hmtx / setupTable_vmtx: one record per glyph; the advance is the rounded source advance and the side
# bearing is the OUTLINE EXTREMUM (hmtx: lsb == xMin of the glyph box; vmtx: tsb == vertical origin - yMax of the glyph
# box; 0 / origin for a glyph without a box).  (hmtx's advance rounding is also stated under C01 in contracts/c01.py;
# the variant here is the C04 reading: bearings vs glyph boxes, exactly one record per glyph, nothing else.)


@specfn(INT, v=REAL)
def c04_otr(v):
    """otRound: floor(v + 1/2)"""
    from fontTools.misc.fixedTools import otRound

    return otRound(v)


CLASSES["GlyphV"].fields.update({"width": REAL, "height": REAL})
cls("OutlineCompilerM", fields={"otf": Ref("TTFont"), "tables": Set(STR), "allGlyphs": Ref("GlyphSetV"), "glyphBoundingBoxes": Dict(STR, Opt(lib.BBOX))},
    repo="ufo2ft.outlineCompiler:BaseOutlineCompiler", notes="compiler as the metrics builders see it: allGlyphs (name -> glyph with width/height), glyph boxes, otf")

_AGM = "self.allGlyphs.glyphs"


def _mtx_contract(tag):
    h = tag == "hmtx"
    MT = f"self.otf['{tag}'].metrics"
    adv = f"c04_otr({_AGM}[g].{'width' if h else 'height'})"
    box = f"{_B}[g]"
    bearing = f"({box}.xMin if {box} is not None else 0)" if h else f"vertical_origin({_AGM}[g]) - ({box}.yMax if {box} is not None else 0)"

    def rec(g):
        return (f"{g} in {MT} and {MT}[{g}][0] == {adv} and {MT}[{g}][0] >= 0 and {MT}[{g}][1] == {bearing}").replace("[g]", f"[{g}]")

    return contract(
        f"ufo2ft.outlineCompiler:BaseOutlineCompiler.setupTable_{tag}",
        name="c04",
        props=["C04"],
        params={"self": Ref("OutlineCompilerM")},
        models={"ufo2ft.outlineCompiler._getVerticalOrigin": _vo_model},
        requires=[
            f"'{tag}' in self.tables",
            # the code indexes glyphBoundingBoxes with every glyph name (KeyError otherwise): from the code
            f"all(g in {_B} for g in {_AGM})",
        ],
        ensures={
            "record-per-glyph": f"all({rec('g')} for g in {_AGM})",
            "nothing-else": f"all(g in {_AGM} for g in {MT})",
            "count": f"len({MT}) == len({_AGM})",
        },
        raises={"ValueError": f"any({adv} < 0 for g in {_AGM})"},
        # (metrics is written on the NEW table only, but inside a loop, whose havoc is per field array: listed for the frame check)
        modifies=[f"TTFont.tbl:{tag}", f"table_{tag}.metrics"],
        canaries={"bearing-zero": f"all({MT}[g][1] == 0 for g in {_AGM})"},
        loops={
            "for (glyphName, glyph) in self.allGlyphs.items()": Loop(
                index="i", seq="K",
                invariants={
                    "is-table": f"self.otf.get('{tag}') is not None and {tag} == self.otf['{tag}']",
                    "done": f"all({rec('K[a]')} for a in range(i))",
                    "later-absent": f"all(K[a] not in {MT} for a in range(i, len(K)))",
                    "keys-len": f"len({MT}) == i",
                    "nothing-else": f"all(g in {_AGM} for g in {MT})",
                },
            )
        },
    )


_mtx_contract("hmtx")
_mtx_contract("vmtx")


def _mtx_cases(vertical):
    def gen(rng, n):
        out = []
        for k in range(n):
            g = rtlib.rand_glyphs(rng, n=rng.randint(0, 4), vertical=vertical)
            for v in g.values():
                v["width"] = rng.choice([0, 200, 600.5, 333.4, 0.5, 1.5, 2.5, -0.4])
                if vertical:
                    v["height"] = rng.choice([0, 1000, 800.5, 0.5, -0.4])
            if k % 6 == 5 and g:
                g[sorted(g)[-1]]["height" if vertical else "width"] = rng.choice([-1, -0.6, -300.5])
            d = {"glyphs": g, "vertical": vertical, "flavor": "otf" if k % 2 else "ttf"}
            if vertical:
                d["info"] = dict(_VINFO)
            out.append(d)
        return out

    return gen


def _mtx_build(tag):
    def build(d):
        comp = rtlib.outline_compiler(d, d["flavor"], upto=() if tag == "hmtx" else ("head", "hmtx", "hhea", "maxp", "OS2"))
        _RT_OTF[0] = comp.otf
        return {"self": comp}

    return build


for _tag in ("hmtx", "vmtx"):
    CONTRACTS[f"ufo2ft.outlineCompiler:BaseOutlineCompiler.setupTable_{_tag}#c04"].runtime = Runtime(_mtx_cases(_tag == "vmtx"), _mtx_build(_tag), call=lambda fn, a: fn(a["self"]))


# =====================================================================================================
# maxp: numGlyphs is the length of the glyph order; (TrueType) maxComponentElements / maxComponentDepth are the maxima
# of the per-glyph component counts / component-tree heights.

_RT_GS = [None]


@specfn(INT, opaque=True, g=Ref("GlyphV"))
def comp_depth(g):
    """height of the glyph's component tree as util.getMaxComponentDepth computes it (opaque in the logic)"""
    from ufo2ft.util import getMaxComponentDepth

    return getMaxComponentDepth(getattr(g, "_obj", g), _RT_GS[0])


@specfn(BOOL, opaque=True, g=Ref("GlyphV"))
def comp_cyclic(g):
    """util.getMaxComponentDepth raises InvalidFontData on this glyph (a component cycle is reachable)"""
    from ufo2ft.errors import InvalidFontData
    from ufo2ft.util import getMaxComponentDepth

    try:
        getMaxComponentDepth(getattr(g, "_obj", g), _RT_GS[0])
    except InvalidFontData:
        return True
    return False


@trusted("c04.getMaxComponentDepth", "summary of ufo2ft.util.getMaxComponentDepth(glyph, glyphSet) at its call site in getMaxComponentDepths: a non-negative "
         "integer that is a function of the glyph (glyph set unchanged), or InvalidFontData; its VALUE (tree height, cycle detection) is "
         "characterised only by the exhaustive small-scope check of vcheck/hooks/c02.py")
def _gmcd(ex, st, args, kwargs, node):
    g = lift(args[0])
    ex.safety(st, z3.Not(ex.spec_decl(SPECFNS["comp_cyclic"])(g)), "InvalidFontData", node)
    d = ex.spec_decl(SPECFNS["comp_depth"])(g)
    st.assume(d >= 0)
    return Val(INT, d)


from pyvc.symex import FuncRef  # noqa: E402

CLASSES["GlyphV"].fields.update({"components": List(Ref("ComponentV"))})
cls("ComponentV", fields={"baseGlyph": STR}, notes="component reference (identity only)")
cls("OutlineCompilerT", fields={"otf": Ref("TTFont"), "tables": Set(STR), "allGlyphs": Ref("GlyphSetV"), "glyphOrder": List(STR),
                                "_maxComponentDepths": Opt(Dict(STR, INT))},
    repo="ufo2ft.outlineCompiler:OutlineTTFCompiler", notes="OutlineTTFCompiler as maxp / post see it")
cls("OutlineCompilerO", fields={"otf": Ref("TTFont"), "tables": Set(STR), "glyphOrder": List(STR)},
    repo="ufo2ft.outlineCompiler:OutlineOTFCompiler", notes="OutlineOTFCompiler as maxp sees it")

_MP = "self.otf['maxp']"
contract(
    "ufo2ft.outlineCompiler:OutlineOTFCompiler.setupTable_maxp",
    props=["C04"],
    params={"self": Ref("OutlineCompilerO")},
    requires=["'maxp' in self.tables"],
    modifies=["TTFont.tbl:maxp"],
    ensures={"num-glyphs": f"{_MP}.numGlyphs == len(self.glyphOrder)", "version": f"{_MP}.tableVersion == 0x00005000"},
    canaries={"one-glyph": f"{_MP}.numGlyphs == 1"},
    runtime=Runtime(lambda rng, n: [{"glyphs": rtlib.rand_glyphs(rng)} for _ in range(n)], lambda d: {"self": rtlib.outline_compiler(d, "otf")}, call=lambda fn, a: fn(a["self"])),
)


def _depths_sub(d):
    return f"all(g in {_AGM} and {d}[g] == comp_depth({_AGM}[g]) and {d}[g] > 0 for g in {d})"


def _depths_sup(d):
    return f"all(implies(comp_depth({_AGM}[g]) > 0, g in {d}) for g in {_AGM})"


def _depths_ok(d):
    """d is exactly the map name -> component-tree height of the composite glyphs"""
    return _depths_sub(d) + " and " + _depths_sup(d)


_NO_CYCLE = f"not any(comp_cyclic({_AGM}[g]) for g in {_AGM})"
# the cache is written by getMaxComponentDepths only (and initialised to None by __init__): a cached map is one it computed
_CACHE_OK = f"self._maxComponentDepths is None or (({_depths_ok('self._maxComponentDepths')}) and {_NO_CYCLE})"
_GMCD_GLOBALS = {"getMaxComponentDepth": Val.obj(FuncRef(None, "c04.getMaxComponentDepth"))}

contract(
    "ufo2ft.outlineCompiler:OutlineTTFCompiler.getMaxComponentDepths",
    props=["C04"],
    params={"self": Ref("OutlineCompilerT")},
    returns=Opt(Dict(STR, INT)),
    globals=_GMCD_GLOBALS,
    # (the first clause is a tautology: it makes the engine state the dict well-formedness facts of allGlyphs unguarded,
    #  before the disjunction below mentions the dict under a guard)
    requires=[f"len({_AGM}) >= 0", _CACHE_OK],
    modifies=["OutlineCompilerT._maxComponentDepths"],
    ensures={
        "is-a-dict": "result is not None",
        "only-composites": _depths_sub("result"),
        "every-composite": _depths_sup("result"),
        "cached": "self._maxComponentDepths == result",
    },
    raises={"InvalidFontData": f"any(comp_cyclic({_AGM}[g]) for g in {_AGM})"},
    canaries={"empty": "len(result) == 0"},
    locals={"maxComponentDepths": Dict(STR, INT)},
    loops={
        "for (name, glyph) in self.allGlyphs.items()": Loop(
            index="i", seq="K",
            invariants={
                "sub": f"all(any(K[a] == g for a in range(i)) and maxComponentDepths[g] == comp_depth({_AGM}[g]) and maxComponentDepths[g] > 0 for g in maxComponentDepths)",
                "sup": f"all(implies(comp_depth({_AGM}[K[a]]) > 0, K[a] in maxComponentDepths) for a in range(i))",
                "no-cycle": f"all(not comp_cyclic({_AGM}[K[a]]) for a in range(i))",
            },
        )
    },
)

_NCOMP = f"len({_AGM}[g].components)"
contract(
    "ufo2ft.outlineCompiler:OutlineTTFCompiler.setupTable_maxp",
    props=["C04"],
    params={"self": Ref("OutlineCompilerT")},
    requires=[
        "'maxp' in self.tables",
        # '.notdef' is always in the glyph set (makeMissingRequiredGlyphs, contract under C03): max() of an empty sequence raises
        f"len({_AGM}) > 0",
        _CACHE_OK,
    ],
    modifies=["TTFont.tbl:maxp", "OutlineCompilerT._maxComponentDepths"],
    ensures={
        "num-glyphs": f"{_MP}.numGlyphs == len(self.glyphOrder)",
        "max-component-elements": f"all({_MP}.maxComponentElements >= {_NCOMP} for g in {_AGM})",
        "max-component-elements-attained": f"any({_MP}.maxComponentElements == {_NCOMP} for g in {_AGM})",
        "max-component-depth": f"all({_MP}.maxComponentDepth >= comp_depth({_AGM}[g]) for g in {_AGM})"
        f" and (any({_MP}.maxComponentDepth == comp_depth({_AGM}[g]) for g in {_AGM}) or {_MP}.maxComponentDepth == 0)",
        "version": f"{_MP}.tableVersion == 0x00010000",
        "no-instructions": f"{_MP}.maxZones == 1 and {_MP}.maxTwilightPoints == 0 and {_MP}.maxStorage == 0 and {_MP}.maxFunctionDefs == 0"
        f" and {_MP}.maxInstructionDefs == 0 and {_MP}.maxStackElements == 0 and {_MP}.maxSizeOfInstructions == 0",
    },
    raises={"InvalidFontData": f"any(comp_cyclic({_AGM}[g]) for g in {_AGM})"},
    canaries={"no-composites": f"{_MP}.maxComponentDepth == 0"},
)


def _maxp_cases(rng, n):
    out = []
    for k in range(n):
        g = rtlib.rand_glyphs(rng, n=rng.randint(0, 5))
        names = sorted(g)
        for nm in names:
            if rng.random() < 0.5 and len(names) > 1:
                g[nm]["components"] = [[rng.choice(names), [1, 0, 0, 1, rng.choice([0, 10]), 0]] for _ in range(rng.randint(1, 3))]
                if k % 3:  # mostly acyclic: only refer to later names
                    g[nm]["components"] = [c for c in g[nm]["components"] if c[0] > nm]
        out.append({"glyphs": g, "cached": k % 5 == 4})
    return out


def _maxp_build(d):
    comp = rtlib.outline_compiler(d, "ttf")
    _RT_GS[0] = comp.allGlyphs
    if d.get("cached"):
        try:
            comp.getMaxComponentDepths()
        except Exception:
            pass
    return {"self": comp}


for _m in ("getMaxComponentDepths", "setupTable_maxp"):
    CONTRACTS[f"ufo2ft.outlineCompiler:OutlineTTFCompiler.{_m}"].runtime = Runtime(_maxp_cases, _maxp_build, call=lambda fn, a: fn(a["self"]))


# =====================================================================================================
# OS/2 first / last character index: the smallest mapped code point, and the largest one clipped to 0xFFFF
# (0xFFFF for both when nothing is mapped).  The function is long; everything it needs besides the last dozen lines
# (info summaries, OS/2 table object methods, intListToNum, math.tan) is the vocabulary that contracts/c16.py
# registers for its own `#c16` variant of this function (which states the info-derived fields); this variant states
# the two fields derived from the CHARACTER MAP.
_OS2 = "self.otf['OS/2']"
_UM = "self.unicodeToGlyphNameMapping"
_HAS_OS2 = "'OS/2' in self.tables"


def _gi(attr):
    return f"getAttrWithFallback(self.ufo.info, '{attr}')"


def _os2_globals():
    import math

    import ufo2ft.fontInfoData as fid

    class _Fn(FuncRef):
        def __init__(self, obj):
            FuncRef.__init__(self, obj, f"{obj.__module__}.{obj.__qualname__}")

        def __call__(self, *a, **k):
            return self.obj(*a, **k)

    return {"getAttrWithFallback": _Fn(fid.getAttrWithFallback), "math": math}


contract(
    "ufo2ft.outlineCompiler:BaseOutlineCompiler.setupTable_OS2",
    name="c04",
    props=["C04"],
    params={"self": Ref("OutlineCompiler")},
    globals=_os2_globals(),
    # UFO3 fixes the lengths of these two info lists (the code indexes them): precondition from the code, as in the #c16 variant
    requires=[f"len({_gi('openTypeOS2FamilyClass')}) == 2", f"len({_gi('openTypeOS2Panose')}) == 10"],
    ensures={
        "first-is-min": f"implies({_HAS_OS2} and len({_UM}) > 0, {_OS2}.fsFirstCharIndex in {_UM} and all({_OS2}.fsFirstCharIndex <= k for k in {_UM}))",
        "last-is-clipped-max": f"implies({_HAS_OS2} and len({_UM}) > 0, {_OS2}.fsLastCharIndex <= 65535 and all({_OS2}.fsLastCharIndex >= k or ({_OS2}.fsLastCharIndex == 65535 and k > 65535) for k in {_UM})"
        f" and ({_OS2}.fsLastCharIndex in {_UM} or ({_OS2}.fsLastCharIndex == 65535 and any(k > 65535 for k in {_UM}))))",
        "no-characters": f"implies({_HAS_OS2} and len({_UM}) == 0, {_OS2}.fsFirstCharIndex == 65535 and {_OS2}.fsLastCharIndex == 65535)",
    },
    canaries={"one-character": f"{_HAS_OS2} and {_OS2}.fsFirstCharIndex == {_OS2}.fsLastCharIndex"},
    modifies=["TTFont.tbl:OS/2"],
    locals={"selection": List(INT), "unicodes": List(INT)},
)


def _os2_cases(rng, n):
    cps = [0x20, 0x41, 0x42, 0x9089, 0xFFFF, 0x10000, 0x1F600, 0x2F800]
    out = []
    for k in range(n):
        g = rtlib.rand_glyphs(rng, n=rng.randint(0, 4))
        pool = cps[:]
        rng.shuffle(pool)
        if k % 3 == 0:
            pool = [c for c in pool if c <= 0xFFFF]
        for v in g.values():
            v["unicodes"] = [pool.pop() for _ in range(rng.randint(0, 2)) if pool]
        if k % 7 == 0:
            for v in g.values():
                v["unicodes"] = []
        out.append({"glyphs": g, "flavor": "otf" if k % 2 else "ttf"})
    return out


CONTRACTS["ufo2ft.outlineCompiler:BaseOutlineCompiler.setupTable_OS2#c04"].runtime = Runtime(
    _os2_cases, lambda d: {"self": rtlib.outline_compiler(d, d["flavor"], upto=("head", "hmtx", "hhea", "maxp", "cmap"))}, call=lambda fn, a: fn(a["self"]))


# =====================================================================================================
# post (TrueType flavour): format 2 with the compiler's glyph order; the extra names are the non-standard names of
# the glyph order.  `super().setupTable_post()` goes through the `#OutlineCompilerT` contract of the base method, which is itself
# discharged against the base method below (what the override relies on: table made iff requested, format 3 before).
from fontTools.ttLib.standardGlyphOrder import standardGlyphOrder as _STD  # noqa: E402

_POSTC = CLASSES[lib.table_class("post")]
for _f, _t in {"formatType": REAL, "extraNames": List(STR), "mapping": Dict(STR, INT), "glyphOrder": List(STR), "italicAngle": REAL, "underlinePosition": INT,
               "underlineThickness": INT, "isFixedPitch": INT, "minMemType42": INT, "maxMemType42": INT, "minMemType1": INT, "maxMemType1": INT}.items():
    _POSTC.fields.setdefault(_f, _t)
lib.LIB_TYPES.setdefault("public.openTypePostUnderlinePosition", REAL)
lib.INFO_ATTR_TYPES.setdefault("postscriptIsFixedPitch", BOOL)

lib._tt_field(None, None, "post")  # declares TTFont's per-tag field for 'post' (otherwise declared lazily on first subscript)
_PT = "self.otf['post']"
_BASE_POST_FIELDS = ["formatType", "italicAngle", "underlinePosition", "underlineThickness", "isFixedPitch", "minMemType42", "maxMemType42", "minMemType1", "maxMemType1"]
_BASE_POST = contract(
    "ufo2ft.outlineCompiler:BaseOutlineCompiler.setupTable_post",
    name="OutlineCompilerT",  # the variant that `super().setupTable_post()` of an OutlineCompilerT receiver resolves to
    props=["C04"],
    params={"self": Ref("OutlineCompilerT")},
    modifies=["TTFont.tbl:post"],  # (the table object is new: its fields are not part of the frame)
    ensures={
        "made-iff-requested": "implies('post' in self.tables, self.otf.get('post') is not None) and implies('post' not in self.tables, self.otf.get('post') == old(self.otf.get('post')))",
        "fresh-table": "implies('post' in self.tables, fresh(self.otf['post']))",
        "format-3": f"implies('post' in self.tables, {_PT}.formatType == 3.0)",
    },
    canaries={"always-made": "self.otf.get('post') is not None"},
)
CLASSES["OutlineCompilerT"].fields.setdefault("ufo", Ref("Font"))


contract(
    "ufo2ft.outlineCompiler:OutlineTTFCompiler.setupTable_post",
    props=["C04"],
    params={"self": Ref("OutlineCompilerT")},
    globals={"standardGlyphOrder": list(_STD)},
    # compile() creates the TTFont and calls every setupTable_* once: there is no 'post' table yet (otherwise the override would
    # rewrite a table that the base method did not make)
    requires=["self.otf.get('post') is None", "distinct(self.glyphOrder)"],  # (glyph order: each name once — proved for makeOfficialGlyphOrder under C03)
    modifies=["TTFont.tbl:post"],
    ensures={
        "made-iff-requested": "implies('post' in self.tables, self.otf.get('post') is not None) and implies('post' not in self.tables, self.otf.get('post') == old(self.otf.get('post')))",
        "format-2": f"implies('post' in self.tables, {_PT}.formatType == 2.0)",
        "glyph-order": f"implies('post' in self.tables, {_PT}.glyphOrder == self.glyphOrder)",
        "mapping-empty": f"implies('post' in self.tables, len({_PT}.mapping) == 0)",
        # the name list: exactly the names of the glyph order that are not standard Macintosh glyph names (as sets; the order
        # of the list is only checked at run time, see bounded_ensures)
        "extra-names-only": f"implies('post' in self.tables, all(any(self.glyphOrder[k] == g for k in range(len(self.glyphOrder))) and g not in standardGlyphOrder for g in {_PT}.extraNames))",
        "extra-names-all": f"implies('post' in self.tables, all(implies(g not in standardGlyphOrder, g in {_PT}.extraNames) for g in self.glyphOrder))",
        # ... in the ORDER of the glyph order: two names of the list stand in the glyph order in the same relative order
        "extra-names-in-order": f"implies('post' in self.tables, all(all(all(all(implies(j < k and self.glyphOrder[p] == {_PT}.extraNames[j] and self.glyphOrder[q] == {_PT}.extraNames[k], p < q)"
        f" for q in range(len(self.glyphOrder))) for p in range(len(self.glyphOrder))) for k in range(len({_PT}.extraNames))) for j in range(len({_PT}.extraNames))))",
        # ... each once (the glyph order has no duplicates: makeOfficialGlyphOrder, `no-name-twice` under C03)
        "extra-names-no-name-twice": f"implies('post' in self.tables, distinct({_PT}.extraNames))",
    },
    comp_positions=True,
    bounded_ensures={
        # run time only: the same fact as ONE list equality (two comprehension results are equal only by induction, which the solvers
        # do not do; the proved clauses extra-names-only / -all / -in-order / no-name-twice say the same for a duplicate-free glyph order)
        "extra-names-list": f"implies('post' in self.tables, {_PT}.extraNames == [g for g in self.glyphOrder if g not in standardGlyphOrder])",
    },
    canaries={"no-extra-names": f"implies('post' in self.tables, len({_PT}.extraNames) == 0)"},
)


def _post_cases(rng, n):
    pool = [".notdef", "space", "A", "a", "uni0041", "foo", "bar.alt", "Agrave", "glyph1"]
    out = []
    for k in range(n):
        names = rng.sample(pool, rng.randint(0, 6))
        order = names[:]
        rng.shuffle(order)
        out.append({"glyphs": {nm: {"width": 500} for nm in names}, "order": order, "no_post": k % 7 == 3})
    return out


def _post_build(d):
    comp = rtlib.outline_compiler(d, "ttf")
    if d.get("no_post"):
        comp.tables = frozenset(comp.tables) - {"post"}
    return {"self": comp}


for _k in ("ufo2ft.outlineCompiler:OutlineTTFCompiler.setupTable_post", "ufo2ft.outlineCompiler:BaseOutlineCompiler.setupTable_post#OutlineCompilerT"):
    CONTRACTS[_k].runtime = Runtime(_post_cases, _post_build, call=lambda fn, a: fn(a["self"]))


# =====================================================================================================
# The cached property `fontBoundingBox` (what setupTable_head and the CFF builder read): computed once by
# makeFontBoundingBox (contract above), then returned from the cache.
cls("OutlineCompilerB", fields={"glyphBoundingBoxes": Dict(STR, Opt(lib.BBOX)), "_fontBoundingBox": Opt(lib.BBOX)},
    repo="ufo2ft.outlineCompiler:BaseOutlineCompiler", notes="compiler as the fontBoundingBox property sees it (glyph boxes; cache slot)")


def _union_clauses(box):
    """clauses (one fact each): `box` is the union of the glyph boxes ((0,0,0,0) if there is none)"""
    out = {}
    for k, sd in enumerate(_SIDES):
        out[f"encloses-{sd}"] = f"all(implies({_B}[g] is not None, {box}[{k}] {'<=' if k < 2 else '>='} {_B}[g].{sd}) for g in {_B})"
        out[f"tight-{sd}"] = f"implies({_HASBOX}, any({_B}[g] is not None and {_B}[g].{sd} == {box}[{k}] for g in {_B}))"
    out["empty"] = f"implies(not {_HASBOX}, {box} == (0, 0, 0, 0))"
    return out


def _is_union(box):
    return "(" + " and ".join(_union_clauses(box).values()) + ")"


contract(
    "ufo2ft.outlineCompiler:BaseOutlineCompiler.makeFontBoundingBox",
    name="OutlineCompilerB",  # the same function for the receiver class of the property contract (callee summary of `self.makeFontBoundingBox()`)
    props=["C04"],
    params={"self": Ref("OutlineCompilerB")},
    returns=lib.BBOX,
    ensures=_union_clauses("result"),
    canaries={"always-empty": "result == (0, 0, 0, 0)"},
    merge_branches=False,
    ghost_vars={f"w{k}": (INT, "0") for k in range(4)},
    ghost=dict(CONTRACTS["ufo2ft.outlineCompiler:BaseOutlineCompiler.makeFontBoundingBox"].ghost),
    loops=dict(CONTRACTS["ufo2ft.outlineCompiler:BaseOutlineCompiler.makeFontBoundingBox"].loops),
)

contract(
    "ufo2ft.outlineCompiler:BaseOutlineCompiler.fontBoundingBox",
    props=["C04"],
    params={"self": Ref("OutlineCompilerB")},
    returns=Opt(lib.BBOX),
    # the cache slot is written by this getter only (and set to None by __init__): a cached box is one it computed
    requires=[f"len({_B}) >= 0", f"self._fontBoundingBox is None or {_is_union('self._fontBoundingBox')}"],
    modifies=["self._fontBoundingBox"],
    ensures={"a-box": "result is not None", **_union_clauses("result"), "cached": "self._fontBoundingBox == result"},
    canaries={"always-empty": "result == (0, 0, 0, 0)"},
    merge_branches=False,
)


def _fbbp_build(d):
    comp = rtlib.outline_compiler(d, d["flavor"])
    if d.get("cached"):
        comp.fontBoundingBox  # noqa: B018  (fills the cache)
    return {"self": comp}


CONTRACTS["ufo2ft.outlineCompiler:BaseOutlineCompiler.fontBoundingBox"].runtime = Runtime(
    lambda rng, n: [dict(d, cached=bool(k % 3 == 0)) for k, d in enumerate(_fbb_cases(rng, n))], _fbbp_build, call=lambda fn, a: fn.fget(a["self"]))
CONTRACTS["ufo2ft.outlineCompiler:BaseOutlineCompiler.makeFontBoundingBox#OutlineCompilerB"].runtime = Runtime(_fbb_cases, _fbb_build, call=lambda fn, a: fn(a["self"]))


# =====================================================================================================
# head: the bounding-box fields are the font bounding box (already integers: otRound is the identity on them).
# setupTable_head also formats versions and dates; the library models for that part (time.strptime, float(str), round(x, 3))
# and the compiler vocabulary `OutlineCompilerH` are those of contracts/c16.py, whose `#c16` variant states the info-derived
# fields of the same function.  (If c16 cannot be imported this variant is simply not registered.)
try:
    from . import c16 as _c16

    _HD = "self.otf['head']"
    contract(
        "ufo2ft.outlineCompiler:BaseOutlineCompiler.setupTable_head",
        name="c04",
        props=["C04"],
        params={"self": Ref("OutlineCompilerH")},
        ensures={
            **{f"bbox-{sd}": f"implies('head' in self.tables, {_HD}.{sd} == self.fontBoundingBox[{k}])" for k, sd in enumerate(_SIDES)},
            "not-requested": "implies('head' not in self.tables, self.otf.get('head') == old(self.otf.get('head')))",
        },
        canaries={"empty-box": f"'head' in self.tables and {_HD}.xMin == 0 and {_HD}.xMax == 0"},
        modifies=["TTFont.tbl:head"],
        locals={"macStyle": List(INT)},
        models={**_c16._DATE_MODELS, "builtins.float": _c16._float_c16, "builtins.round": _c16._round_c16},
        calls={"ufo2ft.fontInfoData:intListToNum": "ufo2ft.fontInfoData:intListToNum#0+16"},
        runtime=Runtime(lambda rng, n: [dict(d, flavor="otf" if k % 2 else "ttf") for k, d in enumerate(_fbb_cases(rng, n))], _fbb_build, call=lambda fn, a: fn(a["self"])),
    )
except Exception as _e:  # noqa: BLE001
    import sys as _sys

    print(f"warning: contracts/c04.py: setupTable_head#c04 not registered (contracts/c16.py unavailable: {_e!r})", file=_sys.stderr)


# =====================================================================================================
# toInt — the rounding of CFF glyph boxes (nested in OutlineOTFCompiler.makeGlyphsBoundingBoxes; `tolerance` is the
# enclosing function's local = self.roundTolerance).  A bound is ROUNDED (otRound) when every coordinate is rounded anyway
# (tolerance >= 0.5) or when rounding moves it by at most the tolerance; otherwise it is pushed OUTWARD (floor for minima, ceil for
# maxima), so the integer box never cuts into the outline by more than the tolerance.
import math as _math  # noqa: E402


class _PyFn(FuncRef):
    """a python function value usable as a contract constant by both interpreters"""

    def __init__(self, obj, qual):
        FuncRef.__init__(self, obj, qual)

    def __call__(self, *a, **k):
        return self.obj(*a, **k)


@trusted("math.floor", "math.floor(x): the largest integer <= x")
def _floor(ex, st, args, kwargs, node):
    (v,) = args
    return Val(INT, z3.ToInt(lift(v, REAL)))


@trusted("math.ceil", "math.ceil(x): the smallest integer >= x")
def _ceil(ex, st, args, kwargs, node):
    (v,) = args
    return Val(INT, -z3.ToInt(-lift(v, REAL)))


_TOL = Val(REAL, z3.Real("tolerance"))
_CLOSE = "(tolerance >= 0.5 or abs(c04_otr(value) - value) <= tolerance)"
for _nm, _fn, _out in (("floor", _math.floor, "result <= value and value < result + 1"), ("ceil", _math.ceil, "result >= value and value > result - 1")):
    contract(
        "ufo2ft.outlineCompiler:OutlineOTFCompiler.makeGlyphsBoundingBoxes.toInt",
        name=_nm,
        props=["C04"],
        params={"value": REAL, "else_callback": Const(_PyFn(_fn, "math." + _nm))},
        returns=INT,
        globals={"tolerance": _TOL},
        ensures={
            "rounded-when-close": f"implies({_CLOSE}, result == c04_otr(value))",
            "outward-otherwise": f"implies(not {_CLOSE}, {_out})",
            # the integer bound never lies inside the outline by more than the tolerance (tolerance < 0.5: partial rounding)
            "never-inside-by-more-than-tolerance": "implies(tolerance >= 0 and tolerance < 0.5, " + ("result <= value + tolerance" if _nm == "floor" else "result >= value - tolerance") + ")",
        },
        canaries={"always-rounds": "result == c04_otr(value)"},
    )


# =====================================================================================================
# OutlineTTFCompiler.makeGlyphsBoundingBoxes: one entry per compiled glyph; the box is the glyf record's own (xMin, yMin, xMax, yMax)
# after fontTools recomputed it, and None exactly for the all-zero box (glyph without outline).  Together with hmtx#c04 /
# hhea / head this ties "side bearing == outline extremum" to the STORED glyph data of the TrueType flavour.
def _recalcBounds(ex, st, self, args, kwargs, node):
    """fontTools Glyph.recalcBounds(glyfTable): recomputes xMin/yMin/xMax/yMax of THIS glyph record from its own (and its
    components') coordinates — the four fields get new values, nothing else changes (trusted library behaviour)"""
    for f in ("xMin", "yMin", "xMax", "yMax"):
        ex.write_field(st, self, f, Val(INT, fresh(INT, "recalc_" + f)), node)
    return Val.const(None)


_recalcBounds.modifies = ["TTGlyphRec.xMin", "TTGlyphRec.yMin", "TTGlyphRec.xMax", "TTGlyphRec.yMax"]
cls("TTGlyphRec", fields={"xMin": INT, "yMin": INT, "xMax": INT, "yMax": INT}, methods={"recalcBounds": _recalcBounds}, notes="fontTools glyf Glyph record (bounds only)")


def _getCompiledGlyphs(ex, st, self, args, kwargs, node):
    return ex.read_field(st, self, "compiled")


cls("OutlineCompilerG", fields={"compiled": Dict(STR, Ref("TTGlyphRec"))}, methods={"getCompiledGlyphs": _getCompiledGlyphs},
    views={"compiled": lambda o: o.getCompiledGlyphs()},
    repo="ufo2ft.outlineCompiler:OutlineTTFCompiler",
    notes="TTF compiler as makeGlyphsBoundingBoxes sees it; `compiled` = what getCompiledGlyphs() returns (the cached result of compileGlyphs, "
          "whose content is C02's subject) — the two-line cache wrapper getCompiledGlyphs is summarised as a read of that field")


def _bbox_ctor(ex, st, args, kwargs, node):
    """namedtuple constructor BoundingBox(xMin, yMin, xMax, yMax): the 4-tuple of its arguments"""
    return Val(lib.BBOX, lib.BBOX.sort().mk(*[lift(a, INT) for a in args]))


_CG = "self.compiled"
contract(
    "ufo2ft.outlineCompiler:OutlineTTFCompiler.makeGlyphsBoundingBoxes",
    props=["C04"],
    params={"self": Ref("OutlineCompilerG")},
    returns=Dict(STR, Opt(lib.BBOX)),
    models={"ufo2ft.outlineCompiler.BoundingBox": _bbox_ctor},
    requires=[
        f"len({_CG}) >= 0", f"all(allocated({_CG}[g]) for g in {_CG})",
        # compileGlyphs builds one NEW record per glyph name (`pen.glyph(..)` / `Glyph()` inside its loop): no record is shared by two names
        f"all(all(implies(a != b, {_CG}[list({_CG})[a]] is not {_CG}[list({_CG})[b]]) for b in range(len({_CG}))) for a in range(len({_CG})))",
    ],
    # recalcBounds rewrites the four bound fields of the glyf records (library behaviour); ufo2ft itself writes nothing that existed
    modifies=list(_recalcBounds.modifies),
    ensures={
        "one-entry-per-glyph": f"all(g in result for g in {_CG}) and all(g in {_CG} for g in result)",
        "none-iff-all-zero": f"all(iff(result[g] is None, {_CG}[g].xMin == 0 and {_CG}[g].yMin == 0 and {_CG}[g].xMax == 0 and {_CG}[g].yMax == 0) for g in {_CG})",
        **{f"box-{sd}": f"all(implies(result[g] is not None, result[g].{sd} == {_CG}[g].{sd}) for g in {_CG})" for sd in _SIDES},
    },
    canaries={"all-empty": f"all(result[g] is None for g in {_CG})"},
    locals={"glyphBoxes": Dict(STR, Opt(lib.BBOX))},
    loops={
        "for (glyphName, glyph) in ttGlyphs.items()": Loop(
            index="i", seq="K",
            invariants={
                "keys": "all(K[a] in glyphBoxes for a in range(i))",
                "none-iff-all-zero": f"all(iff(glyphBoxes[K[a]] is None, {_CG}[K[a]].xMin == 0 and {_CG}[K[a]].yMin == 0 and {_CG}[K[a]].xMax == 0 and {_CG}[K[a]].yMax == 0) for a in range(i))",
                **{f"box-{sd}": f"all(implies(glyphBoxes[K[a]] is not None, glyphBoxes[K[a]].{sd} == {_CG}[K[a]].{sd}) for a in range(i))" for sd in _SIDES},
                "only": f"all(g in {_CG} for g in glyphBoxes)",
            },
        )
    },
    runtime=Runtime(_fbb_cases, lambda d: {"self": rtlib.outline_compiler(d, "ttf")}, call=lambda fn, a: fn(a["self"])),
)


# ---- the cached property `glyphBoundingBoxes` (TrueType flavour): computed once by makeGlyphsBoundingBoxes, then returned from the cache
CLASSES["OutlineCompilerG"].fields["_glyphBoundingBoxes"] = Opt(Dict(STR, Opt(lib.BBOX)))


def _gbb_clauses(d):
    out = {
        "one-entry-per-glyph": f"all(g in {d} for g in {_CG}) and all(g in {_CG} for g in {d})",
        "none-iff-all-zero": f"all(iff({d}[g] is None, {_CG}[g].xMin == 0 and {_CG}[g].yMin == 0 and {_CG}[g].xMax == 0 and {_CG}[g].yMax == 0) for g in {_CG})",
    }
    for sd in _SIDES:
        out[f"box-{sd}"] = f"all(implies({d}[g] is not None, {d}[g].{sd} == {_CG}[g].{sd}) for g in {_CG})"
    return out


_GBB_REQ = CONTRACTS["ufo2ft.outlineCompiler:OutlineTTFCompiler.makeGlyphsBoundingBoxes"].requires
contract(
    "ufo2ft.outlineCompiler:BaseOutlineCompiler.glyphBoundingBoxes",
    props=["C04"],
    params={"self": Ref("OutlineCompilerG")},
    returns=Opt(Dict(STR, Opt(lib.BBOX))),
    # a cached map is one this getter stored (the only writer besides __init__'s None), for the records as they are now
    requires=list(_GBB_REQ) + ["self._glyphBoundingBoxes is None or (" + " and ".join(_gbb_clauses("self._glyphBoundingBoxes").values()) + ")"],
    modifies=["self._glyphBoundingBoxes"] + list(_recalcBounds.modifies),
    ensures={"a-map": "result is not None", **_gbb_clauses("result"), "cached": "self._glyphBoundingBoxes == result"},
    canaries={"all-empty": f"all(result[g] is None for g in {_CG})"},
    merge_branches=False,
    runtime=Runtime(lambda rng, n: [dict(d, cached=bool(k % 3 == 0)) for k, d in enumerate(_fbb_cases(rng, n))],
                    lambda d: {"self": (lambda c: (c.glyphBoundingBoxes if d.get("cached") else None, c)[1])(rtlib.outline_compiler(d, "ttf"))},
                    call=lambda fn, a: fn.fget(a["self"])),
)


# =====================================================================================================
# OutlineOTFCompiler.makeGlyphsBoundingBoxes as a whole: one entry per charstring; the box is the charstring's exact bounds with the two
# minima rounded by toInt(.., floor) and the two maxima by toInt(.., ceil) (tolerance = self.roundTolerance); None when the charstring has
# no bounds or the rounded box is (0, 0, 0, 0).
_RT_CS = [None]
_R4 = Tuple(REAL, REAL, REAL, REAL)


@specfn(Opt(_R4), opaque=True, cs=Ref("CharStringB"))
def cff_bounds(cs):
    """exact bounds of a compiled charstring as fontTools computes them (T2CharString.calcBounds; None for an empty outline)"""
    b = getattr(cs, "_obj", cs).calcBounds(_RT_CS[0])
    return None if b is None else tuple(b)


@specfn(INT, v=REAL, tol=REAL, up=BOOL)
def c04_toint(v, tol, up):
    """the rounding of one bound: otRound when everything is rounded (tol >= 0.5) or rounding moves it by at most tol, else outward"""
    return c04_otr(v) if (tol >= 0.5 or abs(c04_otr(v) - v) <= tol) else (-c04_floor(-v) if up else c04_floor(v))


@specfn(INT, v=REAL)
def c04_floor(v):
    import math

    return math.floor(v)


def _calcBounds(ex, st, self, args, kwargs, node):
    """T2CharString.calcBounds(glyphSet): a function of the charstring (pure; the glyph set is the unchanged dict of all charstrings)"""
    return Val(Opt(_R4), ex.spec_decl(SPECFNS["cff_bounds"])(lift(self)))


cls("CharStringB", methods={"calcBounds": _calcBounds}, notes="compiled T2CharString (bounds only)")
cls("OutlineCompilerC", fields={"compiled": Dict(STR, Ref("CharStringB")), "roundTolerance": REAL},
    methods={"getCompiledGlyphs": _getCompiledGlyphs}, views={"compiled": lambda o: o.getCompiledGlyphs()},
    repo="ufo2ft.outlineCompiler:OutlineOTFCompiler", notes="OTF compiler as makeGlyphsBoundingBoxes sees it (compiled charstrings, rounding tolerance)")

_CC = "self.compiled"


def _cbox(g):
    """clause text: the four rounded bounds of glyph g"""
    b = f"cff_bounds({_CC}[{g}])"
    return [f"c04_toint({b}[{k}], self.roundTolerance, {k >= 2})" for k in range(4)]


def _cff_clauses(d, g, quant):
    allzero = " and ".join(f"{t} == 0" for t in _cbox(g))
    out = {"none-iff-no-bounds-or-all-zero": f"all(iff({d}[{g}] is None, cff_bounds({_CC}[{g}]) is None or ({allzero})) for {quant})"}
    for k, sd in enumerate(_SIDES):
        out[f"box-{sd}"] = f"all(implies({d}[{g}] is not None, {d}[{g}].{sd} == {_cbox(g)[k]}) for {quant})"
    return out


_OTF_MGBB_READY = True  # flipped when the engine narrows the None-branch of `if bounds is not None:` (notes/C04.requests.md #5)
contract(
    "ufo2ft.outlineCompiler:OutlineOTFCompiler.makeGlyphsBoundingBoxes",
    props=["C04"] if _OTF_MGBB_READY else [],
    params={"self": Ref("OutlineCompilerC")},
    returns=Dict(STR, Opt(lib.BBOX)),
    models={"ufo2ft.outlineCompiler.BoundingBox": _bbox_ctor},
    requires=[f"len({_CC}) >= 0"],
    modifies=[],
    ensures={
        "one-entry-per-glyph": f"all(g in result for g in {_CC}) and all(g in {_CC} for g in result)",
        **_cff_clauses("result", "g", f"g in {_CC}"),
    },
    canaries={"all-empty": f"all(result[g] is None for g in {_CC})"},
    locals={"glyphBoxes": Dict(STR, Opt(lib.BBOX))},
    loops={
        "for (name, cs) in charStrings.items()": Loop(
            index="i", seq="K",
            invariants={
                "keys": "all(K[a] in glyphBoxes for a in range(i))",
                "only": f"all(g in {_CC} for g in glyphBoxes)",
                **_cff_clauses("glyphBoxes", "K[a]", "a in range(i)"),
            },
        )
    },
)


def _cff_cases(rng, n):
    out = []
    for k in range(n):
        g = rtlib.rand_glyphs(rng)
        for v in g.values():
            if v.get("box") and rng.random() < 0.6:
                x0, y0, x1, y1 = v["box"]
                v["contours"] = [[(x0 + rng.choice([0, 0.25, 0.5, 0.75]), y0 + rng.choice([0, 0.4, 0.6]), "line"), (x1 + rng.choice([0, 0.3, 0.5]), y0, "line"), (x1, y1 + rng.choice([0, 0.2, 0.5, 0.8]), "line")]]
                v.pop("box")
        out.append({"glyphs": g, "rt": [None, 0, 0.25, 0.5, 1, 0.1][k % 6]})
    return out


def _cff_build(d):
    from fontTools.ttLib import TTFont

    from ufo2ft.outlineCompiler import OutlineOTFCompiler

    comp = OutlineOTFCompiler(rtlib.build_ufo(d), roundTolerance=d["rt"])
    comp.otf = TTFont(sfntVersion=comp.sfntVersion)
    comp.otf.setGlyphOrder(comp.glyphOrder)
    _RT_CS[0] = comp.getCompiledGlyphs()
    return {"self": comp}


CONTRACTS["ufo2ft.outlineCompiler:OutlineOTFCompiler.makeGlyphsBoundingBoxes"].runtime = Runtime(_cff_cases, _cff_build, call=lambda fn, a: fn(a["self"]))
