"""C04 — derived fields agree with the stored glyph data (hhea/vhea, hmtx/vmtx, bbox, OS/2 indices, VORG)."""
from pyvc.api import BOOL, INT, REAL, STR, CONTRACTS, Const, Dict, List, Loop, Opt, Ref, Runtime, Set, Tuple, contract

from . import lib, spec  # noqa: F401

# ---------------------------------------------------------------------------------------------------------
# _setupTable_hhea_or_vhea, one contract variant per tag (the tag is always a literal at the call sites)


def _hhea_contract(tag):
    hv = tag == "hhea"
    mtx = "hmtx" if hv else "vmtx"
    T_ = f"self.otf['{tag}']"
    M = f"self.otf['{mtx}'].metrics"
    B = "self.glyphBoundingBoxes"
    O = "self.glyphOrder"
    lo, hi = ("xMin", "xMax") if hv else ("yMin", "yMax")
    advMax = "advanceWidthMax" if hv else "advanceHeightMax"
    minFirst = "minLeftSideBearing" if hv else "minTopSideBearing"
    minSecond = "minRightSideBearing" if hv else "minBottomSideBearing"
    maxExt = "xMaxExtent" if hv else "yMaxExtent"
    num = "numberOfHMetrics" if hv else "numberOfVMetrics"

    def adv(g):
        return f"{M}[{g}][0]"

    def fsb(g):
        return f"{M}[{g}][1]"

    def span(g):
        return f"({B}[{g}].{hi} - {B}[{g}].{lo})"

    has = f"any({B}[g] is not None for g in {O})"
    return contract(
        "ufo2ft.outlineCompiler:BaseOutlineCompiler._setupTable_hhea_or_vhea",
        name=tag,
        props=["C04"],
        params={"self": Ref("OutlineCompiler"), "tag": Const(tag)},
        requires=[
            f"'{tag}' in self.tables",
            f"self.otf.get('{mtx}') is not None",
            # the code indexes both maps with every glyph name (KeyError otherwise): preconditions from the code
            f"all(g in {M} and g in {B} for g in {O})",
        ],
        ensures={
            "advance-max": f"all({T_}.{advMax} >= {adv('g')} for g in {O}) and (any({T_}.{advMax} == {adv('g')} for g in {O}) or (len({O}) == 0 and {T_}.{advMax} == 0))",
            # bearings / extent range over the glyphs that HAVE a bounding box only
            "min-first-bearing": f"all(implies({B}[g] is not None, {T_}.{minFirst} <= {fsb('g')}) for g in {O})"
            f" and (any({B}[g] is not None and {T_}.{minFirst} == {fsb('g')} for g in {O}) or (not {has} and {T_}.{minFirst} == 0))",
            "min-second-bearing": f"all(implies({B}[g] is not None, {T_}.{minSecond} <= {adv('g')} - {fsb('g')} - {span('g')}) for g in {O})"
            f" and (any({B}[g] is not None and {T_}.{minSecond} == {adv('g')} - {fsb('g')} - {span('g')} for g in {O}) or (not {has} and {T_}.{minSecond} == 0))",
            "max-extent": f"all(implies({B}[g] is not None, {T_}.{maxExt} >= {fsb('g')} + {span('g')}) for g in {O})"
            f" and (any({B}[g] is not None and {T_}.{maxExt} == {fsb('g')} + {span('g')} for g in {O}) or (not {has} and {T_}.{maxExt} == 0))",
            # the long-metric count is the SMALLEST count whose decoding reproduces every advance
            "long-metrics": f"implies(len({O}) > 0, 1 <= {T_}.{num} and {T_}.{num} <= len({O})"
            f" and all({adv(f'{O}[k]')} == {adv(f'{O}[len({O}) - 1]')} for k in range({T_}.{num} - 1, len({O})))"
            f" and ({T_}.{num} == 1 or {adv(f'{O}[{T_}.{num} - 2]')} != {adv(f'{O}[len({O}) - 1]')}))",
            "long-metrics-empty": f"implies(len({O}) == 0, {T_}.{num} == 0)",
            "format": f"{T_}.metricDataFormat == 0 and {T_}.tableVersion == {0x00010000 if hv else 0x00011000}",
        },
        canaries={"advance-max-is-first": f"implies(len({O}) > 0, {T_}.{advMax} == {adv(f'{O}[0]')})"},
        locals={"advances": List(INT), "firstSideBearings": List(INT), "secondSideBearings": List(INT), "extents": List(INT), "numLongMetrics": INT},
        # ghost witnesses: src[k] = glyph index that produced list position k; pos[a] = position of glyph index a
        ghost_vars={"src": (List(INT), "[]"), "pos": (Dict(INT, INT), "{}")},
        ghost={"extents.append(extent)": ["pos = {**pos, i: len(src)}", "src = src + [i]"]},
        loops={
            "for glyphName in self.glyphOrder": Loop(
                index="i",
                invariants={
                    "adv": f"len(advances) == i and all(advances[a] == {adv(f'{O}[a]')} for a in range(i))",
                    "lens": "len(src) == len(firstSideBearings) and len(src) == len(secondSideBearings) and len(src) == len(extents)",
                    "src": f"all(0 <= src[k] and src[k] < i and {B}[{O}[src[k]]] is not None"
                    f" and firstSideBearings[k] == {fsb(f'{O}[src[k]]')}"
                    f" and secondSideBearings[k] == {adv(f'{O}[src[k]]')} - {fsb(f'{O}[src[k]]')} - {span(f'{O}[src[k]]')}"
                    f" and extents[k] == {fsb(f'{O}[src[k]]')} + {span(f'{O}[src[k]]')} for k in range(len(src)))",
                    "cover": f"all(implies({B}[{O}[a]] is not None, a in pos and 0 <= pos[a] and pos[a] < len(src) and src[pos[a]] == a) for a in range(i))",
                },
            ),
            "while advances[numLongMetrics - 2] == lastAdvance": Loop(
                invariants={
                    "range": "2 <= numLongMetrics and numLongMetrics <= len(advances)",
                    "tail": "all(advances[k] == lastAdvance for k in range(numLongMetrics - 1, len(advances)))",
                }
            ),
        },
    )


_hhea_contract("hhea")
_hhea_contract("vhea")


# ---- run-time harness -------------------------------------------------------------------------------------
from . import rtlib  # noqa: E402

_VINFO = {"openTypeVheaVertTypoAscender": 500, "openTypeVheaVertTypoDescender": -500, "openTypeVheaVertTypoLineGap": 0}


def _hhea_cases(vertical):
    def gen(rng, n):
        out = []
        for k in range(n):
            d = {"glyphs": rtlib.rand_glyphs(rng, vertical=vertical), "vertical": vertical}
            if k % 5 == 0:
                # every outlined glyph with strictly positive bearings
                for g in d["glyphs"].values():
                    g["width"] = 600
                    g["box"] = [50, 50, 450, 500]
            if k % 7 == 0:
                for g in d["glyphs"].values():
                    g["width"] = 500
            if vertical:
                d["info"] = dict(_VINFO)
            out.append(d)
        return out

    return gen


def _hhea_build(tag):
    def build(d):
        steps = ("hmtx",) if tag == "hhea" else ("head", "hmtx", "hhea", "maxp", "OS2", "vmtx")
        comp = rtlib.outline_compiler(d, "otf", upto=steps)
        return {"self": comp, "tag": tag}

    return build


for _tag in ("hhea", "vhea"):
    CONTRACTS["ufo2ft.outlineCompiler:BaseOutlineCompiler._setupTable_hhea_or_vhea#" + _tag].runtime = Runtime(
        _hhea_cases(_tag == "vhea"), _hhea_build(_tag), call=lambda fn, a: fn(a["self"], a["tag"])
    )


# =====================================================================================================
# setupTable_VORG: the default origin plus the records reproduce every glyph's vertical origin
import z3  # noqa: E402

from pyvc import ty as T  # noqa: E402
from pyvc.api import cls, trusted  # noqa: E402
from pyvc.core import Val, fresh, fresh_name, lift  # noqa: E402

from pyvc.api import SPECFNS, specfn  # noqa: E402

_RT_OTF = [None]


@specfn(INT, opaque=True, g=Ref("GlyphV"))
def vertical_origin(g):
    """the glyph's vertical origin as ufo2ft computes it (opaque in the logic; natively the real helper)"""
    from ufo2ft.outlineCompiler import _getVerticalOrigin

    return _getVerticalOrigin(_RT_OTF[0], getattr(g, "_obj", g))


def _vo_model(ex, st, args, kwargs, node):
    """_getVerticalOrigin(otf, glyph): an integer that depends on the glyph (and on tables that VORG building does
    not touch) only — summary of the 8-line helper"""
    return Val(INT, ex.spec_decl(SPECFNS["vertical_origin"])(lift(args[1])))


def _gsv_values(ex, st, self, args, kwargs, node):
    return ex.call_method(ex.read_field(st, self, "glyphs"), "values", [], {}, st, node)


def _gsv_items(ex, st, self, args, kwargs, node):
    return ex.call_method(ex.read_field(st, self, "glyphs"), "items", [], {}, st, node)


cls("GlyphV", fields={"name": STR}, notes="glyph object as VORG sees it (identity only)")
cls("GlyphSetV", fields={"glyphs": Dict(STR, Ref("GlyphV"))}, methods={"values": _gsv_values, "items": _gsv_items},
    views={"glyphs": lambda o: dict(o)}, notes="self.allGlyphs: name -> glyph")


def _counter(ex, st, args, kwargs, node):
    """collections.Counter(iterable): .vals = the distinct values; len() = their number; most_common(1)[0][0] is one
    of them (assumed; 'a most frequent one' is not needed for the property)"""
    from pyvc import models

    seq = models.materialize(ex, args[0])
    c = ex.new_object(st, "CounterV")
    s = lift(seq)
    ex.write_field(st, c, "seq", seq, node)
    return c


def _counter_len(ex, st, self):
    s = lift(ex.read_field(st, self, "seq"))
    n = z3.Int(fresh_name("ndistinct"))
    i, j = z3.Int(fresh_name("ci")), z3.Int(fresh_name("cj"))
    ln = z3.Length(s)
    st.assume(z3.And(n >= 0, n <= ln))
    st.assume((n == 0) == (ln == 0))
    # n <= 1  <=>  all entries equal
    st.assume((n <= 1) == z3.ForAll([i, j], z3.Implies(z3.And(0 <= i, i < ln, 0 <= j, j < ln), s[i] == s[j])))
    return Val(INT, n)


def _most_common(ex, st, self, args, kwargs, node):
    s = lift(ex.read_field(st, self, "seq"))
    w = z3.Int(fresh_name("mc"))
    ex.safety(st, z3.Length(s) > 0, "IndexError", node)
    st.assume(z3.And(0 <= w, w < z3.Length(s)))
    cnt = z3.Int(fresh_name("cnt"))
    return Val(List(Tuple(INT, INT)), z3.Unit(Tuple(INT, INT).sort().mk(s[w], cnt)))


cls("CounterV", fields={"seq": List(INT)}, methods={"most_common": _most_common}, length=_counter_len)
CLASSES_VORG_TABLE = cls("table_VORG", fields={"majorVersion": INT, "minorVersion": INT, "VOriginRecords": Dict(STR, INT), "defaultVertOriginY": INT, "numVertOriginYMetrics": INT}, dynamic=True)
cls("OutlineCompilerV", fields={"otf": Ref("TTFont"), "tables": Set(STR), "allGlyphs": Ref("GlyphSetV")}, repo="ufo2ft.outlineCompiler:BaseOutlineCompiler")

_VT = "self.otf['VORG']"
contract(
    "ufo2ft.outlineCompiler:BaseOutlineCompiler.setupTable_VORG",
    props=["C04"],
    params={"self": Ref("OutlineCompilerV")},
    requires=["'VORG' in self.tables", "len(self.allGlyphs.glyphs) > 0"],
    ensures={
        # what a reader reconstructs (record if present, else the default) is every glyph's own origin
        "origins": f"all(({_VT}.VOriginRecords[g] if g in {_VT}.VOriginRecords else {_VT}.defaultVertOriginY) == vertical_origin(self.allGlyphs.glyphs[g]) for g in self.allGlyphs.glyphs)",
        "records-only-for-glyphs": f"all(g in self.allGlyphs.glyphs for g in {_VT}.VOriginRecords)",
        "minimal": f"all({_VT}.VOriginRecords[g] != {_VT}.defaultVertOriginY for g in {_VT}.VOriginRecords)",
        "count": f"{_VT}.numVertOriginYMetrics == len({_VT}.VOriginRecords)",
        "version": f"{_VT}.majorVersion == 1 and {_VT}.minorVersion == 0",
    },
    canaries={"no-records": f"len({_VT}.VOriginRecords) == 0"},
    models={"ufo2ft.outlineCompiler._getVerticalOrigin": _vo_model, "collections.Counter": _counter},
    loops={
        "for (glyphName, glyph) in self.allGlyphs.items()": Loop(
            index="i", seq="K",
            invariants={
                "done": f"all(({_VT}.VOriginRecords[K[a]] if K[a] in {_VT}.VOriginRecords else {_VT}.defaultVertOriginY) == vertical_origin(self.allGlyphs.glyphs[K[a]]) for a in range(i))",
                "only": f"all(any(K[a] == g for a in range(i)) and {_VT}.VOriginRecords[g] != {_VT}.defaultVertOriginY for g in {_VT}.VOriginRecords)",
                "default-kept": f"{_VT}.defaultVertOriginY == old_default",
            },
        )
    },
    ghost_vars={"old_default": (INT, "0")},
    ghost={"vorg.defaultVertOriginY = vorg_count.most_common(1)[0][0]": ["old_default = vorg.defaultVertOriginY"]},
)


def _vorg_cases(rng, n):
    out = []
    for k in range(n):
        d = {"glyphs": rtlib.rand_glyphs(rng, n=rng.randint(1, 5), vertical=True), "vertical": True, "info": dict(_VINFO)}
        if k % 3 == 0:  # most glyphs share an explicit origin that differs from the OS/2 fallback; one glyph has none
            names = list(d["glyphs"])
            for nm in names:
                d["glyphs"][nm]["lib"] = {"public.verticalOrigin": 800}
            d["glyphs"][names[-1]].pop("lib", None)
        out.append(d)
    return out


def _vorg_build(d):
    comp = rtlib.outline_compiler(d, "otf", upto=("head", "hmtx", "hhea", "maxp", "OS2", "vmtx"))
    _RT_OTF[0] = comp.otf
    return {"self": comp}


CONTRACTS["ufo2ft.outlineCompiler:BaseOutlineCompiler.setupTable_VORG"].runtime = Runtime(_vorg_cases, _vorg_build, call=lambda fn, a: fn(a["self"]))
