"""util.classifyGlyphs / util.closeGlyphsOverGSUB (shared: C05 kerning scripts / bidi, C18 cursive direction, C20 script lists).

closeGlyphsOverGSUB is registered (props C05, C18, C20).  classifyGlyphs is NOT (`_PROPS = []`): the engine refuses
`for glyphs in glyphSets.values(): glyphs.update(..)` (L344 / L351: the loop variable is the dict's value object; a
write-through link loop variable -> d[keys[i]] was declined for this round), so it stays with the end-to-end observers.
Set `_PROPS = ["C05", "C18", "C20"]` on the skeleton below once that is modelled."""
_PROPS = []

from pyvc.api import BOOL, CLASSES, CONTRACTS, INT, REAL, STR, Const, Dict, List, Loop, Map, Named, Opt, Ref, Runtime, Set, Tuple, Union, cls, contract, lemma, specfn, trusted


@specfn(Set(STR), opaque=True, gsub=Ref("GSUBTable"), S=Set(STR))
def kc_closure(gsub, S):
    """the glyphs reachable from S through the substitutions of the GSUB table (fontTools subsetter closure), S included"""
    from fontTools import subset

    sub = subset.Subsetter()
    sub.glyphs = set(S)
    gsub.closure_glyphs(sub)
    return set(sub.glyphs)


def _closure_glyphs(ex, st, self, args, kwargs, node):
    """table_G_S_U_B_.closure_glyphs(subsetter): subsetter.glyphs becomes its closure over the table (in place)"""
    from pyvc.api import SPECFNS
    from pyvc.core import Val

    (sub,) = args
    cur = ex.read_field(st, sub, "glyphs")
    ex.write_field(st, sub, "glyphs", ex.apply_spec(SPECFNS["kc_closure"], [self, cur], st, node), node, mutate=True)  # in place
    return Val.const(None)


_closure_glyphs.modifies = ("Subsetter.glyphs",)

cls("GSUBTable", methods={"closure_glyphs": _closure_glyphs}, notes="fontTools ttLib GSUB table (only closure_glyphs is used)")
cls("Subsetter", fields={"glyphs": Set(STR)}, dynamic=True, notes="fontTools.subset.Subsetter (only .glyphs)")

contract(
    "ufo2ft.util:closeGlyphsOverGSUB",
    props=["C05", "C18", "C20"],
    params={"gsub": Ref("GSUBTable"), "glyphs": Set(STR)},
    # a non-empty start set: classifyGlyphs (the only caller) guards the neutral set with `if neutralGlyphs:` and otherwise
    # passes `glyphs | neutralGlyphs` of a class that has at least one glyph; on an EMPTY set fontTools' closure_glyphs raises
    # TypeError ('NoneType' object is not iterable, fontTools/subset: cur_glyphs.issubset(covered)) - library behaviour
    requires=["glyphs != set()"],
    # the set is handed to a fresh Subsetter and closed IN PLACE by the library through that object
    modifies=["glyphs", "Subsetter.glyphs"],
    ensures={"closure": "glyphs == kc_closure(gsub, old(glyphs))"},
    canaries={"unchanged": "glyphs == old(glyphs)"},
)


@specfn(Opt(STR), opaque=True, f=Ref("ClassFn"), uv=INT)
def kc_class1(f, uv):
    """the class (a string) that the classifier gives the code point, None for a neutral one"""
    return f(uv)


def _classfn_call(ex, st, self, args, kwargs, node):
    from pyvc.api import SPECFNS

    return ex.apply_spec(SPECFNS["kc_class1"], [self, args[0]], st, node)


cls("ClassFn", methods={"__call__": _classfn_call}, notes="the classifier passed to classifyGlyphs (a pure function code point -> class string or None)")

contract(
    "ufo2ft.util:classifyGlyphs",
    name="single",
    props=_PROPS,
    params={"unicodeFunc": Ref("ClassFn"), "cmap": Dict(INT, STR), "gsub": Opt(Ref("GSUBTable")), "extra_substitutions": Const(None)},
    returns=Dict(STR, Set(STR)),
    ensures={"t": "True"},
    canaries={"empty": "len(result) == 0"},
    locals={"glyphSets": Dict(STR, Set(STR)), "neutralGlyphs": Set(STR)},
)


# ---- run-time harness: real GSUB tables compiled by feaLib ------------------------------------------------------------------
_GLYPHS = [".notdef", "A", "A.alt", "A.sc", "f", "i", "f_i", "one", "one.num", "hyphen", "B"]
_FEATURES = [
    "feature ss01 { sub A by A.alt; } ss01;",
    "feature ss01 { sub A by A.alt; } ss01; feature smcp { sub A.alt by A.sc; } smcp;",
    "feature liga { sub f i by f_i; } liga; feature numr { sub one by one.num; } numr;",
    "feature aalt { sub A from [A.alt A.sc]; } aalt;",
]
_GSUB_CACHE: dict = {}


def _gsub(k):
    from fontTools.feaLib.builder import addOpenTypeFeaturesFromString
    from fontTools.ttLib import TTFont

    if k not in _GSUB_CACHE:
        f = TTFont()
        f.setGlyphOrder(_GLYPHS)
        addOpenTypeFeaturesFromString(f, _FEATURES[k])
        _GSUB_CACHE[k] = f["GSUB"]
    return _GSUB_CACHE[k]


def _close_cases(rng, n):
    return [{"fea": k % len(_FEATURES), "glyphs": sorted(rng.sample(_GLYPHS[1:], rng.randint(0 if k % 5 == 0 else 1, 4)))} for k in range(n)]


CONTRACTS["ufo2ft.util:closeGlyphsOverGSUB"].runtime = Runtime(_close_cases, lambda d: {"gsub": _gsub(d["fea"]), "glyphs": set(d["glyphs"])})
