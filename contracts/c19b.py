"""C19, second wave — the Instantiator itself under contract (vocabulary of contracts/c19.py).

  * Instantiator.axis_order / default_source_glyphs / glyph_names (properties): equal to the abstract views used by the callers
  * Instantiator.generate_glyph_instance: the glyph-model cache (`glyph_mutators`) only ever holds Variators built from the CURRENT
    source layers (class invariant `cache_ok`: established by an empty cache, preserved here); the output glyph's geometry is the
    (rounded) master content at a master location and the (rounded) model blend of exactly the source glyphs elsewhere, whatever the
    cache held before (history independence); unicodes from the default source; nothing of the Instantiator but the cache entry of this
    glyph is written (frame), the stored masters keep their content.
"""
import z3

from pyvc import ty as T
from pyvc.api import BOOL, CLASSES, CONTRACTS, INT, REAL, STR, Const, Dict, List, Loop, Map, Named, Opaque, Opt, Ref, Runtime, Set, Tuple, cls, contract, lemma, record_init, specfn, trusted
from pyvc.core import PYOBJ, Unsupported, Val, fresh, fresh_name, lift

from . import c19
from .c19 import BOUNDS, KEY, KIND_GLYPH, KIND_KERNING, LAYERS, MDATA, _ACCESSORS, _px, api_specfn, empty_at, has_glyph, math_snapshot

# =====================================================================================================
# 1. vocabulary: source glyph unicodes, the output glyph, rounding, the Instantiator
# =====================================================================================================
CLASSES["SrcGlyph"].fields["unicodes"] = List(INT)


@specfn(MDATA, opaque=True, data=MDATA)
def math_rounded(data):
    """content of a fontMath object after .round() (otRound on every coordinate / advance / offset / kerning value; the 2x2 part of
    component transformations is left alone) — library arithmetic, opaque"""
    return _round_snapshot(data)


def _rnd(v):
    from fontTools.misc.fixedTools import otRound

    return otRound(v)


def _round_snapshot(d):
    if d[0] == "glyph":
        _, width, height, contours, components, anchors = d
        rp = lambda p: tuple((_rnd(x[0]), _rnd(x[1])) if isinstance(x, tuple) and len(x) == 2 and all(isinstance(y, (int, float)) for y in x) else x for x in p)  # noqa: E731
        return (
            "glyph", _rnd(width), _rnd(height),
            tuple(tuple(rp(p) for p in c) for c in contours),
            tuple((b, tuple(t[:4]) + (_rnd(t[4]), _rnd(t[5]))) for b, t in components),
            tuple((n, _rnd(x), _rnd(y)) for n, x, y in anchors),
        )
    if d[0] == "kerning":
        # MathKerning.round() does NOT go through fontMath's configurable integer rounding (which ufo2ft sets to otRound): it uses fontMath's
        # round2 = round half AWAY FROM ZERO (-15.5 -> -16, where otRound gives -15).  Library behaviour, described as it is (notes/C19.md, F-C19-3).
        from fontMath.mathFunctions import round2

        return ("kerning", tuple((k, int(round2(int(round2(v / 1.0)) * 1.0))) for k, v in d[1]), d[2])
    raise NotImplementedError("rounding of this snapshot kind")


@specfn(MDATA, flag=BOOL, data=MDATA)
def maybe_rounded(flag, data):
    return math_rounded(data) if flag else data


def _glyph_geometry(g):
    """run-time view: the geometry of a UFO glyph in the shape of a MathGlyph snapshot"""
    import fontMath

    return math_snapshot(fontMath.MathGlyph(g, strict=True))


cls(
    "OutGlyph",
    fields={"name": STR, "unicodes": List(INT), "geometry": MDATA},
    views={"geometry": _glyph_geometry, "unicodes": lambda g: list(g.unicodes)},
    notes="a UFO glyph that receives an instance: `geometry` = contours, components, anchors, width, height as ONE abstract value "
    "(what MathGlyph.extractGlyph(onlyGeometry=True) writes); name and unicodes are separate (assumed attribute bag)",
)


def _mo_round(ex, st, self, args, kwargs, node):
    """fontMath `.round()` (ufo2ft calls it without arguments):
    MathGlyph / MathInfo: returns a NEW object of the same class with the rounded content, self unchanged;
    MathKerning: rounds self IN PLACE and returns None."""
    if args or kwargs:
        raise Unsupported("round(digits)", node)
    f = ex.spec_decl(api_specfn("math_rounded"))
    data = ex.field_array(st, "MathObj", "data")
    kind = z3.Select(ex.field_array(st, "MathObj", "kind"), lift(self))
    d = z3.Select(data, lift(self))
    is_k = kind == KIND_KERNING
    r = ex.new_object(st, "MathObj")
    # the new object: its cells are described, not stored (a newly allocated reference is one whose cells hold the initial values);
    # the heap arrays of pre-existing objects therefore stay syntactically the same
    st.assume(z3.Select(data, lift(r)) == f(d))
    st.assume(z3.Select(ex.field_array(st, "MathObj", "kind"), lift(r)) == kind)
    st.heap[("MathObj", "data")] = z3.If(is_k, z3.Store(data, lift(self), f(d)), data)
    ot = Opt(Ref("MathObj"))
    return Val(ot, z3.If(is_k, ot.sort().nil, ot.sort().some(lift(r))))


_mo_round.modifies = ["MathObj.data"]


def _mo_extract_glyph(ex, st, self, args, kwargs, node):
    """MathGlyph.extractGlyph(glyph, onlyGeometry=True): the glyph's geometry becomes the MathGlyph's content; name / unicodes untouched"""
    if len(args) != 1 or set(kwargs) != {"onlyGeometry"} or not (kwargs["onlyGeometry"].is_py and kwargs["onlyGeometry"].py is True):
        raise Unsupported("extractGlyph arguments (only extractGlyph(glyph, onlyGeometry=True) is modelled)", node)
    kind = z3.Select(ex.field_array(st, "MathObj", "kind"), lift(self))
    ex.safety(st, kind == KIND_GLYPH, "AttributeError", node)  # MathInfo / MathKerning have no extractGlyph
    ex.write_field(st, args[0], "geometry", ex.read_field(st, self, "data"), node)
    return Val.const(None)


_mo_extract_glyph.modifies = ["OutGlyph.geometry"]

CLASSES["MathObj"].methods["round"] = _mo_round
CLASSES["MathObj"].methods["extractGlyph"] = _mo_extract_glyph

CACHE = Dict(STR, Ref("Variator"))


def _inst_axis_order(ex, st, self):
    b = ex.read_field(st, self, "axis_bounds")
    from pyvc import models

    models.dict_wf(st, b.ty, b.term)
    return Val(List(STR), b.ty.sort().keys(b.term))


def _inst_default_glyphs(ex, st, self):
    layers = lift(ex.read_field(st, self, "source_layers"))
    idx = lift(ex.read_field(st, self, "default_source_idx"))
    return Val(Ref("Layer"), LAYERS.elem.sort().accessor(0, 1)(layers[idx]))


def _inst_content(ex, st, self):
    return Val(Map(Ref("MathObj"), MDATA), ex.field_array(st, "MathObj", "data"))


class _ContentNow(dict):
    """run-time value of `content`: object -> snapshot of its CURRENT data (looked up on demand)"""

    def __getitem__(self, o):
        from pyvc.rt import unwrap

        return math_snapshot(unwrap(o))

    def __deepcopy__(self, memo):
        return self


cls(
    "Instantiator",
    fields={
        "axis_bounds": BOUNDS,
        "source_layers": LAYERS,
        "glyph_mutators": CACHE,
        "round_geometry": BOOL,
        "default_source_idx": INT,
    },
    derived={"axis_order": _inst_axis_order, "default_source_glyphs": _inst_default_glyphs, "content": _inst_content},
    views={
        "content": lambda o: _ContentNow(),
        "glyph_mutators": lambda o: {k: _px(v, "Variator") for k, v in o.glyph_mutators.items()},
    },
    repo="ufo2ft.instantiator:Instantiator",
    notes="ufo2ft.instantiator.Instantiator (frozen dataclass): the fields read by glyph instantiation; axis_order / default_source_glyphs "
    "are the properties of the same names (their bodies are verified against these views: contracts below); `content` = the current "
    "content of all fontMath objects (specification view)",
)

# the properties: their bodies give exactly the views that the callers' proofs use
contract(
    "ufo2ft.instantiator:Instantiator.axis_order",
    props=["C19"],
    params={"self": Ref("Instantiator")},
    returns=List(STR),
    ensures={"axis-names-in-order": "result == list(self.axis_bounds.keys()) and result == self.axis_order"},
    canaries={"empty": "len(result) == 0"},
)
contract(
    "ufo2ft.instantiator:Instantiator.default_source_glyphs",
    props=["C19"],
    params={"self": Ref("Instantiator")},
    returns=Ref("Layer"),
    requires=["0 <= self.default_source_idx and self.default_source_idx < len(self.source_layers)"],  # __post_init__ computes it as such an index
    ensures={"default-layer": "result == self.source_layers[self.default_source_idx][1] and result == self.default_source_glyphs"},
    canaries={"first-layer": "result == self.source_layers[0][1]"},
)


# =====================================================================================================
# 2. Instantiator.generate_glyph_instance
# =====================================================================================================
CLASSES["Variator"].repo = "ufo2ft.instantiator:Variator"  # glyph_mutator.instance_at(...) resolves to the contract of the method
CLASSES["Instantiator"].derived["cached"] = lambda ex, st, self: Val(Set(STR), CACHE.sort().dom(lift(ex.read_field(st, self, "glyph_mutators"))))
CLASSES["Instantiator"].views["cached"] = lambda o: set(o.glyph_mutators.keys())


@specfn(BOOL, layers=LAYERS, idx=INT, name=STR)
def drops(layers, idx, name):
    """collect_glyph_masters drops the empty masters of this glyph: the default's glyph is not empty and another master's is"""
    return (not empty_at(layers, idx, name)) and any(a != idx and has_glyph(layers, a, name) and empty_at(layers, a, name) for a in range(len(layers)))


_L = "self.source_layers"
_IDX = "self.default_source_idx"
_M = "self.glyph_mutators"

# ---- the heap, as far as a cached Variator reaches into it, as explicit maps (arguments of the named predicate below) -----------------
_HMAPS = {
    "h_vmasters": ("Variator", "masters", List(Ref("MathObj")), lambda v: list(v.masters)),
    "h_vmodel": ("Variator", "model", Ref("VariationModel"), lambda v: v.model),
    "h_vfiled": ("Variator", "location_to_master", Dict(KEY, Ref("MathObj")), lambda v: dict(v.location_to_master)),
    "h_vwitness": ("Variator", "witness", Map(KEY, INT), lambda v: c19._rt_witness(v)),
    "h_locations": ("VariationModel", "origLocations", List(Ref("Location")), lambda m: list(m.origLocations)),
    "h_axisorder": ("VariationModel", "axisOrder", List(STR), lambda m: list(m.axisOrder)),
    "h_pairs": ("Location", "pairs", KEY, lambda d: list(d.items())),
    "h_data": ("MathObj", "data", MDATA, math_snapshot),
    "h_kind": ("MathObj", "kind", INT, c19._math_kind),
}


class _LiveMap:
    """run-time value of a heap map: object -> f(object), read on demand"""

    def __init__(self, f):
        self.f = f

    def __getitem__(self, o):
        from pyvc.rt import canon

        return self.f(canon(o))

    def __deepcopy__(self, memo):
        return self


def _hmap(cname, field, vty):
    return lambda ex, st, self: Val(Map(Ref(cname), vty), ex.field_array(st, cname, field))


for _k, (_c, _f, _t, _nat) in _HMAPS.items():
    CLASSES["Instantiator"].derived[_k] = _hmap(_c, _f, _t)
    CLASSES["Instantiator"].views[_k] = (lambda nat: (lambda o: _LiveMap(nat)))(_nat)
# every location key (the predicate quantifies "for every key of location_to_master" as "for every key k: k in it => ...": the dict is never
# iterated in order); natively: the keys of all cached models
CLASSES["Instantiator"].derived["all_keys"] = lambda ex, st, self: Val(Set(KEY), z3.K(KEY.sort(), z3.BoolVal(True)))
CLASSES["Instantiator"].views["all_keys"] = lambda o: {k for v in o.glyph_mutators.values() for k in v.location_to_master}

from .c19 import items_of, lockey, mathglyph_of, nhas, norm_pairs, src_data  # noqa: E402,F401  (used by the predicate, natively and when it is unfolded)


# Written with a never-taken recursive call (`z` is always 0) so that the engine treats it as a NAMED predicate: applied to a bound name it is
# one atom (the entries of the other glyphs are carried through unchanged, at no cost), applied to the glyph at hand it is given its definition.
@specfn(
    BOOL, V=Ref("Variator"), n=STR, L=LAYERS, idx=INT, bounds=BOUNDS, axis_order=List(STR),
    U=Set(KEY), HVM=Map(Ref("Variator"), List(Ref("MathObj"))), HVMOD=Map(Ref("Variator"), Ref("VariationModel")), HVF=Map(Ref("Variator"), Dict(KEY, Ref("MathObj"))),
    HVW=Map(Ref("Variator"), Map(KEY, INT)), HLOC=Map(Ref("VariationModel"), List(Ref("Location"))), HAXO=Map(Ref("VariationModel"), List(STR)),
    HP=Map(Ref("Location"), KEY), HD=Map(Ref("MathObj"), MDATA), HK=Map(Ref("MathObj"), INT), z=INT,
)
def variator_ok(V, n, L, idx, bounds, axis_order, U, HVM, HVMOD, HVF, HVW, HLOC, HAXO, HP, HD, HK, z):
    """V is the Variator that Variator.from_masters(collect_glyph_masters(L, n, bounds, idx), axis_order) builds from the source layers L:
    MathGlyphs only; the model over the masters' locations in the given axis order; every master filed under the key of its own location and
    every key leading to a master at that location; and, unless empty masters are dropped for this glyph, exactly one master per layer that
    has the glyph, in source order, wrapping THAT glyph at ITS normalized location."""
    if z > 0:
        return variator_ok(V, n, L, idx, bounds, axis_order, U, HVM, HVMOD, HVF, HVW, HLOC, HAXO, HP, HD, HK, z - 1)
    masters = HVM[V]
    locs = HLOC[HVMOD[V]]
    filed = HVF[V]
    w = HVW[V]
    return (
        has_glyph(L, idx, n)
        and len(masters) >= 1
        and len(locs) == len(masters)
        and HAXO[HVMOD[V]] == axis_order
        and all(HK[masters[k]] == 0 for k in range(len(masters)))
        and all((k not in filed) or HK[filed[k]] == 0 for k in U)
        and all(lockey(HP[locs[b]]) in filed for b in range(len(masters)))
        and all((k not in filed) or (0 <= w[k] and w[k] < len(masters) and lockey(HP[locs[w[k]]]) == k and filed[k] == masters[w[k]]) for k in U)
        and (
            drops(L, idx, n)
            or (
                len(masters) == nhas(L, n, len(L))
                and all(
                    (not has_glyph(L, a, n))
                    or (
                        0 <= nhas(L, n, a)
                        and nhas(L, n, a) < len(masters)
                        and HD[masters[nhas(L, n, a)]] == mathglyph_of(src_data(L[a][1][n]))
                        and HP[locs[nhas(L, n, a)]] == norm_pairs(items_of(L[a][0]), bounds)
                    )
                    for a in range(len(L))
                )
            )
        )
    )


_VOK = "variator_ok({V}, {n}, self.source_layers, self.default_source_idx, self.axis_bounds, self.axis_order, self.all_keys, " + ", ".join("self." + k for k in _HMAPS) + ", 0)"


def _nh(a, n="n"):
    return f"nhas({_L}, {n}, {a})"


def cache_ok(n_domain="self.cached"):
    """The class invariant of the glyph-model cache, clause by clause: every cached Variator is the one that
    Variator.from_masters(collect_glyph_masters(source_layers, n, axis_bounds, default_source_idx), axis_order) builds from the
    CURRENT source layers (so that a cache hit and a rebuild cannot differ)."""
    V = f"{_M}[n]"
    return {
        # the fontMath objects held by the cached models exist (what Variator.instance_at requires; it separates them from the objects made later)
        "cache.alive-masters": f"all(all(allocated(m) for m in {V}.masters) for n in {n_domain})",
        "cache.alive-filed": f"all(all(allocated({V}.location_to_master[k]) for k in {V}.location_to_master) for n in {n_domain})",
        # every entry is the Variator of its glyph over the current source layers
        "cache.built-from-current-sources": "all(" + _VOK.format(V=V, n="n") + f" for n in {n_domain})",
    }


_V = f"{_M}[glyph_name]"
_KEYOF = "lockey(normalized_location.pairs)"
_GGI_REQUIRES = [
    f"0 <= {_IDX} and {_IDX} < len({_L})",  # Instantiator.__post_init__
    f"all(allocated({_L}[a][0]) and allocated({_L}[a][1]) for a in range(len({_L})))",
    f"all(implies(has_glyph({_L}, a, glyph_name), len({_L}[a][1][glyph_name]) >= 0) for a in range(len({_L})))",  # len(glyph) is a count
    *cache_ok().values(),
]
_GGI_ENSURES = {
    **cache_ok(),
    # the cache: this glyph's model is in it afterwards, a model that was there is reused, nobody else's entry changes
    "cache-entry": "glyph_name in self.cached",
    "cache-hit-reuses": f"implies(glyph_name in old(self.cached), {_V} == old({_M})[glyph_name])",
    "cache-others": f"all(n in self.cached and {_M}[n] == old({_M})[n] for n in old(self.cached)) and all(n == glyph_name or n in old(self.cached) for n in self.cached)",
    # the instance: (rounded) master content at a master location, (rounded) blend of the model's masters elsewhere
    "master-at-master-location": f"implies({_KEYOF} in {_V}.location_to_master, result.geometry == maybe_rounded(self.round_geometry, {_V}.location_to_master[{_KEYOF}].data))",
    "blend-elsewhere": f"implies({_KEYOF} not in {_V}.location_to_master, result.geometry == maybe_rounded(self.round_geometry,"
    f" vm_interp({_V}.model, normalized_location.pairs, {_V}.masters, self.content)))",
    # unicodes come from the default source (a copy of the list)
    "unicodes-from-default": f"result.unicodes == self.default_source_glyphs[glyph_name].unicodes",
    # frame: no fontMath object that existed is modified, the Instantiator's own fields but the cache are not assigned
    "masters-unchanged": "self.content == old(self.content)",
    "instantiator-unchanged": f"{_L} == old({_L}) and self.axis_bounds == old(self.axis_bounds) and self.round_geometry == old(self.round_geometry) and {_IDX} == old({_IDX})",
}

contract(
    "ufo2ft.instantiator:Instantiator.generate_glyph_instance",
    name="into",
    props=["C19"],
    params={"self": Ref("Instantiator"), "glyph_name": STR, "normalized_location": Ref("Location"), "output_glyph": Ref("OutGlyph")},
    returns=Ref("OutGlyph"),
    requires=_GGI_REQUIRES,
    raises={"InstantiatorError": f"glyph_name not in self.cached and not has_glyph({_L}, {_IDX}, glyph_name)"},
    ensures={**_GGI_ENSURES, "into-the-given-glyph": "result is output_glyph and result.name == old(output_glyph.name)"},
    canaries={"never-rounds": f"implies({_KEYOF} in {_V}.location_to_master, result.geometry == {_V}.location_to_master[{_KEYOF}].data)", "always-rebuilds": f"{_V} != old({_M})[glyph_name]"},
    # (object-granular: only THIS instantiator's cache and THIS glyph are written, so a caller's loop keeps what it knows of the other glyphs)
    modifies=["self.glyph_mutators", "output_glyph.geometry", "output_glyph.unicodes"],
    globals={**_ACCESSORS},
    merge_branches=False,
    # stepping stones on the cache-miss path: what the two callees say about the NEW Variator, in the vocabulary of the cache invariant
    hints={
        "glyph_mutator = self.glyph_mutators[glyph_name] = Variator.from_masters(sources, self.axis_order)": [
            "all(allocated(m) for m in glyph_mutator.masters)",
            "all(allocated(glyph_mutator.location_to_master[k]) for k in glyph_mutator.location_to_master)",
            "all(glyph_mutator.masters[k].kind == 0 for k in range(len(glyph_mutator.masters)))",
            "all(glyph_mutator.location_to_master[k].kind == 0 for k in glyph_mutator.location_to_master)",
            f"implies(not drops({_L}, {_IDX}, glyph_name), len(glyph_mutator.masters) == {_nh(f'len({_L})', 'glyph_name')})",
            f"implies(not drops({_L}, {_IDX}, glyph_name), all(implies(has_glyph({_L}, a, glyph_name),"
            f" 0 <= {_nh('a', 'glyph_name')} and {_nh('a', 'glyph_name')} < len(glyph_mutator.masters)) for a in range(len({_L}))))",
            f"implies(not drops({_L}, {_IDX}, glyph_name), all(implies(has_glyph({_L}, a, glyph_name) and 0 <= {_nh('a', 'glyph_name')},"
            f" glyph_mutator.masters[{_nh('a', 'glyph_name')}].data == mathglyph_of(src_data({_L}[a][1][glyph_name]))) for a in range(len({_L}))))",
            f"implies(not drops({_L}, {_IDX}, glyph_name), all(implies(has_glyph({_L}, a, glyph_name) and 0 <= {_nh('a', 'glyph_name')},"
            f" items_of(glyph_mutator.model.origLocations[{_nh('a', 'glyph_name')}]) == norm_pairs(items_of({_L}[a][0]), self.axis_bounds)) for a in range(len({_L}))))",
            _VOK.format(V="glyph_mutator", n="glyph_name"),
        ],
        # cache hit: the invariant, for the glyph at hand
        "glyph_mutator = self.glyph_mutators.get(glyph_name)": [f"implies(glyph_name in self.cached, " + _VOK.format(V=_V, n="glyph_name") + ")"],
    },
)


# ---- run-time side ---------------------------------------------------------------------------------------------------------------
class _MasterContent:
    """run-time value of Instantiator.content: the content of every fontMath object held by the glyph-model cache.
    `==` between a pre- and a post-state value: every object known to both has the same content (objects made in between are new)."""

    def __init__(self, inst):
        self.snap = {}
        self.keep = []
        for v in inst.glyph_mutators.values():
            for m in list(v.masters) + list(v.location_to_master.values()):
                self.snap[id(m)] = math_snapshot(m)
                self.keep.append(m)

    def __deepcopy__(self, memo):
        return self

    def __getitem__(self, o):
        from pyvc.rt import canon

        return math_snapshot(canon(o))

    def __eq__(self, o):
        return isinstance(o, _MasterContent) and all(o.snap[k] == v for k, v in self.snap.items() if k in o.snap)

    def __hash__(self):
        return 0


CLASSES["Instantiator"].views["content"] = _MasterContent


def rt_locations(ds):
    """design locations to ask for: every master location, the default given as {}, and in-between points"""
    axes = {a.name: a for a in ds.axes}
    w = axes["Weight"]
    lo, df, hi = w.map_forward(w.minimum), w.map_forward(w.default), w.map_forward(w.maximum)
    ws = [lo + (hi - lo) * t for t in (0.25, 0.5, 0.8125)] + [df + (hi - df) * 0.375]
    out = [dict(s.location) for s in ds.sources] + [{}]
    if "Width" in axes:
        out += [{"Weight": x, "Width": d} for x in ws[:2] for d in (75, 87.5)] + [{"Width": 80}]
    else:
        out += [{"Weight": x} for x in ws]
    return out


def _ggi_cases(rng, n):
    out = []
    for fam in c19.FAMILIES:
        nloc = 9 if "2ax" in fam else 8
        for name in c19.GLYPHS + ["only.here", "not.there"]:
            for k in range(nloc):
                out.append({
                    "family": fam, "glyph": name, "loc": k, "round": rng.random() < 0.5, "empty_s": name in ("s", "e") and rng.random() < 0.5,
                    # `s` without outline in the master of this index (the first source is not always the default one)
                    "empty_s_index": rng.choice([None, 0, 1, 2]) if name == "s" else None,
                    # history: which (glyph, location index) instances were generated from the same Instantiator before
                    "warm": [[rng.choice(c19.GLYPHS), rng.randrange(nloc)] for _ in range(rng.choice([0, 0, 1, 3]))] + ([[name, rng.randrange(nloc)]] if rng.random() < 0.5 and name != "not.there" else []),
                })
    rng.shuffle(out)
    # corner cases first (whatever n is): the default source is NOT the first one and its `s` is empty / another master's is;
    # a glyph whose code points differ between masters; a cache warmed for the same glyph at another location
    first = [
        {"family": "1ax-3m", "glyph": "s", "loc": 3, "round": True, "empty_s": False, "empty_s_index": 1, "warm": [["s", 1]]},
        {"family": "1ax-3m", "glyph": "s", "loc": 4, "round": False, "empty_s": False, "empty_s_index": 0, "warm": []},
        {"family": "1ax-3m", "glyph": "b", "loc": 0, "round": True, "empty_s": False, "empty_s_index": None, "warm": [["b", 5]]},
        {"family": "2ax-sparse", "glyph": "b", "loc": 6, "round": False, "empty_s": False, "empty_s_index": None, "warm": []},
    ]
    return (first + out)[:n]


def rt_instantiator(d):
    import ufoLib2

    from ufo2ft.instantiator import Instantiator

    ds = c19.rt_designspace(d["family"], empty_s=d.get("empty_s", False), extra_glyph=d.get("glyph") == "only.here", empty_s_index=d.get("empty_s_index"))
    inst = Instantiator.from_designspace(ds, round_geometry=d["round"])
    locs = rt_locations(ds)
    full = lambda l: inst.normalize({**inst.default_design_location, **l})  # noqa: E731
    for g, k in d.get("warm", []):
        try:
            inst.generate_glyph_instance(g, full(locs[k % len(locs)]), output_glyph=ufoLib2.objects.Glyph(g))
        except Exception:  # noqa  (a glyph the default source does not have)
            pass
    return ds, inst, full(locs[d["loc"] % len(locs)])


def _ggi_build(d):
    import ufoLib2

    ds, inst, at = rt_instantiator(d)
    return {"self": inst, "glyph_name": d["glyph"], "normalized_location": at, "output_glyph": ufoLib2.objects.Glyph(d["glyph"])}


CONTRACTS["ufo2ft.instantiator:Instantiator.generate_glyph_instance#into"].runtime = Runtime(
    _ggi_cases, _ggi_build, call=lambda fn, a: fn(a["self"], a["glyph_name"], a["normalized_location"], output_glyph=a["output_glyph"])
)


# =====================================================================================================
# 3. Instantiator.replace_source_layers: new layers in, every cached glyph model out
# =====================================================================================================
# (`self.source_layers[:] = [...]`: full-slice assignment is native in the engine since 2026-10-02; the shim this file carried is gone)


@trusted("c19.zip_strict", "ufo2ft.util.zip_strict(a, b) (= zip(a, b, strict=True)): the pairs (a0, b0), (a1, b1), ...; ValueError iff the lengths differ")
def _zip_strict(ex, st, args, kwargs, node):
    from pyvc import models

    if len(args) != 2 or kwargs:
        raise Unsupported("zip_strict arity", node)
    infos = [ex.iter_info(a, st, node) for a in args]
    if any(i.kind != "indexed" for i in infos):
        raise Unsupported("zip_strict over this iterable", node)
    ex.safety(st, infos[0].n == infos[1].n, "ValueError", node)
    return models.BUILTIN_MODELS["builtins.zip"].model(ex, st, args, kwargs, node)


def _ref(qual, real=None):
    from pyvc.symex import FuncRef

    class R(FuncRef):
        def __call__(self, *a, **k):
            return real(*a, **k)

    return R(None, qual)


contract(
    "ufo2ft.instantiator:Instantiator.replace_source_layers",
    props=["C19", "C09"],
    params={"self": Ref("Instantiator"), "new_layers": List(Ref("Layer"))},
    globals={"zip_strict": _ref("c19.zip_strict", zip), **_ACCESSORS},
    raises={"ValueError": f"len(new_layers) != len({_L})"},
    ensures={
        # same locations, in the same order, each with its new layer
        "layers-replaced": f"len({_L}) == len(old({_L})) and all({_L}[a][0] is old({_L})[a][0] and {_L}[a][1] is new_layers[a] for a in range(len(new_layers)))",
        # NO cached glyph model survives, whatever objects were handed in (the same layer objects edited in place included):
        # the models hold copies (MathGlyph) of the OLD glyph data
        "cache-cleared": "all(False for n in self.cached) and len(self.glyph_mutators) == 0",
        # ... which (re-)establishes the cache invariant for the new layers
        **cache_ok(),
        "rest-unchanged": f"self.axis_bounds == old(self.axis_bounds) and self.round_geometry == old(self.round_geometry) and {_IDX} == old({_IDX})",
    },
    canaries={"keeps-the-layers": f"all({_L}[a][1] is old({_L})[a][1] for a in range(len(new_layers)))"},
    modifies=["Instantiator.source_layers", "Instantiator.glyph_mutators"],
)


def _rsl_cases(rng, n):
    out = []
    for fam in c19.FAMILIES:
        for mode in ("same-objects", "copies", "edited-in-place", "too-few", "too-many"):
            out.append({"family": fam, "mode": mode, "round": False, "glyph": "a", "loc": 0, "warm": [[rng.choice(c19.GLYPHS), rng.randrange(8)] for _ in range(rng.choice([0, 2, 4]))]})
    rng.shuffle(out)
    return out[:n]


def _rsl_build(d):
    ds, inst, _ = rt_instantiator(d)
    layers = [glyphs for _, glyphs in inst.source_layers]
    if d["mode"] == "copies":
        layers = [dict(g) for g in layers]
    elif d["mode"] == "edited-in-place":
        for g in layers:
            if "a" in g:
                g["a"].width += 10
    elif d["mode"] == "too-few":
        layers = layers[:-1]
    elif d["mode"] == "too-many":
        layers = layers + [dict(layers[0])]
    return {"self": inst, "new_layers": layers}


CONTRACTS["ufo2ft.instantiator:Instantiator.replace_source_layers"].runtime = Runtime(_rsl_cases, _rsl_build)


# =====================================================================================================
# 4. Instantiator.__post_init__: which source layer is the default one
# =====================================================================================================
# (here the locations are plain dict VALUES: the method compares `location.items() <= default_location.items()`, a dict-view operation)
LOCDICT = Dict(STR, REAL)
cls(
    "InstantiatorPI",
    fields={"axis_bounds": BOUNDS, "source_layers": List(Tuple(LOCDICT, Ref("Layer"))), "default_source_idx": INT, "default_design_location": LOCDICT},
    repo="ufo2ft.instantiator:Instantiator",
    notes="Instantiator as __post_init__ sees it: axis bounds, (location dict, layer) pairs, and the two computed attributes it assigns",
)


class _ObjNS:
    """stand-in for the builtin `object` in __post_init__ (object.__setattr__ is a slot wrapper, which the engine cannot resolve by name)"""

    @staticmethod
    def __setattr__(o, n, v):
        object.__setattr__(o, n, v)


_ObjNS.__setattr__.__module__ = "c19"
_ObjNS.__setattr__.__qualname__ = "object_setattr"


@trusted("c19.object_setattr", "object.__setattr__(o, '<name>', v) is the assignment o.<name> = v (bypassing the frozen dataclass guard)")
def _object_setattr(ex, st, args, kwargs, node):
    o, n, v = args
    if not (n.is_py and isinstance(n.py, str)):
        raise Unsupported("object.__setattr__ with a symbolic attribute name", node)
    ex.write_field(st, o, n.py, v, node)
    return Val.const(None)


@specfn(BOOL, loc=LOCDICT, bounds=BOUNDS)
def at_default(loc, bounds):
    """every axis the location mentions is an axis of the designspace and sits at its default value (axes left out count as default)"""
    return all(k in bounds and bounds[k][1] == loc[k] for k in loc)


_PL = "self.source_layers"
_PIDX = "self.default_source_idx"
contract(
    "ufo2ft.instantiator:Instantiator.__post_init__",
    props=["C19"],
    params={"self": Ref("InstantiatorPI")},
    globals={"object": __import__("pyvc.symex").symex.FuncRef(_ObjNS, "c19.objectNS")},
    raises={"InstantiatorError": f"not any(at_default({_PL}[a][0], self.axis_bounds) for a in range(len({_PL})))"},
    ensures={
        # the default source is the FIRST layer at the default location
        "first-layer-at-default": f"0 <= {_PIDX} and {_PIDX} < len({_PL}) and at_default({_PL}[{_PIDX}][0], self.axis_bounds)"
        f" and all(not at_default({_PL}[a][0], self.axis_bounds) for a in range({_PIDX}))",
        # the default design location: every axis at its default value, nothing else
        "default-design-location": "all(k in self.default_design_location and self.default_design_location[k] == self.axis_bounds[k][1] for k in self.axis_bounds)"
        " and all(k in self.axis_bounds for k in self.default_design_location)",
        "rest-unchanged": f"{_PL} == old({_PL}) and self.axis_bounds == old(self.axis_bounds)",
    },
    canaries={"first-layer": f"{_PIDX} == 0", "last-layer": f"{_PIDX} == len({_PL}) - 1"},
    modifies=["self.default_source_idx", "self.default_design_location"],
    loops={
        "for (i, (location, _)) in enumerate(self.source_layers)": Loop(
            index="j",
            invariants={"none-so-far": f"all(not at_default({_PL}[a][0], self.axis_bounds) for a in range(j))"},
        )
    },
)


def _pi_cases(rng, n):
    out = []
    for _ in range(n):
        axes = rng.sample(["wght", "wdth", "slnt"], rng.randint(1, 3))
        bounds = {a: [rng.choice([0, 100]), rng.choice([100, 400]), rng.choice([900, 1000])] for a in axes}
        layers = []
        for _k in range(rng.randint(0, 4)):
            loc = {}
            for a in axes + ["stray"]:
                r = rng.random()
                if a == "stray" and r < 0.9:
                    continue
                if r < 0.35:
                    continue  # axis left out: counts as default
                loc[a] = bounds[a][1] if a in bounds and r < 0.75 else rng.choice([0, 250, 900])
            layers.append(loc)
        out.append({"bounds": bounds, "layers": layers})
    return out


def _pi_build(d):
    from ufo2ft.instantiator import Instantiator

    inst = object.__new__(Instantiator)
    object.__setattr__(inst, "axis_bounds", {a: tuple(b) for a, b in d["bounds"].items()})
    object.__setattr__(inst, "source_layers", [(dict(loc), {}) for loc in d["layers"]])
    return {"self": inst}


CONTRACTS["ufo2ft.instantiator:Instantiator.__post_init__"].runtime = Runtime(_pi_cases, _pi_build)
