"""Shared class vocabulary: the objects the outline compiler works on, as the contracts see them.

Everything in this file that models a fontTools / ufoLib2 / defcon object is an ASSUMED
contract (trusted base): attribute bags for tables, a per-tag view of TTFont, typed views of
`font.lib` and `font.info`.  Repo classes (`repo=`) only get their field types here; their
methods are resolved through the real class hierarchy to contracts on the real functions.
"""
import z3

from pyvc import ty as T
from pyvc.api import BOOL, CLASSES, INT, REAL, STR, ClassSpec, Dict, List, Map, Named, Opt, Ref, Set, Tuple, cls, trusted
from pyvc.core import PYOBJ, Unsupported, Val, fresh, lift
from pyvc.ops import is_const

# ---- bounding boxes (namedtuple BoundingBox(xMin, yMin, xMax, yMax)) --------------------------------
BBOX = Named("BoundingBox", xMin=INT, yMin=INT, xMax=INT, yMax=INT)


# ---- TTFont: one optional table object per tag --------------------------------------------------------


def table_class(tag):
    name = "table_" + tag.strip().replace("/", "_")
    if name not in CLASSES:
        cls(name, dynamic=True, notes=f"fontTools table '{tag}' as an attribute bag (assumed)")
    return name


def _tt_field(ex, st, tag):
    cname = table_class(tag)
    cs = CLASSES["TTFont"]
    f = "tbl:" + tag
    if f not in cs.fields:
        cs.fields[f] = Opt(Ref(cname))
    return f


def _need_tag(v, node):
    if not is_const(v) or not isinstance(v.py, str):
        raise Unsupported("TTFont subscript with a non-literal tag", node)
    return v.py


def _tt_getitem(ex, st, self, idx, node):
    f = _tt_field(ex, st, _need_tag(idx, node))
    v = ex.read_field(st, self, f)
    return ex.deopt(v, st, node) if not ex.spec_mode else Val(v.ty.inner, v.ty.sort().val(v.term))


def _tt_setitem(ex, st, self, idx, v, node):
    f = _tt_field(ex, st, _need_tag(idx, node))
    ex.write_field(st, self, f, v, node)


def _tt_contains(ex, st, self, x):
    f = _tt_field(ex, st, _need_tag(x, None))
    v = ex.read_field(st, self, f)
    return v.ty.sort().is_some(v.term)


def _tt_get(ex, st, self, args, kwargs, node):
    f = _tt_field(ex, st, _need_tag(args[0], node))
    return ex.read_field(st, self, f)


cls(
    "TTFont",
    dynamic=True,
    getitem=_tt_getitem,
    setitem=_tt_setitem,
    contains=_tt_contains,
    methods={"get": _tt_get},
    notes="fontTools TTFont seen as tag -> optional table object (assumed)",
)


@trusted("fontTools.ttLib.ttFont.newTable", "newTable(tag) returns a fresh table object of that tag with no attributes set")
def _newTable(ex, st, args, kwargs, node):
    tag = _need_tag(args[0], node)
    return ex.new_object(st, table_class(tag))


# hmtx / vmtx: table[glyphName] reads/writes the `metrics` dict
def _mtx_getitem(ex, st, self, idx, node):
    return ex.getitem(ex.read_field(st, self, "metrics"), idx, st, node)


def _mtx_setitem(ex, st, self, idx, v, node):
    from pyvc import models

    cur = ex.read_field(st, self, "metrics")
    ex.write_field(st, self, "metrics", models.set_item(ex, st, cur, idx, v, node), node)


for _t in ("hmtx", "vmtx"):
    cls("table_" + _t, fields={"metrics": Dict(STR, Tuple(INT, INT))}, dynamic=True, getitem=_mtx_getitem, setitem=_mtx_setitem,
        notes="metrics: glyph name -> (advance, side bearing)")

# ---- cmap subtables ---------------------------------------------------------------------------------------
UVS_ENTRY = Tuple(INT, Opt(STR))


def _cmap_sub_init(ex, st, self, args, kwargs, node):
    ex.write_field(st, self, "format", args[0], node)


cls(
    "cmap_subtable",
    fields={"format": INT, "platformID": INT, "platEncID": INT, "language": INT, "cmap": Dict(INT, STR), "uvsDict": Dict(INT, List(UVS_ENTRY))},
    methods={"__init__": _cmap_sub_init},
    notes="cmap_format_4 / _12 / _14 objects: one class, `format` records the constructor argument (assumed attribute bags)",
)
CLASSES["table_cmap"] = ClassSpec("table_cmap", fields={"tableVersion": INT, "tables": List(Ref("cmap_subtable"))}, dynamic=True)

for _f in ("cmap_format_4", "cmap_format_12", "cmap_format_14"):

    def _mk(ex, st, args, kwargs, node):
        return ex.construct(CLASSES["cmap_subtable"], args, kwargs, st, node)

    trusted(f"fontTools.ttLib.tables._c_m_a_p.{_f}", f"{_f}(n) returns a fresh subtable object with format n and no other attribute set")(_mk)

# ---- font.lib: typed view per key ---------------------------------------------------------------------------
LIB_TYPES = {
    "public.unicodeVariationSequences": Dict(STR, Dict(STR, STR)),
    "public.skipExportGlyphs": List(STR),
    "public.postscriptNames": Dict(STR, STR),
    "public.openTypeCategories": Dict(STR, STR),
}


def _lib_field(key, node=None):
    cs = CLASSES["Lib"]
    f = "key:" + key
    if f not in cs.fields:
        if key not in LIB_TYPES:
            raise Unsupported(f"lib key {key!r} has no declared type", node)
        cs.fields[f] = Opt(LIB_TYPES[key])
    return f


def _lib_get(ex, st, self, args, kwargs, node):
    k = _need_tag(args[0], node)
    v = ex.read_field(st, self, _lib_field(k, node))
    if len(args) > 1:
        from pyvc import ops

        return ops.ite(v.ty.sort().is_some(v.term), Val(v.ty.inner, v.ty.sort().val(v.term)), args[1])
    return v


def _lib_contains(ex, st, self, x):
    v = ex.read_field(st, self, _lib_field(_need_tag(x, None)))
    return v.ty.sort().is_some(v.term)


def _lib_getitem(ex, st, self, idx, node):
    v = ex.read_field(st, self, _lib_field(_need_tag(idx, node), node))
    return ex.deopt(v, st, node) if not ex.spec_mode else Val(v.ty.inner, v.ty.sort().val(v.term))


cls("Lib", dynamic=True, methods={"get": _lib_get}, contains=_lib_contains, getitem=_lib_getitem,
    notes="font.lib as literal key -> optional typed value (assumed plist typing per key)")
cls("Info", dynamic=True, notes="font.info attribute bag")
cls("Font", fields={"lib": Ref("Lib"), "info": Ref("Info"), "glyphOrder": List(STR)}, notes="source UFO (ufoLib2 / defcon Font)")

# ---- the outline compiler object (`self`) ---------------------------------------------------------------------
cls(
    "OutlineCompiler",
    fields={
        "ufo": Ref("Font"),
        "otf": Ref("TTFont"),
        "tables": Set(STR),
        "glyphOrder": List(STR),
        "unicodeToGlyphNameMapping": Dict(INT, STR),
        "glyphBoundingBoxes": Dict(STR, Opt(BBOX)),
        "fontBoundingBox": BBOX,
        "vertical": BOOL,
    },
    repo="ufo2ft.outlineCompiler:BaseOutlineCompiler",
    notes="BaseOutlineCompiler instance; glyphBoundingBoxes/fontBoundingBox are cached properties read as fields",
)


# ---- getAttrWithFallback: summary used at call sites ---------------------------------------------------------
# The function itself is verified against its own contract under C16 (contracts/c16.py); callers only need
# "the value is a function of (info, attribute name)", so call sites see an uninterpreted symbol per attribute.
INFO_ATTR_TYPES = {}


@trusted("ufo2ft.fontInfoData.getAttrWithFallback",
         "getAttrWithFallback(info, attr) is a function of (info, attr) [summary of the contract proved under C16]; numeric unless typed otherwise")
def _gawf(ex, st, args, kwargs, node):
    info, attr = args
    if not is_const(attr):
        raise Unsupported("getAttrWithFallback with a computed attribute name", node)
    t = INFO_ATTR_TYPES.get(attr.py, REAL)
    f = z3.Function("info_" + attr.py, T.RefSort, t.sort())
    return Val(t, f(lift(info)))
