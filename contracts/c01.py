"""C01 — CFF outlines and advances equal the source with components resolved.

What ufo2ft owns (and is put under contract here): the width arithmetic (hmtx advance, CFF width operand,
default/nominal widths), the rounding tolerance handed to the charstring pen, the default filter list of
the OTF pre-processor (full decomposition first), and the way `decomposeCompositeGlyph` drives the
decomposing pen (every component once, in order, flipped components reversed, then removed).
The pens themselves (T2CharStringPen, DecomposingFilterPointPen, glyph.draw) are fontTools / UFO-library
code: trusted, modelled as effect logs, and validated by the bounded end-to-end observer in
vcheck/hooks/c01.py.
"""
import z3
from fontTools.misc.fixedTools import otRound  # noqa: F401  (resolved by the spec functions below)

from pyvc import ty as T
from pyvc.api import BOOL, CLASSES, CONTRACTS, INT, REAL, STR, Const, Dict, List, Loop, Opt, Ref, Runtime, Set, Tuple, cls, contract, lemma, record_init, specfn, trusted
from pyvc.core import PYOBJ, Unsupported, Val, fresh, lift
from pyvc.stmts import IterInfo
from pyvc.symex import FuncRef

from . import lib, rtlib  # noqa: F401


@specfn(INT, v=REAL)
def otr(v):
    """otRound: floor(v + 1/2) — halves go UP (not Python's round-half-even)."""
    return otRound(v)


# =====================================================================================================
# Lemma: the advance a CFF reader reconstructs equals hmtx's otRound(width)

_l = lemma(
    "C01.cff_width",
    props=["C01"],
    vars={"w": REAL, "n": INT, "d": INT, "nr": REAL},
    hyps=[],
    concl={
        # charstring width operand is omitted when w == defaultWidthX (reader takes d), else it is
        # otRound(w - nominal) and the reader adds the nominal width back
        "same": "(d if w == d else n + otr(w - n)) == otr(w)",
        "halves-up": "implies(w == n + 0.5, n + otr(w - n) == n + 1)",
    },
    canaries={"real-nominal": "(d if w == d else nr + otr(w - nr)) == otr(w)"},
)
_l.module = __name__

# =====================================================================================================
# Vocabulary: glyphs, glyph sets, compiler (own class names: nothing shared with other properties)

cls("C01_Glyph", fields={"name": STR, "width": REAL, "components": List(Ref("C01_Component")), "log_pens": List(Ref("DecomposingFilterPointPen")),
                          "log_drawn": List(Ref("C01_Component"))},
    notes="glyph object (ufoLib2/defcon): width, components; log_* = effect log of decomposing-pen draws into this glyph (ghost)")
_T6 = ("xx", "xy", "yx", "yy", "dx", "dy")
cls("C01_Component", fields={"baseGlyph": STR, **{"t_" + k: REAL for k in _T6}},
    derived={"transformation": lambda ex, st, self: Val(PYOBJ, None, tuple(ex.read_field(st, self, "t_" + k) for k in _T6), True)},
    notes="component object: baseGlyph and the six numbers of its transformation (`transformation` = the 6-tuple of them)")
cls("C01_Private", fields={"defaultWidthX": INT, "nominalWidthX": INT}, notes="namespace with the CFF default/nominal widths (integers by getDefaultAndNominalWidths)")
cls("C01_Info", fields={"postscriptDefaultWidthX": Opt(REAL), "postscriptNominalWidthX": Opt(REAL)}, notes="font.info (the two CFF width attributes)")
cls("C01_Font", fields={"info": Ref("C01_Info")}, notes="source font (info only)")


def _gs_getitem(ex, st, self, idx, node):
    return ex.getitem(ex.read_field(st, self, "glyphs"), idx, st, node)


def _gs_contains(ex, st, self, x):
    d = ex.read_field(st, self, "glyphs")
    return z3.Select(d.ty.sort().dom(d.term), lift(x, STR))


cls("C01_GlyphSet", fields={"glyphs": Dict(STR, Ref("C01_Glyph"))}, getitem=_gs_getitem, contains=_gs_contains,
    views={"glyphs": lambda o: dict(o.items())}, notes="glyph set: name -> glyph (dict-like)")

cls(
    "C01_Compiler",
    fields={
        "ufo": Ref("C01_Font"),
        "otf": Ref("TTFont"),
        "tables": Set(STR),
        "allGlyphs": Dict(STR, Ref("C01_Glyph")),
        "glyphBoundingBoxes": Dict(STR, Opt(lib.BBOX)),
        "roundTolerance": REAL,
        "optimizeCFF": BOOL,
        "_defaultAndNominalWidths": Opt(Tuple(INT, INT)),  # INT by sort: a non-integer stored here is a sort error (exit 2) and fails the run-time clause
    },
    dynamic=True,
    repo="ufo2ft.outlineCompiler:OutlineOTFCompiler",
    notes="OutlineOTFCompiler instance as the C01 contracts see it",
)

# =====================================================================================================
# BaseOutlineCompiler.setupTable_hmtx: advance == otRound(width), ValueError iff some advance is negative

_AG = "self.allGlyphs"
_KEY = f"list({_AG})"
_MT = "self.otf['hmtx'].metrics"


def _pos(body):
    return f"all({body} for a in range(len({_AG})))"


contract(
    "ufo2ft.outlineCompiler:BaseOutlineCompiler.setupTable_hmtx",
    props=["C01"],
    params={"self": Ref("C01_Compiler")},
    modifies=["TTFont.tbl:hmtx", "table_hmtx.metrics"],  # frame: the font's 'hmtx' slot and the (new) table's metrics
    requires=[
        "'hmtx' in self.tables",
        # the code indexes glyphBoundingBoxes with every glyph name (KeyError otherwise): from the code
        f"all(g in self.glyphBoundingBoxes for g in {_AG})",
    ],
    ensures={
        # every glyph's advance is its source width rounded half-up
        "advance": _pos(f"{_KEY}[a] in {_MT} and {_MT}[{_KEY}[a]][0] == otr({_AG}[{_KEY}[a]].width)"),
        "lsb": _pos(f"{_MT}[{_KEY}[a]][1] == (self.glyphBoundingBoxes[{_KEY}[a]].xMin if self.glyphBoundingBoxes[{_KEY}[a]] is not None else 0)"),
        "only": f"all(g in {_AG} for g in {_MT})",
    },
    raises={"ValueError": f"any(otr({_AG}[{_KEY}[a]].width) < 0 for a in range(len({_AG})))"},
    canaries={"truncates": _pos(f"{_MT}[{_KEY}[a]][0] <= {_AG}[{_KEY}[a]].width")},
    loops={
        "for (glyphName, glyph) in self.allGlyphs.items()": Loop(
            index="i", seq="K",
            invariants={
                "is-table": "self.otf.get('hmtx') is not None and hmtx == self.otf['hmtx']",
                "done": f"all(K[a] in {_MT} and {_MT}[K[a]][0] == otr({_AG}[K[a]].width) and {_MT}[K[a]][0] >= 0"
                f" and {_MT}[K[a]][1] == (self.glyphBoundingBoxes[K[a]].xMin if self.glyphBoundingBoxes[K[a]] is not None else 0) for a in range(i))",
                "only": f"all(g in {_AG} for g in {_MT})",
            },
        )
    },
)


# ---- run-time harness: real OutlineOTFCompiler on small UFOs with half-integer / negative widths ----------
_WIDTHS = [0, 200, 600.5, 333.4, 0.5, 1.5, 2.5, -0.5, -0.4, 3.49999, 1000.5]


def _hmtx_cases(rng, n):
    out = []
    for k in range(n):
        g = rtlib.rand_glyphs(rng, n=rng.randint(0, 4))
        for v in g.values():
            v["width"] = rng.choice(_WIDTHS)
        if k % 6 == 5 and g:
            g[sorted(g)[-1]]["width"] = rng.choice([-1, -0.6, -300.5])
        out.append({"glyphs": g, "ufolib": rng.choice(["ufoLib2", "defcon"])})
    return out


def _hmtx_build(d):
    return {"self": rtlib.outline_compiler(d, "otf")}


CONTRACTS["ufo2ft.outlineCompiler:BaseOutlineCompiler.setupTable_hmtx"].runtime = Runtime(
    _hmtx_cases, _hmtx_build, call=lambda fn, a: fn(a["self"])
)

# =====================================================================================================
# OutlineOTFCompiler.__init__: roundTolerance None -> 0.5 (round everything), else float(argument)

cls("C01_SuperInit", methods={"__init__": lambda ex, st, self, args, kwargs, node: Val.const(None)},
    notes="super() inside OutlineOTFCompiler.__init__: BaseOutlineCompiler.__init__ is summarised by its FRAME only — it "
          "stores neither roundTolerance nor optimizeCFF nor _defaultAndNominalWidths (syntactic obligation C01.frame.* in the hook)")


@trusted("c01.super_init", "frame summary of BaseOutlineCompiler.__init__ (no store to roundTolerance / optimizeCFF / _defaultAndNominalWidths): "
         "discharged syntactically by hook obligation C01.frame.attribute-stores")
def _super_init(ex, st, args, kwargs, node):
    return ex.new_object(st, "C01_SuperInit")


contract(
    "ufo2ft.outlineCompiler:OutlineOTFCompiler.__init__",
    props=["C01"],
    params={"self": Ref("C01_Compiler"), "font": Ref("C01_Font"), "roundTolerance": Opt(REAL), "optimizeCFF": BOOL},
    globals={"super": Val.obj(FuncRef(None, "c01.super_init"))},
    modifies=["self.roundTolerance", "self.optimizeCFF", "self._defaultAndNominalWidths"],  # (of THIS object only; the base-class part is the frame summary above)
    ensures={
        "tolerance": "self.roundTolerance == (0.5 if roundTolerance is None else roundTolerance)",
        "optimize-kept": "self.optimizeCFF == optimizeCFF",
        "widths-not-cached": "self._defaultAndNominalWidths is None",
    },
    canaries={"always-half": "self.roundTolerance == 0.5"},
)


def _init_cases(rng, n):
    out = []
    for k in range(n):
        out.append({"glyphs": rtlib.rand_glyphs(rng, n=2), "rt": [None, 0, 0.25, 0.5, 1, 0.1][k % 6], "opt": bool(k % 2), "ufolib": ["ufoLib2", "defcon"][k % 2]})
    return out


def _init_build(d):
    from ufo2ft.outlineCompiler import OutlineOTFCompiler

    f = rtlib.build_ufo(d, d["ufolib"])
    return {"self": OutlineOTFCompiler.__new__(OutlineOTFCompiler), "font": f, "roundTolerance": d["rt"], "optimizeCFF": d["opt"]}


CONTRACTS["ufo2ft.outlineCompiler:OutlineOTFCompiler.__init__"].runtime = Runtime(_init_cases, _init_build)

# =====================================================================================================
# getDefaultAndNominalWidths: both values are integers (so the lemma's hypothesis holds)


@trusted("fontTools.cffLib.width.optimizeWidths", "optimizeWidths(list of ints) returns a pair of ints (default, nominal) [bounded: conformance in the hook]")
def _optimizeWidths(ex, st, args, kwargs, node):
    a, b = fresh(INT, "dfltW"), fresh(INT, "nomW")
    return Val(PYOBJ, None, (Val(INT, a), Val(INT, b)), True)


@trusted("c01.getAttrWithFallback", "getAttrWithFallback(info, attr) returns a number for the two CFF width attributes (summary; the function is verified under C16)")
def _gawf(ex, st, args, kwargs, node):
    info, attr = args
    f = z3.Function("c01_info_" + attr.py, T.RefSort, z3.RealSort())
    return Val(REAL, f(lift(info)))


contract(
    "ufo2ft.outlineCompiler:OutlineOTFCompiler.getDefaultAndNominalWidths",
    props=["C01"],
    params={"self": Ref("C01_Compiler")},
    returns=Opt(Tuple(INT, INT)),
    globals={"getAttrWithFallback": Val.obj(FuncRef(None, "c01.getAttrWithFallback"))},
    modifies=["C01_Compiler._defaultAndNominalWidths"],
    # a cached pair is one this method stored earlier (the only store besides __init__'s None: hook obligation C01.frame.*)
    requires=["self._defaultAndNominalWidths is None or (self._defaultAndNominalWidths[0] == otr(self._defaultAndNominalWidths[0]) and self._defaultAndNominalWidths[1] == otr(self._defaultAndNominalWidths[1]))"],
    # (the pair is typed Tuple(INT, INT): integrality is carried by the sort in the logic, and checked as a clause at run time)
    ensures={
        "pair": "result is not None",
        "default-is-integer": "result[0] == otr(result[0])",
        "nominal-is-integer": "result[1] == otr(result[1])",
        "cached": "self._defaultAndNominalWidths == result",
    },
    canaries={"zero": "result[1] == 0"},
)


def _widths_cases(rng, n):
    out = []
    for k in range(n):
        g = rtlib.rand_glyphs(rng, n=rng.randint(1, 5))
        for v in g.values():
            v["width"] = rng.choice(_WIDTHS[:7])
        info = {}
        if k % 3 == 1:
            info = {"postscriptDefaultWidthX": rng.choice([500, 600.5, 0.5]), "postscriptNominalWidthX": rng.choice([400, 2.5, 300.5])}
        if k % 3 == 2:
            info = {"postscriptNominalWidthX": rng.choice([400, 2.5, 300.5])}
        out.append({"glyphs": g, "info": info, "ufolib": rng.choice(["ufoLib2", "defcon"])})
    return out


CONTRACTS["ufo2ft.outlineCompiler:OutlineOTFCompiler.getDefaultAndNominalWidths"].runtime = Runtime(
    _widths_cases, _hmtx_build, call=lambda fn, a: fn(a["self"])
)

# =====================================================================================================
# getCharStringForGlyph: the charstring pen gets (width', glyph set, roundTolerance=self.roundTolerance)

cls("T2CharStringPen", fields={"width": Opt(INT), "roundTolerance": REAL, "CFF2": BOOL, "glyphSet": Dict(STR, Ref("C01_Glyph")), "drawn": Ref("C01_Glyph")},
    dynamic=True, methods={"__init__": record_init("width", "glyphSet", "roundTolerance", "CFF2", roundTolerance=0.5, CFF2=False)},
    notes="fontTools T2CharStringPen(width, glyphSet, roundTolerance=0.5, CFF2=False): constructor arguments recorded; "
          "`drawn` = the glyph drawn into it (ghost). TRUSTED: rounds every coordinate with roundFunc(roundTolerance), keeps contour order")
cls("C01_CharString", fields={"pen": Ref("T2CharStringPen"), "optimize": BOOL, "private": Ref("C01_Private")},
    notes="T2CharString returned by pen.getCharString(private, globalSubrs, optimize): records the pen and the arguments (ghost)")


def _glyph_draw(ex, st, self, args, kwargs, node):
    ex.write_field(st, args[0], "drawn", self, node)
    return Val.const(None)


def _getCharString(ex, st, self, args, kwargs, node):
    cs = ex.new_object(st, "C01_CharString")
    ex.write_field(st, cs, "pen", self, node)
    ex.write_field(st, cs, "private", args[0], node)
    ex.write_field(st, cs, "optimize", kwargs.get("optimize", args[2] if len(args) > 2 else Val.const(True)), node)
    return cs


CLASSES["C01_Glyph"].methods["draw"] = _glyph_draw
CLASSES["T2CharStringPen"].methods["getCharString"] = _getCharString

contract(
    "ufo2ft.outlineCompiler:OutlineOTFCompiler.getCharStringForGlyph",
    props=["C01"],
    params={"self": Ref("C01_Compiler"), "glyph": Ref("C01_Glyph"), "private": Ref("C01_Private")},
    returns=Ref("C01_CharString"),
    ensures={
        # width operand: omitted iff the source width equals defaultWidthX, else otRound(width - nominalWidthX)
        "width-operand": "iff(result.pen.width is None, glyph.width == private.defaultWidthX)"
        " and implies(result.pen.width is not None, result.pen.width == otr(glyph.width - private.nominalWidthX))",
        # the rounding tolerance is the compiler's, whatever optimizeCFF says
        "tolerance": "result.pen.roundTolerance == self.roundTolerance",
        "glyph-set": "result.pen.glyphSet == self.allGlyphs",
        "drawn": "result.pen.drawn == glyph",
        "optimize-flag": "result.optimize == self.optimizeCFF and result.private == private",
        # what a CFF reader reconstructs (default when the operand is omitted, else nominal + operand) is otRound(glyph.width)
        "reader-width": "(private.defaultWidthX if result.pen.width is None else private.nominalWidthX + result.pen.width) == otr(glyph.width)",
    },
    # the algebra of lemma C01.cff_width at the statement where it happens (integer nominal width): otRound(w - n) == otRound(w) - n
    hints={"width = otRound(width)": ["width == otr(glyph.width) - private.nominalWidthX"]},
    canaries={"always-explicit": "result.pen.width is not None"},
)


class _RecPenFactory:
    """run-time stand-in that records what the real T2CharStringPen was constructed with (the real pen does the work)."""

    @staticmethod
    def make():
        from fontTools.pens.t2CharStringPen import T2CharStringPen

        class RecT2Pen(T2CharStringPen):
            def __init__(self, width, glyphSet, roundTolerance=0.5, CFF2=False):
                super().__init__(width, glyphSet, roundTolerance=roundTolerance, CFF2=CFF2)
                self.width, self.glyphSet, self.roundTolerance, self.CFF2 = width, glyphSet, roundTolerance, CFF2
                self.drawn = None

            def getCharString(self, private=None, globalSubrs=None, optimize=True):
                cs = super().getCharString(private, globalSubrs, optimize=optimize)
                cs.pen, cs.optimize = self, optimize
                return cs

        return RecT2Pen


class _DrawRec:
    def __init__(self, g):
        object.__setattr__(self, "_g", g)

    def __getattr__(self, n):
        return getattr(object.__getattribute__(self, "_g"), n)

    def draw(self, pen):
        pen.drawn = self
        object.__getattribute__(self, "_g").draw(pen)


def _cs_cases(rng, n):
    out = []
    for k in range(n):
        g = rtlib.rand_glyphs(rng, n=3)
        for v in g.values():
            v["width"] = rng.choice(_WIDTHS[:7] + [500, 400])
        out.append({"glyphs": g, "which": rng.choice(sorted(g)), "rt": [None, 0, 0.25, 0.5][k % 4], "opt": bool((k // 4) % 2),
                    "dflt": rng.choice([500, 200, 0]), "nom": rng.choice([400, 0, 7]), "ufolib": ["ufoLib2", "defcon"][k % 2]})
    return out


def _cs_build(d):
    from types import SimpleNamespace

    from ufo2ft.outlineCompiler import OutlineOTFCompiler

    f = rtlib.build_ufo(d, d["ufolib"])
    comp = OutlineOTFCompiler(f, roundTolerance=d["rt"], optimizeCFF=d["opt"])
    return {"self": comp, "glyph": _DrawRec(comp.allGlyphs[d["which"]]), "private": SimpleNamespace(defaultWidthX=d["dflt"], nominalWidthX=d["nom"])}


def _cs_call(fn, a):
    import ufo2ft.outlineCompiler as oc

    real = oc.T2CharStringPen
    oc.T2CharStringPen = _RecPenFactory.make()
    try:
        return fn(a["self"], a["glyph"], a["private"])
    finally:
        oc.T2CharStringPen = real


CLASSES["C01_CharString"].views["private"] = lambda o: o.private
CONTRACTS["ufo2ft.outlineCompiler:OutlineOTFCompiler.getCharStringForGlyph"].runtime = Runtime(_cs_cases, _cs_build, call=_cs_call)

# =====================================================================================================
# OutlineOTFCompiler.compileGlyphs: EVERY glyph of the order gets the charstring of ITS OWN source glyph, all of them drawn against the one
# (defaultWidthX, nominalWidthX) pair that getDefaultAndNominalWidths returns (and caches: setupTable_CFF writes the same pair into the
# Private dict the charstrings are read back with) — so that what a reader reconstructs as the advance is otRound(source width) for
# every glyph (reader-width of getCharStringForGlyph, through that contract).


def _widths_call_glue(ex, st, self, args, kwargs, node):
    """`self.getDefaultAndNominalWidths()` at a call site that UNPACKS the pair: the call goes through the method's contract (requires
    proved, ensures assumed, field havocked), then the Optional result is unwrapped with the usual obligation `result is not None`
    (provable from the postcondition `pair`).  Glue only — the engine cannot unpack an Optional tuple (notes/C01.requests.md item 10)."""
    r = ex.call_contract(CONTRACTS["ufo2ft.outlineCompiler:OutlineOTFCompiler.getDefaultAndNominalWidths"], [self], {}, st, node)
    return ex.deopt(r, st, node)


_widths_call_glue.modifies = ["C01_Compiler._defaultAndNominalWidths"]
CLASSES["C01_Compiler"].methods["getDefaultAndNominalWidths"] = _widths_call_glue


@trusted("c01.namespace_private", "types.SimpleNamespace(defaultWidthX=d, nominalWidthX=n): a fresh object with exactly these two attributes")
def _ns_private(ex, st, args, kwargs, node):
    if args or set(kwargs) != {"defaultWidthX", "nominalWidthX"}:
        raise Unsupported("SimpleNamespace(...) with other than defaultWidthX / nominalWidthX", node)
    p = ex.new_object(st, "C01_Private")
    ex.write_field(st, p, "defaultWidthX", kwargs["defaultWidthX"], node)
    ex.write_field(st, p, "nominalWidthX", kwargs["nominalWidthX"], node)
    return p


CLASSES["C01_Compiler"].fields["glyphOrder"] = List(STR)
_CG = "self.allGlyphs[self.glyphOrder[a]]"
_CS = "{cs}[self.glyphOrder[a]]"
_CS_FACT = {
    "own-glyph": "{cs}.pen.drawn == {g}",
    "glyph-set": "{cs}.pen.glyphSet == self.allGlyphs",
    "tolerance": "{cs}.pen.roundTolerance == self.roundTolerance",
    "optimize": "{cs}.optimize == self.optimizeCFF",
    "private-widths": "{cs}.private.defaultWidthX == {d} and {cs}.private.nominalWidthX == {n}",
    # the advance a reader reconstructs from (default, nominal, operand) is otRound(source width)
    "reader-width": "({d} if {cs}.pen.width is None else {n} + {cs}.pen.width) == otr({g}.width)",
}

contract(
    "ufo2ft.outlineCompiler:OutlineOTFCompiler.compileGlyphs",
    props=["C01"],
    params={"self": Ref("C01_Compiler")},
    returns=Dict(STR, Ref("C01_CharString")),
    globals={"SimpleNamespace": Val.obj(FuncRef(None, "c01.namespace_private"))},
    requires=[
        "all(n in self.allGlyphs for n in self.glyphOrder)",  # the glyph order is made from allGlyphs (makeOfficialGlyphOrder, C03)
        CONTRACTS["ufo2ft.outlineCompiler:OutlineOTFCompiler.getDefaultAndNominalWidths"].requires[0],
    ],
    modifies=["C01_Compiler._defaultAndNominalWidths", "T2CharStringPen.*", "C01_CharString.*", "C01_Private.*"],
    ensures={
        "every-glyph": "all(n in result for n in self.glyphOrder)",
        "widths-cached": "self._defaultAndNominalWidths is not None",
        # each charstring: its own source glyph, the compiler's glyph set / tolerance / optimize flag, the cached width pair, and the
        # advance a reader reconstructs from (default, nominal, operand) is otRound(source width)
        **{k: "all(" + v.format(cs=_CS.format(cs="result"), g=_CG, d="self._defaultAndNominalWidths[0]", n="self._defaultAndNominalWidths[1]") + " for a in range(len(self.glyphOrder)))"
           for k, v in _CS_FACT.items()},
    },
    canaries={"same-glyph-for-all": "len(self.glyphOrder) > 1 and result[self.glyphOrder[0]].pen.drawn == result[self.glyphOrder[1]].pen.drawn and self.glyphOrder[0] != self.glyphOrder[1]"
              " and self.allGlyphs[self.glyphOrder[0]] != self.allGlyphs[self.glyphOrder[1]]"},
    locals={"compiledGlyphs": Dict(STR, Ref("C01_CharString"))},
    loops={
        "for glyphName in self.glyphOrder": Loop(
            index="i",
            invariants={
                "done": "all(self.glyphOrder[a] in compiledGlyphs for a in range(i))",
                "private": "private.defaultWidthX == defaultWidth and private.nominalWidthX == nominalWidth",
                **{k: "all(" + v.format(cs=_CS.format(cs="compiledGlyphs"), g=_CG, d="defaultWidth", n="nominalWidth") + " for a in range(i))" for k, v in _CS_FACT.items()},
            },
        )
    },
)

def _cg_cases(rng, n):
    out = []
    for k in range(n):
        g = rtlib.rand_glyphs(rng, n=rng.randint(1, 4))
        for v in g.values():
            v["width"] = rng.choice(_WIDTHS[:7] + [500, 400])
        info = {}
        if k % 3 == 1:
            info = {"postscriptDefaultWidthX": rng.choice([500, 600.5, 0.5]), "postscriptNominalWidthX": rng.choice([400, 2.5, 300.5])}
        out.append({"glyphs": g, "info": info, "rt": [None, 0, 0.25, 0.5][k % 4], "opt": bool((k // 4) % 2), "ufolib": ["ufoLib2", "defcon"][k % 2]})
    return out


def _cg_build(d):
    from ufo2ft.outlineCompiler import OutlineOTFCompiler

    f = rtlib.build_ufo(d, d["ufolib"])
    comp = OutlineOTFCompiler(f, roundTolerance=d["rt"], optimizeCFF=d["opt"])
    comp.allGlyphs = {n: _DrawRec(g) for n, g in comp.allGlyphs.items()}
    return {"self": comp}


def _cg_call(fn, a):
    import ufo2ft.outlineCompiler as oc

    real = oc.T2CharStringPen
    oc.T2CharStringPen = _RecPenFactory.make()
    try:
        return fn(a["self"])
    finally:
        oc.T2CharStringPen = real


CONTRACTS["ufo2ft.outlineCompiler:OutlineOTFCompiler.compileGlyphs"].runtime = Runtime(_cg_cases, _cg_build, call=_cg_call)

# =====================================================================================================
# util.decomposeCompositeGlyph: every component drawn once, in order, through ONE decomposing pen built
# with reverseFlipped as passed (default True), then removed.

cls("C01_PointPen", fields={"glyph": Ref("C01_Glyph")}, notes="glyph.getPointPen(): a pen writing into that glyph")
cls(
    "DecomposingFilterPointPen",
    fields={"outPen": Ref("C01_PointPen"), "glyphSet": Ref("C01_GlyphSet"), "reverseFlipped": BOOL, "include": Opt(Set(STR)), "decomposeNested": BOOL},
    dynamic=True,
    methods={"__init__": record_init("outPen", "glyphSet", "skipMissingComponents", "reverseFlipped", "include", "decomposeNested", reverseFlipped=False, decomposeNested=True)},
    notes="fontTools DecomposingFilterPointPen(outPen, glyphSet, skipMissingComponents=None, reverseFlipped=False, include=None, "
          "decomposeNested=True): constructor arguments recorded. TRUSTED: addComponent of an included base appends the base's "
          "resolved contours (composed transform, contour order kept, direction reversed iff reverseFlipped and det < 0) to outPen; "
          "raises MissingComponentError iff an included base is not in glyphSet; a base outside `include` is passed through as a component",
)


def _getPointPen(ex, st, self, args, kwargs, node):
    p = ex.new_object(st, "C01_PointPen")
    ex.write_field(st, p, "glyph", self, node)
    return p


def _snoc_if(st, seq, x, cond):
    """`seq + [x]` if cond else `seq`, as a fresh sequence described position-wise (solver-friendly) AND by the exact term."""
    a = seq.term
    r = fresh(seq.ty, "snoc")
    k = z3.Int(str(r) + "!k")
    st.assume(z3.Implies(cond, z3.And(z3.Length(r) == z3.Length(a) + 1, r[z3.Length(a)] == x,
                                      z3.ForAll([k], z3.Implies(z3.And(0 <= k, k < z3.Length(a)), r[k] == a[k])))))
    st.assume(z3.Implies(z3.Not(cond), r == a))
    return r


def _comp_drawPoints(ex, st, self, args, kwargs, node):
    """component.drawPoints(pen) == pen.addComponent(component.baseGlyph, component.transformation, ...)   [UFO libraries]
    on a DecomposingFilterPointPen (see the class notes)."""
    (pen,) = args
    base = lift(ex.read_field(st, self, "baseGlyph"))
    inc = ex.read_field(st, pen, "include")
    so = inc.ty.sort()
    included = z3.Or(so.is_nil(inc.term), z3.Select(so.val(inc.term), base))
    gs = ex.read_field(st, pen, "glyphSet")
    present = z3.BoolVal(True) if False else _gs_contains(ex, st, gs, Val(STR, base))
    ex.safety(st, z3.Implies(included, present), "MissingComponentError", node)
    out = ex.read_field(st, ex.read_field(st, pen, "outPen"), "glyph")
    drawn = ex.read_field(st, out, "log_drawn")
    pens = ex.read_field(st, out, "log_pens")
    comps = ex.read_field(st, out, "components")
    ex.write_field(st, out, "log_drawn", Val(drawn.ty, _snoc_if(st, drawn, lift(self), included)), node)
    ex.write_field(st, out, "log_pens", Val(pens.ty, _snoc_if(st, pens, lift(pen), included)), node)
    # pass-through: a NEW component object with the same base is attached to the out glyph
    nc = ex.new_object(st, "C01_Component")
    st.assume(z3.Select(ex.field_array(st, "C01_Component", "baseGlyph"), lift(nc)) == base)  # fresh object: constructed with that base
    ex.write_field(st, out, "components", Val(comps.ty, z3.If(included, comps.term, z3.Concat(comps.term, z3.Unit(lift(nc))))), node)
    return Val.const(None)


_comp_drawPoints.modifies = ["C01_Glyph.log_drawn", "C01_Glyph.log_pens", "C01_Glyph.components"]


def _removeComponent(ex, st, self, args, kwargs, node):
    """glyph.removeComponent(c): the first occurrence of c is detached — modelled exactly when c is the first component, otherwise only
    "the list does not grow".  (Both UFO libraries raise ValueError when c is not attached; that precondition is not tracked here —
    the bounded observer runs the real libraries.)"""
    comps = ex.read_field(st, self, "components")
    s = comps.term
    c = lift(args[0])
    # the case that occurs in decomposeCompositeGlyph (c is the FIRST attached component) is stated position-wise; for any other
    # position the model only says that nothing is added (weaker than the library: no clause under contract needs more, and the exact
    # extract/indexof term of the general case made the solvers unstable)
    head = z3.And(z3.Length(s) > 0, s[0] == c)
    r = fresh(comps.ty, "removed")
    k = z3.Int("rk!" + str(id(node) % 100000))
    st.assume(z3.Implies(head, z3.And(z3.Length(r) == z3.Length(s) - 1, z3.ForAll([k], z3.Implies(z3.And(0 <= k, k < z3.Length(r)), r[k] == s[k + 1])))))
    st.assume(z3.Implies(z3.Not(head), z3.Length(r) <= z3.Length(s)))
    new = r
    ex.write_field(st, self, "components", Val(comps.ty, new), node)
    return Val.const(None)


_removeComponent.modifies = ["C01_Glyph.components"]
CLASSES["C01_Glyph"].methods.update(getPointPen=_getPointPen, removeComponent=_removeComponent)
CLASSES["C01_Component"].methods["drawPoints"] = _comp_drawPoints

_OLDC = "old(glyph.components)"
_INCLUDED = "(include is None or {c}.baseGlyph in include)"
_NEWPENS = "range(len(old(glyph.log_pens)), len(glyph.log_pens))"
_ALLPRESENT = "all(CS[a].baseGlyph in glyphSet for a in range(i))"

_DCG_LOOP = {
    "for component in list(glyph.components)": Loop(
        index="i", seq="CS",
        invariants={
            "pen": "pen.outPen.glyph == glyph and pen.glyphSet == glyphSet and pen.reverseFlipped == reverseFlipped and pen.include == include and pen.decomposeNested == decomposeNested",
            # full decomposition: the not yet processed suffix is still attached, in order ...
            "remaining": "implies(include is None, len(glyph.components) == len(CS) - i and all(glyph.components[k] == CS[i + k] for k in range(len(CS) - i)))",
            # ... and the processed prefix was drawn, in order, each exactly once (when no base was missing and skipped)
            # allp (ghost flag, updated once per iteration): no base of the processed prefix was missing.  The facts that depend on it use
            # the FLAG as their antecedent (a quantified antecedent made the step obligations solver-dependent)
            "all-present-flag": "allp == " + _ALLPRESENT,
            "drawn-all-len": "implies(include is None and allp, len(glyph.log_drawn) == len(L0) + i)",
            "drawn-all": "implies(include is None and allp, all(glyph.log_drawn[len(L0) + k] == CS[k] for k in range(i)))",
            "drawn-len": "len(glyph.log_drawn) >= len(L0) and len(glyph.log_drawn) <= len(L0) + i",
            "drawn-prefix": "all(glyph.log_drawn[k] == L0[k] for k in range(len(L0)))",
            "pens-len": "len(glyph.log_pens) >= len(P0)",
            "pens-prefix": "all(glyph.log_pens[k] == P0[k] for k in range(len(P0)))",
            "pens-new": "all(glyph.log_pens[k] == pen for k in range(len(P0), len(glyph.log_pens)))",
            "none-missing": "skipMissing or all(implies(" + _INCLUDED.format(c="CS[a]") + ", CS[a].baseGlyph in glyphSet) for a in range(i))",
        },
    )
}


def _dcg_contract(name, params, requires, extra_ensures):
    full = {"skipMissing": "False", "reverseFlipped": "True", "include": "None", "decomposeNested": "True"}
    sub = {k: (k if k in params else v) for k, v in full.items()}

    def S(txt):
        for k, v in sub.items():
            txt = txt.replace("$" + k, v)
        return txt

    loops = {h: Loop(index=l.index, seq=l.seq, invariants={k: S(_dollar(v)) for k, v in l.invariants.items()}) for h, l in _DCG_LOOP.items()}
    return contract(
        "ufo2ft.util:decomposeCompositeGlyph",
        name=name,
        # C13: an inlined non-export glyph must be drawn through a pen with reverseFlipped=True (as the ordinary decomposition
        # does), else a mirrored reference changes the winding of a remaining glyph (seed C13-3)
        props=["C01", "C15", "C13"],
        params=params,
        requires=requires,
        modifies=["C01_Glyph.components", "C01_Glyph.log_drawn", "C01_Glyph.log_pens"],
        ghost_vars={"L0": (List(Ref("C01_Component")), "glyph.log_drawn"), "P0": (List(Ref("DecomposingFilterPointPen")), "glyph.log_pens"), "allp": (BOOL, "True")},
        ghost={"glyph.removeComponent(component)": ["allp = allp and (component.baseGlyph in glyphSet)"]},
        # the pen log right after the draw (the invariant `pens-new` itself, established where the log is extended)
        hints={"component.drawPoints(pen)": ["all(glyph.log_pens[k] == pen for k in range(len(P0), len(glyph.log_pens)))"]},
        ensures={
            # every pen that drew into the glyph during the call carries exactly the options passed in
            "pen-options": S(f"all(glyph.log_pens[k].reverseFlipped == $reverseFlipped and glyph.log_pens[k].include == $include"
                             f" and glyph.log_pens[k].decomposeNested == $decomposeNested and glyph.log_pens[k].glyphSet == glyphSet and glyph.log_pens[k].outPen.glyph == glyph for k in {_NEWPENS})"),
            "log-extended": "len(glyph.log_pens) >= len(old(glyph.log_pens)) and all(glyph.log_pens[k] == old(glyph.log_pens)[k] for k in range(len(old(glyph.log_pens))))"
            " and len(glyph.log_drawn) >= len(old(glyph.log_drawn)) and all(glyph.log_drawn[k] == old(glyph.log_drawn)[k] for k in range(len(old(glyph.log_drawn))))",
            # full decomposition (include=None): no component is left attached ...
            "all-removed": S("implies($include is None, len(glyph.components) == 0)"),
            # ... and (no base missing) every component was drawn exactly once, in order
            "all-drawn-in-order": S(f"implies($include is None and all(c.baseGlyph in glyphSet for c in {_OLDC}), len(glyph.log_drawn) == len(old(glyph.log_drawn)) + len({_OLDC})"
                                    f" and all(glyph.log_drawn[len(old(glyph.log_drawn)) + k] == {_OLDC}[k] for k in range(len({_OLDC}))))"),
            **extra_ensures,
        },
        raises={"MissingComponentError": S("not $skipMissing and any(" + _dollar(_INCLUDED).format(c="c") + f" and c.baseGlyph not in glyphSet for c in glyph.components)")},
        canaries={"nothing-drawn": "len(glyph.log_drawn) == len(old(glyph.log_drawn))"},
        loops=loops,
    )


def _dollar(txt):
    import re

    for k in ("skipMissing", "reverseFlipped", "decomposeNested", "include"):
        txt = re.sub(r"(?<![.\w$])" + k + r"\b", "$" + k, txt)
    return txt


# (1) the function as the two-argument call sites use it: every optional parameter at its DEFAULT in the source.
#     Flipping a default (reverseFlipped=False) fails `flipped-reversed`.
_dcg_contract(
    "defaults",
    {"glyph": Ref("C01_Glyph"), "glyphSet": Ref("C01_GlyphSet")},
    [],
    {"flipped-reversed": f"all(glyph.log_pens[k].reverseFlipped for k in {_NEWPENS})"},
)
# (2) `#options`: all options symbolic; this is the summary every call site is checked against (callers map to it with `calls=`): `reverseFlipped` must be true there
_dcg_contract(
    "options",
    {"glyph": Ref("C01_Glyph"), "glyphSet": Ref("C01_GlyphSet"), "skipMissing": BOOL, "reverseFlipped": BOOL, "include": Opt(Set(STR)), "decomposeNested": BOOL},
    ["reverseFlipped"],
    {},
)

# =====================================================================================================
# Call sites of decomposeCompositeGlyph inside filters: checked against summary (2) — `reverseFlipped` must be true
# at the call (pre@callsite), so passing reverseFlipped=False anywhere under contract is a violation.
# (The syntactic obligation C01.callsites.* in the hook covers EVERY call site in Lib/ufo2ft, incl. the I-filters.)

cls("C01_Ctx", fields={"glyphSet": Ref("C01_GlyphSet")}, notes="filter context namespace (glyphSet)")
cls("C01_Options", fields={"skipExportGlyphs": Set(STR)}, notes="filter options namespace")
cls("C01_Filter", fields={"context": Ref("C01_Ctx"), "options": Ref("C01_Options")}, notes="BaseFilter instance (context, options)")

_FILTER_POST = {
    "flipped-reversed": f"all(glyph.log_pens[k].reverseFlipped and glyph.log_pens[k].glyphSet == self.context.glyphSet and glyph.log_pens[k].outPen.glyph == glyph for k in {_NEWPENS})",
}

_DCG_CALLS = {"ufo2ft.util:decomposeCompositeGlyph": "ufo2ft.util:decomposeCompositeGlyph#options"}

contract(
    "ufo2ft.filters.decomposeComponents:DecomposeComponentsFilter.filter",
    name="c01",
    calls=_DCG_CALLS,
    props=["C01", "C15"],
    params={"self": Ref("C01_Filter"), "glyph": Ref("C01_Glyph")},
    returns=BOOL,
    modifies=["C01_Glyph.components", "C01_Glyph.log_drawn", "C01_Glyph.log_pens"],
    ensures={
        **_FILTER_POST,
        "reports-change": f"result == (len({_OLDC}) > 0)",
        "fully-decomposed": "len(glyph.components) == 0",
        "all-drawn-in-order": f"implies(all(c.baseGlyph in self.context.glyphSet for c in {_OLDC}), len(glyph.log_drawn) == len(old(glyph.log_drawn)) + len({_OLDC})"
        f" and all(glyph.log_drawn[len(old(glyph.log_drawn)) + k] == {_OLDC}[k] for k in range(len({_OLDC}))))",
        "full-decomposition-pen": f"all(glyph.log_pens[k].include is None for k in {_NEWPENS})",
    },
    raises={"MissingComponentError": "any(c.baseGlyph not in self.context.glyphSet for c in glyph.components)"},
    canaries={"never-changes": "not result"},
)

contract(
    "ufo2ft.filters.skipExportGlyphs:SkipExportGlyphsFilter.filter",
    name="c01",
    calls=_DCG_CALLS,
    props=["C01", "C15", "C13"],
    params={"self": Ref("C01_Filter"), "glyph": Ref("C01_Glyph")},
    returns=BOOL,
    modifies=["C01_Glyph.components", "C01_Glyph.log_drawn", "C01_Glyph.log_pens"],
    ensures={
        **_FILTER_POST,
        # (the exact report `result == some base is a non-export glyph` needs a set/sequence witness the solvers do not find;
        #  what is kept: a glyph reported unchanged was not drawn into)
        "unchanged-when-false": "implies(not result, len(glyph.log_pens) == len(old(glyph.log_pens)) and glyph.components == old(glyph.components))",
        "only-non-export-bases": f"all(glyph.log_pens[k].include == self.options.skipExportGlyphs and not glyph.log_pens[k].decomposeNested for k in {_NEWPENS})",
    },
    # iff a base that is to be inlined (a non-export glyph) is missing from the glyph set
    # iff a base that is to be inlined (a non-export glyph) is missing from the glyph set
    raises={"MissingComponentError": "any(c.baseGlyph in self.options.skipExportGlyphs and c.baseGlyph not in self.context.glyphSet for c in glyph.components)"},
    canaries={"never-changes": "not result"},
)

# =====================================================================================================
# Default filter lists (decision tables).  Filter classes are attribute bags whose constructor records which
# keyword arguments were GIVEN (`given_<name>`: bool) and their values (lambdas stay python-level values).


def filter_ctor(*names):
    def init(ex, st, self, args, kwargs, node):
        if args:
            raise Unsupported("filter constructed with positional arguments", node)
        for k in kwargs:
            if k not in names:
                raise Unsupported(f"filter constructor keyword {k}", node)
        for n in names:
            v = kwargs.get(n)
            ex.write_field(st, self, "given_" + n, Val.const(v is not None), node)
            if v is not None:
                ex.write_field(st, self, n, v, node)

    return init


_BASE_KW = ("include", "exclude", "pre")
FILTER_CLASSES = {
    "DecomposeComponentsFilter": (),
    "ExplodeColorLayerGlyphsFilter": (),
    "FlattenComponentsFilter": (),
    "RemoveOverlapsFilter": ("backend",),
    "CubicToQuadraticFilter": ("conversionError", "reverseDirection", "rememberCurveType", "allQuadratic"),
    "ReverseContourDirectionFilter": (),
}
for _n, _kw in FILTER_CLASSES.items():
    cls(_n, dynamic=True, methods={"__init__": filter_ctor(*(_BASE_KW + _kw))},
        notes=f"ufo2ft filter object {_n}(**kwargs) as an attribute bag: given_<kw> says whether the keyword was passed, <kw> its value "
              "(BaseFilter.__init__ stores options/include from exactly these keywords; its own contract is C14's)")


def filter_class_refs():
    import importlib

    mods = {"DecomposeComponentsFilter": "decomposeComponents", "ExplodeColorLayerGlyphsFilter": "explodeColorLayerGlyphs", "FlattenComponentsFilter": "flattenComponents",
            "RemoveOverlapsFilter": "removeOverlaps", "CubicToQuadraticFilter": "cubicToQuadratic", "ReverseContourDirectionFilter": "reverseContourDirection"}
    out = {}
    for n, m in mods.items():
        k = getattr(importlib.import_module("ufo2ft.filters." + m), n)
        out[n] = Val.obj(FuncRef(k, f"{k.__module__}.{k.__qualname__}"))
    return out


# ---- _init_explode_color_layer_glyphs_filter: appends nothing or exactly one ExplodeColorLayerGlyphsFilter() --------
def _lib_contains(ex, st, self, x):
    f = z3.Function("c01_lib_has", T.RefSort, z3.StringSort(), z3.BoolSort())
    return f(lift(self), lift(x, STR))


cls("C01_Lib", contains=_lib_contains, notes="font.lib / glyph.lib: only `key in lib` is used (uninterpreted per object and key)")
cls("C01_LibGlyph", fields={"lib": Ref("C01_Lib")})


def _ufo_iter(ex, st, v, node):
    g = ex.read_field(st, v, "glyphs")
    s = g.term
    return IterInfo("indexed", n=z3.Length(s), item=lambda i: Val(Ref("C01_LibGlyph"), s[i]), seqval=g)


cls("C01_Ufo", fields={"lib": Ref("C01_Lib"), "glyphs": List(Ref("C01_LibGlyph"))}, iter=_ufo_iter, notes="source font: lib, iteration over glyphs")

contract(
    "ufo2ft.preProcessor:_init_explode_color_layer_glyphs_filter",
    props=["C01", "C02"],
    params={"ufo": Ref("C01_Ufo"), "filters": Const([])},
    modifies=["filters"],
    globals=filter_class_refs(),
    ensures={
        # called on the empty list (as both initDefaultFilters do): leaves [] or [ExplodeColorLayerGlyphsFilter()]
        "at-most-one-explode": "len(filters) <= 1 and all(isinstance(f, ExplodeColorLayerGlyphsFilter) and not f.given_include and not f.given_exclude for f in filters)",
    },
    canaries={"never": "len(filters) == 0"},
)


def explode_summary(present):
    """Call-site summary of _init_explode_color_layer_glyphs_filter(ufo, filters) for one of its two outcomes
    (proved above for the empty list the call sites pass): the python-level list gets 0 or 1 explode filter."""

    def model(ex, st, args, kwargs, node):
        lst = args[1]
        if not (lst.is_py and isinstance(lst.py, list) and len(lst.py) == 0):
            raise Unsupported("_init_explode_color_layer_glyphs_filter summary: expected the empty list", node)
        if present:
            obj = ex.construct(CLASSES["ExplodeColorLayerGlyphsFilter"], [], {}, st, node)
            ex.assign_target(node.args[1], Val(PYOBJ, None, [obj], True), st, node, mutate=True)
        return Val.const(None)

    return model


for _p in (False, True):
    trusted(f"c01.explode_summary.{_p}", "summary of ufo2ft.preProcessor:_init_explode_color_layer_glyphs_filter on the empty list: "
            + ("appends one ExplodeColorLayerGlyphsFilter()" if _p else "appends nothing")
            + " [the two outcomes are proved exhaustive by that function's own contract]")(explode_summary(_p))

cls("C01_PreProcessor", fields={"ufo": Ref("C01_Ufo"), "inplace": BOOL}, notes="pre-processor instance: ufo, inplace")


def _no_base_kw(e):
    return f"not {e}.given_include and not {e}.given_exclude and not {e}.given_pre"


def _otf_variant(explode, removeOverlaps, backend):
    n0 = 1 if explode else 0
    exp = []
    ens = {}
    if explode:
        ens["explode-first"] = "isinstance(result[0], ExplodeColorLayerGlyphsFilter)"
    # exactly one DecomposeComponentsFilter, constructed with NO include/exclude (=> every glyph, fully decomposed) ...
    ens["decompose-everything"] = f"isinstance(result[{n0}], DecomposeComponentsFilter) and {_no_base_kw(f'result[{n0}]')}"
    n = n0 + 1
    if removeOverlaps:
        # ... and it comes BEFORE overlap removal
        ens["overlaps-after-decompose"] = f"isinstance(result[{n}], RemoveOverlapsFilter) and {_no_base_kw(f'result[{n}]')}" + (
            f" and result[{n}].given_backend and result[{n}].backend == overlapsBackend" if backend else f" and not result[{n}].given_backend")
        n += 1
    ens["length"] = f"len(result) == {n}"
    ens["exactly-one-decompose"] = " and ".join(f"not isinstance(result[{k}], DecomposeComponentsFilter)" for k in range(n) if k != n0) or "True"
    g = filter_class_refs()
    g["_init_explode_color_layer_glyphs_filter"] = Val.obj(FuncRef(None, f"c01.explode_summary.{explode}"))
    contract(
        "ufo2ft.preProcessor:OTFPreProcessor.initDefaultFilters",
        name=f"explode={int(explode)},removeOverlaps={int(removeOverlaps)},backend={int(backend)}",
        props=["C01"],
        params={"self": Ref("C01_PreProcessor"), "removeOverlaps": Const(removeOverlaps), "overlapsBackend": STR if backend else Const(None)},
        globals=g,
        ensures=ens,
        canaries={"empty": "len(result) == 0"},
    )


for _e in (False, True):
    for _r in (False, True):
        for _b in ((False, True) if _r else (False,)):
            _otf_variant(_e, _r, _b)

# =====================================================================================================
# BasePreProcessor.process: the filters run exactly once each, in the order  pre-filters, DEFAULT filters, post-filters,
# every one on (self.ufo, self.glyphSet); the processed glyph set is returned.  (Together with the decision tables above: the full
# decomposition is applied after the user's pre-filters and before the user's post-filters, on the glyph set the compiler will draw.)
# A filter is an opaque callable here: calling it appends (filter, font) to a log kept on the glyph set it was called on (ghost).

cls("C01_PUfo", notes="the source font handed to the filters (opaque)")


def _anyfilter_call(ex, st, self, args, kwargs, node):
    if len(args) != 2 or kwargs:
        raise Unsupported("filter called with other than (font, glyphSet)", node)
    font, gs = args
    a, f = ex.read_field(st, gs, "applied"), ex.read_field(st, gs, "applied_font")
    ex.write_field(st, gs, "applied", Val(a.ty, _snoc_if(st, a, lift(self), z3.BoolVal(True))), node)
    ex.write_field(st, gs, "applied_font", Val(f.ty, _snoc_if(st, f, lift(font), z3.BoolVal(True))), node)
    return Val(BOOL, fresh(BOOL, "filter_result"))


_anyfilter_call.modifies = ["C01_PGlyphSet.applied", "C01_PGlyphSet.applied_font"]
cls("C01_AnyFilter", methods={"__call__": _anyfilter_call}, notes="a filter object: only `filter(font, glyphSet)` is used; what it does to the glyphs is its own contract (C14/C15)")
cls("C01_PGlyphSet", fields={"applied": List(Ref("C01_AnyFilter")), "applied_font": List(Ref("C01_PUfo"))},
    notes="glyph set being pre-processed; applied / applied_font = log of the filter calls made on it (ghost)")
cls("C01_PP", fields={"ufo": Ref("C01_PUfo"), "glyphSet": Ref("C01_PGlyphSet"), "preFilters": List(Ref("C01_AnyFilter")), "defaultFilters": List(Ref("C01_AnyFilter")),
                      "postFilters": List(Ref("C01_AnyFilter"))}, repo="ufo2ft.preProcessor:BasePreProcessor", notes="pre-processor instance")

_AP = "self.glyphSet.applied"
_A0 = f"len(old({_AP}))"
_NPRE, _NDEF, _NPOST = "len(self.preFilters)", "len(self.defaultFilters)", "len(self.postFilters)"
_CAT = "(self.preFilters + self.defaultFilters + self.postFilters)"
contract(
    "ufo2ft.preProcessor:BasePreProcessor.process",
    props=["C01", "C02"],
    params={"self": Ref("C01_PP")},
    returns=Ref("C01_PGlyphSet"),
    modifies=["C01_PGlyphSet.applied", "C01_PGlyphSet.applied_font"],
    ensures={
        "returns-the-glyph-set": "result == self.glyphSet",
        "each-once": f"len({_AP}) == {_A0} + {_NPRE} + {_NDEF} + {_NPOST} and len(self.glyphSet.applied_font) == len({_AP})",
        "earlier-calls-kept": f"all({_AP}[k] == old({_AP})[k] for k in range({_A0}))",
        "pre-filters-first": f"all({_AP}[{_A0} + k] == self.preFilters[k] for k in range({_NPRE}))",
        "then-default-filters": f"all({_AP}[{_A0} + {_NPRE} + k] == self.defaultFilters[k] for k in range({_NDEF}))",
        "then-post-filters": f"all({_AP}[{_A0} + {_NPRE} + {_NDEF} + k] == self.postFilters[k] for k in range({_NPOST}))",
        "on-the-source-font": f"all(self.glyphSet.applied_font[k] == self.ufo for k in range({_A0}, len({_AP})))",
    },
    canaries={"defaults-first": f"{_NPRE} > 0 and {_NDEF} > 0 and {_AP}[{_A0}] == self.defaultFilters[0] and self.preFilters[0] != self.defaultFilters[0]"},
    ghost_vars={"AP0": (List(Ref("C01_AnyFilter")), "self.glyphSet.applied"), "AF0": (List(Ref("C01_PUfo")), "self.glyphSet.applied_font")},
    loops={
        "for func in self.preFilters + self.defaultFilters + self.postFilters": Loop(
            index="i", seq="ALL",
            invariants={
                "len": "len(glyphSet.applied) == len(AP0) + i and len(glyphSet.applied_font) == len(AP0) + i",
                "kept": "all(glyphSet.applied[k] == AP0[k] for k in range(len(AP0)))",
                "in-order": "all(glyphSet.applied[len(AP0) + k] == ALL[k] for k in range(i))",
                "font": "all(glyphSet.applied_font[k] == ufo for k in range(len(AP0), len(AP0) + i))",
            },
        )
    },
    requires=["len(self.glyphSet.applied) == len(self.glyphSet.applied_font)"],
    # list concatenation, position by position (pure sequence facts, each proved on its own; the loop iterates exactly this term)
    hints={"glyphSet = self.glyphSet": [
        f"len({_CAT}) == {_NPRE} + {_NDEF} + {_NPOST}",
        f"all({_CAT}[k] == self.preFilters[k] for k in range({_NPRE}))",
        f"all({_CAT}[{_NPRE} + k] == self.defaultFilters[k] for k in range({_NDEF}))",
        f"all({_CAT}[{_NPRE} + {_NDEF} + k] == self.postFilters[k] for k in range({_NPOST}))",
    ]},
)


class _LogFilter:
    """run-time stand-in for a filter: logs the call on the glyph set it is called on (the ghost log of the contract, made real)"""

    def __init__(self, tag):
        self.tag = tag

    def __call__(self, font, glyphSet):
        glyphSet.applied.append(self)
        glyphSet.applied_font.append(font)
        return set()


def _pp_cases(rng, n):
    return [{"glyphs": rtlib.rand_glyphs(rng, n=2), "npre": rng.randint(0, 3), "ndef": rng.randint(0, 3), "npost": rng.randint(0, 3), "before": rng.randint(0, 2),
             "shared": rng.random() < 0.3, "ufolib": ["ufoLib2", "defcon"][k % 2]} for k in range(n)]


def _pp_build(d):
    from ufo2ft.preProcessor import OTFPreProcessor

    f = rtlib.build_ufo(d, d["ufolib"])
    pp = OTFPreProcessor(f, filters=[])
    pp.preFilters = [_LogFilter(f"pre{i}") for i in range(d["npre"])]
    pp.defaultFilters = [_LogFilter(f"def{i}") for i in range(d["ndef"])]
    pp.postFilters = [_LogFilter(f"post{i}") for i in range(d["npost"])]
    if d["shared"] and pp.preFilters and pp.postFilters:
        pp.postFilters[-1] = pp.preFilters[0]  # the same filter object in two lists: still called once per occurrence
    pp.glyphSet.applied = [_LogFilter(f"old{i}") for i in range(d["before"])]
    pp.glyphSet.applied_font = [f] * d["before"]
    return {"self": pp}


CONTRACTS["ufo2ft.preProcessor:BasePreProcessor.process"].runtime = Runtime(_pp_cases, _pp_build, call=lambda fn, a: fn(a["self"]))
