"""Run-time helpers: build small real UFOs / compilers from JSON-able descriptions (cross-check, replay)."""
from __future__ import annotations


def build_ufo(d, lib="ufoLib2"):
    """d = {glyphs: {name: {width, height, unicodes, box:[x0,y0,x1,y1]|None, components:[[base,[6 floats]]],
    anchors:[[name,x,y]], lib:{}}}, order:[...], info:{}, lib:{}, kerning:{}, groups:{}, features: str}"""
    if lib == "defcon":
        import defcon

        f = defcon.Font()
    else:
        import ufoLib2

        f = ufoLib2.Font()
    for k, v in d.get("info", {}).items():
        setattr(f.info, k, v)
    for name, g in d.get("glyphs", {}).items():
        gl = f.newGlyph(name)
        gl.width = g.get("width", 0)
        if "height" in g:
            gl.height = g["height"]
        if g.get("unicodes"):
            gl.unicodes = list(g["unicodes"])
        box = g.get("box")
        if box:
            pen = gl.getPen()
            x0, y0, x1, y1 = box
            pen.moveTo((x0, y0))
            pen.lineTo((x1, y0))
            pen.lineTo((x1, y1))
            pen.lineTo((x0, y1))
            pen.closePath()
        for contour in g.get("contours", []):
            pp = gl.getPointPen()
            pp.beginPath()
            for x, y, typ in contour:
                pp.addPoint((x, y), segmentType=typ)
            pp.endPath()
        for base, tr in g.get("components", []):
            gl.getPointPen().addComponent(base, tuple(tr))
        for an in g.get("anchors", []):
            gl.appendAnchor({"name": an[0], "x": an[1], "y": an[2]})
        for k, v in g.get("lib", {}).items():
            gl.lib[k] = v
    for k, v in d.get("lib", {}).items():
        f.lib[k] = v
    if "order" in d:
        f.glyphOrder = list(d["order"])
    for k, v in d.get("groups", {}).items():
        f.groups[k] = list(v)
    for k, v in d.get("kerning", {}).items():
        a, b = k.split("|")
        f.kerning[(a, b)] = v
    if d.get("features"):
        f.features.text = d["features"]
    return f


def outline_compiler(d, flavor="otf", upto=()):
    """A real OutlineOTF/TTFCompiler on build_ufo(d), with `otf` created and the named setup steps run."""
    from fontTools.ttLib import TTFont

    from ufo2ft.outlineCompiler import OutlineOTFCompiler, OutlineTTFCompiler

    f = build_ufo(d, d.get("ufolib", "ufoLib2"))
    cls = OutlineOTFCompiler if flavor == "otf" else OutlineTTFCompiler
    comp = cls(f)
    comp.otf = TTFont(sfntVersion=comp.sfntVersion)
    comp.otf.setGlyphOrder(comp.glyphOrder)
    comp.vertical = d.get("vertical", False)
    comp.colorLayers = False
    comp.meta = False
    for step in upto:
        getattr(comp, "setupTable_" + step)()
    return comp


def rand_glyphs(rng, n=None, fractional=False, vertical=False):
    names = ["a", "b", "c", "d", "e"][: (n if n is not None else rng.randint(0, 5))]
    out = {}
    for nm in names:
        w = rng.choice([0, 200, 200, 500, 600.5, 333.4] if fractional else [0, 200, 200, 500, 600])
        g = {"width": w}
        if vertical:
            g["height"] = rng.choice([0, 1000, 1000, 800])
            if rng.random() < 0.6:
                g["lib"] = {"public.verticalOrigin": rng.choice([880, 880, 800, 700])}
        if rng.random() < 0.7:
            x0 = rng.choice([-20, 0, 30, 50])
            y0 = rng.choice([-100, 0, 10])
            g["box"] = [x0, y0, x0 + rng.choice([10, 100, 400]), y0 + rng.choice([10, 500, 700])]
        out[nm] = g
    return out


# ---- deep snapshots of sources (C07 / C08 / C19 observers) -------------------------------------------------
def _glyph_snap(g):
    contours = []
    for c in g:
        pts = []
        for p in (c.points if hasattr(c, "points") else c):
            pts.append((getattr(p, "x", None), getattr(p, "y", None), getattr(p, "type", getattr(p, "segmentType", None)),
                        getattr(p, "smooth", None), getattr(p, "name", None), getattr(p, "identifier", None)))
        contours.append((tuple(pts), getattr(c, "identifier", None)))
    comps = [(c.baseGlyph, tuple(c.transformation), getattr(c, "identifier", None)) for c in g.components]
    anchors = [(a.name, a.x, a.y, getattr(a, "identifier", None), getattr(a, "color", None)) for a in g.anchors]
    import copy

    return {
        "name": g.name, "width": g.width, "height": g.height, "unicodes": list(g.unicodes), "contours": contours,
        "components": comps, "anchors": anchors, "lib": copy.deepcopy(dict(g.lib)),
    }


def snapshot_ufo(f):
    """Everything property C07 names: every layer's glyphs, font lib, info, kerning, groups, feature text."""
    import copy

    from fontTools.ufoLib import fontInfoAttributesVersion3

    layers = {}
    for layer in f.layers:
        layers[layer.name] = {"lib": copy.deepcopy(dict(layer.lib)), "glyphs": {g.name: _glyph_snap(g) for g in layer}, "order": [g.name for g in layer]}
    info = {a: copy.deepcopy(getattr(f.info, a, None)) for a in sorted(fontInfoAttributesVersion3)}
    return {
        "layers": layers, "layerOrder": [layer.name for layer in f.layers], "lib": copy.deepcopy(dict(f.lib)), "info": info,
        "kerning": dict(f.kerning), "groups": {k: list(v) for k, v in f.groups.items()}, "features": f.features.text,
        "glyphOrder": list(f.glyphOrder),
    }


def snapshot_designspace(ds):
    import copy

    d = ds.asdict() if hasattr(ds, "asdict") else {}
    return {"doc": copy.deepcopy(d), "fonts": [id(s.font) for s in ds.sources], "names": [s.name for s in ds.sources],
            "lib": copy.deepcopy(dict(ds.lib)), "ufos": [snapshot_ufo(s.font) if s.font is not None else None for s in ds.sources]}


def diff_paths(a, b, path="", out=None, limit=8):
    """Human-readable list of where two snapshots differ."""
    out = [] if out is None else out
    if len(out) >= limit:
        return out
    if type(a) is not type(b):
        out.append(f"{path}: {a!r:.80} -> {b!r:.80}")
    elif isinstance(a, dict):
        for k in sorted(set(a) | set(b), key=str):
            if k not in a:
                out.append(f"{path}/{k}: added {b[k]!r:.60}")
            elif k not in b:
                out.append(f"{path}/{k}: removed")
            else:
                diff_paths(a[k], b[k], f"{path}/{k}", out, limit)
    elif isinstance(a, (list, tuple)):
        if len(a) != len(b):
            out.append(f"{path}: length {len(a)} -> {len(b)}")
        else:
            for i, (x, y) in enumerate(zip(a, b)):
                diff_paths(x, y, f"{path}[{i}]", out, limit)
    elif a != b:
        out.append(f"{path}: {a!r:.80} -> {b!r:.80}")
    return out
