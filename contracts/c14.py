"""C14 — filters touch only what they are asked to and report what they changed: the SMT-side contracts (second wave).

BaseFilter.__call__ / set_context (ufo2ft/filters/base.py) for ANY filter subclass.  The subclass's `filter(glyph)` is the abstract method:
it is modelled by the SUBCLASS CONTRACT (F1-F4 below) that every shipped filter has to meet (per-filter contracts: further down / C01, C02, C13,
C15), and `include` by a predicate of the glyph object.

  F1  filter(g) writes only g and glyphs reachable from g through components (`c14_reach(g)`; most filters: only g)
  F2  if g itself changed, filter(g) returns True
  F3  every OTHER glyph it changed has its name in context.modified afterwards
  F4  context.modified only grows; the glyph set (keys, glyph objects, names) is not changed

A glyph's observable content (outline, components, anchors, metrics) is abstracted into one ghost field `version`: "changed" = version differs.
"""
import z3

from pyvc import ty as T
from pyvc.api import BOOL, CLASSES, CONTRACTS, INT, SPECFNS, STR, Const, Dict, List, Loop, Map, Opt, Ref, Runtime, Set, Tuple, cls, contract, specfn, trusted
from pyvc.core import SplitGuard, Unsupported, Val, fresh, fresh_name, lift
from pyvc.symex import FuncRef

BF = "ufo2ft.filters.base:BaseFilter"
G, GS, FLT, CTX, FONT = "c14_Glyph", "c14_GlyphSet", "c14_Filter", "c14_Ctx", "c14_Font"

_REACH, _DEPTH = {}, {}  # run-time side tables (glyph objects have slots): id(glyph) -> reachable glyphs / component depth on entry


def _raw(o):
    from pyvc.rt import Proxy

    return object.__getattribute__(o, "_obj") if isinstance(o, Proxy) else o


def _P(g):
    from pyvc.rt import Proxy

    return g if isinstance(g, Proxy) or g is None else Proxy(g, CLASSES[G])


def glyph_signature(g):
    """everything observable of a glyph (run-time view of the ghost field `version`)"""
    pts = tuple(tuple((p.x, p.y, p.type, p.smooth, p.name) for p in c) for c in g)
    comps = tuple((c.baseGlyph, tuple(c.transformation)) for c in g.components)
    anchors = tuple((a.name, a.x, a.y) for a in g.anchors)
    return (g.name, pts, comps, anchors, g.width, g.height, tuple(g.unicodes), repr(sorted(g.lib.items(), key=repr)))


cls(G, fields={"name": STR, "version": INT}, views={"version": glyph_signature}, notes="a glyph: name, and `version` = abstraction of its whole observable content (outline, components, anchors, metrics)")


def _gs_getitem(ex, st, self, idx, node):
    objs = ex.read_field(st, self, "objs")
    ex.safety(st, z3.Select(lift(ex.read_field(st, self, "keyset")), lift(idx, STR)), "KeyError", node)
    return Val(Ref(G), z3.Select(lift(objs), lift(idx, STR)))


def _gs_keys(ex, st, self, args, kwargs, node):
    return ex.read_field(st, self, "keyset")


cls(GS, fields={"keyset": Set(STR), "objs": Map(STR, Ref(G)), "name": Opt(STR)}, getitem=_gs_getitem, methods={"keys": _gs_keys},
    contains=lambda ex, st, self, x: z3.Select(lift(ex.read_field(st, self, "keyset")), lift(x, STR)),
    views={"keyset": lambda o: set(o.keys()), "objs": lambda o: {k: _P(v) for k, v in o.items()}},
    notes="the glyph set (a dict or _GlyphSet): key set, name -> glyph object, optional layer name")
cls("c14_Layer", methods={"instantiateGlyphObject": lambda ex, st, self, a, k, n: ex.new_object(st, G)}, notes="layer.instantiateGlyphObject() returns a new glyph object (ufoLib2/defcon API)")
cls("c14_Layers", fields={"defaultLayer": Ref("c14_Layer")})
cls(FONT, fields={"layers": Ref("c14_Layers")}, notes="source font: only font.layers.defaultLayer is consulted here")
cls("c14_Opaque", notes="values that are only passed on (font name for the logger, glyph factory)")
cls(CTX, fields={"font": Ref(FONT), "glyphSet": Ref(GS), "modified": Set(STR), "glyphFactory": Ref("c14_Opaque")}, dynamic=True, notes="the filter's context namespace")


@specfn(BOOL, opaque=True, self=Ref(FLT), g=Ref(G))
def c14_included(self, g):
    """the filter's include predicate on a glyph object (name list, exclusion list or callable; a function of the glyph object)"""
    return bool(self.include(g))


@specfn(Set(Ref(G)), opaque=True, g=Ref(G))
def c14_reach(g):
    """the glyphs reachable from g through component references in the glyph set on entry (opaque; natively: see the harness)"""
    return [_P(x) for x in _REACH.get(id(_raw(g)), ())]


@specfn(INT, opaque=True, g=Ref(G))
def c14_depth(g):
    """util.getMaxComponentDepth(g, glyphSet) on entry (the function itself is under contract in C02: contracts/c02.py `getMaxComponentDepth#top`)"""
    return _DEPTH.get(id(_raw(g)), 0)


def _bridge_append(st, old, item):
    """new == old ++ [item] together with its position-wise consequences (valid facts; they spare the solver a word equation)"""
    new = z3.Concat(old, z3.Unit(item))
    k = z3.Int(fresh_name("c14_k"))
    st.assume(z3.Length(new) == z3.Length(old) + 1)
    st.assume(new[z3.Length(old)] == item)
    st.assume(z3.ForAll([k], z3.Implies(z3.And(k >= 0, k < z3.Length(old)), new[k] == old[k]), patterns=[new[k]]))
    return new


def _filter_model(ex, st, self, args, kwargs, node):
    """the SUBCLASS CONTRACT of `filter(glyph)` (F1-F4 in the module docstring); ghost: the call is appended to self.trace"""
    (g,) = args
    gt = lift(g)
    if any(getattr(f_, "_is_guard", False) for f_ in st.pc):
        # `include(glyph) and filter_(glyph)`: the call only happens when the guard holds; let the engine re-execute the statement as nested `if`s
        if getattr(ex, "_split_ok", False):
            raise SplitGuard()
        raise Unsupported("c14: `filter` called under a short-circuit guard that cannot be split", node)
    tr = ex.read_field(st, self, "trace")
    ex.write_field(st, self, "trace", Val(tr.ty, _bridge_append(st, lift(tr), gt)), node)
    fl = ex.read_field(st, self, "filtered")
    ex.write_field(st, self, "filtered", Val(fl.ty, z3.Store(lift(fl), gt, z3.BoolVal(True))), node)
    if "i" in st.env and st.env["i"] is not None:  # ghost: the position (loop index of BaseFilter.__call__) at which the call happens
        tp = ex.read_field(st, self, "trace_pos")
        ex.write_field(st, self, "trace_pos", Val(tp.ty, _bridge_append(st, lift(tp), lift(st.env["i"], INT))), node)
    # ghost: touchable = the union of {g} + c14_reach(g) over the calls so far; wit[x] = index of a call that made x touchable
    reach_ = lift(ex.apply_spec(SPECFNS["c14_reach"], [g], st, node))
    tb, wt = ex.read_field(st, self, "touchable"), ex.read_field(st, self, "wit")
    y = z3.Const(fresh_name("c14_y"), T.RefSort)
    newly = z3.Or(y == gt, z3.Select(reach_, y))
    ex.write_field(st, self, "touchable", Val(tb.ty, z3.Lambda([y], z3.Or(z3.Select(lift(tb), y), newly))), node)
    ex.write_field(st, self, "wit", Val(wt.ty, z3.Lambda([y], z3.If(z3.And(newly, z3.Not(z3.Select(lift(tb), y))), z3.Length(lift(tr)), z3.Select(lift(wt), y)))), node)
    ctx = ex.read_field(st, self, "context")
    ver = ex.field_array(st, G, "version")
    ver2 = z3.Const(fresh_name("c14_version"), ver.sort())
    reach = lift(ex.apply_spec(SPECFNS["c14_reach"], [g], st, node))
    x = z3.Const(fresh_name("c14_x"), T.RefSort)
    # F1
    st.assume(z3.ForAll([x], z3.Implies(z3.And(x != gt, z3.Not(z3.Select(reach, x))), z3.Select(ver2, x) == z3.Select(ver, x)), patterns=[z3.Select(ver2, x)]))
    st.heap[(G, "version")] = ver2
    mod = ex.read_field(st, ctx, "modified")
    mod2 = fresh(Set(STR), "c14_modified")
    s = z3.String(fresh_name("c14_s"))
    # F4
    st.assume(z3.ForAll([s], z3.Implies(z3.Select(lift(mod), s), z3.Select(mod2, s)), patterns=[z3.Select(mod2, s)]))
    # F3
    name = ex.field_array(st, G, "name")
    st.assume(z3.ForAll([x], z3.Implies(z3.And(x != gt, z3.Select(ver2, x) != z3.Select(ver, x)), z3.Select(mod2, z3.Select(name, x))), patterns=[z3.Select(ver2, x)]))
    ex.write_field(st, ctx, "modified", Val(Set(STR), mod2), node, mutate=True)  # in place: the same set object (the caller holds an alias)
    r = fresh(BOOL, "c14_changed")
    # F2
    st.assume(z3.Implies(z3.Select(ver2, gt) != z3.Select(ver, gt), r))
    rets = ex.read_field(st, self, "true_for")
    ex.write_field(st, self, "true_for", Val(rets.ty, z3.If(r, z3.Store(lift(rets), gt, z3.BoolVal(True)), lift(rets))), node)
    return Val(BOOL, r)


_filter_model.modifies = [f"{FLT}.touchable", f"{FLT}.wit", f"{FLT}.trace", f"{FLT}.trace_pos", f"{FLT}.filtered", f"{FLT}.true_for", f"{G}.version", f"{CTX}.modified"]


def _include_model(ex, st, self, args, kwargs, node):
    return ex.apply_spec(SPECFNS["c14_included"], [self, args[0]], st, node)


cls(FLT, fields={"context": Ref(CTX), "trace": List(Ref(G)), "trace_pos": List(INT), "filtered": Set(Ref(G)), "true_for": Set(Ref(G)), "name": STR,
                 "touchable": Set(Ref(G)), "wit": Map(Ref(G), INT)},
    methods={"filter": _filter_model, "include": _include_model, "set_context": BF + ".set_context#any"},
    notes="a BaseFilter instance of ANY subclass: `filter` = the subclass contract F1-F4, `include` = a predicate of the glyph object; ghost fields: trace "
    "(the glyphs passed to `filter`, in call order), true_for (the glyphs for which it returned True)")


@trusted("c14.SimpleNamespace", "types.SimpleNamespace(**kw): a new object with exactly the given attributes")
def _namespace(ex, st, args, kwargs, node):
    o = ex.new_object(st, CTX)
    for k, v in kwargs.items():
        ex.write_field(st, o, k, v, node)
    return o


@trusted("c14.opaque_helper", "helper whose value is only passed on (font name for the logger, glyph factory closure)")
def _opaque_helper(ex, st, args, kwargs, node):
    return ex.new_object(st, "c14_Opaque")


@trusted("c14.getMaxComponentDepth", "CALL-SITE SUMMARY: util.getMaxComponentDepth(glyph, glyphSet) is c14_depth(glyph), a function of the glyph in the glyph set on entry "
         "(the function is under contract in C02; it is called before any glyph is filtered)")
def _depth(ex, st, args, kwargs, node):
    return ex.apply_spec(SPECFNS["c14_depth"], [args[0]], st, node)


@trusted("c14.sorted", "sorted(S, key=f) by the engine's sorting axioms (same elements, no duplicates, ordered by the key) PLUS the Skolemised form of `x in result`: "
         "every member x has a position pos(x) with result[pos(x)] == x")
def _sorted_pos(ex, st, args, kwargs, node):
    from pyvc import models as _m

    r = _m.BUILTIN_MODELS["builtins.sorted"].model(ex, st, args, kwargs, node)
    pos = z3.Function(fresh_name("c14_pos"), z3.StringSort(), z3.IntSort())
    x = z3.String(fresh_name("c14_px"))
    src = args[0]
    member = z3.Select(lift(src), x) if isinstance(src.ty, T.Set) else z3.Contains(lift(r), z3.Unit(x))
    st.assume(z3.ForAll([x], z3.Implies(member, z3.And(pos(x) >= 0, pos(x) < z3.Length(lift(r)), lift(r)[pos(x)] == x)), patterns=[member]))
    return r


def _ref(q, obj=None):
    return Val.obj(FuncRef(obj, q))


_HELPERS = {"SimpleNamespace": _ref("c14.SimpleNamespace"), "_getNewGlyphFactory": _ref("c14.opaque_helper"), "_LazyFontName": _ref("c14.opaque_helper"),
            "getMaxComponentDepth": _ref("c14.getMaxComponentDepth"), "sorted": _ref("c14.sorted", sorted)}
_CTX_MOD = [f"{FLT}.context", f"{CTX}.glyphSet", f"{CTX}.modified", f"{CTX}.font", f"{CTX}.glyphFactory"]

contract(
    BF + ".set_context",
    name="any",
    props=["C14"],
    params={"self": Ref(FLT), "font": Ref(FONT), "glyphSet": Ref(GS)},
    returns=Ref(CTX),
    globals=_HELPERS,
    ensures={
        # a FRESH context on every call (no state carried over), holding the font, the glyph set and an EMPTY modified set
        "fresh-context": "fresh(result) and self.context == result and result.font == font and result.glyphSet == glyphSet",
        "modified-empty": "all(False for n in result.modified)",
    },
    canaries={"other-glyphset": "self.context.glyphSet != glyphSet"},
    modifies=_CTX_MOD,
)


_O = "orderedGlyphs"
_CHG = "{x}.version != old({x}.version)"
_TOUCH = "any({x} == self.trace[k] or {x} in c14_reach(self.trace[k]) for k in range(len(self.trace)))"
_GSK = "glyphSet.keyset == old(glyphSet.keyset) and all(glyphSet.objs[n] == old(glyphSet.objs)[n] for n in glyphSet.keyset)"

contract(
    BF + ".__call__",
    name="any",
    props=["C14"],
    params={"self": Ref(FLT), "font": Ref(FONT), "glyphSet": Ref(GS)},
    returns=Set(STR),
    globals=_HELPERS,
    sorted_axioms=True,
    requires=[
        # a glyph set maps every name to the glyph object of that name
        "all(glyphSet.objs[n].name == n for n in glyphSet.keyset)",
        "len(self.trace) == 0 and len(self.trace_pos) == 0 and all(False for g in self.true_for) and all(False for g in self.filtered) and all(False for g in self.touchable)",
    ],
    ensures={
        # ---- which glyphs are passed to `filter` -------------------------------------------------------------------
        # only glyphs of the glyph set for which include(glyph) holds
        "only-included-glyphs-are-filtered": "all(c14_included(self, g) and g.name in glyphSet.keyset and glyphSet.objs[g.name] == g for g in self.trace)",
        # each at most once
        "each-at-most-once": "distinct(self.trace)",
        # deeper composites first (decreasing component depth)
        "in-component-depth-order": "all(all(implies(a < b, c14_depth(self.trace[a]) >= c14_depth(self.trace[b])) for b in range(len(self.trace))) for a in range(len(self.trace)))",
        # every included glyph is filtered unless the subclass had already reported it as modified (then it is skipped)
        "included-glyphs-are-filtered-or-reported": "all(implies(c14_included(self, glyphSet.objs[n]), glyphSet.objs[n] in self.filtered or n in result) for n in glyphSet.keyset)",
        "filtered-is-the-trace": "all(g in self.filtered for g in self.trace)",
        # ---- what is reported ---------------------------------------------------------------------------------------------
        "result-is-the-context-set": "result == self.context.modified",
        "true-means-reported": "all(g.name in result for g in self.true_for)",
        # ---- the property, given the subclass contract F1-F4 ---------------------------------------------------------------
        # every glyph whose content changed is reported
        "changed-implies-reported": f"all(implies({_CHG.format(x='glyphSet.objs[n]')}, n in result) for n in glyphSet.keyset)",
        # a glyph changes only if it was passed to `filter` (hence included) or is reachable through components from one that was
        "changed-implies-included-or-referenced": f"all(implies({_CHG.format(x='glyphSet.objs[n]')}, {_TOUCH.format(x='glyphSet.objs[n]')}) for n in glyphSet.keyset)",
        # the glyph set itself is as before
        "glyph-set-kept": _GSK,
    },
    canaries={"filters-everything": "all(glyphSet.objs[n] in self.filtered for n in glyphSet.keyset)", "reports-nothing": "all(False for n in result)"},
    modifies=_CTX_MOD + [f"{FLT}.touchable", f"{FLT}.wit", f"{FLT}.trace", f"{FLT}.trace_pos", f"{FLT}.filtered", f"{FLT}.true_for", f"{G}.version"],
    locals={"modified": Set(STR)},
    loops={
        "for glyphName in orderedGlyphs": Loop(
            index="i",
            seq="OG",
            invariants={
                "context": "self.context.glyphSet == glyphSet and self.context == context",
                "pos-len": "len(self.trace_pos) == len(self.trace)",
                "pos": "all(0 <= self.trace_pos[q] and self.trace_pos[q] < i and self.trace[q] == glyphSet.objs[OG[self.trace_pos[q]]] for q in range(len(self.trace)))",
                "pos-increasing": "all(all(implies(a < b, self.trace_pos[a] < self.trace_pos[b]) for b in range(len(self.trace_pos))) for a in range(len(self.trace_pos)))",
                "included": "all(c14_included(self, g) for g in self.trace)",
                "filtered": "all(g in self.filtered for g in self.trace)",
                "complete": "all(implies(c14_included(self, glyphSet.objs[OG[a]]), glyphSet.objs[OG[a]] in self.filtered or OG[a] in modified) for a in range(i))",
                "true-reported": "all(g.name in modified for g in self.true_for)",
                "reported": f"all(implies({_CHG.format(x='glyphSet.objs[n]')}, n in modified) for n in glyphSet.keyset)",
                "touched": f"all(implies({_CHG.format(x='glyphSet.objs[n]')}, glyphSet.objs[n] in self.touchable) for n in glyphSet.keyset)",
                "witness": "all(0 <= self.wit[x] and self.wit[x] < len(self.trace) and (x == self.trace[self.wit[x]] or x in c14_reach(self.trace[self.wit[x]])) for x in self.touchable)",
            },
        )
    },
    merge_branches=False,
)


# ---- run-time side: an instrumented filter subclass that obeys the subclass contract F1-F4 ----------------------------


def _reach_names(font, name, seen=None):
    seen = set() if seen is None else seen
    for c in font[name].components:
        if c.baseGlyph in font and c.baseGlyph not in seen:
            seen.add(c.baseGlyph)
            _reach_names(font, c.baseGlyph, seen)
    return seen


def _call_cases(rng, n):
    """glyph sets with a component graph x include specifications x per-glyph behaviour of `filter`"""
    graphs = [
        {"a": [], "b": [], "c": []},
        {"a": [], "acute": [], "aacute": ["a", "acute"], "aacute.alt": ["aacute"], "b": []},
        {"x": [], "y": ["x"], "z": ["y", "x"], "w": ["z"], "v": ["missing"]},
        {},
    ]
    out = []
    for gi, gr in enumerate(graphs):
        names = sorted(gr)
        for how in ("all", "include", "exclude", "callable"):
            for _ in range(3):
                sel = [x for x in names if rng.random() < 0.5]
                beh = {x: {"change": rng.random() < 0.5, "lie_true": rng.random() < 0.3, "touch_bases": rng.random() < 0.4, "report_self_early": rng.random() < 0.15} for x in names}
                out.append({"graph": gi, "how": how, "sel": sel, "beh": beh})
    rng.shuffle(out)
    graphs_ = graphs
    for c in out:
        c["glyphs"] = graphs_[c["graph"]]
    return out[:max(n, 24)]


def _call_build(d):
    import ufoLib2

    from ufo2ft.filters.base import BaseFilter
    from ufo2ft.util import getMaxComponentDepth

    font = ufoLib2.Font()
    for nm, comps in d["glyphs"].items():
        g = font.newGlyph(nm)
        g.width = 500
        pen = g.getPen()
        if not comps:
            pen.moveTo((0, 0)); pen.lineTo((10, 0)); pen.lineTo((10, 10)); pen.closePath()
        for b in comps:
            pen.addComponent(b, (1, 0, 0, 1, 0, 0))
    beh = d["beh"]

    class _F(BaseFilter):
        def filter(self, glyph):
            k = len(self.trace)
            self.trace.append(glyph)
            self.filtered.append(glyph)
            b = beh[glyph.name]
            for x in [glyph] + list(_REACH[id(glyph)]):
                if not any(x is t for t in self.touchable):
                    self.touchable.append(x)
            if b["touch_bases"]:  # changes glyphs reachable through components and reports them (F1, F3)
                for x in _REACH[id(glyph)]:
                    x.width += 1
                    self.context.modified.add(x.name)
            if b["report_self_early"]:
                for x in _REACH[id(glyph)]:
                    self.context.modified.add(x.name)
            if b["change"]:
                glyph.width += 10
            r = b["change"] or b["lie_true"]  # F2: a changed glyph returns True (True without a change is allowed)
            if r:
                self.true_for.append(glyph)
            return r

    kw = {}
    if d["how"] == "include":
        kw["include"] = list(d["sel"])
    elif d["how"] == "exclude":
        kw["exclude"] = list(d["sel"])
    elif d["how"] == "callable":
        sel = set(d["sel"])
        kw["include"] = lambda g: g.name in sel
    f = _F(**kw)
    f.trace, f.trace_pos, f.filtered, f.true_for, f.touchable = [], [], [], [], []
    glyphSet = {g.name: g for g in font}
    for g in font:
        _REACH[id(g)] = [font[x] for x in sorted(_reach_names(font, g.name))]
        _DEPTH[id(g)] = getMaxComponentDepth(g, glyphSet)
    return {"self": f, "font": font, "glyphSet": glyphSet}


CLASSES[FLT].views.update({k: (lambda o, k=k: [_P(x) for x in getattr(o, k)]) for k in ("trace", "filtered", "true_for", "touchable")})
CLASSES[FLT].views["context"] = lambda o: __import__("pyvc.rt", fromlist=["Proxy"]).Proxy(o.context, CLASSES[CTX])
CLASSES[CTX].views["glyphSet"] = lambda o: __import__("pyvc.rt", fromlist=["Proxy"]).Proxy(o.glyphSet, CLASSES[GS])
CONTRACTS[BF + ".__call__#any"].runtime = Runtime(_call_cases, _call_build, call=lambda fn, a: fn(a["self"], a["font"], a["glyphSet"]))
CONTRACTS[BF + ".set_context#any"].runtime = Runtime(_call_cases, _call_build, call=lambda fn, a: fn(a["self"], a["font"], a["glyphSet"]))
