"""C06 — generated mark features make matching anchors coincide."""
import z3

from pyvc.core import Val
from pyvc.api import BOOL, INT, REAL, STR, CONTRACTS, CLASSES, Const, Dict, List, Loop, Map, Named, Opt, Ref, Runtime, Set, Tuple, Union, cls, contract, lemma, specfn, trusted

@specfn(BOOL, a=INT, f=INT)
def is_multiple(a, f):
    """a is an integer multiple of the positive step f"""
    return any(a == f * k for k in range(-abs(a), abs(a) + 1))


contract(
    "ufo2ft.util:quantize",
    name="int",  # (contracts/c05.py has its own variant of this function, typed for kerning values)
    props=["C06"],
    params={"number": REAL, "factor": INT},
    returns=INT,
    requires=["factor >= 1"],
    ensures={
        "multiple": "is_multiple(result, factor)",
        "nearest": "2 * (result - number) <= factor and 2 * (number - result) < factor",
    },
    canaries={"floor": "result <= number"},
)

contract(
    "ufo2ft.util:otRoundIgnoringVariable",
    props=["C06", "C18"],
    params={"number": REAL},
    returns=INT,
    ensures={"nearest": "2 * (result - number) <= 1 and 2 * (number - result) < 1"},
    canaries={"floor": "result <= number"},
)

contract(
    "ufo2ft.featureWriters.markFeatureWriter:firstAvailable",
    props=["C06"],
    params={"colorSet": Set(INT)},
    returns=INT,
    ensures={
        "free": "result not in colorSet",
        "smallest": "result >= 0 and all(k in colorSet for k in range(result))",
    },
    canaries={"zero": "result == 0"},
    loops={"while True": Loop(invariants={"ge0": "count >= 0", "below": "all(k in colorSet for k in range(count))"})},
    locals={"count": INT},
)

# ---------------------------------------------------------------------------------------------------------
cls("C06_UFOAnchor", fields={"name": Opt(STR), "x": REAL, "y": REAL, "identifier": Opt(STR)}, notes="UFO anchor object (ufoLib2/defcon): name, x, y, identifier (assumed attribute bag)")
cls("C06_Options", fields={"quantization": INT, "groupMarkClasses": BOOL},
    notes="self.options of a MarkFeatureWriter: SimpleNamespace built from the class-level defaults {quantization, groupMarkClasses} overridden by constructor keywords")
cls("C06_Context", fields={"isVariable": BOOL}, dynamic=True, notes="self.context namespace of the writer")
cls("C06_Writer", fields={"options": Ref("C06_Options"), "context": Ref("C06_Context")},
    repo="ufo2ft.featureWriters.markFeatureWriter:MarkFeatureWriter")

contract(
    "ufo2ft.featureWriters.baseFeatureWriter:BaseFeatureWriter._getAnchor",
    name="static",
    props=["C06"],
    calls={"ufo2ft.util:quantize": "ufo2ft.util:quantize#int"},
    params={"self": Ref("C06_Writer"), "glyphName": STR, "anchorName": STR, "anchor": Opt(Ref("C06_UFOAnchor"))},
    returns=Tuple(INT, INT),
    requires=["not self.context.isVariable", "anchor is not None", "self.options.quantization >= 1"],
    ensures={
        "x-multiple": "is_multiple(result[0], self.options.quantization)",
        "x-nearest-own": "2 * (result[0] - anchor.x) <= self.options.quantization and 2 * (anchor.x - result[0]) < self.options.quantization",
        "y-multiple": "is_multiple(result[1], self.options.quantization)",
        "y-nearest-own": "2 * (result[1] - anchor.y) <= self.options.quantization and 2 * (anchor.y - result[1]) < self.options.quantization",
    },
    canaries={"x-is-own": "result[0] == anchor.x"},
)


# ---------------------------------------------------------------------------------------------------------
# anchor-name grammar: parseAnchorName is regex/str.rstrip code (outside the SMT subset).  Its contract below is a
# SUMMARY in terms of opaque spec functions; it is discharged by exhaustive enumeration through the real function in
# vcheck/hooks/c06.py (bounded), never by the solver.  NamedAnchor.__init__ is verified against this summary.
from . import c06rt  # noqa: E402


@specfn(BOOL, opaque=True, s=STR)
def an_invalid(s):
    """the anchor name is rejected (numbered mark anchor, or a mark anchor with an empty key)"""
    try:
        c06rt.ref_parse(s)
    except c06rt.Invalid:
        return True
    return False


@specfn(BOOL, opaque=True, s=STR)
def an_is_mark(s):
    return c06rt.ref_parse(s)[0]


@specfn(STR, opaque=True, s=STR)
def an_key(s):
    return c06rt.ref_parse(s)[1]


@specfn(Opt(INT), opaque=True, s=STR)
def an_number(s):
    return c06rt.ref_parse(s)[2]


@specfn(BOOL, opaque=True, s=STR)
def an_contextual(s):
    return c06rt.ref_parse(s)[3]


@specfn(BOOL, opaque=True, s=STR)
def an_ignorable(s):
    return bool(c06rt.ref_parse(s)[4])


W = "ufo2ft.featureWriters.markFeatureWriter:"

PARSE = contract(
    W + "parseAnchorName",
    props=[],  # summary only: see vcheck/hooks/c06.py (bounded, exhaustive over a small alphabet)
    params={"anchorName": STR, "markPrefix": Const("_"), "ligaSeparator": Const("_"), "ignoreRE": Const(None)},
    returns=Tuple(BOOL, STR, Opt(INT), BOOL, Union(STR, BOOL)),
    requires=["len(anchorName) > 0"],
    ensures={
        "isMark": "result[0] == an_is_mark(anchorName)",
        "key": "result[1] == an_key(anchorName)",
        "number": "result[2] == an_number(anchorName)",
        "isContextual": "result[3] == an_contextual(anchorName)",
        "isIgnorable": "iff(result[4], an_ignorable(anchorName))",  # ('' for an empty key, else a bool: its truth value)
    },
    raises={"ValueError": "an_invalid(anchorName)"},
    notes="bounded: discharged by enumeration, not by the solver",
)

cls("C06_MarkClass", fields={"name": STR, "glyphs": Dict(STR, Ref("C06_MarkClassDef"))},
    notes="feaLib ast.MarkClass: name, glyphs (glyph name -> MarkClassDefinition) (assumed)")
cls("C06_Anchor", fields={"x": INT, "y": INT}, notes="feaLib ast.Anchor(x, y) with no contour point / device tables (assumed)")
cls("C06_MarkClassDef", fields={"markClass": Ref("C06_MarkClass"), "anchor": Ref("C06_Anchor"), "glyphName": STR},
    notes="feaLib ast.MarkClassDefinition(markClass, anchor, glyphs) for a single glyph name (assumed)")

NA = Ref("NamedAnchor")


def _markAnchorName(ex, st, self):
    # summary of the property NamedAnchor.markAnchorName, proved below against the real function
    return Val(STR, z3.Concat(z3.StringVal("_"), ex.read_field(st, self, "key").term))


cls(
    "NamedAnchor",
    fields={"name": STR, "x": INT, "y": INT, "isMark": BOOL, "key": STR, "number": Opt(INT), "markClass": Opt(Ref("C06_MarkClass")),
            "isContextual": BOOL, "isIgnorable": Union(STR, BOOL), "libData": Opt(Ref("C06_LibData"))},
    derived={"markAnchorName": _markAnchorName},
    views={"isIgnorable": lambda o: bool(o.isIgnorable), "markAnchorName": lambda o: o.markAnchorName},
    repo=W + "NamedAnchor",
)
cls("C06_LibData", dynamic=True, notes="per-anchor lib dict (only its presence matters here)")

contract(
    W + "NamedAnchor.markAnchorName",
    props=["C06"],
    params={"self": NA},
    returns=STR,
    ensures={"prefix-key": "result == '_' + self.key", "is-summary": "result == self.markAnchorName"},
    canaries={"is-key": "result == self.key"},
)

contract(
    W + "NamedAnchor.__init__",
    props=["C06"],
    params={"self": NA, "name": STR, "x": INT, "y": INT, "markClass": Const(None), "libData": Opt(Ref("C06_LibData"))},
    requires=["len(name) > 0"],
    modifies=["NamedAnchor.name", "NamedAnchor.x", "NamedAnchor.y", "NamedAnchor.isMark", "NamedAnchor.key", "NamedAnchor.number",
              "NamedAnchor.markClass", "NamedAnchor.isContextual", "NamedAnchor.isIgnorable", "NamedAnchor.libData"],
    ensures={
        "position": "self.name == name and self.x == x and self.y == y",
        "classified": "self.isMark == an_is_mark(name) and self.key == an_key(name) and self.number == an_number(name)",
        "flags": "self.isContextual == an_contextual(name) and iff(self.isIgnorable, an_ignorable(name))",
        "no-class-yet": "self.markClass is None",
        "component-index-from-1": "implies(self.number is not None, self.number >= 1)",
        "keyed-or-numbered": "self.number is not None or self.key != ''",
    },
    raises={
        "ValueError": "an_invalid(name) or (an_number(name) is not None and an_number(name) < 1)",
        "AssertionError": "not an_invalid(name) and an_number(name) is None and an_key(name) == ''",
    },
    canaries={"always-mark": "self.isMark"},
)

# ---------------------------------------------------------------------------------------------------------
# the writer's context: anchor lists (glyph -> NamedAnchor objects), mark classes, GDEF classes
cls("C06_Gdef", fields={"base": Opt(Set(STR)), "ligature": Opt(Set(STR)), "mark": Opt(Set(STR))},
    notes="ast._GDEFGlyphClasses namedtuple: base/ligature/mark glyph sets or None")
CLASSES["C06_Context"].fields.update({
    "anchorLists": Dict(STR, List(NA)),
    "anchorPairs": Dict(STR, STR),
    "markGlyphNames": Set(STR),
    "gdefClasses": Ref("C06_Gdef"),
    "markClasses": Dict(STR, Ref("C06_MarkClass")),
})
CLASSES["C06_Context"].views.update({
    "anchorLists": lambda o: {k: list(v) for k, v in o.anchorLists.items()},
    "markGlyphNames": lambda o: set(o.markGlyphNames),
})

AL = "self.context.anchorLists"
MC = "self.context.markClasses"
KEYS = f"list({AL})"


def _at(a, b):
    return f"{AL}[{KEYS}[{a}]][{b}]"


def _attaches(x):
    """the condition under which _setBaseAnchorMarkClasses gives anchor x a mark class"""
    return f"(not {x}.isMark and {x}.key != '' and {x}.key in {MC})"


contract(
    W + "MarkFeatureWriter._setBaseAnchorMarkClasses",
    props=["C06"],
    params={"self": Ref("C06_Writer")},
    modifies=["NamedAnchor.markClass"],
    ensures={
        # every non-mark anchor whose key has a registered mark class points to exactly that class
        "class-of-own-key": f"all(all(implies({_attaches(_at('a', 'b'))}, {_at('a', 'b')}.markClass == {MC}[{_at('a', 'b')}.key])"
        f" for b in range(len({AL}[{KEYS}[a]]))) for a in range(len({KEYS})))",
    },
    canaries={"every-anchor-has-a-class": f"all(all({_at('a', 'b')}.markClass is not None for b in range(len({AL}[{KEYS}[a]]))) for a in range(len({KEYS})))"},
    loops={
        "for anchors in self.context.anchorLists.values()": Loop(index="i", invariants={
            "done": f"all(all(implies({_attaches(_at('a', 'b'))}, {_at('a', 'b')}.markClass == {MC}[{_at('a', 'b')}.key])"
            f" for b in range(len({AL}[{KEYS}[a]]))) for a in range(i))",
        }),
        "for anchor in anchors": Loop(index="j", invariants={
            "done": f"all(all(implies({_attaches(_at('a', 'b'))}, {_at('a', 'b')}.markClass == {MC}[{_at('a', 'b')}.key])"
            f" for b in range(len({AL}[{KEYS}[a]]))) for a in range(i))",
            "cur": f"all(implies({_attaches('anchors[b]')}, anchors[b].markClass == {MC}[anchors[b].key]) for b in range(j))",
        }),
    },
)

# ---------------------------------------------------------------------------------------------------------
# attachment objects.  Inside the attachment builders an attachment is the immutable record (name, marks): the three
# classes share AbstractMarkPos.__init__, which is proved below to store exactly its two arguments, and none of the
# functions under contract mutates an attachment after construction (filter() builds new ones).
cls("C06_MarkPosObj", fields={"name": STR, "marks": List(NA)}, notes="an AbstractMarkPos instance while it is being initialised (heap view, used only for __init__)")
contract(
    W + "AbstractMarkPos.__init__",
    props=["C06"],
    params={"self": Ref("C06_MarkPosObj"), "name": STR, "marks": List(NA)},
    modifies=["C06_MarkPosObj.name", "C06_MarkPosObj.marks"],
    ensures={"stores-its-arguments": "self.name == name and self.marks == marks"},
    canaries={"empty": "len(self.marks) == 0"},
)
MARK2BASE = Named("MarkToBasePos", name=STR, marks=List(NA))
MARK2MARK = Named("MarkToMarkPos", name=STR, marks=List(NA))
MARK2LIGA = Named("MarkToLigaPos", name=STR, marks=List(List(NA)))


def _record_ctor(ty):
    def model(ex, st, args, kwargs, node):
        from pyvc.core import lift

        name, marks = args
        return Val(ty, ty.sort().mk(lift(name, STR), lift(marks, ty.items[1])))

    return model


for _t in (MARK2BASE, MARK2MARK, MARK2LIGA):
    trusted(
        "ufo2ft.featureWriters.markFeatureWriter." + _t.nm,
        "Cls(name, marks) is the record (name, marks) [abstraction of AbstractMarkPos.__init__, whose contract 'stores-its-arguments' is proved under C06; attachments are never mutated after construction]",
    )(_record_ctor(_t))

BASECLS = "self.context.gdefClasses.base"
MGN = "self.context.markGlyphNames"


def _base_glyph(g):
    """glyph g takes part in mark-to-base: not a mark glyph, and in GDEF base when GDEF classes are defined"""
    return f"({g} not in {MGN} and ({BASECLS} is None or {g} in {BASECLS}))"


def _base_anchor(x):
    """anchor x is emitted by mark-to-base: it has a mark class, no ligature number, is not contextual"""
    return f"({x}.markClass is not None and {x}.number is None and not {x}.isContextual)"


# (the contracts of _makeMarkToBaseAttachments are in contracts/c06base.py: one variant per clause group)


# ---------------------------------------------------------------------------------------------------------
# mark-to-ligature: marks[N-1] holds exactly the anchors numbered N; gaps and bare '_N' give empty (NULL) components
LIGCLS = "self.context.gdefClasses.ligature"


def _liga_glyph(g):
    return f"({g} not in {MGN} and ({LIGCLS} is None or {g} in {LIGCLS}))"


def _counted(x):
    """anchor x contributes a ligature component number: numbered, not contextual, and either bare ('_N') or with a mark class"""
    return f"(not ({x}.markClass is None and {x}.key != '') and {x}.number is not None and not {x}.isContextual)"


def _named(x):
    return f"({_counted(x)} and {x}.key != '')"


def _bare(x):
    return f"({_counted(x)} and {x}.key == '')"


_ALL_ANCHORS = "all(all({{body}} for b in range(len({AL}[{K}[a]]))) for a in range(len({K})))".format(AL=AL, K=KEYS)

# (the contracts of _makeMarkToLigaAttachments are in contracts/c06liga.py: one variant per clause group)


# ---------------------------------------------------------------------------------------------------------
# _getAnchorPairs: only anchors with a counterpart attach
def _m_complete(bound):
    return f"all(all(implies({_at('a', 'b')}.isMark, {_at('a', 'b')}.name in markAnchorNames) for b in range(len({AL}[{KEYS}[a]]))) for a in range({bound}))"


def _m_sound(bound):
    return f"all(any(any({_at('a', 'b')}.isMark and {_at('a', 'b')}.name == n for b in range(len({AL}[{KEYS}[a]]))) for a in range({bound})) for n in markAnchorNames)"


def _p_wit(bound):
    w = f"{AL}[{KEYS}[wa[k]]][wb[k]]"
    return (f"all(k in wa and k in wb and 0 <= wa[k] and {bound} and 0 <= wb[k] and wb[k] < len({AL}[{KEYS}[wa[k]]])"
            f" and not {w}.isMark and {w}.name == k and anchorPairs[k] == '_' + {w}.key for k in anchorPairs)")


def _p_complete(bound):
    x = _at("a", "b")
    return (f"all(all(implies(not {x}.isMark and ('_' + {x}.key) in markAnchorNames, {x}.name in anchorPairs and anchorPairs[{x}.name] == '_' + {x}.key)"
            f" for b in range(len({AL}[{KEYS}[a]]))) for a in range({bound}))")


def _some_mark_named(nm):
    return f"any(any({_at('a2', 'b2')}.isMark and {_at('a2', 'b2')}.name == {nm} for b2 in range(len({AL}[{KEYS}[a2]]))) for a2 in range(len({KEYS})))"


# (the contracts of _getAnchorPairs are in contracts/c06pairs.py: one variant per clause group)


# ---------------------------------------------------------------------------------------------------------
# mark class definitions: a differing anchor for an already-defined glyph opens a fresh class, never overwrites
from pyvc.core import lift  # noqa: E402
from pyvc.symex import FuncRef  # noqa: E402

MCR = Ref("C06_MarkClass")
CLASSES["C06_Anchor"].fields.update({"contourpoint": Opt(INT), "xDeviceTable": Opt(INT), "yDeviceTable": Opt(INT)})

@trusted("c06.ast.Anchor", "feaLib ast.Anchor(x=, y=) is a fresh anchor object with those coordinates and no contour point / device tables")
def _mk_anchor(ex, st, args, kwargs, node):
    o = ex.new_object(st, "C06_Anchor")
    ex.write_field(st, o, "x", kwargs["x"], node)
    ex.write_field(st, o, "y", kwargs["y"], node)
    for f in ("contourpoint", "xDeviceTable", "yDeviceTable"):
        ex.write_field(st, o, f, Val.const(None), node)
    return o

@trusted("c06.ast.MarkClass", "feaLib ast.MarkClass(name) is a fresh mark class with that name and no glyph definitions")
def _mk_mc(ex, st, args, kwargs, node):
    o = ex.new_object(st, "C06_MarkClass")
    ex.write_field(st, o, "name", args[0], node)
    ex.write_field(st, o, "glyphs", Val.const({}), node)
    return o

@trusted("c06.ast.GlyphName", "feaLib ast.GlyphName(name) stands for the glyph name (abstracted to the name itself)")
def _mk_gn(ex, st, args, kwargs, node):
    return args[0]

@trusted("c06.ast.MarkClassDefinition", "feaLib ast.MarkClassDefinition(markClass, anchor, glyphs) is a fresh definition object holding its three arguments")
def _mk_mcd(ex, st, args, kwargs, node):
    o = ex.new_object(st, "C06_MarkClassDef")
    for n, v in zip(("markClass", "anchor", "glyphName"), args):
        ex.write_field(st, o, n, v, node)
    return o

@trusted("c06.re.sub", "re.sub(<constant pattern>, <constant replacement>, s) is a function of s")
def _re_sub(ex, st, args, kwargs, node):
    from pyvc.ops import is_const
    assert is_const(args[0]) and is_const(args[1])
    f = z3.Function("c06_re_sub_%d" % (abs(hash((args[0].py, args[1].py))) % 10**8), z3.StringSort(), z3.StringSort())
    return Val(STR, f(lift(args[2], STR)))

def _addDefinition(ex, st, self, args, kwargs, node):
    """feaLib MarkClass.addDefinition: raises FeatureLibError when the glyph is already in the class, else glyphs[glyph] = definition"""
    from pyvc import models
    d = args[0]
    g = ex.read_field(st, d, "glyphName")
    cur = ex.read_field(st, self, "glyphs")
    ex.safety(st, z3.Not(z3.Select(cur.ty.sort().dom(cur.term), lift(g, STR))), "FeatureLibError", node)
    ex.write_field(st, self, "glyphs", models.set_item(ex, st, cur, g, d, node), node)
    return Val.const(None)
_addDefinition.modifies = ["C06_MarkClass.glyphs"]
CLASSES["C06_MarkClass"].methods["addDefinition"] = _addDefinition

import ufo2ft.featureWriters.ast as _uast
class _AstNS:
    Anchor = FuncRef(None, "c06.ast.Anchor")
    MarkClass = FuncRef(None, "c06.ast.MarkClass")
    GlyphName = FuncRef(None, "c06.ast.GlyphName")
    MarkClassDefinition = FuncRef(None, "c06.ast.MarkClassDefinition")
    makeFeaClassName = FuncRef(_uast.makeFeaClassName, "ufo2ft.featureWriters.ast.makeFeaClassName")
class _ReNS:
    sub = FuncRef(None, "c06.re.sub")

contract("ufo2ft.featureWriters.ast:makeFeaClassName", name="dict", props=["C06"], params={"name": STR, "existingClassNames": Dict(STR, MCR)}, returns=STR,
   globals={"re": _ReNS},
   ensures={"fresh": "result not in existingClassNames"}, canaries={"same": "result == name"}, locals={"i": INT, "name": STR})

AEQ = contract(W + "MarkFeatureWriter._anchorsAreEqual", props=["C06"], params={"a1": Ref("C06_Anchor"), "a2": Ref("C06_Anchor")}, returns=BOOL,
   ensures={"eq": "result == (a1.x == a2.x and a1.y == a2.y and a1.contourpoint == a2.contourpoint and a1.xDeviceTable == a2.xDeviceTable and a1.yDeviceTable == a2.yDeviceTable)"}, canaries={"t": "result"})
def _static_aeq(ex, st, self, args, kwargs, node):
    return ex.call_contract(AEQ, args, kwargs, st, node)
CLASSES["C06_Writer"].methods["_anchorsAreEqual"] = _static_aeq


_DMC = True
_CONFLICT = "(className in old(markClasses) and glyphName in old(markClasses[className].glyphs))"
_OLD_A = "old(markClasses[className].glyphs[glyphName].anchor.{f})"
_SAME = f"({_OLD_A.format(f='x')} == x and {_OLD_A.format(f='y')} == y and {_OLD_A.format(f='contourpoint')} is None and {_OLD_A.format(f='xDeviceTable')} is None and {_OLD_A.format(f='yDeviceTable')} is None)"

contract(
    W + "MarkFeatureWriter._defineMarkClass",
    props=["C06"] if _DMC else [],
    params={"self": Ref("C06_Writer"), "glyphName": STR, "x": INT, "y": INT, "className": STR, "markClasses": Dict(STR, MCR)},
    returns=Opt(Ref("C06_MarkClassDef")),
    modifies=["markClasses", "C06_MarkClass.glyphs"],
    globals={"ast": _AstNS},
    calls={"ufo2ft.featureWriters.ast:makeFeaClassName": "ufo2ft.featureWriters.ast:makeFeaClassName#dict"},
    merge_branches=False,
    # the registry is keyed by class name (feaFile.markClasses / the classes this function itself registers)
    requires=[
        "all(markClasses[n].name == n for n in markClasses)",
        # allocation: every object reachable from the registry exists before the call (so the objects created here are different ones)
        "all(not fresh(markClasses[n]) for n in markClasses)",
        "all(all(not fresh(markClasses[n].glyphs[g]) and not fresh(markClasses[n].glyphs[g].anchor) for g in markClasses[n].glyphs) for n in markClasses)",
    ],
    ensures={
        # nothing is (re)defined exactly when the glyph already has this very anchor in the class
        "none-iff-same-anchor-already-defined": f"iff(result is None, {_CONFLICT} and {_SAME})",
        # otherwise the glyph gets a definition at its own rounded anchor, registered in the class it names
        "defined-at-own-anchor": "implies(result is not None, result.anchor.x == x and result.anchor.y == y and result.glyphName == glyphName"
        " and glyphName in result.markClass.glyphs and result.markClass.glyphs[glyphName] == result)",
        "class-registered": "implies(result is not None, result.markClass.name in markClasses and markClasses[result.markClass.name] == result.markClass)",
        "own-class-unless-conflict": f"implies(result is not None and not {_CONFLICT}, result.markClass.name == className)",
        # a differing anchor opens a FRESH class (new name, holding only this glyph) ...
        "fresh-class-on-conflict": f"implies(result is not None and {_CONFLICT}, result.markClass.name not in old(markClasses) and len(result.markClass.glyphs) == 1)",
        # ... and never overwrites: every registered class stays registered, and the class at className keeps every definition it had
        "registry-only-grows": "all(n in markClasses and markClasses[n] == old(markClasses)[n] for n in old(markClasses))",
        "existing-definitions-kept": "implies(className in old(markClasses), all(g in markClasses[className].glyphs and markClasses[className].glyphs[g] == old(markClasses[className].glyphs)[g]"
        " for g in old(markClasses[className].glyphs)))",
        "names-stay-keys": "all(markClasses[n].name == n for n in markClasses)",
    },
    canaries={"always-defines": "result is not None"},
)


# ---------------------------------------------------------------------------------------------------------
# composition: what the GPOS offset of a matching pair is, given the per-function clauses above (MarkBasePos / MarkLigPos /
# MarkMarkPos place the mark so that its anchor lands on the base anchor: offset = base anchor - mark anchor, OpenType spec)
lemma(
    "C06.lemma.coincide",
    props=["C06"],
    vars={"bx": REAL, "mx": REAL, "q": INT, "B": INT, "M": INT, "kb": INT, "km": INT},
    hyps=[
        "q >= 1",
        # _getAnchor#static for the base anchor and for the mark anchor (own coordinates, nearest multiple, ties upwards)
        "B == q * kb and 2 * (B - bx) <= q and 2 * (bx - B) < q",
        "M == q * km and 2 * (M - mx) <= q and 2 * (mx - M) < q",
    ],
    concl={
        # the offset is the difference of the two quantised anchors: a multiple of the step, less than one step away from the true offset
        "offset-is-multiple": "B - M == q * (kb - km)",
        "offset-near-true-offset": "(B - M) - (bx - mx) < q and (bx - mx) - (B - M) < q",
        # with integer anchors and the default step the anchors coincide exactly
        "exact-when-unquantised": "implies(q == 1 and bx == kb and mx == km, B - M == bx - mx)",
    },
    canaries={"always-exact": "B - M == bx - mx"},
)


# =========================================================================================================
# run-time side: real inputs for the cross-check / replay of every contract above
import itertools  # noqa: E402
from types import SimpleNamespace  # noqa: E402

_COORDS = [0, 0.4, 4.5, 5, 14.6, 95, 104.6, 104.5, 105, 250.4, -45.4, -5.5, 700.5, 704.5, 333.3, -0.5, 0.5]
_STEPS = [1, 2, 5, 10, 20, 3]


def _quant_cases(rng, n):
    cases = [{"number": v, "factor": q} for v in _COORDS for q in _STEPS]
    rng.shuffle(cases)
    return cases[:n]


CONTRACTS["ufo2ft.util:quantize#int"].runtime = Runtime(_quant_cases, lambda d: dict(d))
CONTRACTS["ufo2ft.util:otRoundIgnoringVariable"].runtime = Runtime(lambda rng, n: [{"number": v} for v in _COORDS][:n], lambda d: dict(d))


def _color_cases(rng, n):
    out = [{"colors": list(c)} for k in range(0, 4) for c in itertools.combinations(range(5), k)]
    return out[:n]


CONTRACTS[W + "firstAvailable"].runtime = Runtime(_color_cases, lambda d: {"colorSet": set(d["colors"])})


def _anchor_cases(rng, n):
    cases = [{"x": x, "y": y, "q": q} for q in _STEPS for x, y in zip(_COORDS, reversed(_COORDS))]
    rng.shuffle(cases)
    return cases[:n]


def _anchor_build(d):
    from ufo2ft.featureWriters import MarkFeatureWriter

    w = MarkFeatureWriter(quantization=d["q"])
    w.context = SimpleNamespace(isVariable=False, font=None)
    return {"self": w, "glyphName": "a", "anchorName": "top", "anchor": SimpleNamespace(name="top", x=d["x"], y=d["y"], identifier=None)}


CONTRACTS["ufo2ft.featureWriters.baseFeatureWriter:BaseFeatureWriter._getAnchor#static"].runtime = Runtime(
    _anchor_cases, _anchor_build, call=lambda fn, a: fn(a["self"], a["glyphName"], a["anchorName"], anchor=a["anchor"])
)


def _name_cases(rng, n):
    names = ["".join(t) for k in (1, 2, 3, 4) for t in itertools.product(c06rt.ALPHABET, repeat=k)]
    rng.shuffle(names)
    fixed = ["top", "_top", "top_1", "top_3", "_1", "_12", "_top_1", "_", "*", "*.x", "*top", "top_0", "top.alt_2", "1", "_1a"]
    return [{"name": s} for s in fixed + names][:n]


def _name_build(d):
    from ufo2ft.featureWriters.markFeatureWriter import NamedAnchor

    return {"self": NamedAnchor.__new__(NamedAnchor), "name": d["name"], "x": 10, "y": -20, "libData": None}


CONTRACTS[W + "NamedAnchor.__init__"].runtime = Runtime(_name_cases, _name_build, call=lambda fn, a: fn(a["self"], a["name"], a["x"], a["y"], libData=a["libData"]))


def _prop_build(d):
    from ufo2ft.featureWriters.markFeatureWriter import NamedAnchor

    try:
        return {"self": NamedAnchor(d["name"], 0, 0)}
    except (ValueError, AssertionError):
        return {"self": NamedAnchor("top", 0, 0)}


CONTRACTS[W + "NamedAnchor.markAnchorName"].runtime = Runtime(_name_cases, _prop_build, call=lambda fn, a: fn.fget(a["self"]) if isinstance(fn, property) else fn(a["self"]))


def _pos_build(d):
    from ufo2ft.featureWriters.markFeatureWriter import MarkToBasePos, NamedAnchor

    return {"self": MarkToBasePos.__new__(MarkToBasePos), "name": d["name"], "marks": [NamedAnchor("top", i, i) for i in range(d["n"])]}


CONTRACTS[W + "AbstractMarkPos.__init__"].runtime = Runtime(
    lambda rng, n: [{"name": "a", "n": k} for k in range(3)][:n], _pos_build, call=lambda fn, a: fn(a["self"], a["name"], a["marks"])
)

for _fn, _stage in (("_setBaseAnchorMarkClasses", "classes"),):
    CONTRACTS[W + "MarkFeatureWriter." + _fn].runtime = Runtime(
        c06rt.stage_cases, (lambda st: (lambda d: {"self": c06rt.writer_at(d, st)}))(_stage), call=lambda fn, a: fn(a["self"])
    )

# replay entry points of the bounded observer / grouping harness (not part of any property's obligations: props=[];
# they exist so that `./check replay out/C06/replay/observer.gpos-offsets.json` re-runs the failing font)
contract("contracts.c06rt:observe_case", props=[], params={}, ensures={"conforms": "len(result) == 0"},
         runtime=Runtime(c06rt.observer_cases, lambda d: {"desc": d}))
contract("contracts.c06rt:group_attachments_check", props=[], params={}, ensures={"conforms": "len(result) == 0"},
         runtime=Runtime(c06rt.observer_cases, lambda d: {"desc": d}))
