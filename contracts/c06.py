"""C06 — generated mark features make matching anchors coincide."""
import z3

from pyvc.core import Val
from pyvc.api import BOOL, INT, REAL, STR, CONTRACTS, CLASSES, Const, Dict, List, Loop, Map, Named, Opt, Ref, Runtime, Set, Tuple, Union, cls, contract, lemma, specfn, trusted

@specfn(BOOL, a=INT, f=INT)
def is_multiple(a, f):
    """a is an integer multiple of the positive step f"""
    return any(a == f * k for k in range(-abs(a), abs(a) + 1))


contract(
    "ufo2ft.util:quantize",
    name="int",  # (contracts/c05.py has its own variant of this function, typed for kerning values)
    props=["C06"],
    params={"number": REAL, "factor": INT},
    returns=INT,
    requires=["factor >= 1"],
    ensures={
        "multiple": "is_multiple(result, factor)",
        "nearest": "2 * (result - number) <= factor and 2 * (number - result) < factor",
    },
    canaries={"floor": "result <= number"},
)

contract(
    "ufo2ft.util:otRoundIgnoringVariable",
    props=["C06"],
    params={"number": REAL},
    returns=INT,
    ensures={"nearest": "2 * (result - number) <= 1 and 2 * (number - result) < 1"},
    canaries={"floor": "result <= number"},
)

contract(
    "ufo2ft.featureWriters.markFeatureWriter:firstAvailable",
    props=["C06"],
    params={"colorSet": Set(INT)},
    returns=INT,
    ensures={
        "free": "result not in colorSet",
        "smallest": "result >= 0 and all(k in colorSet for k in range(result))",
    },
    canaries={"zero": "result == 0"},
    loops={"while True": Loop(invariants={"ge0": "count >= 0", "below": "all(k in colorSet for k in range(count))"})},
    locals={"count": INT},
)

# ---------------------------------------------------------------------------------------------------------
cls("C06_UFOAnchor", fields={"name": Opt(STR), "x": REAL, "y": REAL, "identifier": Opt(STR)}, notes="UFO anchor object (ufoLib2/defcon): name, x, y, identifier (assumed attribute bag)")
cls("C06_Options", fields={"quantization": INT, "groupMarkClasses": BOOL},
    notes="self.options of a MarkFeatureWriter: SimpleNamespace built from the class-level defaults {quantization, groupMarkClasses} overridden by constructor keywords")
cls("C06_Context", fields={"isVariable": BOOL}, dynamic=True, notes="self.context namespace of the writer")
cls("C06_Writer", fields={"options": Ref("C06_Options"), "context": Ref("C06_Context")},
    repo="ufo2ft.featureWriters.markFeatureWriter:MarkFeatureWriter")

contract(
    "ufo2ft.featureWriters.baseFeatureWriter:BaseFeatureWriter._getAnchor",
    name="static",
    props=["C06"],
    calls={"ufo2ft.util:quantize": "ufo2ft.util:quantize#int"},
    params={"self": Ref("C06_Writer"), "glyphName": STR, "anchorName": STR, "anchor": Opt(Ref("C06_UFOAnchor"))},
    returns=Tuple(INT, INT),
    requires=["not self.context.isVariable", "anchor is not None", "self.options.quantization >= 1"],
    ensures={
        "x-multiple": "is_multiple(result[0], self.options.quantization)",
        "x-nearest-own": "2 * (result[0] - anchor.x) <= self.options.quantization and 2 * (anchor.x - result[0]) < self.options.quantization",
        "y-multiple": "is_multiple(result[1], self.options.quantization)",
        "y-nearest-own": "2 * (result[1] - anchor.y) <= self.options.quantization and 2 * (anchor.y - result[1]) < self.options.quantization",
    },
    canaries={"x-is-own": "result[0] == anchor.x"},
)


# ---------------------------------------------------------------------------------------------------------
# anchor-name grammar: parseAnchorName is regex/str.rstrip code (outside the SMT subset).  Its contract below is a
# SUMMARY in terms of opaque spec functions; it is discharged by exhaustive enumeration through the real function in
# vcheck/hooks/c06.py (bounded), never by the solver.  NamedAnchor.__init__ is verified against this summary.
from . import c06rt  # noqa: E402


@specfn(BOOL, opaque=True, s=STR)
def an_invalid(s):
    """the anchor name is rejected (numbered mark anchor, or a mark anchor with an empty key)"""
    try:
        c06rt.ref_parse(s)
    except c06rt.Invalid:
        return True
    return False


@specfn(BOOL, opaque=True, s=STR)
def an_is_mark(s):
    return c06rt.ref_parse(s)[0]


@specfn(STR, opaque=True, s=STR)
def an_key(s):
    return c06rt.ref_parse(s)[1]


@specfn(Opt(INT), opaque=True, s=STR)
def an_number(s):
    return c06rt.ref_parse(s)[2]


@specfn(BOOL, opaque=True, s=STR)
def an_contextual(s):
    return c06rt.ref_parse(s)[3]


@specfn(BOOL, opaque=True, s=STR)
def an_ignorable(s):
    return bool(c06rt.ref_parse(s)[4])


W = "ufo2ft.featureWriters.markFeatureWriter:"

PARSE = contract(
    W + "parseAnchorName",
    props=[],  # summary only: see vcheck/hooks/c06.py (bounded, exhaustive over a small alphabet)
    params={"anchorName": STR, "markPrefix": Const("_"), "ligaSeparator": Const("_"), "ignoreRE": Const(None)},
    returns=Tuple(BOOL, STR, Opt(INT), BOOL, BOOL),
    requires=["len(anchorName) > 0"],
    ensures={
        "isMark": "result[0] == an_is_mark(anchorName)",
        "key": "result[1] == an_key(anchorName)",
        "number": "result[2] == an_number(anchorName)",
        "isContextual": "result[3] == an_contextual(anchorName)",
        "isIgnorable": "result[4] == an_ignorable(anchorName)",
    },
    raises={"ValueError": "an_invalid(anchorName)"},
    notes="bounded: discharged by enumeration, not by the solver",
)

cls("C06_MarkClass", fields={"name": STR, "glyphs": Dict(STR, Ref("C06_MarkClassDef"))},
    notes="feaLib ast.MarkClass: name, glyphs (glyph name -> MarkClassDefinition) (assumed)")
cls("C06_Anchor", fields={"x": INT, "y": INT}, notes="feaLib ast.Anchor(x, y) with no contour point / device tables (assumed)")
cls("C06_MarkClassDef", fields={"markClass": Ref("C06_MarkClass"), "anchor": Ref("C06_Anchor"), "glyphName": STR},
    notes="feaLib ast.MarkClassDefinition(markClass, anchor, glyphs) for a single glyph name (assumed)")

NA = Ref("NamedAnchor")


def _markAnchorName(ex, st, self):
    # summary of the property NamedAnchor.markAnchorName, proved below against the real function
    return Val(STR, z3.Concat(z3.StringVal("_"), ex.read_field(st, self, "key").term))


cls(
    "NamedAnchor",
    fields={"name": STR, "x": INT, "y": INT, "isMark": BOOL, "key": STR, "number": Opt(INT), "markClass": Opt(Ref("C06_MarkClass")),
            "isContextual": BOOL, "isIgnorable": BOOL, "libData": Opt(Ref("C06_LibData"))},
    derived={"markAnchorName": _markAnchorName},
    views={"isIgnorable": lambda o: bool(o.isIgnorable), "markAnchorName": lambda o: o.markAnchorName},
    repo=W + "NamedAnchor",
)
cls("C06_LibData", dynamic=True, notes="per-anchor lib dict (only its presence matters here)")

contract(
    W + "NamedAnchor.markAnchorName",
    props=["C06"],
    params={"self": NA},
    returns=STR,
    ensures={"prefix-key": "result == '_' + self.key", "is-summary": "result == self.markAnchorName"},
    canaries={"is-key": "result == self.key"},
)

contract(
    W + "NamedAnchor.__init__",
    props=["C06"],
    params={"self": NA, "name": STR, "x": INT, "y": INT, "markClass": Const(None), "libData": Opt(Ref("C06_LibData"))},
    requires=["len(name) > 0"],
    modifies=["NamedAnchor.name", "NamedAnchor.x", "NamedAnchor.y", "NamedAnchor.isMark", "NamedAnchor.key", "NamedAnchor.number",
              "NamedAnchor.markClass", "NamedAnchor.isContextual", "NamedAnchor.isIgnorable", "NamedAnchor.libData"],
    ensures={
        "position": "self.name == name and self.x == x and self.y == y",
        "classified": "self.isMark == an_is_mark(name) and self.key == an_key(name) and self.number == an_number(name)",
        "flags": "self.isContextual == an_contextual(name) and self.isIgnorable == an_ignorable(name)",
        "no-class-yet": "self.markClass is None",
        "component-index-from-1": "implies(self.number is not None, self.number >= 1)",
        "keyed-or-numbered": "self.number is not None or self.key != ''",
    },
    raises={
        "ValueError": "an_invalid(name) or (an_number(name) is not None and an_number(name) < 1)",
        "AssertionError": "not an_invalid(name) and an_number(name) is None and an_key(name) == ''",
    },
    canaries={"always-mark": "self.isMark"},
)

# ---------------------------------------------------------------------------------------------------------
# the writer's context: anchor lists (glyph -> NamedAnchor objects), mark classes, GDEF classes
cls("C06_Gdef", fields={"base": Opt(Set(STR)), "ligature": Opt(Set(STR)), "mark": Opt(Set(STR))},
    notes="ast._GDEFGlyphClasses namedtuple: base/ligature/mark glyph sets or None")
CLASSES["C06_Context"].fields.update({
    "anchorLists": Dict(STR, List(NA)),
    "anchorPairs": Dict(STR, STR),
    "markGlyphNames": Set(STR),
    "gdefClasses": Ref("C06_Gdef"),
    "markClasses": Dict(STR, Ref("C06_MarkClass")),
})
CLASSES["C06_Context"].views.update({
    "anchorLists": lambda o: {k: list(v) for k, v in o.anchorLists.items()},
    "markGlyphNames": lambda o: set(o.markGlyphNames),
})

AL = "self.context.anchorLists"
MC = "self.context.markClasses"
KEYS = f"list({AL})"


def _at(a, b):
    return f"{AL}[{KEYS}[{a}]][{b}]"


def _attaches(x):
    """the condition under which _setBaseAnchorMarkClasses gives anchor x a mark class"""
    return f"(not {x}.isMark and {x}.key != '' and {x}.key in {MC})"


contract(
    W + "MarkFeatureWriter._setBaseAnchorMarkClasses",
    props=["C06"],
    params={"self": Ref("C06_Writer")},
    modifies=["NamedAnchor.markClass"],
    ensures={
        # every non-mark anchor whose key has a registered mark class points to exactly that class
        "class-of-own-key": f"all(all(implies({_attaches(_at('a', 'b'))}, {_at('a', 'b')}.markClass == {MC}[{_at('a', 'b')}.key])"
        f" for b in range(len({AL}[{KEYS}[a]]))) for a in range(len({KEYS})))",
    },
    canaries={"every-anchor-has-a-class": f"all(all({_at('a', 'b')}.markClass is not None for b in range(len({AL}[{KEYS}[a]]))) for a in range(len({KEYS})))"},
    loops={
        "for anchors in self.context.anchorLists.values()": Loop(index="i", invariants={
            "done": f"all(all(implies({_attaches(_at('a', 'b'))}, {_at('a', 'b')}.markClass == {MC}[{_at('a', 'b')}.key])"
            f" for b in range(len({AL}[{KEYS}[a]]))) for a in range(i))",
        }),
        "for anchor in anchors": Loop(index="j", invariants={
            "done": f"all(all(implies({_attaches(_at('a', 'b'))}, {_at('a', 'b')}.markClass == {MC}[{_at('a', 'b')}.key])"
            f" for b in range(len({AL}[{KEYS}[a]]))) for a in range(i))",
            "cur": f"all(implies({_attaches('anchors[b]')}, anchors[b].markClass == {MC}[anchors[b].key]) for b in range(j))",
        }),
    },
)

# ---------------------------------------------------------------------------------------------------------
# attachment objects.  Inside the attachment builders an attachment is the immutable record (name, marks): the three
# classes share AbstractMarkPos.__init__, which is proved below to store exactly its two arguments, and none of the
# functions under contract mutates an attachment after construction (filter() builds new ones).
cls("C06_MarkPosObj", fields={"name": STR, "marks": List(NA)}, notes="an AbstractMarkPos instance while it is being initialised (heap view, used only for __init__)")
contract(
    W + "AbstractMarkPos.__init__",
    props=["C06"],
    params={"self": Ref("C06_MarkPosObj"), "name": STR, "marks": List(NA)},
    modifies=["C06_MarkPosObj.name", "C06_MarkPosObj.marks"],
    ensures={"stores-its-arguments": "self.name == name and self.marks == marks"},
    canaries={"empty": "len(self.marks) == 0"},
)
MARK2BASE = Named("MarkToBasePos", name=STR, marks=List(NA))
MARK2MARK = Named("MarkToMarkPos", name=STR, marks=List(NA))
MARK2LIGA = Named("MarkToLigaPos", name=STR, marks=List(List(NA)))


def _record_ctor(ty):
    def model(ex, st, args, kwargs, node):
        from pyvc.core import lift

        name, marks = args
        return Val(ty, ty.sort().mk(lift(name, STR), lift(marks, ty.items[1])))

    return model


for _t in (MARK2BASE, MARK2MARK, MARK2LIGA):
    trusted(
        "ufo2ft.featureWriters.markFeatureWriter." + _t.nm,
        "Cls(name, marks) is the record (name, marks) [abstraction of AbstractMarkPos.__init__, whose contract 'stores-its-arguments' is proved under C06; attachments are never mutated after construction]",
    )(_record_ctor(_t))

BASECLS = "self.context.gdefClasses.base"
MGN = "self.context.markGlyphNames"


def _base_glyph(g):
    """glyph g takes part in mark-to-base: not a mark glyph, and in GDEF base when GDEF classes are defined"""
    return f"({g} not in {MGN} and ({BASECLS} is None or {g} in {BASECLS}))"


def _base_anchor(x):
    """anchor x is emitted by mark-to-base: it has a mark class, no ligature number, is not contextual"""
    return f"({x}.markClass is not None and {x}.number is None and not {x}.isContextual)"


_B_SOUND = (
    "all(0 <= src[k] and src[k] < {bound} and result[k].name == {K}[src[k]] and {elig} and len(result[k].marks) > 0"
    " and len(sels[k]) == len(result[k].marks)"
    " and all(0 <= sels[k][m] and sels[k][m] < len({AL}[{K}[src[k]]]) and result[k].marks[m] == {AL}[{K}[src[k]]][sels[k][m]]"
    " and {anch} and (m == 0 or sels[k][m - 1] < sels[k][m]) for m in range(len(sels[k])))"
    " for k in range(len(result)))"
)


def _b_sound(bound):
    return _B_SOUND.format(bound=bound, K=KEYS, AL=AL, elig=_base_glyph(f"{KEYS}[src[k]]"), anch=_base_anchor("result[k].marks[m]"))


_B_ORDER = "len(src) == len(result) and len(sels) == len(result) and all(all(implies(k1 < k2, src[k1] < src[k2]) for k2 in range(len(src))) for k1 in range(len(src)))"
# every eligible (glyph, anchor) position is in the output: pos[a] = index of glyph a's statement, mpos[a][b] = index of anchor b in it
_B_COMPLETE = (
    "all(implies({elig}, all(implies({anch}, a in pos and 0 <= pos[a] and pos[a] < len(result) and src[pos[a]] == a"
    " and a in mpos and b in mpos[a] and 0 <= mpos[a][b] and mpos[a][b] < len(sels[pos[a]]) and sels[pos[a]][mpos[a][b]] == b)"
    " for b in range(len({AL}[{K}[a]])))) for a in range({bound}))"
)


def _b_complete(bound):
    return _B_COMPLETE.format(bound=bound, K=KEYS, AL=AL, elig=_base_glyph(f"{KEYS}[a]"), anch=_base_anchor(_at("a", "b")))


contract(
    W + "MarkFeatureWriter._makeMarkToBaseAttachments",
    props=["C06"],
    params={"self": Ref("C06_Writer")},
    returns=List(MARK2BASE),
    # anchors that carry a mark class are never mark anchors: _setBaseAnchorMarkClasses assigns classes to non-mark anchors only
    # and NamedAnchor.__init__ starts with markClass None (both proved above); the code asserts it
    requires=[f"all(all(implies({_at('a', 'b')}.markClass is not None, not {_at('a', 'b')}.isMark) for b in range(len({AL}[{KEYS}[a]]))) for a in range(len({KEYS})))"],
    ensures={
        # every statement is for an eligible glyph and lists, in source order, anchors of that glyph that have a mark class,
        # no component number and no context: nothing else attaches
        "only-eligible": f"all(result[k].name in {AL} and {_base_glyph('result[k].name')} and len(result[k].marks) > 0"
        f" and all({_base_anchor('result[k].marks[m]')} and any(result[k].marks[m] == {AL}[result[k].name][b] for b in range(len({AL}[result[k].name])))"
        " for m in range(len(result[k].marks))) for k in range(len(result)))",
        "one-statement-per-glyph": "all(all(implies(k1 != k2, result[k1].name != result[k2].name) for k2 in range(len(result))) for k1 in range(len(result)))",
        # and every such anchor of every eligible glyph is in the glyph's statement
        "all-eligible": f"all(implies({_base_glyph(KEYS + '[a]')}, all(implies({_base_anchor(_at('a', 'b'))},"
        f" any(result[k].name == {KEYS}[a] and any(result[k].marks[m] == {_at('a', 'b')} for m in range(len(result[k].marks))) for k in range(len(result))))"
        f" for b in range(len({AL}[{KEYS}[a]])))) for a in range(len({KEYS})))",
    },
    canaries={"never-empty": "len(result) > 0"},
    locals={"result": List(MARK2BASE), "baseMarks": List(NA), "rb0": List(MARK2BASE)},
    hints={"result.append(MarkToBasePos(glyphName, baseMarks))": [
        "len(result) == len(rb0) + 1 and result[len(rb0)].name == glyphName and result[len(rb0)].marks == baseMarks",
        "all(result[k] == rb0[k] for k in range(len(rb0)))",
    ]},
    ghost_vars={
        "rb0": (List(MARK2BASE), "[]"),
        "src": (List(INT), "[]"), "sels": (List(List(INT)), "[]"), "sel": (List(INT), "[]"),
        "pos": (Dict(INT, INT), "{}"), "mpos": (Dict(INT, Dict(INT, INT)), "{}"), "mp": (Dict(INT, INT), "{}"),
    },
    ghost={
        "baseMarks = []": ["sel = []", "mp = {}", "rb0 = result + []"],
        "baseMarks.append(anchor)": ["mp = {**mp, j: len(sel)}", "sel = sel + [j]"],
        "result.append(MarkToBasePos(glyphName, baseMarks))": ["pos = {**pos, i: len(src)}", "mpos = {**mpos, i: mp}", "src = src + [i]", "sels = sels + [sel]"],
    },
    loops={
        "for (glyphName, anchors) in self.context.anchorLists.items()": Loop(index="i", invariants={
            "sound": _b_sound("i"),
            "order": _B_ORDER,
            "complete": _b_complete("i"),
        }),
        "for anchor in anchors": Loop(index="j", invariants={
            "sel": "len(sel) == len(baseMarks) and all(0 <= sel[m] and sel[m] < j and baseMarks[m] == anchors[sel[m]] and "
            + _base_anchor("baseMarks[m]") + " and (m == 0 or sel[m - 1] < sel[m]) for m in range(len(sel)))",
            "mp": "all(implies(" + _base_anchor("anchors[b]") + ", b in mp and 0 <= mp[b] and mp[b] < len(sel) and sel[mp[b]] == b) for b in range(j))",
        }),
    },
)


# ---------------------------------------------------------------------------------------------------------
# mark-to-ligature: marks[N-1] holds exactly the anchors numbered N; gaps and bare '_N' give empty (NULL) components
LIGCLS = "self.context.gdefClasses.ligature"


def _liga_glyph(g):
    return f"({g} not in {MGN} and ({LIGCLS} is None or {g} in {LIGCLS}))"


def _counted(x):
    """anchor x contributes a ligature component number: numbered, not contextual, and either bare ('_N') or with a mark class"""
    return f"(not ({x}.markClass is None and {x}.key != '') and {x}.number is not None and not {x}.isContextual)"


def _named(x):
    return f"({_counted(x)} and {x}.key != '')"


def _bare(x):
    return f"({_counted(x)} and {x}.key == '')"


def _l_inner(j):
    return {
        "keys": "all(n in kw and n in kpos and n >= 1 for n in componentAnchors) and all(n in componentAnchors for n in kpos)",
        "key-position": "all(0 <= kpos[n] and kpos[n] < len(list(componentAnchors)) and list(componentAnchors)[kpos[n]] == n for n in componentAnchors)",
        "elem-prop": "all(all(" + _named("componentAnchors[n][m]") + " and componentAnchors[n][m].number == n for m in range(len(componentAnchors[n]))) for n in componentAnchors)",
        "elem-src": "all(all(any(componentAnchors[n][m] == anchors[b] for b in range(" + j + ")) for m in range(len(componentAnchors[n]))) for n in componentAnchors)",
        "counted-in": "all(implies(" + _counted("anchors[b]") + f", (anchors[b].number + 0) in componentAnchors) for b in range({j}))",
        "key-witness": f"all(0 <= kw[n] and kw[n] < {j} and " + _counted("anchors[kw[n]]") + " and anchors[kw[n]].number == n for n in componentAnchors)",
    }


_L_INNER = _l_inner("j")
# explicit frame of the two dict updates (snapshot ca0 taken at `number = anchor.number`), proved inside each branch
_KP1 = _l_inner("j + 1")["key-position"]
_L_FRAME = ["all(implies(n != number, n in componentAnchors and componentAnchors[n] == ca0[n]) for n in ca0)",
            "all(n in ca0 or n == number for n in componentAnchors)"]
# (the case split on "was the key already present" is spelled out: the solvers do not find it under the dict update's ite)
_L_KP = ["implies((number + 0) in ca0, " + _KP1 + ")",
         "implies((number + 0) not in ca0, len(list(componentAnchors)) == len(list(ca0)) + 1 and list(componentAnchors)[len(list(ca0))] == number)",
         "implies((number + 0) not in ca0, all(list(componentAnchors)[kpos[n]] == n for n in ca0))",
         "implies((number + 0) not in ca0, " + _KP1 + ")", _KP1]
_L_HINTS_BARE = _L_FRAME + ["(number + 0) in componentAnchors and len(componentAnchors[number]) == 0"] + _L_KP
_L_HINTS_APP = _L_FRAME + ["(number + 0) in componentAnchors and componentAnchors[number] == (ca0[number] if (number + 0) in ca0 else []) + [anchor]"] + _L_KP + [
    "implies((number + 0) not in ca0, len(componentAnchors[number]) == 1 and componentAnchors[number][0] == anchor)",
    "implies((number + 0) in ca0, len(componentAnchors[number]) == len(ca0[number]) + 1 and componentAnchors[number][len(ca0[number])] == anchor"
    " and all(componentAnchors[number][m] == ca0[number][m] for m in range(len(ca0[number]))))",
    "all(" + _named("componentAnchors[number][m]") + " and componentAnchors[number][m].number == number for m in range(len(componentAnchors[number])))",
    "all(any(componentAnchors[number][m] == anchors[b] for b in range(j + 1)) for m in range(len(componentAnchors[number])))",
]

def _l_sound(bound):
    K = KEYS
    return {
        "sound-glyph": f"all(0 <= src[k] and src[k] < {bound} and result[k].name == {K}[src[k]] and {_liga_glyph(K + '[src[k]]')} and len(result[k].marks) >= 1 for k in range(len(result)))",
        "sound-number": "all(all(all(" + _named("result[k].marks[n][m]") + " and result[k].marks[n][m].number == n + 1"
        " for m in range(len(result[k].marks[n]))) for n in range(len(result[k].marks))) for k in range(len(result)))",
        "sound-source": f"all(all(all(any(result[k].marks[n][m] == {AL}[{K}[src[k]]][b] for b in range(len({AL}[{K}[src[k]]])))"
        " for m in range(len(result[k].marks[n]))) for n in range(len(result[k].marks))) for k in range(len(result)))",
    }


_L_COUNT = (
    "all(all(implies({counted}, {AL}[{K}[src[k]]][b].number <= len(result[k].marks)) for b in range(len({AL}[{K}[src[k]]])))"
    " and 0 <= cw[k] and cw[k] < len({AL}[{K}[src[k]]]) and {cwc} and {AL}[{K}[src[k]]][cw[k]].number == len(result[k].marks)"
    " for k in range(len(result)))"
).format(K=KEYS, AL=AL, counted=_counted(f"{AL}[{KEYS}[src[k]]][b]"), cwc=_counted(f"{AL}[{KEYS}[src[k]]][cw[k]]"))
_L_ORDER = "len(src) == len(result) and len(cw) == len(result) and all(all(implies(k1 < k2, src[k1] < src[k2]) for k2 in range(len(src))) for k1 in range(len(src)))"

_ALL_ANCHORS = "all(all({{body}} for b in range(len({AL}[{K}[a]]))) for a in range(len({K})))".format(AL=AL, K=KEYS)

contract(
    W + "MarkFeatureWriter._makeMarkToLigaAttachments",
    props=["C06"],
    params={"self": Ref("C06_Writer")},
    returns=List(MARK2LIGA),
    requires=[
        # class invariants of NamedAnchor (NamedAnchor.__init__ 'component-index-from-1'; a mark anchor has a non-empty key: parseAnchorName,
        # bounded clause 'mark-has-key'); anchors with a mark class are not mark anchors (_setBaseAnchorMarkClasses only touches non-mark anchors)
        _ALL_ANCHORS.format(body=f"implies({_at('a', 'b')}.number is not None, {_at('a', 'b')}.number >= 1)"),
        _ALL_ANCHORS.format(body=f"implies({_at('a', 'b')}.isMark, {_at('a', 'b')}.key != '' and {_at('a', 'b')}.markClass is None)"),
    ],
    ensures={
        "one-statement-per-eligible-glyph": f"all(result[k].name in {AL} and {_liga_glyph('result[k].name')} for k in range(len(result)))"
        " and all(all(implies(k1 != k2, result[k1].name != result[k2].name) for k2 in range(len(result))) for k1 in range(len(result)))",
        # marks[N-1] holds only anchors of that glyph numbered N (that have a mark class and are not contextual)
        "component-N-holds-anchors-numbered-N": f"all(all(all(result[k].marks[n][m].number == n + 1 and {_named('result[k].marks[n][m]')}"
        f" and any(result[k].marks[n][m] == {AL}[result[k].name][b] for b in range(len({AL}[result[k].name])))"
        " for m in range(len(result[k].marks[n]))) for n in range(len(result[k].marks))) for k in range(len(result)))",
        # the component count is the largest component number in the glyph (missing numbers are kept as empty components)
        "component-count-preserved": f"all(len(result[k].marks) >= 1 and all(implies({_counted(AL + '[result[k].name][b]')}, {AL}[result[k].name][b].number <= len(result[k].marks))"
        f" for b in range(len({AL}[result[k].name]))) and any({_counted(AL + '[result[k].name][b]')} and {AL}[result[k].name][b].number == len(result[k].marks)"
        f" for b in range(len({AL}[result[k].name]))) for k in range(len(result)))",
    },
    canaries={"never-empty": "len(result) > 0"},
    locals={"result": List(MARK2LIGA), "componentAnchors": Dict(INT, List(NA)), "ligatureMarks": List(List(NA)),
            "kw": Dict(INT, INT), "kpos": Dict(INT, INT), "ca0": Dict(INT, List(NA)), "r0": List(MARK2LIGA)},
    ghost_vars={
        "r0": (List(MARK2LIGA), "[]"),
        "src": (List(INT), "[]"), "cw": (List(INT), "[]"), "kw": (Dict(INT, INT), "{}"), "kpos": (Dict(INT, INT), "{}"), "ca0": (Dict(INT, List(NA)), "{}"),
    },
    ghost={
        "componentAnchors = {}": ["kw = {}", "kpos = {}"],
        "number = anchor.number": ["ca0 = {**componentAnchors}"],
        "ligatureMarks = []": ["r0 = result + []"],
        "componentAnchors[number] = []": ["kw = {**kw, number: j}", "kpos = {**kpos, number: (kpos[number] if (number + 0) in kpos else len(list(componentAnchors)) - 1)}"],
        "componentAnchors.setdefault(number, []).append(anchor)": ["kw = {**kw, number: j}", "kpos = {**kpos, number: (kpos[number] if (number + 0) in kpos else len(list(componentAnchors)) - 1)}"],
        "result.append(MarkToLigaPos(glyphName, ligatureMarks))": ["src = src + [i]", "cw = cw + [kw[len(ligatureMarks)]]"],
    },
    merge_branches=False,
    hints={
        "for number in range(1, max(componentAnchors.keys()) + 1):": [
            "len(ligatureMarks) >= 1",
            "all(all(" + _named("ligatureMarks[n][m]") + " and ligatureMarks[n][m].number == n + 1 for m in range(len(ligatureMarks[n]))) for n in range(len(ligatureMarks)))",
            "all(all(any(ligatureMarks[n][m] == anchors[b] for b in range(len(anchors))) for m in range(len(ligatureMarks[n]))) for n in range(len(ligatureMarks)))",
        ],
        "result.append(MarkToLigaPos(glyphName, ligatureMarks))": [
            "len(result) == len(r0) + 1 and result[len(r0)].name == glyphName and result[len(r0)].marks == ligatureMarks",
            "all(result[k] == r0[k] for k in range(len(r0)))",
        ],
        "componentAnchors[number] = []": _L_HINTS_BARE, "componentAnchors.setdefault(number, []).append(anchor)": _L_HINTS_APP,
    },
    loops={
        "for (glyphName, anchors) in self.context.anchorLists.items()": Loop(index="i", invariants={
            **_l_sound("i"), "count": _L_COUNT, "order": _L_ORDER,
        }),
        "for anchor in anchors": Loop(index="j", invariants=_L_INNER),
        "for number in range(1, max(componentAnchors.keys()) + 1)": Loop(index="t", invariants={
            "len": "len(ligatureMarks) == t",
            "filled": "all((ligatureMarks[u] == componentAnchors[u + 1]) if (u + 1) in componentAnchors else (len(ligatureMarks[u]) == 0) for u in range(t))",
        }),
    },
)


# ---------------------------------------------------------------------------------------------------------
# _getAnchorPairs: only anchors with a counterpart attach
def _m_complete(bound):
    return f"all(all(implies({_at('a', 'b')}.isMark, {_at('a', 'b')}.name in markAnchorNames) for b in range(len({AL}[{KEYS}[a]]))) for a in range({bound}))"


def _m_sound(bound):
    return f"all(any(any({_at('a', 'b')}.isMark and {_at('a', 'b')}.name == n for b in range(len({AL}[{KEYS}[a]]))) for a in range({bound})) for n in markAnchorNames)"


def _p_wit(bound):
    w = f"{AL}[{KEYS}[wa[k]]][wb[k]]"
    return (f"all(k in wa and k in wb and 0 <= wa[k] and {bound} and 0 <= wb[k] and wb[k] < len({AL}[{KEYS}[wa[k]]])"
            f" and not {w}.isMark and {w}.name == k and anchorPairs[k] == '_' + {w}.key for k in anchorPairs)")


def _p_complete(bound):
    x = _at("a", "b")
    return (f"all(all(implies(not {x}.isMark and ('_' + {x}.key) in markAnchorNames, {x}.name in anchorPairs and anchorPairs[{x}.name] == '_' + {x}.key)"
            f" for b in range(len({AL}[{KEYS}[a]]))) for a in range({bound}))")


def _some_mark_named(nm):
    return f"any(any({_at('a2', 'b2')}.isMark and {_at('a2', 'b2')}.name == {nm} for b2 in range(len({AL}[{KEYS}[a2]]))) for a2 in range(len({KEYS})))"


_UPD = "markAnchorNames.update((a.name for a in anchors if a.isMark))"
_KEY_OF_NAME = _ALL_ANCHORS.format(body=f"{_at('a', 'b')}.key == an_key({_at('a', 'b')}.name)")
# Two contracts on the same function, because the two directions of "markAnchorNames == names of the mark anchors" need different
# facts about `S.update(<filtered generator>)`: the forall-exists membership axiom (comp_membership) that the "only mark anchors" direction
# needs makes the "every mark anchor" direction (pure forall) time out in every solver configuration.  Each variant carries only the
# hypotheses of its own direction.  m0 / mprev: ghost snapshots of markAnchorNames (m0 == the set at every head of loop 1, mprev == the
# set before the update of this iteration); the effect of the one `update` statement is stated as small hints, proved there.
contract(
    W + "MarkFeatureWriter._getAnchorPairs",
    props=["C06"],
    params={"self": Ref("C06_Writer")},
    returns=Dict(STR, STR),
    # class invariant of NamedAnchor: the key is a function of the name (NamedAnchor.__init__ 'classified')
    requires=[_KEY_OF_NAME],
    ensures={
        # every recorded pair maps the name of a base anchor to '_' + that anchor's key
        "base-anchor-of-that-key": f"all(any(any(not {_at('a', 'b')}.isMark and {_at('a', 'b')}.name == k and result[k] == '_' + {_at('a', 'b')}.key"
        f" for b in range(len({AL}[{KEYS}[a]]))) for a in range(len({KEYS}))) for k in result)",
        # ... and every base anchor whose '_' + key is the name of some mark anchor is recorded
        "every-matching-anchor-pairs": f"all(all(implies(not {_at('a', 'b')}.isMark and {_some_mark_named(chr(39) + '_' + chr(39) + ' + ' + _at('a', 'b') + '.key')},"
        f" {_at('a', 'b')}.name in result and result[{_at('a', 'b')}.name] == '_' + {_at('a', 'b')}.key) for b in range(len({AL}[{KEYS}[a]]))) for a in range(len({KEYS})))",
    },
    canaries={"empty": "len(result) == 0"},
    locals={"markAnchorNames": Set(STR), "anchorPairs": Dict(STR, STR), "m0": Set(STR), "mprev": Set(STR)},
    ghost_vars={"wa": (Dict(STR, INT), "{}"), "wb": (Dict(STR, INT), "{}"), "m0": (Set(STR), "set()"), "mprev": (Set(STR), "set()")},
    ghost={"anchorPairs[anchor.name] = markAnchorName": ["wa = {**wa, anchor.name: i2}", "wb = {**wb, anchor.name: j}"],
           _UPD: ["mprev = m0", "m0 = markAnchorNames"]},
    hints={_UPD: [
        "all(n in markAnchorNames for n in mprev)",
        "all(implies(anchors[b].isMark, anchors[b].name in markAnchorNames) for b in range(len(anchors)))",
    ]},
    loops={
        "for anchors in self.context.anchorLists.values()#1": Loop(index="i1", invariants={"snapshot": "m0 == markAnchorNames", "m-complete": _m_complete("i1")}),
        "for anchors in self.context.anchorLists.values()#2": Loop(index="i2", invariants={
            "wit": _p_wit("wa[k] < i2"),
            "complete": _p_complete("i2"),
        }),
        "for anchor in anchors": Loop(index="j", invariants={
            "wit": _p_wit("(wa[k] < i2 or (wa[k] == i2 and wb[k] < j))"),
            "complete": _p_complete("i2"),
            "complete-cur": "all(implies(not anchors[b].isMark and ('_' + anchors[b].key) in markAnchorNames, anchors[b].name in anchorPairs and anchorPairs[anchors[b].name] == '_' + anchors[b].key) for b in range(j))",
        }),
    },
)

contract(
    W + "MarkFeatureWriter._getAnchorPairs",
    name="counterpart",
    props=["C06"],
    params={"self": Ref("C06_Writer")},
    returns=Dict(STR, STR),
    comp_membership=True,  # membership characterisation of `S.update(<filtered generator>)` (opt-in engine axiom)
    ensures={
        # a pair is recorded only if SOME glyph carries a mark anchor of exactly that name (equality, not prefix)
        "only-with-counterpart": f"all({_some_mark_named('result[k]')} for k in result)",
    },
    canaries={"empty": "len(result) == 0"},
    locals={"markAnchorNames": Set(STR), "anchorPairs": Dict(STR, STR)},
    # (no hint at the update statement here: an extra forall-exists fact about the new set slows this step down)
    loops={
        "for anchors in self.context.anchorLists.values()#1": Loop(index="i1", invariants={"m-sound": _m_sound("i1")}),
        "for anchors in self.context.anchorLists.values()#2": Loop(index="i2", invariants={"in-marks": "all(anchorPairs[k] in markAnchorNames for k in anchorPairs)"}),
        "for anchor in anchors": Loop(index="j", invariants={"in-marks": "all(anchorPairs[k] in markAnchorNames for k in anchorPairs)"}),
    },
)


# ---------------------------------------------------------------------------------------------------------
# mark class definitions: a differing anchor for an already-defined glyph opens a fresh class, never overwrites
from pyvc.core import lift  # noqa: E402
from pyvc.symex import FuncRef  # noqa: E402

MCR = Ref("C06_MarkClass")
CLASSES["C06_Anchor"].fields.update({"contourpoint": Opt(INT), "xDeviceTable": Opt(INT), "yDeviceTable": Opt(INT)})

@trusted("c06.ast.Anchor", "feaLib ast.Anchor(x=, y=) is a fresh anchor object with those coordinates and no contour point / device tables")
def _mk_anchor(ex, st, args, kwargs, node):
    o = ex.new_object(st, "C06_Anchor")
    ex.write_field(st, o, "x", kwargs["x"], node)
    ex.write_field(st, o, "y", kwargs["y"], node)
    for f in ("contourpoint", "xDeviceTable", "yDeviceTable"):
        ex.write_field(st, o, f, Val.const(None), node)
    return o

@trusted("c06.ast.MarkClass", "feaLib ast.MarkClass(name) is a fresh mark class with that name and no glyph definitions")
def _mk_mc(ex, st, args, kwargs, node):
    o = ex.new_object(st, "C06_MarkClass")
    ex.write_field(st, o, "name", args[0], node)
    ex.write_field(st, o, "glyphs", Val.const({}), node)
    return o

@trusted("c06.ast.GlyphName", "feaLib ast.GlyphName(name) stands for the glyph name (abstracted to the name itself)")
def _mk_gn(ex, st, args, kwargs, node):
    return args[0]

@trusted("c06.ast.MarkClassDefinition", "feaLib ast.MarkClassDefinition(markClass, anchor, glyphs) is a fresh definition object holding its three arguments")
def _mk_mcd(ex, st, args, kwargs, node):
    o = ex.new_object(st, "C06_MarkClassDef")
    for n, v in zip(("markClass", "anchor", "glyphName"), args):
        ex.write_field(st, o, n, v, node)
    return o

@trusted("c06.re.sub", "re.sub(<constant pattern>, <constant replacement>, s) is a function of s")
def _re_sub(ex, st, args, kwargs, node):
    from pyvc.ops import is_const
    assert is_const(args[0]) and is_const(args[1])
    f = z3.Function("c06_re_sub_%d" % (abs(hash((args[0].py, args[1].py))) % 10**8), z3.StringSort(), z3.StringSort())
    return Val(STR, f(lift(args[2], STR)))

def _addDefinition(ex, st, self, args, kwargs, node):
    """feaLib MarkClass.addDefinition: raises FeatureLibError when the glyph is already in the class, else glyphs[glyph] = definition"""
    from pyvc import models
    d = args[0]
    g = ex.read_field(st, d, "glyphName")
    cur = ex.read_field(st, self, "glyphs")
    ex.safety(st, z3.Not(z3.Select(cur.ty.sort().dom(cur.term), lift(g, STR))), "FeatureLibError", node)
    ex.write_field(st, self, "glyphs", models.set_item(ex, st, cur, g, d, node), node)
    return Val.const(None)
_addDefinition.modifies = ["C06_MarkClass.glyphs"]
CLASSES["C06_MarkClass"].methods["addDefinition"] = _addDefinition

import ufo2ft.featureWriters.ast as _uast
class _AstNS:
    Anchor = FuncRef(None, "c06.ast.Anchor")
    MarkClass = FuncRef(None, "c06.ast.MarkClass")
    GlyphName = FuncRef(None, "c06.ast.GlyphName")
    MarkClassDefinition = FuncRef(None, "c06.ast.MarkClassDefinition")
    makeFeaClassName = FuncRef(_uast.makeFeaClassName, "ufo2ft.featureWriters.ast.makeFeaClassName")
class _ReNS:
    sub = FuncRef(None, "c06.re.sub")

contract("ufo2ft.featureWriters.ast:makeFeaClassName", name="dict", props=["C06"], params={"name": STR, "existingClassNames": Dict(STR, MCR)}, returns=STR,
   globals={"re": _ReNS},
   ensures={"fresh": "result not in existingClassNames"}, canaries={"same": "result == name"}, locals={"i": INT, "name": STR})

AEQ = contract(W + "MarkFeatureWriter._anchorsAreEqual", props=["C06"], params={"a1": Ref("C06_Anchor"), "a2": Ref("C06_Anchor")}, returns=BOOL,
   ensures={"eq": "result == (a1.x == a2.x and a1.y == a2.y and a1.contourpoint == a2.contourpoint and a1.xDeviceTable == a2.xDeviceTable and a1.yDeviceTable == a2.yDeviceTable)"}, canaries={"t": "result"})
def _static_aeq(ex, st, self, args, kwargs, node):
    return ex.call_contract(AEQ, args, kwargs, st, node)
CLASSES["C06_Writer"].methods["_anchorsAreEqual"] = _static_aeq


_DMC = True
_CONFLICT = "(className in old(markClasses) and glyphName in old(markClasses[className].glyphs))"
_OLD_A = "old(markClasses[className].glyphs[glyphName].anchor.{f})"
_SAME = f"({_OLD_A.format(f='x')} == x and {_OLD_A.format(f='y')} == y and {_OLD_A.format(f='contourpoint')} is None and {_OLD_A.format(f='xDeviceTable')} is None and {_OLD_A.format(f='yDeviceTable')} is None)"

contract(
    W + "MarkFeatureWriter._defineMarkClass",
    props=["C06"] if _DMC else [],
    params={"self": Ref("C06_Writer"), "glyphName": STR, "x": INT, "y": INT, "className": STR, "markClasses": Dict(STR, MCR)},
    returns=Opt(Ref("C06_MarkClassDef")),
    modifies=["markClasses", "C06_MarkClass.glyphs"],
    globals={"ast": _AstNS},
    calls={"ufo2ft.featureWriters.ast:makeFeaClassName": "ufo2ft.featureWriters.ast:makeFeaClassName#dict"},
    merge_branches=False,
    # the registry is keyed by class name (feaFile.markClasses / the classes this function itself registers)
    requires=[
        "all(markClasses[n].name == n for n in markClasses)",
        # allocation: every object reachable from the registry exists before the call (so the objects created here are different ones)
        "all(not fresh(markClasses[n]) for n in markClasses)",
        "all(all(not fresh(markClasses[n].glyphs[g]) and not fresh(markClasses[n].glyphs[g].anchor) for g in markClasses[n].glyphs) for n in markClasses)",
    ],
    ensures={
        # nothing is (re)defined exactly when the glyph already has this very anchor in the class
        "none-iff-same-anchor-already-defined": f"iff(result is None, {_CONFLICT} and {_SAME})",
        # otherwise the glyph gets a definition at its own rounded anchor, registered in the class it names
        "defined-at-own-anchor": "implies(result is not None, result.anchor.x == x and result.anchor.y == y and result.glyphName == glyphName"
        " and glyphName in result.markClass.glyphs and result.markClass.glyphs[glyphName] == result)",
        "class-registered": "implies(result is not None, result.markClass.name in markClasses and markClasses[result.markClass.name] == result.markClass)",
        "own-class-unless-conflict": f"implies(result is not None and not {_CONFLICT}, result.markClass.name == className)",
        # a differing anchor opens a FRESH class (new name, holding only this glyph) ...
        "fresh-class-on-conflict": f"implies(result is not None and {_CONFLICT}, result.markClass.name not in old(markClasses) and len(result.markClass.glyphs) == 1)",
        # ... and never overwrites: every registered class stays registered, and the class at className keeps every definition it had
        "registry-only-grows": "all(n in markClasses and markClasses[n] == old(markClasses)[n] for n in old(markClasses))",
        "existing-definitions-kept": "implies(className in old(markClasses), all(g in markClasses[className].glyphs and markClasses[className].glyphs[g] == old(markClasses[className].glyphs)[g]"
        " for g in old(markClasses[className].glyphs)))",
        "names-stay-keys": "all(markClasses[n].name == n for n in markClasses)",
    },
    canaries={"always-defines": "result is not None"},
)


# ---------------------------------------------------------------------------------------------------------
# composition: what the GPOS offset of a matching pair is, given the per-function clauses above (MarkBasePos / MarkLigPos /
# MarkMarkPos place the mark so that its anchor lands on the base anchor: offset = base anchor - mark anchor, OpenType spec)
lemma(
    "C06.lemma.coincide",
    props=["C06"],
    vars={"bx": REAL, "mx": REAL, "q": INT, "B": INT, "M": INT, "kb": INT, "km": INT},
    hyps=[
        "q >= 1",
        # _getAnchor#static for the base anchor and for the mark anchor (own coordinates, nearest multiple, ties upwards)
        "B == q * kb and 2 * (B - bx) <= q and 2 * (bx - B) < q",
        "M == q * km and 2 * (M - mx) <= q and 2 * (mx - M) < q",
    ],
    concl={
        # the offset is the difference of the two quantised anchors: a multiple of the step, less than one step away from the true offset
        "offset-is-multiple": "B - M == q * (kb - km)",
        "offset-near-true-offset": "(B - M) - (bx - mx) < q and (bx - mx) - (B - M) < q",
        # with integer anchors and the default step the anchors coincide exactly
        "exact-when-unquantised": "implies(q == 1 and bx == kb and mx == km, B - M == bx - mx)",
    },
    canaries={"always-exact": "B - M == bx - mx"},
)


# =========================================================================================================
# run-time side: real inputs for the cross-check / replay of every contract above
import itertools  # noqa: E402
from types import SimpleNamespace  # noqa: E402

_COORDS = [0, 0.4, 4.5, 5, 14.6, 95, 104.6, 104.5, 105, 250.4, -45.4, -5.5, 700.5, 704.5, 333.3, -0.5, 0.5]
_STEPS = [1, 2, 5, 10, 20, 3]


def _quant_cases(rng, n):
    cases = [{"number": v, "factor": q} for v in _COORDS for q in _STEPS]
    rng.shuffle(cases)
    return cases[:n]


CONTRACTS["ufo2ft.util:quantize#int"].runtime = Runtime(_quant_cases, lambda d: dict(d))
CONTRACTS["ufo2ft.util:otRoundIgnoringVariable"].runtime = Runtime(lambda rng, n: [{"number": v} for v in _COORDS][:n], lambda d: dict(d))


def _color_cases(rng, n):
    out = [{"colors": list(c)} for k in range(0, 4) for c in itertools.combinations(range(5), k)]
    return out[:n]


CONTRACTS[W + "firstAvailable"].runtime = Runtime(_color_cases, lambda d: {"colorSet": set(d["colors"])})


def _anchor_cases(rng, n):
    cases = [{"x": x, "y": y, "q": q} for q in _STEPS for x, y in zip(_COORDS, reversed(_COORDS))]
    rng.shuffle(cases)
    return cases[:n]


def _anchor_build(d):
    from ufo2ft.featureWriters import MarkFeatureWriter

    w = MarkFeatureWriter(quantization=d["q"])
    w.context = SimpleNamespace(isVariable=False, font=None)
    return {"self": w, "glyphName": "a", "anchorName": "top", "anchor": SimpleNamespace(name="top", x=d["x"], y=d["y"], identifier=None)}


CONTRACTS["ufo2ft.featureWriters.baseFeatureWriter:BaseFeatureWriter._getAnchor#static"].runtime = Runtime(
    _anchor_cases, _anchor_build, call=lambda fn, a: fn(a["self"], a["glyphName"], a["anchorName"], anchor=a["anchor"])
)


def _name_cases(rng, n):
    names = ["".join(t) for k in (1, 2, 3, 4) for t in itertools.product(c06rt.ALPHABET, repeat=k)]
    rng.shuffle(names)
    fixed = ["top", "_top", "top_1", "top_3", "_1", "_12", "_top_1", "_", "*", "*.x", "*top", "top_0", "top.alt_2", "1", "_1a"]
    return [{"name": s} for s in fixed + names][:n]


def _name_build(d):
    from ufo2ft.featureWriters.markFeatureWriter import NamedAnchor

    return {"self": NamedAnchor.__new__(NamedAnchor), "name": d["name"], "x": 10, "y": -20, "libData": None}


CONTRACTS[W + "NamedAnchor.__init__"].runtime = Runtime(_name_cases, _name_build, call=lambda fn, a: fn(a["self"], a["name"], a["x"], a["y"], libData=a["libData"]))


def _prop_build(d):
    from ufo2ft.featureWriters.markFeatureWriter import NamedAnchor

    try:
        return {"self": NamedAnchor(d["name"], 0, 0)}
    except (ValueError, AssertionError):
        return {"self": NamedAnchor("top", 0, 0)}


CONTRACTS[W + "NamedAnchor.markAnchorName"].runtime = Runtime(_name_cases, _prop_build, call=lambda fn, a: fn.fget(a["self"]) if isinstance(fn, property) else fn(a["self"]))


def _pos_build(d):
    from ufo2ft.featureWriters.markFeatureWriter import MarkToBasePos, NamedAnchor

    return {"self": MarkToBasePos.__new__(MarkToBasePos), "name": d["name"], "marks": [NamedAnchor("top", i, i) for i in range(d["n"])]}


CONTRACTS[W + "AbstractMarkPos.__init__"].runtime = Runtime(
    lambda rng, n: [{"name": "a", "n": k} for k in range(3)][:n], _pos_build, call=lambda fn, a: fn(a["self"], a["name"], a["marks"])
)

for _fn, _stage in (("_getAnchorPairs", "context"), ("_getAnchorPairs#counterpart", "context"), ("_setBaseAnchorMarkClasses", "classes"), ("_makeMarkToBaseAttachments", "assigned"), ("_makeMarkToLigaAttachments", "assigned")):
    CONTRACTS[W + "MarkFeatureWriter." + _fn].runtime = Runtime(
        c06rt.stage_cases, (lambda st: (lambda d: {"self": c06rt.writer_at(d, st)}))(_stage), call=lambda fn, a: fn(a["self"])
    )

# replay entry points of the bounded observer / grouping harness (not part of any property's obligations: props=[];
# they exist so that `./check replay out/C06/replay/observer.gpos-offsets.json` re-runs the failing font)
contract("contracts.c06rt:observe_case", props=[], params={}, ensures={"conforms": "len(result) == 0"},
         runtime=Runtime(c06rt.observer_cases, lambda d: {"desc": d}))
contract("contracts.c06rt:group_attachments_check", props=[], params={}, ensures={"conforms": "len(result) == 0"},
         runtime=Runtime(c06rt.observer_cases, lambda d: {"desc": d}))
