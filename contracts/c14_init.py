"""C14 — BaseFilter.__init__: the options / include / exclude protocol, as a decision table over call shapes.

`__init__(self, *args, **kwargs)`: the engine has no symbolic *args/**kwargs, so every variant fixes the SHAPE of the call (which positional and
keyword arguments are present) as contract-local globals `args` / `kwargs`; the argument VALUES are symbolic: they are ghost fields `given_*` of the
receiver (the run-time harness sets the same attributes on the uninitialised instance and passes them to the real `__init__`).
"""
import z3

from pyvc import ty as T
from pyvc.api import BOOL, CLASSES, CONTRACTS, INT, SPECFNS, STR, Const, Dict, List, Loop, Map, Opt, Ref, Runtime, Set, Tuple, cls, contract, specfn, trusted
from pyvc.core import PYOBJ, Unsupported, Val, fresh, fresh_name, lift
from pyvc.symex import FuncRef

from . import c14

BF = "ufo2ft.filters.base:BaseFilter"
G = c14.G
OPT = "c14_Options"
cls(OPT, dynamic=True, notes="filter.options (SimpleNamespace)")


@trusted("c14.SimpleNamespace0", "types.SimpleNamespace(): a new empty attribute bag")
def _ns0(ex, st, args, kwargs, node):
    return ex.new_object(st, OPT)


@specfn(BOOL, opaque=True, g=Ref(G))
def c14_user_pred(g):
    """a user-supplied include callable (any function of the glyph object); natively the harness' lambda"""
    return g.name.endswith(".alt")


@trusted("c14.callable", "callable(x): True for functions / lambdas, False for None, lists and other data values")
def _callable(ex, st, args, kwargs, node):
    (v,) = args
    from pyvc.api import SpecFn
    from pyvc.exprs import Closure

    if v.is_py and isinstance(v.py, (Closure, FuncRef, SpecFn)):
        return Val.const(True)
    if (v.is_py and (v.py is None or isinstance(v.py, (list, tuple, str, int, float, set, dict)))) or isinstance(v.ty, (T.List, T.Set, T.Dict)) or v.ty in (T.STR, T.INT, T.BOOL, T.REAL):
        return Val.const(False)
    raise Unsupported(f"callable() of {v.ty}", node)


@trusted("c14.repr", "repr(x): some string (only used to build exception messages)")
def _repr(ex, st, args, kwargs, node):
    return Val(STR, fresh(STR, "repr"))


def _given(clsname, field, ty):
    """the symbolic value of the ghost field `field` of the receiver in the PRE-state (contract-local global)"""
    arr = z3.Const(f"H0_{clsname}_{field}", z3.ArraySort(T.RefSort, ty.sort()))
    return Val(ty, z3.Select(arr, z3.Const("self", T.RefSort)))


_ALLG = lambda ex, st, self: Val(Set(Ref(G)), z3.K(T.RefSort, z3.BoolVal(True)))  # noqa: E731


def _probe_glyphs(o):
    import ufoLib2

    f = ufoLib2.Font()
    return [c14._P(f.newGlyph(n)) for n in ("a", "b", "a.alt", "c", "missing.alt", "x")]


def init_class(name, repo, given):
    fields = {"pre": BOOL, "options": Ref(OPT)}
    fields.update({"given_" + k: t for k, t in given.items()})
    cls(name, fields=fields, repo=repo, methods={"start": lambda ex, st, self, a, k, n: Val.const(None)}, derived={"glyphs": _ALLG},
        views={"glyphs": _probe_glyphs, "options": lambda o: __import__("pyvc.rt", fromlist=["Proxy"]).Proxy(o.options, CLASSES[OPT])},
        notes=f"an instance of {repo.split(':')[1]} under construction; given_* = the argument values handed to __init__ (ghost); `start()` is the class's own hook (a no-op here)")
    return name


_GLOBALS = {"SimpleNamespace": Val.obj(FuncRef(None, "c14.SimpleNamespace0")), "callable": Val.obj(FuncRef(callable, "c14.callable")), "repr": Val.obj(FuncRef(repr, "c14.repr"))}
_ALL = "all(self.include(g) for g in self.glyphs)"


def init_variant(name, clsname, args, kwargs, ensures=None, raises=None, canaries=None):
    contract(
        BF + ".__init__",
        name=name,
        props=["C14"],
        params={"self": Ref(clsname)},
        globals={**_GLOBALS, "args": Val(PYOBJ, None, tuple(args), True), "kwargs": Val(PYOBJ, None, dict(kwargs), True)},
        ensures=ensures or {},
        raises=raises or {},
        canaries=canaries or ({"never-returns": "False"} if raises else {"pre-filter": "self.pre"}),
        modifies=[f"{clsname}.options", f"{clsname}.pre", f"{OPT}.*"],
    )


# ---- DottedCircleFilter: no required arguments, three options with defaults -------------------------------------------------------
DC = init_class("c14_InitDotted", "ufo2ft.filters.dottedCircle:DottedCircleFilter", {"margin": INT, "dots": INT, "pre": BOOL, "names": List(STR)})
_g = lambda f, t: _given(DC, "given_" + f, t)  # noqa: E731
_DEFAULTS = "self.options.margin == 80 and self.options.sidebearing == 160 and self.options.dots == 12"

init_variant("defaults", DC, (), {}, ensures={"options-are-the-defaults": _DEFAULTS, "post-filter": "not self.pre", "every-glyph-included": _ALL})
init_variant("keywords", DC, (), {"margin": _g("margin", INT), "dots": _g("dots", INT), "pre": _g("pre", BOOL)},
             ensures={"given-options-stored-others-default": "self.options.margin == self.given_margin and self.options.dots == self.given_dots and self.options.sidebearing == 160",
                      "pre-stored": "self.pre == self.given_pre", "every-glyph-included": _ALL})
init_variant("include-names", DC, (), {"include": _g("names", List(STR))},
             ensures={"included-iff-name-listed": "all(self.include(g) == (g.name in self.given_names) for g in self.glyphs)", "options-are-the-defaults": _DEFAULTS})
init_variant("exclude-names", DC, (), {"exclude": _g("names", List(STR))},
             ensures={"included-iff-name-not-listed": "all(self.include(g) == (g.name not in self.given_names) for g in self.glyphs)", "options-are-the-defaults": _DEFAULTS},
             canaries={"excludes-everything": "all(not self.include(g) for g in self.glyphs)"})
init_variant("include-callable", DC, (), {"include": Val.obj(SPECFNS["c14_user_pred"])},
             ensures={"included-iff-the-callable-says-so": "all(self.include(g) == c14_user_pred(g) for g in self.glyphs)"})
init_variant("include-and-exclude", DC, (), {"include": _g("names", List(STR)), "exclude": _g("names", List(STR))}, raises={"ValueError": "True"})
init_variant("unknown-keyword", DC, (), {"margin": _g("margin", INT), "colour": Val.const("red")}, raises={"TypeError": "True"})
init_variant("extra-positional", DC, (Val.const(1),), {}, raises={"TypeError": "True"})


# ---- SkipExportGlyphsFilter: one REQUIRED argument (positional or by keyword), no options with defaults ---------------------------------
SX = init_class("c14_InitSkip", "ufo2ft.filters.skipExportGlyphs:SkipExportGlyphsFilter", {"skip": List(STR), "names": List(STR)})
_s = lambda f, t: _given(SX, "given_" + f, t)  # noqa: E731
_STORED = "self.options.skipExportGlyphs == self.given_skip"
init_variant("required-positional", SX, (_s("skip", List(STR)),), {}, ensures={"required-argument-stored": _STORED, "pre-filter-by-class-default": "self.pre", "every-glyph-included": _ALL},
             canaries={"post-filter": "not self.pre"})
# NOT REACHABLE (notes/C14.requests.md item 1): a required argument passed by keyword, or missing, goes through
#     args = (*args, *(kwargs.pop(a) for a in self._args[num_args:] if a in kwargs))      (base.py:53-56: starred elements in a tuple display)
# these two call shapes are covered by the run-time decision table of the hook part below only.
init_variant("required-twice", SX, (_s("skip", List(STR)),), {"skipExportGlyphs": _s("skip", List(STR))}, raises={"TypeError": "True"})


# ---- run-time side: the same call shapes on uninitialised instances of the real classes -------------------------------------------------


def _init_runtime(key, clspath, shape):
    """shape(values) -> (positional args, keyword args) of the real call, from the generated argument values"""

    def gen(rng, n):
        pool = ["a", "b", "a.alt", "c", "x", "zzz"]
        return [{"margin": rng.randint(0, 200), "dots": rng.randint(1, 20), "pre": rng.random() < 0.5, "names": rng.sample(pool, rng.randint(0, 4)),
                 "skip": rng.sample(pool, rng.randint(0, 3))} for _ in range(max(n, 6))][:max(n, 6)]

    def build(d):
        import importlib

        mod, qn = clspath.split(":")
        base = getattr(importlib.import_module(mod), qn)
        k = type("_NoStart" + qn, (base,), {"start": lambda self: None})  # `start()` is the subclass hook: modelled, and run here, as a no-op
        o = k.__new__(k)
        for f, v in d.items():
            setattr(o, "given_" + f, v)
        pos, kw = shape(d)
        return {"self": o, "_pos": pos, "_kw": kw}

    CONTRACTS[BF + ".__init__#" + key].runtime = Runtime(gen, build, call=lambda fn, a: fn(a["self"], *a["_pos"], **a["_kw"]))


_DCP, _SXP = "ufo2ft.filters.dottedCircle:DottedCircleFilter", "ufo2ft.filters.skipExportGlyphs:SkipExportGlyphsFilter"
_init_runtime("defaults", _DCP, lambda d: ((), {}))
_init_runtime("keywords", _DCP, lambda d: ((), {"margin": d["margin"], "dots": d["dots"], "pre": d["pre"]}))
_init_runtime("include-names", _DCP, lambda d: ((), {"include": d["names"]}))
_init_runtime("exclude-names", _DCP, lambda d: ((), {"exclude": d["names"]}))
_init_runtime("include-callable", _DCP, lambda d: ((), {"include": lambda g: g.name.endswith(".alt")}))
_init_runtime("include-and-exclude", _DCP, lambda d: ((), {"include": d["names"], "exclude": d["names"]}))
_init_runtime("unknown-keyword", _DCP, lambda d: ((), {"margin": d["margin"], "colour": "red"}))
_init_runtime("extra-positional", _DCP, lambda d: ((1,), {}))
_init_runtime("required-positional", _SXP, lambda d: ((d["skip"],), {}))
_init_runtime("required-twice", _SXP, lambda d: ((d["skip"],), {"skipExportGlyphs": d["skip"]}))
