"""C09 — interpolatable compilation keeps compatible masters compatible.

Deductive part (pyvc over the real ASTs; object vocabulary shared with contracts/c13.py):
  * util.decomposeCompositeGlyph (variant `all`: include=None): afterwards the glyph has no component; nobody else is written
  * DecomposeComponentsIFilter.filter: joint decision (declines only if NO master's glyph has components) and joint action
    (acts on the glyph of EVERY master that has the name); passes include=None to ensureCompositeDefinedAtComponentLocations
  * SkipExportGlyphsIFilter.filter, BaseIFilter.set_context, BaseIFilter.__call__ (registered in contracts/c13.py with
    props C13 + C09): the filter is handed the same-named glyphs of ALL masters, once per name; joint decision / action
  * lemmas C13.joint / C13.seq-member-has-position (composition of the two result cases)
  * InterpolatableTTFCompiler.compileOutlines: the outline compiler is built with roundCoordinates=False and
    dropImpliedOnCurves=False whatever the compiler's own fields say, glyphDataFormat from allQuadratic, sparse tables iff a
    layer name is given
Out of the engine's reach (see notes/C09.md), checked by vcheck/hooks/c09.py on generated inputs:
  TTFInterpolatablePreProcessor.process, check_for_nonmatching_components, FlattenComponentsIFilter.filter,
  Instantiator.replace_source_layers, and the end-to-end point-compatibility observer.
"""
import z3

from pyvc import ty as T
from pyvc.api import BOOL, CLASSES, CONTRACTS, INT, REAL, STR, Const, Dict, List, Loop, Map, Opt, Ref, Runtime, Set, Tuple, cls, contract, lemma, specfn, trusted
from pyvc.core import PYOBJ, Unsupported, Val, fresh, fresh_name, lift

from . import c13
from .c13 import _GSS, _HEAP_VIEWS, _HeapSnapshot, _LEN_MATCH, _NS, _PEN_GLOBALS, _Ref, ifilter_summaries

# =====================================================================================================
# decomposeCompositeGlyph with its defaults (include=None, decomposeNested=True): full decomposition
# =====================================================================================================
contract(
    "ufo2ft.util:decomposeCompositeGlyph",
    name="all",
    props=["C09"],
    params={"glyph": Ref("SXGlyph"), "glyphSet": Ref("SXGlyphSet")},
    globals=_PEN_GLOBALS,
    ensures={
        # every component has been replaced by contours (a DecomposingFilterPointPen with include=None passes nothing through)
        "no-component-left": "len(glyph.components) == 0",
        # nobody else is written (whole-heap frame)
        "frame": "glyph.frame_components == old(glyph.frame_components) and glyph.frame_ncontours == old(glyph.frame_ncontours)",
        "keys": "glyphSet.keyset == old(glyphSet.keyset)",
    },
    canaries={"contours-unchanged": "len(glyph) == old(len(glyph))"},
    modifies=["SXGlyph.components", "SXGlyph.ncontours"],
    ghost_vars={
        "F0": (Map(Ref("SXGlyph"), List(Ref("SXComponent"))), "glyph.frame_components"),
        "F1": (Map(Ref("SXGlyph"), INT), "glyph.frame_ncontours"),
    },
    loops={
        "for component in list(glyph.components)": Loop(
            index="i", seq="K",
            invariants={
                "rest": "len(glyph.components) == len(K) - i and all(glyph.components[k] == K[i + k] for k in range(len(K) - i))",
                "frame": "glyph.frame_components == F0 and glyph.frame_ncontours == F1",
            },
        )
    },
)

# =====================================================================================================
# DecomposeComponentsIFilter.filter
# =====================================================================================================
cls(
    "SXDIFilter",
    fields={"context": Ref("SXIContext")},
    derived=dict(_HEAP_VIEWS),
    methods={"include": lambda ex, st, self, a, k, n: Val.const(True)},
    views={"context": lambda o: _NS(o.context), "heap_components": lambda o: _HeapSnapshot(o, "components"), "heap_glyphs": lambda o: _HeapSnapshot(o, "glyphs")},
    repo="ufo2ft.filters.decomposeComponents:DecomposeComponentsIFilter",
    notes="DecomposeComponentsIFilter instance",
)
ifilter_summaries("SXDIFilter", False)

_DECOMPOSED_ALL = f"all(implies(glyphName in gs.keyset, len(gs[glyphName].components) == 0) for gs in {_GSS})"

contract(
    "ufo2ft.filters.decomposeComponents:DecomposeComponentsIFilter.filter",
    name="SXDIFilter",
    props=["C09"],
    params={"self": Ref("SXDIFilter"), "glyphName": STR, "glyphs": List(Ref("SXGlyph"))},
    returns=BOOL,
    calls={"ufo2ft.util:decomposeCompositeGlyph": "ufo2ft.util:decomposeCompositeGlyph#all"},
    globals={"zip_strict": _Ref("builtins.zip", zip, obj=zip)},
    requires=[
        _LEN_MATCH,
        # `glyphs` holds the glyph of every master that has the name (BaseIFilter.__call__ builds it that way)
        f"all(implies(glyphName in gs.keyset, gs[glyphName] in glyphs) for gs in {_GSS})",
    ],
    ensures={
        # joint action: when it acts, the glyph is decomposed in EVERY master that has it (not only where it has components)
        "acted-on-all-masters": f"implies(result, {_DECOMPOSED_ALL})",
        # joint decision: it declines only if NO glyph it was handed has components; then nothing is modified
        "declines-only-if-no-components": "implies(not result, all(len(g.components) == 0 for g in glyphs))",
        "idle": "implies(not result, self.heap_components == old(self.heap_components) and self.heap_glyphs == old(self.heap_glyphs))",
        "grow-only-this-name": c13._GROW,
    },
    canaries={"always-acts": "result", "never-acts": "not result"},
    modifies=["SXGlyph.components", "SXGlyph.ncontours", "SXGlyphSet.glyphs"],
    loops={
        "for (glyphSet, interpolatedLayer) in zip_strict(self.context.glyphSets, self.getInterpolatedLayers())": Loop(
            index="k",
            invariants={"done": f"all(implies(glyphName in {_GSS}[a].keyset, len({_GSS}[a][glyphName].components) == 0) for a in range(k))"},
        )
    },
    # heap of the components before the decomposing call (ghost) + the pointwise consequence of the callee's whole-heap frame for
    # the same-named glyphs of the other masters (hint: proved, then used by inv.step.done)
    ghost_vars={"HC": (Map(Ref("SXGlyph"), List(Ref("SXComponent"))), "self.heap_components")},
    ghost={"glyph = glyphSet.get(glyphName)": ["HC = self.heap_components"]},
    hints={
        "decomposeCompositeGlyph(glyph, interpolatedLayer or glyphSet)": [
            f"all(implies(glyphName in gs.keyset and gs[glyphName] != glyph, self.heap_components[gs[glyphName]] == HC[gs[glyphName]]) for gs in {_GSS})"
        ]
    },
    # the two paths of `if glyph is not None:` are kept apart: the ite-merge puts the callee's quantified ensures into the
    # condition of the merged heap, which made inv.step.done slow (6 s, third solver configuration)
    merge_branches=False,
)

# composition of the two result cases (same shape as C13.joint): every master's glyph ends up without components
lemma(
    "C09.joint-decompose",
    props=["C09"],
    vars={"glyphs": List(Ref("SXGlyph")), "GS": List(Ref("SXGlyphSet")), "glyphName": STR, "result": BOOL},
    hyps=[
        "all(implies(glyphName in gs.keyset, any(g == gs[glyphName] for g in glyphs)) for gs in GS)",
        "implies(result, all(implies(glyphName in gs.keyset, len(gs[glyphName].components) == 0) for gs in GS))",
        "implies(not result, all(len(g.components) == 0 for g in glyphs))",
    ],
    concl={"all-masters-simple": "all(implies(glyphName in gs.keyset, len(gs[glyphName].components) == 0) for gs in GS)"},
    canaries={"no-contours": "all(implies(glyphName in gs.keyset, len(gs[glyphName]) == 0) for gs in GS)"},
)

# =====================================================================================================
# InterpolatableTTFCompiler.compileOutlines: how the outline compiler of a master is configured
# =====================================================================================================
from ufo2ft.constants import SPARSE_TTF_MASTER_TABLES as _SPARSE  # noqa: E402


class _AnyOutlineCompiler:
    """stand-in for `self.outlineCompilerClass`; at run time the harness installs this recording class"""

    def __init__(self, font, glyphSet=None, glyphDataFormat=0, tables=None, roundCoordinates=True, dropImpliedOnCurves=False, **kwargs):
        # named like OutlineTTFCompiler's parameters, so that prune_unknown_kwargs lets same-named instance fields through
        self.font, self.glyphSet = font, glyphSet
        self.glyphDataFormat, self.tables = glyphDataFormat, tables
        self.roundCoordinates, self.dropImpliedOnCurves = roundCoordinates, dropImpliedOnCurves

    def compile(self):
        return self


def _oc_init(ex, st, args, kwargs, node):
    o = ex.new_object(st, "SXOutlineCompiler")
    for k in ("roundCoordinates", "dropImpliedOnCurves", "glyphDataFormat", "tables", "glyphSet"):
        if k not in kwargs:
            raise Unsupported(f"outline compiler built without {k}=", node)
        ex.write_field(st, o, k, kwargs[k], node)
    return o


trusted("c09.OutlineCompiler", "OutlineCompilerClass(font, glyphSet=, **kw): an outline compiler object that keeps its keyword arguments")(_oc_init)
cls(
    "SXOutlineCompiler",
    fields={"roundCoordinates": BOOL, "dropImpliedOnCurves": BOOL, "glyphDataFormat": INT, "tables": Opt(Set(STR)), "glyphSet": Ref("SXGlyphSet")},
    methods={"compile": lambda ex, st, self, a, k, n: self},
    views={"tables": lambda o: None if o.tables is None else set(o.tables)},
    notes="outline compiler instance; compile() is identified with the instance (its result is a function of the constructor arguments)",
)


def _ttf_dict(ex, st, self):
    # the dataclass fields that an outline compiler accepts and that could shadow the two forced settings
    return Val(PYOBJ, None, {k: ex.read_field(st, self, k) for k in ("dropImpliedOnCurves", "roundCoordinates", "roundTolerance_given")}, True)


cls(
    "SXTTFCompiler",
    fields={"allQuadratic": BOOL, "dropImpliedOnCurves": BOOL, "roundCoordinates": BOOL, "roundTolerance_given": BOOL},
    derived={"__dict__": _ttf_dict, "outlineCompilerClass": lambda ex, st, self: Val.obj(_Ref("c09.OutlineCompiler", _AnyOutlineCompiler, obj=_AnyOutlineCompiler))},
    repo="ufo2ft._compilers.interpolatableTTFCompiler:InterpolatableTTFCompiler",
    notes="InterpolatableTTFCompiler dataclass instance; __dict__ is modelled with fields of the same names as the two forced "
    "outline-compiler settings so that 'the explicit assignment wins over whatever the instance carries' is part of the claim",
)


@trusted("c09.prune_unknown_kwargs",
         "SUMMARY of util.prune_unknown_kwargs(kwargs, callable): a sub-dict of kwargs, values unchanged [bounded check in the C13 hook]")
def _prune(ex, st, args, kwargs, node):
    d = args[0]
    if not (d.is_py and isinstance(d.py, dict)):
        raise Unsupported("prune_unknown_kwargs of a symbolic dict", node)
    return Val(PYOBJ, None, {k: v for k, v in d.py.items() if k in ("dropImpliedOnCurves", "roundCoordinates")}, True)


contract(
    "ufo2ft._compilers.interpolatableTTFCompiler:InterpolatableTTFCompiler.compileOutlines",
    props=["C09"],
    params={"self": Ref("SXTTFCompiler"), "ufo": Ref("SXFont"), "glyphSet": Ref("SXGlyphSet"), "layerName": Opt(STR)},
    returns=Ref("SXOutlineCompiler"),
    globals={"prune_unknown_kwargs": _Ref("c09.prune_unknown_kwargs")},
    ensures={
        # master TTFs keep float coordinates and implied on-curve points: both must be identical decisions for all masters
        "no-rounding": "result.roundCoordinates == False",
        "keeps-implied-oncurves": "result.dropImpliedOnCurves == False",
        "glyph-data-format": "result.glyphDataFormat == (0 if self.allQuadratic else 1)",
        # sparse (layer) masters get the reduced table set, full masters everything
        "sparse-tables": "implies(layerName is not None and len(layerName) > 0, result.tables == SPARSE_TABLES) and implies(layerName is None or len(layerName) == 0, result.tables is None)",
        "glyph-set": "result.glyphSet == glyphSet",
    },
    canaries={"rounds-like-the-instance": "result.roundCoordinates == self.roundCoordinates"},
    modifies=["SXOutlineCompiler.roundCoordinates", "SXOutlineCompiler.dropImpliedOnCurves", "SXOutlineCompiler.glyphDataFormat", "SXOutlineCompiler.tables", "SXOutlineCompiler.glyphSet"],
)
CONTRACTS["ufo2ft._compilers.interpolatableTTFCompiler:InterpolatableTTFCompiler.compileOutlines"].globals["SPARSE_TABLES"] = set(_SPARSE)


# =====================================================================================================
# Run-time side
# =====================================================================================================
from . import c13rt  # noqa: E402


def _fam_cases(rng, n):
    return c13rt.family_cases(rng, n, skip=False)


def _b_decompose_all(d):
    from ufo2ft.util import _GlyphSet

    from . import rtlib

    font = rtlib.build_ufo(d["masters"][0])
    gs = _GlyphSet.from_layer(font, copy=True)
    return {"glyph": gs[d["target"]], "glyphSet": gs}


def _b_dfilter(d):
    from ufo2ft.filters.decomposeComponents import DecomposeComponentsIFilter

    ufos, gss, inst = c13rt.glyph_sets(d)
    flt = DecomposeComponentsIFilter()
    flt.set_context(ufos, gss, inst)
    name = d["target"]
    return {"self": flt, "glyphName": name, "glyphs": [gs[name] for gs in gss if name in gs]}


def _co_cases(rng, n):
    return [{"allQuadratic": rng.random() < 0.5, "drop": rng.random() < 0.5, "layerName": rng.choice([None, None, "", "sparse"])} for _ in range(n)]


def _b_compile_outlines(d):
    import ufoLib2

    from ufo2ft._compilers.variableTTFsCompiler import VariableTTFsCompiler

    # the variable-TTF compiler inherits compileOutlines and DOES carry a dropImpliedOnCurves field (meant for the final VF)
    comp = VariableTTFsCompiler(outlineCompilerClass=_AnyOutlineCompiler, allQuadratic=d["allQuadratic"], dropImpliedOnCurves=d["drop"])
    # an instance attribute of the same name as a forced setting (what a subclass / a future dataclass field would add)
    comp.roundCoordinates = True
    return {"self": comp, "ufo": ufoLib2.Font(), "glyphSet": {}, "layerName": d["layerName"]}


CONTRACTS["ufo2ft.util:decomposeCompositeGlyph#all"].runtime = Runtime(_fam_cases, _b_decompose_all)
CONTRACTS["ufo2ft.filters.decomposeComponents:DecomposeComponentsIFilter.filter#SXDIFilter"].runtime = Runtime(_fam_cases, _b_dfilter)
CONTRACTS["ufo2ft._compilers.interpolatableTTFCompiler:InterpolatableTTFCompiler.compileOutlines"].runtime = Runtime(_co_cases, _b_compile_outlines)
