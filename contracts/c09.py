"""C09 — interpolatable compilation keeps compatible masters compatible.

Deductive part (pyvc over the real ASTs; object vocabulary shared with contracts/c13.py):
  * util.decomposeCompositeGlyph (variant `all`: include=None): afterwards the glyph has no component; nobody else is written
  * DecomposeComponentsIFilter.filter: joint decision (declines only if NO master's glyph has components) and joint action
    (acts on the glyph of EVERY master that has the name); passes include=None to ensureCompositeDefinedAtComponentLocations
  * SkipExportGlyphsIFilter.filter, BaseIFilter.set_context, BaseIFilter.__call__ (registered in contracts/c13.py with
    props C13 + C09): the filter is handed the same-named glyphs of ALL masters, once per name; joint decision / action
  * lemmas C13.joint / C13.seq-member-has-position (composition of the two result cases)
  * InterpolatableTTFCompiler.compileOutlines: the outline compiler is built with roundCoordinates=False and
    dropImpliedOnCurves=False whatever the compiler's own fields say, glyphDataFormat from allQuadratic, sparse tables iff a
    layer name is given
Second wave: check_for_nonmatching_components (iff-specification of the 2x2 comparison), replace_source_layers / _update_instantiator /
_run_interpolatable (the instantiator interpolates from the edited glyph sets, never from a stale model), BaseIFilter.__call__ on the decompose filter
(post-state: the same decision and action per glyph name in EVERY master), TTFInterpolatablePreProcessor.process (order of the steps, the decompose set,
cu2qu on all glyph sets at once).
Still checked by vcheck/hooks/c09.py on generated inputs only: FlattenComponentsIFilter.filter, BaseInterpolatablePreProcessor.__init__, and the end-to-end
point-compatibility observer (cu2qu itself is library code).
"""
import z3

from pyvc import ty as T
from pyvc.api import BOOL, CLASSES, CONTRACTS, INT, REAL, STR, Const, Dict, List, Loop, Map, Opt, Ref, Runtime, Set, Tuple, cls, contract, lemma, specfn, trusted
from pyvc.core import PYOBJ, Unsupported, Val, fresh, fresh_name, lift

from . import c13
from .c13 import _GSS, _HEAP_VIEWS, _HeapSnapshot, _LEN_MATCH, _NS, _PEN_GLOBALS, _Ref, ifilter_summaries

# =====================================================================================================
# decomposeCompositeGlyph with its defaults (include=None, decomposeNested=True): full decomposition
# =====================================================================================================
contract(
    "ufo2ft.util:decomposeCompositeGlyph",
    name="all",
    props=["C09"],
    params={"glyph": Ref("SXGlyph"), "glyphSet": Ref("SXGlyphSet")},
    globals=_PEN_GLOBALS,
    ensures={
        # every component has been replaced by contours (a DecomposingFilterPointPen with include=None passes nothing through)
        "no-component-left": "len(glyph.components) == 0",
        # nobody else is written (whole-heap frame)
        "frame": "glyph.frame_components == old(glyph.frame_components) and glyph.frame_ncontours == old(glyph.frame_ncontours)",
        "keys": "glyphSet.keyset == old(glyphSet.keyset)",
    },
    canaries={"contours-unchanged": "len(glyph) == old(len(glyph))"},
    modifies=["SXGlyph.components", "SXGlyph.ncontours"],
    ghost_vars={
        "F0": (Map(Ref("SXGlyph"), List(Ref("SXComponent"))), "glyph.frame_components"),
        "F1": (Map(Ref("SXGlyph"), INT), "glyph.frame_ncontours"),
    },
    loops={
        "for component in list(glyph.components)": Loop(
            index="i", seq="K",
            invariants={
                "rest": "len(glyph.components) == len(K) - i and all(glyph.components[k] == K[i + k] for k in range(len(K) - i))",
                "frame": "glyph.frame_components == F0 and glyph.frame_ncontours == F1",
            },
        )
    },
)

# =====================================================================================================
# DecomposeComponentsIFilter.filter
# =====================================================================================================
_INCLUDED = z3.Function("c09_included", T.RefSort, z3.BoolSort())


def _include_all(ex, st, self, args, kwargs, node):
    """`self.include` of a filter built without include= / exclude=: `lambda g: True`.  Stated as a predicate that holds of every glyph (rather than
    the constant): `any(include(g) for g in glyphs)` then mentions the list's elements, which gives the solvers something to instantiate
    "no glyph is included" with (the constant leaves a purely arithmetic quantifier that they do not instantiate)."""
    (g,) = args
    r = z3.Const("r!inc", T.RefSort)
    fact = z3.ForAll([r], _INCLUDED(r), patterns=[_INCLUDED(r)])
    st.assume(fact)
    for outer in getattr(ex, "qouter", []):  # the call sits inside a generator: the (definitional) fact belongs to the enclosing states too
        outer.assume(fact)
    return Val(BOOL, _INCLUDED(lift(g)))


cls(
    "SXDIFilter",
    fields={"context": Ref("SXIContext")},
    derived=dict(_HEAP_VIEWS),
    methods={"include": _include_all},
    views={"context": lambda o: _NS(o.context), "heap_components": lambda o: _HeapSnapshot(o, "components"), "heap_glyphs": lambda o: _HeapSnapshot(o, "glyphs")},
    repo="ufo2ft.filters.decomposeComponents:DecomposeComponentsIFilter",
    notes="DecomposeComponentsIFilter instance",
)
ifilter_summaries("SXDIFilter", False)

_DECOMPOSED_ALL = f"all(implies(glyphName in gs.keyset, len(gs[glyphName].components) == 0) for gs in {_GSS})"

contract(
    "ufo2ft.filters.decomposeComponents:DecomposeComponentsIFilter.filter",
    name="SXDIFilter",
    props=["C09"],
    params={"self": Ref("SXDIFilter"), "glyphName": STR, "glyphs": List(Ref("SXGlyph"))},
    returns=BOOL,
    calls={"ufo2ft.util:decomposeCompositeGlyph": "ufo2ft.util:decomposeCompositeGlyph#all"},
    globals={"zip_strict": _Ref("builtins.zip", zip, obj=zip)},
    requires=[
        _LEN_MATCH,
        # `glyphs` holds the glyph of every master that has the name (BaseIFilter.__call__ builds it that way)
        f"all(implies(glyphName in gs.keyset, gs[glyphName] in glyphs) for gs in {_GSS})",
    ],
    ensures={
        # joint action: when it acts, the glyph is decomposed in EVERY master that has it (not only where it has components)
        "acted-on-all-masters": f"implies(result, {_DECOMPOSED_ALL})",
        # joint decision: it declines only if NO glyph it was handed has components; then nothing is modified
        "declines-only-if-no-components": "implies(not result, all(len(g.components) == 0 for g in glyphs))",
        "idle": "implies(not result, self.heap_components == old(self.heap_components) and self.heap_glyphs == old(self.heap_glyphs))",
        "grow-only-this-name": c13._GROW,
    },
    canaries={"always-acts": "result", "never-acts": "not result"},
    modifies=["SXGlyph.components", "SXGlyph.ncontours", "SXGlyphSet.glyphs"],
    loops={
        "for (glyphSet, interpolatedLayer) in zip_strict(self.context.glyphSets, self.getInterpolatedLayers())": Loop(
            index="k",
            invariants={"done": f"all(implies(glyphName in {_GSS}[a].keyset, len({_GSS}[a][glyphName].components) == 0) for a in range(k))"},
        )
    },
    # heap of the components before the decomposing call (ghost) + the pointwise consequence of the callee's whole-heap frame for
    # the same-named glyphs of the other masters (hint: proved, then used by inv.step.done)
    ghost_vars={"HC": (Map(Ref("SXGlyph"), List(Ref("SXComponent"))), "self.heap_components")},
    ghost={"glyph = glyphSet.get(glyphName)": ["HC = self.heap_components"]},
    hints={
        "decomposeCompositeGlyph(glyph, interpolatedLayer or glyphSet)": [
            f"all(implies(glyphName in gs.keyset and gs[glyphName] != glyph, self.heap_components[gs[glyphName]] == HC[gs[glyphName]]) for gs in {_GSS})"
        ]
    },
    # the two paths of `if glyph is not None:` are kept apart: the ite-merge puts the callee's quantified ensures into the
    # condition of the merged heap, which made inv.step.done slow (6 s, third solver configuration)
    merge_branches=False,
)

# composition of the two result cases (same shape as C13.joint): every master's glyph ends up without components
lemma(
    "C09.joint-decompose",
    props=["C09"],
    vars={"glyphs": List(Ref("SXGlyph")), "GS": List(Ref("SXGlyphSet")), "glyphName": STR, "result": BOOL},
    hyps=[
        "all(implies(glyphName in gs.keyset, any(g == gs[glyphName] for g in glyphs)) for gs in GS)",
        "implies(result, all(implies(glyphName in gs.keyset, len(gs[glyphName].components) == 0) for gs in GS))",
        "implies(not result, all(len(g.components) == 0 for g in glyphs))",
    ],
    concl={"all-masters-simple": "all(implies(glyphName in gs.keyset, len(gs[glyphName].components) == 0) for gs in GS)"},
    canaries={"no-contours": "all(implies(glyphName in gs.keyset, len(gs[glyphName]) == 0) for gs in GS)"},
)

# =====================================================================================================
# InterpolatableTTFCompiler.compileOutlines: how the outline compiler of a master is configured
# =====================================================================================================
from ufo2ft.constants import SPARSE_TTF_MASTER_TABLES as _SPARSE  # noqa: E402


class _AnyOutlineCompiler:
    """stand-in for `self.outlineCompilerClass`; at run time the harness installs this recording class"""

    def __init__(self, font, glyphSet=None, glyphDataFormat=0, tables=None, roundCoordinates=True, dropImpliedOnCurves=False, **kwargs):
        # named like OutlineTTFCompiler's parameters, so that prune_unknown_kwargs lets same-named instance fields through
        self.font, self.glyphSet = font, glyphSet
        self.glyphDataFormat, self.tables = glyphDataFormat, tables
        self.roundCoordinates, self.dropImpliedOnCurves = roundCoordinates, dropImpliedOnCurves

    def compile(self):
        return self


def _oc_init(ex, st, args, kwargs, node):
    o = ex.new_object(st, "SXOutlineCompiler")
    for k in ("roundCoordinates", "dropImpliedOnCurves", "glyphDataFormat", "tables", "glyphSet"):
        if k not in kwargs:
            raise Unsupported(f"outline compiler built without {k}=", node)
        ex.write_field(st, o, k, kwargs[k], node)
    return o


trusted("c09.OutlineCompiler", "OutlineCompilerClass(font, glyphSet=, **kw): an outline compiler object that keeps its keyword arguments")(_oc_init)
cls(
    "SXOutlineCompiler",
    fields={"roundCoordinates": BOOL, "dropImpliedOnCurves": BOOL, "glyphDataFormat": INT, "tables": Opt(Set(STR)), "glyphSet": Ref("SXGlyphSet")},
    methods={"compile": lambda ex, st, self, a, k, n: self},
    views={"tables": lambda o: None if o.tables is None else set(o.tables)},
    notes="outline compiler instance; compile() is identified with the instance (its result is a function of the constructor arguments)",
)


def _ttf_dict(ex, st, self):
    # the dataclass fields that an outline compiler accepts and that could shadow the two forced settings
    return Val(PYOBJ, None, {k: ex.read_field(st, self, k) for k in ("dropImpliedOnCurves", "roundCoordinates", "roundTolerance_given")}, True)


cls(
    "SXTTFCompiler",
    fields={"allQuadratic": BOOL, "dropImpliedOnCurves": BOOL, "roundCoordinates": BOOL, "roundTolerance_given": BOOL},
    derived={"__dict__": _ttf_dict, "outlineCompilerClass": lambda ex, st, self: Val.obj(_Ref("c09.OutlineCompiler", _AnyOutlineCompiler, obj=_AnyOutlineCompiler))},
    repo="ufo2ft._compilers.interpolatableTTFCompiler:InterpolatableTTFCompiler",
    notes="InterpolatableTTFCompiler dataclass instance; __dict__ is modelled with fields of the same names as the two forced "
    "outline-compiler settings so that 'the explicit assignment wins over whatever the instance carries' is part of the claim",
)


@trusted("c09.prune_unknown_kwargs",
         "SUMMARY of util.prune_unknown_kwargs(kwargs, callable): a sub-dict of kwargs, values unchanged [bounded check in the C13 hook]")
def _prune(ex, st, args, kwargs, node):
    d = args[0]
    if not (d.is_py and isinstance(d.py, dict)):
        raise Unsupported("prune_unknown_kwargs of a symbolic dict", node)
    return Val(PYOBJ, None, {k: v for k, v in d.py.items() if k in ("dropImpliedOnCurves", "roundCoordinates")}, True)


contract(
    "ufo2ft._compilers.interpolatableTTFCompiler:InterpolatableTTFCompiler.compileOutlines",
    props=["C09"],
    params={"self": Ref("SXTTFCompiler"), "ufo": Ref("SXFont"), "glyphSet": Ref("SXGlyphSet"), "layerName": Opt(STR)},
    returns=Ref("SXOutlineCompiler"),
    globals={"prune_unknown_kwargs": _Ref("c09.prune_unknown_kwargs")},
    ensures={
        # master TTFs keep float coordinates and implied on-curve points: both must be identical decisions for all masters
        "no-rounding": "result.roundCoordinates == False",
        "keeps-implied-oncurves": "result.dropImpliedOnCurves == False",
        "glyph-data-format": "result.glyphDataFormat == (0 if self.allQuadratic else 1)",
        # sparse (layer) masters get the reduced table set, full masters everything
        "sparse-tables": "implies(layerName is not None and len(layerName) > 0, result.tables == SPARSE_TABLES) and implies(layerName is None or len(layerName) == 0, result.tables is None)",
        "glyph-set": "result.glyphSet == glyphSet",
    },
    canaries={"rounds-like-the-instance": "result.roundCoordinates == self.roundCoordinates"},
    modifies=["SXOutlineCompiler.roundCoordinates", "SXOutlineCompiler.dropImpliedOnCurves", "SXOutlineCompiler.glyphDataFormat", "SXOutlineCompiler.tables", "SXOutlineCompiler.glyphSet"],
)
CONTRACTS["ufo2ft._compilers.interpolatableTTFCompiler:InterpolatableTTFCompiler.compileOutlines"].globals["SPARSE_TABLES"] = set(_SPARSE)


# =====================================================================================================
# Run-time side
# =====================================================================================================
from . import c13rt  # noqa: E402


def _fam_cases(rng, n):
    return c13rt.family_cases(rng, n, skip=False)


def _b_decompose_all(d):
    from ufo2ft.util import _GlyphSet

    from . import rtlib

    font = rtlib.build_ufo(d["masters"][0])
    gs = _GlyphSet.from_layer(font, copy=True)
    return {"glyph": gs[d["target"]], "glyphSet": gs}


def _b_dfilter(d):
    from ufo2ft.filters.decomposeComponents import DecomposeComponentsIFilter

    ufos, gss, inst = c13rt.glyph_sets(d)
    flt = DecomposeComponentsIFilter()
    flt.set_context(ufos, gss, inst)
    name = d["target"]
    return {"self": flt, "glyphName": name, "glyphs": [gs[name] for gs in gss if name in gs]}


def _co_cases(rng, n):
    return [{"allQuadratic": rng.random() < 0.5, "drop": rng.random() < 0.5, "layerName": rng.choice([None, None, "", "sparse"])} for _ in range(n)]


def _b_compile_outlines(d):
    import ufoLib2

    from ufo2ft._compilers.variableTTFsCompiler import VariableTTFsCompiler

    # the variable-TTF compiler inherits compileOutlines and DOES carry a dropImpliedOnCurves field (meant for the final VF)
    comp = VariableTTFsCompiler(outlineCompilerClass=_AnyOutlineCompiler, allQuadratic=d["allQuadratic"], dropImpliedOnCurves=d["drop"])
    # an instance attribute of the same name as a forced setting (what a subclass / a future dataclass field would add)
    comp.roundCoordinates = True
    return {"self": comp, "ufo": ufoLib2.Font(), "glyphSet": {}, "layerName": d["layerName"]}


CONTRACTS["ufo2ft.util:decomposeCompositeGlyph#all"].runtime = Runtime(_fam_cases, _b_decompose_all)
CONTRACTS["ufo2ft.filters.decomposeComponents:DecomposeComponentsIFilter.filter#SXDIFilter"].runtime = Runtime(_fam_cases, _b_dfilter)
CONTRACTS["ufo2ft._compilers.interpolatableTTFCompiler:InterpolatableTTFCompiler.compileOutlines"].runtime = Runtime(_co_cases, _b_compile_outlines)


# =====================================================================================================
# TTFInterpolatablePreProcessor.check_for_nonmatching_components: which composites have a 2x2 that differs between masters
# =====================================================================================================
# (two of the three engine shims this section carried — star-argument of a list comprehension, tuple slices — are native in the engine now)
import ast as _ast  # noqa: E402

from pyvc.symex import Executor as _Ex  # noqa: E402

# Engine shim kept (notes/C09.requests.md item 3): filtered list comprehension `[f(x) for x in xs if c(x)]`.  The engine's own `comp_positions=True`
# ADDS Skolem position functions to the membership encoding (seq.contains + exists); with both, `assert.hint@L539#2` of the contract below needs 15 s
# and five solver attempts.  For contracts that ask for it (`comp_positions_only = True` on the contract object) the result is characterised by
# the position maps ALONE:
#      pos: passing source position -> result position, src: result position -> passing source position, mutually inverse and strictly
#      increasing (which is exactly Python's semantics: the result is the sub-sequence of the passing elements, in order).
from pyvc.core import fresh_name as _fresh_name  # noqa: E402
from pyvc.ops import z3bool as _z3bool  # noqa: E402

if not getattr(_Ex.seq_comprehension, "_c09_shim", False):
    _orig_seq_comprehension = _Ex.seq_comprehension

    def _seq_comprehension(self, node, g, info, st):
        if not g.ifs or not getattr(self.c, "comp_positions_only", False):
            return _orig_seq_comprehension(self, node, g, info, st)
        # same evaluation of filter and element as the engine's own code ...
        from pyvc.core import coerce as _coerce

        sub = st.copy()
        i = z3.Int(_fresh_name("ci"))
        guard = z3.And(i >= 0, i < info.n)
        self.bind_target(g.target, info.item(i), sub, node)
        self.qstack.append(([i], guard))
        if hasattr(self, "qouter"):
            self.qouter.append(st)
        self.qnames.append([n.id for n in _ast.walk(g.target) if isinstance(n, _ast.Name)])
        try:
            sub.pc.append(guard)
            for f in info.facts(i):
                sub.pc.append(f)
            conds = [_z3bool(self.cond(c, sub)) for c in g.ifs]
            for c in conds:
                sub.pc.append(c)
            body = self.eval(node.elt, sub)
        finally:
            self.qstack.pop()
            if hasattr(self, "qouter"):
                self.qouter.pop()
            self.qnames.pop()
        et = body.ty
        if et is PYOBJ or body.is_py:
            return _orig_seq_comprehension(self, node, g, info, st)
        # ... but the result is characterised by the two position maps ALONE (they imply the engine's membership facts)
        r = fresh(List(et), "comp")
        passing = z3.And(guard, *conds)
        posf = fresh(Map(INT, INT), "cpos")
        srcf = fresh(Map(INT, INT), "csrc")
        pos = lambda x: z3.Select(posf, x)  # noqa: E731
        src = lambda x: z3.Select(srcf, x)  # noqa: E731
        j = z3.Int(_fresh_name("pj"))
        i2 = z3.Int(_fresh_name("pi2"))
        st.assume(z3.Length(r) <= info.n)
        st.assume(z3.ForAll([i], z3.Implies(passing, z3.And(pos(i) >= 0, pos(i) < z3.Length(r), r[pos(i)] == lift(body), src(pos(i)) == i))))
        inr = z3.And(j >= 0, j < z3.Length(r))
        st.assume(z3.ForAll([j], z3.Implies(inr, z3.And(z3.substitute(passing, (i, src(j))), r[j] == z3.substitute(lift(body), (i, src(j))), pos(src(j)) == j))))
        st.assume(z3.ForAll([j, i2], z3.Implies(z3.And(j >= 0, j < i2, i2 < z3.Length(r)), src(j) < src(i2))))
        # the two position maps are visible to hints / invariants of the contract as <target>__pos / <target>__src (specification-only names)
        tgt = getattr(self, "_c09_assign_target", None)
        if tgt:
            st.env[tgt + "__pos"] = Val(Map(INT, INT), posf)
            st.env[tgt + "__src"] = Val(Map(INT, INT), srcf)
        return Val(List(et), r)

    _seq_comprehension._c09_shim = True
    _Ex.seq_comprehension = _seq_comprehension
    _orig_s_assign = _Ex.s_Assign

    def _s_assign(self, node, st):
        save = getattr(self, "_c09_assign_target", None)
        self._c09_assign_target = node.targets[0].id if len(node.targets) == 1 and isinstance(node.targets[0], _ast.Name) and isinstance(node.value, _ast.ListComp) else None
        try:
            return _orig_s_assign(self, node, st)
        finally:
            self._c09_assign_target = save

    _Ex.s_Assign = _s_assign

class _LiveMap:
    """run-time value of a heap view: object -> f(object), read on demand (old() keeps it as it is: this function writes no glyph)"""

    def __init__(self, f):
        self.f = f

    def __getitem__(self, o):
        from pyvc.rt import unwrap

        return self.f(unwrap(o))

    def __deepcopy__(self, memo):
        return self


def _heap_map(clsname, field, kty, vty):
    return lambda ex, st, self: Val(Map(kty, vty), ex.field_array(st, clsname, field))


XF6 = c13.XF6
HG_T = Map(Ref("SXGlyphSet"), c13.GLYPHS)
HC_T = Map(Ref("SXGlyph"), List(Ref("SXComponent")))
HT_T = Map(Ref("SXComponent"), XF6)
cls(
    "SXTTFPre",
    fields={"glyphSets": List(Ref("SXGlyphSet"))},
    derived={
        "heap_glyphs": _heap_map("SXGlyphSet", "glyphs", Ref("SXGlyphSet"), c13.GLYPHS),
        "heap_components": _heap_map("SXGlyph", "components", Ref("SXGlyph"), List(Ref("SXComponent"))),
        "heap_transformations": _heap_map("SXComponent", "transformation", Ref("SXComponent"), XF6),
    },
    views={
        "heap_glyphs": lambda o: _LiveMap(lambda gs: dict(gs)),
        "heap_components": lambda o: _LiveMap(lambda g: list(g.components)),
        "heap_transformations": lambda o: _LiveMap(lambda c: tuple(c.transformation)),
    },
    repo="ufo2ft.preProcessor:TTFInterpolatablePreProcessor",
    notes="TTFInterpolatablePreProcessor instance: glyphSets = one glyph set per master; heap_* = the glyph sets' content, the glyphs' component "
    "lists and the components' transformations as maps (arguments of the specification functions below)",
)
GSL = List(Ref("SXGlyphSet"))


@specfn(BOOL, GS=GSL, HG=HG_T, HC=HC_T, g=STR, i=INT)
def comp_index_everywhere(GS, HG, HC, g, i):
    """i is a component index of glyph g in EVERY master that has g (the code only looks at indices below the smallest component count)"""
    return i >= 0 and all((g not in HG[gs]) or i < len(HC[HG[gs][g]]) for gs in GS)  # (`or`, not implies(): evaluated lazily at run time too)


# The next two are written with a (never taken) recursive call so that the engine treats them as NAMED predicates: an application under a
# quantifier stays one atom, an application to the glyph at hand is given its definition.  (`z` is always 0.)
@specfn(BOOL, GS=GSL, HG=HG_T, HC=HC_T, HT=HT_T, g=STR, i=INT, z=INT)
def twobytwo_differs(GS, HG, HC, HT, g, i, z):
    """two masters that have g disagree on the 2x2 part (xx, xy, yx, yy) of its i-th component; offsets play no role"""
    if z > 0:
        return twobytwo_differs(GS, HG, HC, HT, g, i, z - 1)
    if i < 0:
        return False  # not a component index (Python would count from the end)
    return any(any(g in HG[ga] and g in HG[gb] and HT[HC[HG[ga][g]][i]][0:4] != HT[HC[HG[gb][g]][i]][0:4] for gb in GS) for ga in GS)


@specfn(BOOL, GS=GSL, HG=HG_T, HC=HC_T, HT=HT_T, g=STR, z=INT)
def nonmatching(GS, HG, HC, HT, g, z):
    """some component index shared by all masters of g carries different 2x2 matrices: a variable glyf component cannot express that"""
    if z > 0:
        return nonmatching(GS, HG, HC, HT, g, z - 1)
    return any(g in HG[ga] and any(comp_index_everywhere(GS, HG, HC, g, i) and twobytwo_differs(GS, HG, HC, HT, g, i, 0) for i in range(len(HC[HG[ga][g]]))) for ga in GS)


_PGS = "self.glyphSets"
_HV = "self.heap_glyphs, self.heap_components, self.heap_transformations"
_NM = "nonmatching(" + _PGS + ", " + _HV + ", {}, 0)"
_DIFF = "twobytwo_differs(" + _PGS + ", " + _HV + ", {}, {}, 0)"
contract(
    "ufo2ft.preProcessor:TTFInterpolatablePreProcessor.check_for_nonmatching_components",
    portfolio=["z3-5.1/ematch"],  # assert.hint@L546: solver order only (default z3 needs ~3 s or gives up; e-matching alone ~2 s)
    props=["C09"],
    params={"self": Ref("SXTTFPre"), "needs_decomposition": Set(STR)},
    requires=[f"len({_PGS}) > 0"],  # set.union(*[...]) needs at least one glyph set (BaseInterpolatablePreProcessor is built from >= 1 UFO)
    ensures={
        # names already scheduled stay scheduled
        "monotone": "all(n in needs_decomposition for n in old(needs_decomposition))",
        # a glyph of ANY master is scheduled iff it was already, or its 2x2 differs between masters at a shared component index
        "scheduled-iff-nonmatching": f"all(all(iff(n in needs_decomposition, n in old(needs_decomposition) or {_NM.format('n')}) for n in gs.keyset) for gs in {_PGS})",
        # nothing else is added
        "only-glyph-names": f"all(n in old(needs_decomposition) or any(n in gs.keyset for gs in {_PGS}) for n in needs_decomposition)",
    },
    canaries={"schedules-every-composite": f"all(all(implies(len(gs[n].components) > 0, n in needs_decomposition) for n in gs.keyset) for gs in {_PGS})", "adds-nothing": "needs_decomposition == old(needs_decomposition)"},
    modifies=["needs_decomposition"],
    globals=dict(c13._IHELPERS),
    locals={"layers": List(Ref("SXGlyph")), "component_counts": List(INT)},
    ghost_vars={"ND0": (Set(STR), "needs_decomposition"), "NDI": (Set(STR), "needs_decomposition")},
    ghost={"component_counts = [len(layer.components) for layer in layers]": ["NDI = needs_decomposition"]},
    alias_ok=("needs_decomposition",),  # the ghost snapshot above is a value, not a second holder of the set
    # stepping stones (each is proved where it stands, then used): they tie the named predicates, applied to the glyph at hand, to the
    # lists the code builds
    hints={
        # the code's test at one component index is the specification's "two masters disagree on the 2x2 there" (attached to the statements
        # AFTER the comparison list is built, so that an edit of that list shows up as a failed obligation, not as a contract misfit)
        "needs_decomposition.add(glyph)": [_DIFF.format("glyph", "component_index")],
        "if any((transform != transforms[0] for transform in transforms)):": [f"not {_DIFF.format('glyph', 'component_index')}"],
        # no master has a component: nothing can differ
        "component_counts = [len(layer.components) for layer in layers]": [
            f"implies(all(component_counts[k] == 0 for k in range(len(component_counts))), not {_NM.format('glyph')})"
        ],
        # after the scan of the shared component indices: scheduled iff some shared index carries different 2x2 matrices
        "for component_index in range(0, min(component_counts)):": [
            f"implies(glyph in needs_decomposition, {_NM.format('glyph')})",
            f"implies(glyph not in needs_decomposition, not {_NM.format('glyph')})",
        ],
    },
    loops={
        "for glyph in all_glyphs": Loop(
            done="D",
            invariants={
                "mono": "all(n in needs_decomposition for n in ND0)",
                "sound": f"all(n in ND0 or (n in D and {_NM.format('n')}) for n in needs_decomposition)",
                "complete": f"all(implies({_NM.format('n')}, n in needs_decomposition) for n in D)",
            },
        ),
        "for component_index in range(0, min(component_counts))": Loop(
            index="ci",
            invariants={
                "unchanged": "needs_decomposition == NDI",
                "equal-so-far": f"all(not {_DIFF.format('glyph', 'i')} for i in range(ci))",
            },
        ),
    },
)
CONTRACTS["ufo2ft.preProcessor:TTFInterpolatablePreProcessor.check_for_nonmatching_components"].comp_positions_only = True


def _nm_cases(rng, n):
    """2-4 masters; three composites whose component tables differ from master to master in ONE entry of ONE component (offset, xx, xy,
    yx, yy) or not at all, sometimes with a different NUMBER of components in one master, sometimes missing from the last master"""
    out = []
    for _ in range(n):
        nm = rng.randint(2, 4)
        comps = {}
        for g in ("comp0", "comp1", "comp2"):
            base = [[rng.choice([1, 0.5, -1]), rng.choice([0, 0.25]), rng.choice([0, -0.125]), rng.choice([1, 0.75, 2]), 10, 20] for _ in range(rng.randint(1, 3))]
            kind = rng.choice(["same", "offset", "xx", "xy", "yx", "yy"])
            mk, ck = rng.randrange(nm), rng.randrange(len(base))
            per_master = []
            for k in range(nm):
                trs = [list(t) for t in base]
                if k == mk and kind != "same":
                    trs[ck][{"offset": 4, "xx": 0, "xy": 1, "yx": 2, "yy": 3}[kind]] += 0.125
                per_master.append(trs)
            if rng.random() < 0.25:  # one master has fewer components: only the shared indices count
                k = rng.randrange(nm)
                per_master[k] = per_master[k][: rng.randint(0, len(base) - 1)] if len(base) > 1 else []
            comps[g] = per_master
        out.append({"masters": nm, "components": comps, "drop_last": rng.random() < 0.3 and nm > 2, "pre": sorted(rng.sample(["comp0", "comp1", "comp2", "plain", "ghost"], rng.randint(0, 2)))})
    return out


def _nm_build(d):
    import ufoLib2

    from ufo2ft.preProcessor import TTFInterpolatablePreProcessor

    ufos = []
    for k in range(d["masters"]):
        u = ufoLib2.Font()
        for name in ("base", "plain"):
            pen = u.newGlyph(name).getPen()
            pen.moveTo((0, 0)); pen.lineTo((100, 0)); pen.lineTo((100, 100 + k)); pen.closePath()  # noqa: E702
        for g, per_master in d["components"].items():
            if d["drop_last"] and g == "comp2" and k == d["masters"] - 1:
                continue
            gl = u.newGlyph(g)
            for tr in per_master[k]:
                gl.getPen().addComponent("base", tuple(tr))
        ufos.append(u)
    return {"self": TTFInterpolatablePreProcessor(ufos), "needs_decomposition": set(d["pre"])}


CONTRACTS["ufo2ft.preProcessor:TTFInterpolatablePreProcessor.check_for_nonmatching_components"].runtime = Runtime(_nm_cases, _nm_build)


# =====================================================================================================
# BaseIFilter.__call__ as run on a DecomposeComponentsIFilter: afterwards NO master is left with a component
# =====================================================================================================
# (the first wave could only prove the call-site obligations of `filter_` here: the engine havocked the heap of a call under `and`
# unconditionally; since 2026-10-02 the effects of `c and f(x)` are conditional, so the post-state can be carried through the loop)
_WELL_NAMED = c13._WELL_NAMED
_NAMED_OTHERS = f"all(all(implies(n != glyphName, self.heap_components[gs[n]] == old(self.heap_components)[gs[n]]) for n in gs.keyset) for gs in {_GSS})"

# the filter once more, with the frame clauses the loop of __call__ needs (glyphs of other names untouched; names stay well-formed);
# same body, same requires + "every glyph carries the name it is stored under" (true of layers / _GlyphSet.from_layer)
contract(
    "ufo2ft.filters.decomposeComponents:DecomposeComponentsIFilter.filter",
    name="framed",
    props=["C09"],
    params={"self": Ref("SXDIFilter"), "glyphName": STR, "glyphs": List(Ref("SXGlyph"))},
    returns=BOOL,
    calls={"ufo2ft.util:decomposeCompositeGlyph": "ufo2ft.util:decomposeCompositeGlyph#all"},
    globals={"zip_strict": _Ref("builtins.zip", zip, obj=zip)},
    # (no precondition about `glyphs` here: that the caller hands over every master's glyph is what ITS post-condition "no component left in any
    # master" needs and proves from its own list; the call-site obligation as such is part of the SXDIFilter variant above / of contracts/c13.py)
    requires=[_LEN_MATCH, _WELL_NAMED],
    ensures={
        "acted-on-all-masters": f"implies(result, {_DECOMPOSED_ALL})",
        "declines-only-if-no-components": "implies(not result, all(len(g.components) == 0 for g in glyphs))",
        "idle": "implies(not result, self.heap_components == old(self.heap_components) and self.heap_glyphs == old(self.heap_glyphs))",
        "grow-only-this-name": c13._GROW,
        "others": _NAMED_OTHERS,
        "well-named": _WELL_NAMED,
    },
    canaries={"always-acts": "result", "never-acts": "not result"},
    modifies=["SXGlyph.components", "SXGlyph.ncontours", "SXGlyphSet.glyphs"],
    ghost_vars={"HC": (Map(Ref("SXGlyph"), List(Ref("SXComponent"))), "self.heap_components"), "HC1": (Map(Ref("SXGlyph"), List(Ref("SXComponent"))), "self.heap_components")},
    ghost={"glyph = glyphSet.get(glyphName)": ["HC = self.heap_components"]},
    hints={
        "decomposeCompositeGlyph(glyph, interpolatedLayer or glyphSet)": [
            f"all(implies(glyphName in gs.keyset and gs[glyphName] != glyph, self.heap_components[gs[glyphName]] == HC[gs[glyphName]]) for gs in {_GSS})"
        ]
    },
    loops={
        "for (glyphSet, interpolatedLayer) in zip_strict(self.context.glyphSets, self.getInterpolatedLayers())": Loop(
            index="k",
            invariants={
                "done": f"all(implies(glyphName in {_GSS}[a].keyset, len({_GSS}[a][glyphName].components) == 0) for a in range(k))",
                "others": f"all(all(implies(n != glyphName, self.heap_components[gs[n]] == HC1[gs[n]]) for n in gs.keyset) for gs in {_GSS})",
            },
        )
    },
    merge_branches=False,
)
CONTRACTS["ufo2ft.filters.decomposeComponents:DecomposeComponentsIFilter.filter#framed"].runtime = Runtime(_fam_cases, _b_dfilter)

@trusted("c09.sorted_by_key", "sorted(S, key=f) of a set S: some duplicate-free enumeration of S (the order itself is left arbitrary: over-approximation); "
         "every member sits at a position (Skolem function)")
def _sorted_by_key(ex, st, args, kwargs, node):
    """Like c13's model, but the set gets a NAME (`<target>__set` in the environment, equal to the argument): the argument is a lambda term whose
    membership test is beta-reduced to an existential, on which the member -> position fact can never be triggered."""
    from pyvc import models as _models

    (v,) = args
    if not isinstance(v.ty, T.Set):
        raise Unsupported("sorted(key=) of a non-set", node)
    A = fresh(v.ty, "sortedset")
    xa = fresh(STR, "sx")
    # A == the argument, stated member-wise and triggered on membership in A only (the plain array equation with a lambda that contains an
    # existential sends the solvers' model-based instantiation astray)
    st.assume(z3.ForAll([xa], z3.Select(A, xa) == z3.Select(lift(v), xa), patterns=[z3.Select(A, xa)]))
    r = _models.set_iteration_order(st, Val(v.ty, A))
    pos = z3.Function(fresh_name("pos"), z3.StringSort(), z3.IntSort())
    x = fresh(STR, "px")
    st.assume(z3.ForAll([x], z3.Implies(z3.Select(A, x), z3.And(pos(x) >= 0, pos(x) < z3.Length(r.term), r.term[pos(x)] == x)), patterns=[z3.Select(A, x)]))
    a = z3.Int(fresh_name("pa"))
    st.assume(z3.ForAll([a], z3.Implies(z3.And(a >= 0, a < z3.Length(r.term)), z3.Select(A, r.term[a]))))
    st.env["sorted__set"] = Val(v.ty, A)
    return r


_DF = "ufo2ft.filters.decomposeComponents:DecomposeComponentsIFilter.filter"
_ICALL_PARAMS = {"self": Ref("SXDIFilter"), "fonts": List(Ref("SXFont")), "glyphSets": List(Ref("SXGlyphSet")), "instantiator": Opt(Ref("SXInstantiator"))}
_ICALL_REQUIRES = [
    "len(fonts) == len(glyphSets)", "len(fonts) > 0",
    "implies(instantiator is not None, len(instantiator.interpolated_layers) == len(glyphSets))",
]

contract(
    "ufo2ft.filters.base:BaseIFilter.set_context",
    name="SXDIFilter",
    props=["C09"],
    params=_ICALL_PARAMS,
    returns=Ref("SXIContext"),
    globals=c13._IHELPERS,
    requires=_ICALL_REQUIRES[:2],
    ensures={
        "context": "self.context == result and self.context.glyphSets == glyphSets and self.context.instantiator == instantiator",
        "modified-empty": "all(False for n in self.context.modified)",
    },
    canaries={"drops-instantiator": "self.context.instantiator is None"},
    modifies=c13._ICTX_MOD[:0] + ["SXDIFilter.context"] + c13._ICTX_MOD[1:],
)

_ALL_SIMPLE = "all(all(len(gs[n].components) == 0 for n in gs.keyset) for gs in glyphSets)"
_NAMED_G = "all(all(gs[n].name == n for n in gs.keyset) for gs in glyphSets)"
contract(
    "ufo2ft.filters.base:BaseIFilter.__call__",
    name="SXDIFilter",
    props=["C09"],
    params=_ICALL_PARAMS,
    returns=Set(STR),
    globals={**{k: v for k, v in c13._IHELPERS.items() if k != "set"}, "sorted": _Ref("c09.sorted_by_key", sorted)},
    calls={_DF + "#SXDIFilter": _DF + "#framed"},
    hints={
        # whatever the branch: afterwards the glyph of THIS name has no component in any master
        "if any((include(g) for g in glyphs)) and filter_(glyphName, glyphs):": [
            "all(implies(glyphName in gs.keyset, len(gs[glyphName].components) == 0) for gs in glyphSets)",
        ],
        "orderedGlyphs = sorted(allGlyphNames, key=comp_depth)": [
            "all(all(n in sorted__set for n in gs.keyset) for gs in glyphSets)",
            "all(all(any(orderedGlyphs[k] == n for k in range(len(orderedGlyphs))) for n in gs.keyset) for gs in glyphSets)",
        ]
    },
    requires=_ICALL_REQUIRES + [_NAMED_G],  # every glyph carries the name it is stored under (layers / _GlyphSet.from_layer)
    ensures={
        "context": "self.context.glyphSets == glyphSets and self.context.instantiator == instantiator",
        # THE joint action, end to end: after the interpolatable decompose filter (include = every glyph: the OTF interpolatable default filter)
        # no glyph of ANY master has a component left — the decision is never taken for one master alone
        "no-component-in-any-master": _ALL_SIMPLE,
        "well-named": _NAMED_G,
    },
    canaries={"reports-something": "any(True for n in result)", "no-glyph-left": "all(all(False for n in gs.keyset) for gs in glyphSets)"},
    modifies=["SXDIFilter.context"] + c13._ICTX_MOD[1:] + ["SXGlyph.components", "SXGlyph.ncontours", "SXGlyphSet.glyphs"],
    locals={"modified": Set(STR)},
    loops={
        "for glyphName in orderedGlyphs": Loop(
            index="i",
            invariants={
                "context": "self.context.glyphSets == glyphSets and self.context.instantiator == instantiator",
                "well-named": _NAMED_G,
                # every name of every master sits at a position of the processing order (glyph sets only gain the name being processed)
                "covered": "all(all(any(orderedGlyphs[k] == n for k in range(len(orderedGlyphs))) for n in gs.keyset) for gs in glyphSets)",
                # a name that is already reported as modified has been dealt with in every master (the `continue` branch; stated this way rather than
                # "names still to come are not reported", which makes that branch infeasible: the engine's vacuity probe then wants cvc5 to certify it)
                "reported-are-done": "all(all(implies(m in gs.keyset, len(gs[m].components) == 0) for gs in glyphSets) for m in modified)",
                "done": "all(all(implies(orderedGlyphs[a] in gs.keyset, len(gs[orderedGlyphs[a]].components) == 0) for gs in glyphSets) for a in range(i))",
            },
        )
    },
    merge_branches=False,
)
CONTRACTS["ufo2ft.filters.base:BaseIFilter.__call__#SXDIFilter"].comp_positions = True  # `glyphs = [... if glyphName in glyphSet]` by position maps


# ---- the same for a DecomposeComponentsIFilter built with include=<set of glyph names> (what TTFInterpolatablePreProcessor.process does) ---------
def _include_only(ex, st, self, args, kwargs, node):
    """`self.include` of a filter built with include=<names>: BaseFilter._check_include_exclude makes it `lambda g: g.name in names`"""
    (g,) = args
    only = lift(ex.read_field(st, self, "only"))
    return Val(BOOL, z3.Select(only, lift(ex.read_field(st, g, "name"))))


cls(
    "SXDOFilter",
    fields={"context": Ref("SXIContext"), "only": Set(STR)},
    derived=dict(_HEAP_VIEWS),
    methods={"include": _include_only},
    views={"context": lambda o: _NS(o.context), "heap_components": lambda o: _HeapSnapshot(o, "components"), "heap_glyphs": lambda o: _HeapSnapshot(o, "glyphs"),
           "only": lambda o: _OnlyNames(o)},
    repo="ufo2ft.filters.decomposeComponents:DecomposeComponentsIFilter",
    notes="DecomposeComponentsIFilter(include=<set of names>) instance: `only` = that set (include(g) == g.name in only)",
)


class _OnlyNames:
    """run-time value of SXDOFilter.only: membership = what the filter's include predicate says of a glyph of that name"""

    def __init__(self, flt):
        self.flt = flt

    def __contains__(self, n):
        import ufoLib2

        return bool(self.flt.include(ufoLib2.objects.Glyph(n)))

    def __deepcopy__(self, memo):
        return self

    def __eq__(self, o):  # the predicate of the same filter object (it is installed by the constructor and never re-assigned)
        return isinstance(o, _OnlyNames) and o.flt is self.flt and o.flt.include is self.flt.include

    def __hash__(self):
        return id(self.flt)


ifilter_summaries("SXDOFilter", False)
_fr = CONTRACTS[_DF + "#framed"]
contract(
    _DF, name="framedO", props=["C09"],
    portfolio=["z3-5.1/noext"],  # inv.step.others@L35: solver order only (default z3 gives up after 3 s, noext needs ~3 s)
    params={**_fr.params, "self": Ref("SXDOFilter")}, returns=BOOL, calls=dict(_fr.calls), globals=dict(_fr.globals), requires=list(_fr.requires),
    ensures=dict(_fr.ensures), canaries=dict(_fr.canaries), modifies=list(_fr.modifies), ghost_vars=dict(_fr.ghost_vars), ghost=dict(_fr.ghost),
    hints=dict(_fr.hints), loops={k: Loop(index=v.index, invariants=dict(v.invariants)) for k, v in _fr.loops.items()}, merge_branches=False,
    notes="the `framed` variant for a receiver built with include=<names> (the body does not consult include)",
)
_ICALL_PARAMS_O = {**_ICALL_PARAMS, "self": Ref("SXDOFilter")}
contract(
    "ufo2ft.filters.base:BaseIFilter.set_context",
    name="SXDOFilter",
    props=["C09"],
    params=_ICALL_PARAMS_O,
    returns=Ref("SXIContext"),
    globals=c13._IHELPERS,
    requires=_ICALL_REQUIRES[:2],
    ensures={
        "context": "self.context == result and self.context.glyphSets == glyphSets and self.context.instantiator == instantiator",
        "modified-empty": "all(False for n in self.context.modified)",
    },
    canaries={"drops-instantiator": "self.context.instantiator is None"},
    modifies=["SXDOFilter.context"] + c13._ICTX_MOD[1:],
)
_ONLY_SIMPLE = "all(all(implies(n in self.only, len(gs[n].components) == 0) for n in gs.keyset) for gs in glyphSets)"
_ELSE_KEPT = "all(all(implies(n not in self.only, self.heap_components[gs[n]] == {H}[gs[n]]) for n in gs.keyset) for gs in glyphSets)"
contract(
    "ufo2ft.filters.base:BaseIFilter.__call__",
    name="SXDOFilter",
    props=["C09"],
    params=_ICALL_PARAMS_O,
    returns=Set(STR),
    globals={**{k: v for k, v in c13._IHELPERS.items() if k != "set"}, "sorted": _Ref("c09.sorted_by_key", sorted)},
    calls={_DF + "#SXDOFilter": _DF + "#framedO"},
    hints={
        "glyphs = [glyphSet[glyphName] for glyphSet in glyphSets if glyphName in glyphSet]": ["all(glyphs[k].name == glyphName for k in range(len(glyphs)))"],
        "if any((include(g) for g in glyphs)) and filter_(glyphName, glyphs):": [
            "implies(glyphName in self.only, all(implies(glyphName in gs.keyset, len(gs[glyphName].components) == 0) for gs in glyphSets))",
            _ELSE_KEPT.format(H="HC0"),
        ],
        "orderedGlyphs = sorted(allGlyphNames, key=comp_depth)": [
            "all(all(n in sorted__set for n in gs.keyset) for gs in glyphSets)",
            "all(all(any(orderedGlyphs[k] == n for k in range(len(orderedGlyphs))) for n in gs.keyset) for gs in glyphSets)",
        ],
    },
    requires=_ICALL_REQUIRES + [_NAMED_G],
    ensures={
        "context": "self.context.glyphSets == glyphSets and self.context.instantiator == instantiator",
        # the same decision and the same action for the glyph of a name in EVERY master: decomposed everywhere if the name is included ...
        "included-names-decomposed-in-all-masters": _ONLY_SIMPLE,
        # ... and left alone everywhere if it is not
        "other-names-untouched": _ELSE_KEPT.format(H="old(self.heap_components)"),
        "well-named": _NAMED_G,
        "only-kept": "self.only == old(self.only)",
    },
    canaries={"decomposes-everything": _ALL_SIMPLE, "reports-something": "any(True for n in result)"},
    modifies=["SXDOFilter.context"] + c13._ICTX_MOD[1:] + ["SXGlyph.components", "SXGlyph.ncontours", "SXGlyphSet.glyphs"],
    locals={"modified": Set(STR)},
    ghost_vars={"HC0": (Map(Ref("SXGlyph"), List(Ref("SXComponent"))), "self.heap_components")},
    loops={
        "for glyphName in orderedGlyphs": Loop(
            index="i",
            invariants={
                "context": "self.context.glyphSets == glyphSets and self.context.instantiator == instantiator",
                "well-named": _NAMED_G,
                "covered": "all(all(any(orderedGlyphs[k] == n for k in range(len(orderedGlyphs))) for n in gs.keyset) for gs in glyphSets)",
                # a name that is already reported as modified has been dealt with in every master (the `continue` branch; stated this way rather than
                # "names still to come are not reported", which makes that branch infeasible: the engine's vacuity probe then wants cvc5 to certify it)
                "reported-are-done": "all(all(implies(m in gs.keyset, len(gs[m].components) == 0) for gs in glyphSets) for m in modified)",
                "done": "all(all(implies(orderedGlyphs[a] in gs.keyset and orderedGlyphs[a] in self.only, len(gs[orderedGlyphs[a]].components) == 0) for gs in glyphSets) for a in range(i))",
                "untouched": _ELSE_KEPT.format(H="HC0"),
            },
        )
    },
    merge_branches=False,
)
CONTRACTS["ufo2ft.filters.base:BaseIFilter.__call__#SXDOFilter"].comp_positions = True


def _b_dcall(d):
    from ufo2ft.filters.decomposeComponents import DecomposeComponentsIFilter

    ufos, gss, inst = c13rt.glyph_sets(d)
    return {"self": DecomposeComponentsIFilter(), "fonts": ufos, "glyphSets": gss, "instantiator": inst}


CONTRACTS["ufo2ft.filters.base:BaseIFilter.set_context#SXDIFilter"].runtime = Runtime(_fam_cases, _b_dcall, call=c13._call_positional)
CONTRACTS["ufo2ft.filters.base:BaseIFilter.__call__#SXDIFilter"].runtime = Runtime(_fam_cases, _b_dcall, call=c13._call_positional)


# =====================================================================================================
# The pre-processor side: _update_instantiator / _run_interpolatable (BaseInterpolatablePreProcessor)
# =====================================================================================================
from . import c19 as _c19  # noqa: E402  (Location / Variator vocabulary)
from .c19b import _ref as _fnref  # noqa: E402

SXLAYERS = List(Tuple(Ref("Location"), Ref("SXGlyphSet")))
# the Instantiator as the pre-processor sees it: (location, glyph set) pairs + the glyph-model cache (contracts/c13.py declares the class with its
# `interpolated_layers` only; the methods called on it resolve to contracts of the real class)
CLASSES["SXInstantiator"].fields.update({"source_layers": SXLAYERS, "glyph_mutators": Dict(STR, Ref("Variator"))})
CLASSES["SXInstantiator"].repo = "ufo2ft.instantiator:Instantiator"
CLASSES["SXInstantiator"].views.update({"glyph_mutators": lambda o: dict(o.glyph_mutators)})
CLASSES["SXTTFPre"].fields.update({"ufos": List(Ref("SXFont")), "instantiator": Opt(Ref("SXInstantiator"))})

_SL = "self.source_layers"
contract(
    "ufo2ft.instantiator:Instantiator.replace_source_layers",
    name="SXInstantiator",
    props=["C09"],
    params={"self": Ref("SXInstantiator"), "new_layers": List(Ref("SXGlyphSet"))},
    globals={"zip_strict": _fnref("c19.zip_strict", zip)},
    raises={"ValueError": f"len(new_layers) != len({_SL})"},
    ensures={
        "layers-replaced": f"len({_SL}) == len(old({_SL})) and all({_SL}[a][0] is old({_SL})[a][0] and {_SL}[a][1] is new_layers[a] for a in range(len(new_layers)))",
        "cache-cleared": "len(self.glyph_mutators) == 0",
    },
    canaries={"keeps-the-layers": f"all({_SL}[a][1] is old({_SL})[a][1] for a in range(len(new_layers)))"},
    modifies=["self.source_layers", "self.glyph_mutators"],
    notes="the same body as contracts/c19b.py verifies, in the glyph-set vocabulary of the interpolatable filters (its callers here hand over self.glyphSets)",
)

_INST = "self.instantiator"
_IN_SYNC = f"implies({_INST} is not None, len({_INST}.source_layers) == len(self.glyphSets) and all({_INST}.source_layers[a][1] is self.glyphSets[a] for a in range(len(self.glyphSets))))"

contract(
    "ufo2ft.preProcessor:BaseInterpolatablePreProcessor._update_instantiator",
    name="SXTTFPre",
    props=["C09"],
    params={"self": Ref("SXTTFPre")},
    # __init__ raises ValueError unless the instantiator has one source layer per UFO (= per glyph set); replace_source_layers keeps the number
    requires=[f"implies({_INST} is not None, len({_INST}.source_layers) == len(self.glyphSets))"],
    ensures={
        # the instantiator interpolates from THESE glyph sets (the very objects the filters edit), and from no cached model of older glyph data
        "in-sync": _IN_SYNC,
        "cache-cleared": f"implies({_INST} is not None, len({_INST}.glyph_mutators) == 0)",
        "same-locations": f"implies({_INST} is not None, all({_INST}.source_layers[a][0] is old({_INST}.source_layers)[a][0] for a in range(len(self.glyphSets))))",
    },
    canaries={"has-instantiator": f"{_INST} is not None"},
    modifies=["SXInstantiator.source_layers", "SXInstantiator.glyph_mutators"],
)

_PRE_WELLNAMED = "all(all(gs[n].name == n for n in gs.keyset) for gs in self.glyphSets)"
_PRE_SIMPLE = "all(all(len(gs[n].components) == 0 for n in gs.keyset) for gs in self.glyphSets)"
_RUN_REQUIRES = [
    "len(self.ufos) == len(self.glyphSets) and len(self.ufos) > 0",  # __init__: one glyph set per UFO, zip_strict
    f"implies({_INST} is not None, len({_INST}.source_layers) == len(self.glyphSets) and len({_INST}.interpolated_layers) == len(self.glyphSets))",
    _PRE_WELLNAMED,
    _IN_SYNC,  # class invariant since /repo 0fe4fa4: __init__ calls _update_instantiator() right after building the glyph sets
]

contract(
    "ufo2ft.preProcessor:BaseInterpolatablePreProcessor._run_interpolatable",
    name="decompose",
    props=["C09"],
    params={"self": Ref("SXTTFPre"), "filter_": Ref("SXDIFilter")},
    returns=Set(STR),
    requires=_RUN_REQUIRES,
    ensures={
        # the filter is run ONCE on all glyph sets together: afterwards no glyph of any master has a component
        "no-component-in-any-master": _PRE_SIMPLE,
        "well-named": _PRE_WELLNAMED,
        # the instantiator still interpolates from these very glyph sets, and whenever something was modified, from no cached model
        "in-sync": _IN_SYNC,
        "cache-cleared-if-modified": f"implies({_INST} is not None and any(True for n in result), len({_INST}.glyph_mutators) == 0)",
        "same-glyph-sets": "self.glyphSets == old(self.glyphSets) and self.instantiator == old(self.instantiator)",
    },
    canaries={"always-modified": "any(True for n in result)"},
    modifies=["SXDIFilter.context"] + c13._ICTX_MOD[1:] + ["SXGlyph.components", "SXGlyph.ncontours", "SXGlyphSet.glyphs", "SXInstantiator.source_layers", "SXInstantiator.glyph_mutators"],
)


def _pre_cases(rng, n):
    return c13rt.family_cases(rng, n, skip=False)


def _b_pre(d):
    from ufo2ft.instantiator import Instantiator
    from ufo2ft.preProcessor import TTFInterpolatablePreProcessor

    ufos, layer_names, ds = c13rt.build_family(d)
    inst = Instantiator.from_designspace(ds, round_geometry=False, do_info=False, do_kerning=False) if d.get("instantiator") else None
    return TTFInterpolatablePreProcessor(ufos, layerNames=layer_names, instantiator=inst)


def _b_update(d):
    pp = _b_pre(d)
    if pp.instantiator is not None:  # warm the cache, then edit a glyph set behind the instantiator's back
        for name in list(pp.glyphSets[0])[:2]:
            try:
                pp.instantiator.generate_glyph_instance(name, pp.instantiator.normalize(pp.instantiator.default_design_location))
            except Exception:  # noqa
                pass
    return {"self": pp}


def _b_run_decompose(d):
    from ufo2ft.filters.decomposeComponents import DecomposeComponentsIFilter

    return {"self": _b_pre(d), "filter_": DecomposeComponentsIFilter()}


def _b_replace_sx(d):
    pp = _b_pre({**d, "instantiator": True})
    return {"self": pp.instantiator, "new_layers": [dict(gs) for gs in pp.glyphSets][: len(pp.glyphSets) - (1 if d.get("target", "").endswith("1") else 0)]}


CONTRACTS["ufo2ft.preProcessor:BaseInterpolatablePreProcessor._update_instantiator#SXTTFPre"].runtime = Runtime(_pre_cases, _b_update)
CONTRACTS["ufo2ft.preProcessor:BaseInterpolatablePreProcessor._run_interpolatable#decompose"].runtime = Runtime(_pre_cases, _b_run_decompose)
CONTRACTS["ufo2ft.instantiator:Instantiator.replace_source_layers#SXInstantiator"].runtime = Runtime(_pre_cases, _b_replace_sx)


def _only_cases(rng, n):
    out = []
    for d in c13rt.family_cases(rng, n, skip=False):
        names = sorted(d["masters"][0]["glyphs"])
        d["only"] = sorted(rng.sample(names, rng.randint(0, len(names))))
        out.append(d)
    return out


def _b_ocall(d):
    from ufo2ft.filters.decomposeComponents import DecomposeComponentsIFilter

    ufos, gss, inst = c13rt.glyph_sets(d)
    flt = DecomposeComponentsIFilter(include=set(d["only"]))
    flt.set_context(ufos, gss, inst)  # only so that the run-time heap views (which go through filter.context) exist in the pre-state; __call__ sets it anew
    return {"self": flt, "fonts": ufos, "glyphSets": gss, "instantiator": inst}


def _b_ofilter(d):
    a = _b_ocall(d)
    name = d["target"]
    return {"self": a["self"], "glyphName": name, "glyphs": [gs[name] for gs in a["glyphSets"] if name in gs]}


CONTRACTS[_DF + "#framedO"].runtime = Runtime(_only_cases, _b_ofilter)
CONTRACTS["ufo2ft.filters.base:BaseIFilter.set_context#SXDOFilter"].runtime = Runtime(_only_cases, _b_ocall, call=c13._call_positional)
CONTRACTS["ufo2ft.filters.base:BaseIFilter.__call__#SXDOFilter"].runtime = Runtime(_only_cases, _b_ocall, call=c13._call_positional)

_PRE_ONLY_SIMPLE = "all(all(implies(n in filter_.only, len(gs[n].components) == 0) for n in gs.keyset) for gs in self.glyphSets)"
_PRE_ELSE_KEPT = "all(all(implies(n not in filter_.only, self.heap_components[gs[n]] == old(self.heap_components)[gs[n]]) for n in gs.keyset) for gs in self.glyphSets)"
contract(
    "ufo2ft.preProcessor:BaseInterpolatablePreProcessor._run_interpolatable",
    name="decompose-only",
    props=["C09"],
    params={"self": Ref("SXTTFPre"), "filter_": Ref("SXDOFilter")},
    returns=Set(STR),
    requires=_RUN_REQUIRES,
    ensures={
        "included-names-decomposed-in-all-masters": _PRE_ONLY_SIMPLE,
        "other-names-untouched": _PRE_ELSE_KEPT,
        "well-named": _PRE_WELLNAMED,
        "in-sync": _IN_SYNC,
        "cache-cleared-if-modified": f"implies({_INST} is not None and any(True for n in result), len({_INST}.glyph_mutators) == 0)",
        "same-glyph-sets": "self.glyphSets == old(self.glyphSets) and self.instantiator == old(self.instantiator) and filter_.only == old(filter_.only)",
    },
    canaries={"always-modified": "any(True for n in result)", "decomposes-everything": _PRE_SIMPLE},
    modifies=["SXDOFilter.context"] + c13._ICTX_MOD[1:] + ["SXGlyph.components", "SXGlyph.ncontours", "SXGlyphSet.glyphs", "SXInstantiator.source_layers", "SXInstantiator.glyph_mutators"],
)


def _b_run_only(d):
    from ufo2ft.filters.decomposeComponents import DecomposeComponentsIFilter

    pp = _b_pre(d)
    flt = DecomposeComponentsIFilter(include=set(d["only"]))
    flt.set_context(pp.ufos, pp.glyphSets, pp.instantiator)
    return {"self": pp, "filter_": flt}


CONTRACTS["ufo2ft.preProcessor:BaseInterpolatablePreProcessor._run_interpolatable#decompose-only"].runtime = Runtime(_only_cases, _b_run_only)


# =====================================================================================================
# TTFInterpolatablePreProcessor.process: which steps run, in which order, on what
# =====================================================================================================
# Scope of this contract: a pre-processor WITHOUT custom filters and without the colour-layer default filter (preFilters / defaultFilters /
# postFilters are lists of empty lists: `zip_longest(*lists)` yields nothing).  `_run(<one filter>)` is summarised: for the decompose filter it IS
# `_run_interpolatable` (contract above); for the reverse / flatten filters it is an arbitrary edit of the glyph sets.  Every step leaves an event
# in a specification-only log, so that the order of the steps and what they were handed can be stated.
import itertools as _itertools  # noqa: E402

from pyvc.api import record_init as _record_init  # noqa: E402

_PPC = CLASSES["SXTTFPre"]
_PPC.fields.update({"convertCubics": BOOL, "flattenComponents": BOOL, "_reverseDirection": BOOL, "_rememberCurveType": BOOL, "inplace": BOOL, "allQuadratic": BOOL, "_conversionErrors": List(REAL)})
for _k in ("preFilters", "defaultFilters", "postFilters"):
    _PPC.derived[_k] = lambda ex, st, self: Val(PYOBJ, None, [], True)
_PPC.derived["heap_ncontours"] = _heap_map("SXGlyph", "ncontours", Ref("SXGlyph"), INT)
_PPC.views["heap_ncontours"] = lambda o: _LiveMap(lambda g: len(g))


class _It:
    @staticmethod
    def zip_longest(*a):
        return list(_itertools.zip_longest(*a))


_It.zip_longest.__module__ = "c09"
_It.zip_longest.__qualname__ = "zip_longest"


@trusted("c09.zip_longest", "itertools.zip_longest() of no iterables yields nothing (the only form in scope: no custom / colour-layer filters)")
def _zip_longest(ex, st, args, kwargs, node):
    if args:
        raise Unsupported("zip_longest of a non-empty list of filter lists (custom filters are out of the scope of this contract)", node)
    return Val(PYOBJ, None, [], True)


class _Log(Val):
    """the specification-only step log: symbolically a heap object (class SXCallLog); natively the same Python object carries what the
    instrumented harness recorded (it is callable only so that the run-time clause environment keeps it)"""

    def __call__(self):
        return self

    def reset(self):
        self.events, self.only, self.f2q = [], set(), []


cls("SXCallLog", fields={"events": List(STR), "only": Set(STR), "f2q": List(Ref("SXGlyphSet"))},
    notes="specification-only log of the steps of process(): event names in order, the include set of the decompose filter, the glyph sets handed to cu2qu")
LOG = _Log(Ref("SXCallLog"), z3.Const("c09_log", T.RefSort))
LOG.reset()


def _do_init(ex, st, self, args, kwargs, node):
    if args or set(kwargs) != {"include"}:
        raise Unsupported("DecomposeComponentsIFilter(...) arguments", node)
    ex.write_field(st, self, "only", kwargs["include"], node)


CLASSES["SXDOFilter"].methods["__init__"] = _do_init
CLASSES["DecomposeComponentsIFilter"] = CLASSES["SXDOFilter"]  # `DecomposeComponentsIFilter(include=<names>)` in process() builds such an object
cls("FlattenComponentsIFilter", dynamic=True, methods={"__init__": _record_init("include", "exclude", pre=False)})


def _event(ex, st, name, node):
    ev = ex.read_field(st, LOG, "events")
    ex.write_field(st, LOG, "events", Val(List(STR), z3.Concat(lift(ev), z3.Unit(z3.StringVal(name)))), node)


_RUN_I = "ufo2ft.preProcessor:BaseInterpolatablePreProcessor._run_interpolatable#decompose-only"
_EDITED = [("SXGlyph", "components"), ("SXGlyph", "ncontours"), ("SXGlyphSet", "glyphs"), ("SXInstantiator", "source_layers"), ("SXInstantiator", "glyph_mutators")]


def _run_one(ex, st, self, args, kwargs, node):
    """SUMMARY of BaseInterpolatablePreProcessor._run(<one filter>) (a *args method: not expressible as a contract): a BaseIFilter goes to
    _run_interpolatable (for the decompose filter: by its contract); the reverse / flatten filters edit the glyph sets arbitrarily."""
    if len(args) != 1 or kwargs:
        raise Unsupported("_run with several filters", node)
    f = args[0]
    kind = f.ty.cls if isinstance(f.ty, T.Ref) else None
    if kind == "SXDOFilter":
        _event(ex, st, "decompose", node)
        ex.write_field(st, LOG, "only", ex.read_field(st, f, "only"), node)
        return ex.call_contract(CONTRACTS[_RUN_I], [self, f], {}, st, node, implicit=1)
    name = {"ReverseContourDirectionFilter": "reverse", "FlattenComponentsIFilter": "flatten"}.get(kind)
    if name is None:
        raise Unsupported("_run of this filter", node)
    _event(ex, st, name, node)
    for c, fld in _EDITED:
        arr = ex.field_array(st, c, fld)
        st.heap[(c, fld)] = z3.Const(fresh_name(f"H_{c}_{fld}"), arr.sort())
    return Val(Set(STR), fresh(Set(STR), "modified"))


_run_one.modifies = ["SXCallLog.events", "SXCallLog.only"] + [f"{c}.{f}" for c, f in _EDITED]
_PPC.methods["_run"] = _run_one


@trusted("fontTools.cu2qu.ufo.fonts_to_quadratic",
         "fonts_to_quadratic(glyphSets, ...): converts the curves of same-named glyphs of all the glyph sets it is handed jointly; returns whether anything changed; "
         "component lists, contour counts and the glyph sets' keys are kept (assumed library behaviour)")
def _f2q(ex, st, args, kwargs, node):
    _event(ex, st, "cu2qu", node)
    ex.write_field(st, LOG, "f2q", args[0], node)
    return Val(BOOL, fresh(BOOL, "f2q_modified"))


_MIXED = "any(n in gs2.keyset and len(gs2[n]) > 0 and len(gs2[n].components) > 0 for gs2 in self.glyphSets)"
_NEEDS_OLD = f"(old({_MIXED}) or old({_NM.format('n')}))"
_DEC_OLD = f"old(any(any({_MIXED} or {_NM.format('n')} for n in gs.keyset) for gs in self.glyphSets))"
_QUIET = "(not self.flattenComponents and (self.convertCubics or not self._reverseDirection))"  # no step after the decomposition edits components

contract(
    "ufo2ft.preProcessor:TTFInterpolatablePreProcessor.process",
    portfolio=["z3-5.1", "z3-5.1/ematch"],  # post.decompose-set#4: solver order only
    props=["C09"],
    params={"self": Ref("SXTTFPre")},
    returns=List(Ref("SXGlyphSet")),
    requires=_RUN_REQUIRES,
    ensures={
        "returns-the-glyph-sets": "result == self.glyphSets and self.glyphSets == old(self.glyphSets)",
        # ORDER: 2x2 check + decomposition first (iff some glyph is mixed in ANY master or its 2x2 differs between masters), then the curve conversion
        # (or, without it, the direction reversal), then flattening
        **{
            f"steps-in-order.{mode}": " and ".join(
                f"implies(({'' if dec else 'not '}{_DEC_OLD}) and ({cond}) and ({'' if fl else 'not '}self.flattenComponents),"
                f" c09_log.events == old(c09_log.events) + {(['decompose'] if dec else []) + ev + (['flatten'] if fl else [])!r})"
                for dec in (True, False) for fl in (True, False)
            )
            for mode, cond, ev in (
                ("cu2qu", "self.convertCubics", ["cu2qu"]),
                ("reverse", "not self.convertCubics and self._reverseDirection", ["reverse"]),
                ("neither", "not self.convertCubics and not self._reverseDirection", []),
            )
        },
        # the decompose filter's include set: exactly the glyphs that are mixed in some master or nonmatching
        "decompose-set": f"implies({_DEC_OLD}, all(all(iff(n in c09_log.only, {_NEEDS_OLD}) for n in old(gs.keyset)) for gs in self.glyphSets))",
        # cu2qu gets ALL glyph sets in one call
        "cu2qu-jointly": "implies(self.convertCubics, c09_log.f2q == self.glyphSets)",
        # and, unless a later step edits components: such a glyph ends up without components in EVERY master
        "decomposed-in-all-masters": f"implies({_QUIET}, all(all(implies({_NEEDS_OLD}, all(implies(n in gs.keyset, len(gs[n].components) == 0) for gs in self.glyphSets))"
        " for n in old(gs1.keyset)) for gs1 in self.glyphSets))",
        "in-sync": f"implies({_QUIET}, {_IN_SYNC})",
    },
    # stepping stones: what the set handed to the decompose filter is, in the vocabulary of the post-condition
    hints={
        "self.check_for_nonmatching_components(needs_decomposition)": [
            f"all(all(iff(n in needs_decomposition, {_MIXED} or {_NM.format('n')}) for n in gs.keyset) for gs in self.glyphSets)",
            "all(any(n in gs.keyset for gs in self.glyphSets) for n in needs_decomposition)",
            f"iff(any(True for n in needs_decomposition), any(any({_MIXED} or {_NM.format('n')} for n in gs.keyset) for gs in self.glyphSets))",
        ],
    },
    canaries={"always-decomposes": "len(c09_log.events) > len(old(c09_log.events)) and c09_log.events[len(old(c09_log.events))] == 'decompose'", "never-converts": "c09_log.f2q != self.glyphSets"},
    globals={**c13._IHELPERS, "itertools": _Ref("c09.itertools", obj=_It), "c09_log": LOG},
    modifies=["SXCallLog.events", "SXCallLog.only", "SXCallLog.f2q", "SXDOFilter.context", "SXDOFilter.only"] + c13._ICTX_MOD[1:] + [f"{c}.{f}" for c, f in _EDITED],
)


def _process_cases(rng, n):
    out = []
    for d in c13rt.family_cases(rng, n, curves=("box", "cubic"), skip=False):
        d["convertCubics"] = rng.random() < 0.6
        d["reverseDirection"] = rng.random() < 0.6
        d["flattenComponents"] = rng.random() < 0.3
        # in half of the families one master gets a different xx / yy in one component of one composite: nonmatching although not mixed
        d["bend"] = rng.random() < 0.5
        out.append(d)
    return out


def _b_process(d):
    import fontTools.cu2qu.ufo as cu2qu_ufo

    if d.get("bend"):
        for name, g in d["masters"][-1]["glyphs"].items():
            if g.get("components"):
                g["components"][0][1][0] += 0.25
                break
    from ufo2ft.instantiator import Instantiator
    from ufo2ft.preProcessor import TTFInterpolatablePreProcessor

    ufos, layer_names, ds = c13rt.build_family(d)
    inst = Instantiator.from_designspace(ds, round_geometry=False, do_info=False, do_kerning=False) if d.get("instantiator") else None
    pp = TTFInterpolatablePreProcessor(ufos, layerNames=layer_names, instantiator=inst, convertCubics=d["convertCubics"], reverseDirection=d["reverseDirection"],
                                       flattenComponents=d["flattenComponents"])
    LOG.reset()
    real_run = pp._run

    def run(*filters):
        kind = type(filters[0]).__name__
        LOG.events.append({"DecomposeComponentsIFilter": "decompose", "ReverseContourDirectionFilter": "reverse", "FlattenComponentsIFilter": "flatten"}.get(kind, kind))
        if kind == "DecomposeComponentsIFilter":
            import ufoLib2

            LOG.only = {nm for gs in pp.glyphSets for nm in gs if filters[0].include(ufoLib2.objects.Glyph(nm))}
        return real_run(*filters)

    pp._run = run
    if not getattr(cu2qu_ufo.fonts_to_quadratic, "_c09_recorder", False):
        real_f2q = cu2qu_ufo.fonts_to_quadratic

        def f2q(glyphsets, *a, **k):
            LOG.events.append("cu2qu")
            LOG.f2q = list(glyphsets)
            return real_f2q(glyphsets, *a, **k)

        f2q._c09_recorder = True
        cu2qu_ufo.fonts_to_quadratic = f2q
    return {"self": pp}


CONTRACTS["ufo2ft.preProcessor:TTFInterpolatablePreProcessor.process"].runtime = Runtime(_process_cases, _b_process)


# =====================================================================================================
# round 3: BaseIFilter.getDefaultGlyphSet (the glyph set a filter takes for "the default master"), with an instantiator
# =====================================================================================================
CLASSES["SXInstantiator"].fields.setdefault("default_source_idx", INT)
_INST = "self.context.instantiator"
for _cn in ("SXDIFilter", "SXDOFilter"):
    contract(
        "ufo2ft.filters.base:BaseIFilter.getDefaultGlyphSet",
        name=_cn,
        props=["C09"],
        params={"self": Ref(_cn)},
        returns=Ref("SXGlyphSet"),
        # (variant: with an instantiator; without one the method GUESSES the largest glyph set -- `max(.., key=len)` -- which is not a statement about masters)
        requires=[f"{_INST} is not None", f"0 <= {_INST}.default_source_idx and {_INST}.default_source_idx < len({_GSS})"],
        raises={"AssertionError": "False"},
        ensures={"the-default-master's-glyph-set": f"result == {_GSS}[{_INST}.default_source_idx]"},
        canaries={"first": f"result == {_GSS}[0]"},
        loops={"for (i, glyphSet) in enumerate(self.context.glyphSets)": Loop(index="k", invariants={"not-yet": f"k <= {_INST}.default_source_idx"})},
    )


def _b_default_gs(d):
    a = _b_dfilter(d)
    return {"self": a["self"]}


def _b_default_gs_only(d):
    a = _b_ocall(d)
    return {"self": a["self"]}


CONTRACTS["ufo2ft.filters.base:BaseIFilter.getDefaultGlyphSet#SXDIFilter"].runtime = Runtime(_fam_cases, _b_default_gs)
CONTRACTS["ufo2ft.filters.base:BaseIFilter.getDefaultGlyphSet#SXDOFilter"].runtime = Runtime(_only_cases, _b_default_gs_only)
