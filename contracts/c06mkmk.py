"""C06 — MarkFeatureWriter._makeMarkToMarkAttachments (mkmk): one single-anchor attachment per (mark glyph, base-type anchor with a mark class),
filed under the anchor's key.  One contract variant per clause group (see c06liga.py).

  #sound     every attachment filed under key k is for a MARK glyph and holds exactly one anchor: an anchor OF THAT GLYPH whose key is k, that has
             a mark class, is not a mark anchor, not contextual, not numbered; no key has an empty list
  #complete  every such anchor of every mark glyph has its attachment under its key
"""
from pyvc.api import INT, STR, Dict, List, Loop, Ref, Runtime, contract

from . import c06rt
from .c06 import AL, KEYS, MARK2MARK, MGN, NA, W, _at

FN = W + "MarkFeatureWriter._makeMarkToMarkAttachments"
OUTER = "for (glyphName, anchors) in self.context.anchorLists.items()"
INNER = "for anchor in anchors"
MKPOS = "pos = MarkToMarkPos(glyphName, [anchor])"
PUT = "results.setdefault(anchor.key, []).append(pos)"
RES = Dict(STR, List(MARK2MARK))
COMMON = dict(props=["C06"], params={"self": Ref("C06_Writer")}, returns=RES, merge_branches=False, dict_key_positions=False)
LOCALS = {"results": RES, "r0": RES}
_RT = Runtime(c06rt.stage_cases, lambda d: {"self": c06rt.writer_at(d, "assigned")}, call=lambda fn, a: fn(a["self"]))


def _mk_anchor(x):
    """anchor x attaches marks to a mark glyph: it has a mark class, is not itself a mark anchor, not contextual, not a ligature-component anchor"""
    return f"({x}.markClass is not None and not {x}.isMark and not {x}.isContextual and {x}.number is None)"


def _sound_at(d, key, k):
    p = f"{d}[{key}][{k}]"
    return (f"({p}.name in {MGN} and {p}.name in {AL} and len({p}.marks) == 1 and {p}.marks[0].key == {key} and {_mk_anchor(p + '.marks[0]')}"
            f" and any({p}.marks[0] == {AL}[{p}.name][b] for b in range(len({AL}[{p}.name]))))")


# r0: ghost copy of `results` taken when the attachment is built; the updated entry position by position
_PUT_HINTS = [
    "all(implies(n != anchor.key, n in results and results[n] == r0[n]) for n in r0) and all(n in r0 or n == anchor.key for n in results)",
    "anchor.key in results and results[anchor.key] == (r0[anchor.key] if anchor.key in r0 else []) + [pos]",
    "implies(anchor.key not in r0, len(results[anchor.key]) == 1 and results[anchor.key][0] == pos)",
    "implies(anchor.key in r0, len(results[anchor.key]) == len(r0[anchor.key]) + 1)",
    "implies(anchor.key in r0, results[anchor.key][len(r0[anchor.key])] == pos)",
    "implies(anchor.key in r0, all(results[anchor.key][k] == r0[anchor.key][k] for k in range(len(r0[anchor.key]))))",
]
GHOST = dict(ghost_vars={"r0": (RES, "{}")}, ghost={MKPOS: ["r0 = {**results}"]})

contract(
    FN,
    name="sound",
    **COMMON,
    ensures={
        "only-mark-to-mark-anchors-of-that-glyph": "all(len(result[n]) >= 1 and all(" + _sound_at("result", "n", "k") + " for k in range(len(result[n]))) for n in result)",
    },
    canaries={"never-empty": "len(result) > 0"},
    locals=LOCALS,
    **GHOST,
    hints={
        MKPOS: ["pos.name == glyphName and len(pos.marks) == 1 and pos.marks[0] == anchor"],
        PUT: _PUT_HINTS + ["all(" + _sound_at("results", "anchor.key", "k") + " for k in range(len(results[anchor.key])))"],
    },
    loops={
        OUTER: Loop(index="i", invariants={"sound": "all(len(results[n]) >= 1 and all(" + _sound_at("results", "n", "k") + " for k in range(len(results[n]))) for n in results)"}),
        INNER: Loop(index="j", invariants={"sound": "all(len(results[n]) >= 1 and all(" + _sound_at("results", "n", "k") + " for k in range(len(results[n]))) for n in results)"}),
    },
    runtime=_RT,
)


def _listed(d, g, x):
    return f"({x}.key in {d} and any({d}[{x}.key][k].name == {g} and {d}[{x}.key][k].marks[0] == {x} for k in range(len({d}[{x}.key]))))"


contract(
    FN,
    name="complete",
    **COMMON,
    ensures={
        "every-mark-to-mark-anchor": f"all(implies({KEYS}[a] in {MGN}, all(implies({_mk_anchor(_at('a', 'b'))}, {_listed('result', KEYS + '[a]', _at('a', 'b'))})"
        f" for b in range(len({AL}[{KEYS}[a]])))) for a in range(len({KEYS})))",
    },
    canaries={"never-empty": "len(result) > 0"},
    locals=LOCALS,
    **GHOST,
    hints={
        MKPOS: ["pos.name == glyphName and len(pos.marks) == 1 and pos.marks[0] == anchor"],
        PUT: _PUT_HINTS + [
            # every attachment filed before is still at its place (whatever its key)
            "all(n in results and len(r0[n]) <= len(results[n]) and all(results[n][k] == r0[n][k] for k in range(len(r0[n]))) for n in r0)",
            _listed("results", "glyphName", "anchor"),
            "all(implies(" + _mk_anchor("anchors[b]") + ", " + _listed("results", "glyphName", "anchors[b]") + ") for b in range(j))",
        ],
    },
    loops={
        OUTER: Loop(index="i", invariants={
            "complete": f"all(implies({KEYS}[a] in {MGN}, all(implies({_mk_anchor(_at('a', 'b'))}, {_listed('results', KEYS + '[a]', _at('a', 'b'))})"
            f" for b in range(len({AL}[{KEYS}[a]])))) for a in range(i))",
        }),
        INNER: Loop(index="j", invariants={
            "complete": f"all(implies({KEYS}[a] in {MGN}, all(implies({_mk_anchor(_at('a', 'b'))}, {_listed('results', KEYS + '[a]', _at('a', 'b'))})"
            f" for b in range(len({AL}[{KEYS}[a]])))) for a in range(i))",
            "complete-cur": "all(implies(" + _mk_anchor("anchors[b]") + ", " + _listed("results", "glyphName", "anchors[b]") + ") for b in range(j))",
        }),
    },
    runtime=_RT,
)
